package main

// Generated/Translated.lean: a TRANSLATION of a whitelist of small pure Go functions of /repo into Lean
// definitions over the semantics library MobiusModel/GoSem.lean.  MobiusModel/TranslatedTies.lean proves, for
// ALL inputs, that each hand-written model function equals the translated one; a semantic change of the Go
// function changes the text generated here and that equality stops checking.
//
// The subset ("MiniGo", docs/Translator.md):
//   types        int, byte/uint8, uint16, uint32, uint, bool, []byte, error, [n]byte and named types declared so
//   receivers    named [n]byte types (passed and returned by value), structs (the fields used become parameters,
//                the fields assigned are returned after the results)
//   statements   := = op= ++ --, var, if/else, return (also naked), switch on a value with constant cases,
//                `for i := a; i < b; i++ {…}` and `for _, v := range <[]byte>` without break/continue/return inside
//   expressions  literals, package constants (their VALUE is translated), locals, len, x[i], x[a:b], conversions
//                between the integer types, binary.BigEndian.Uint16/Uint32, + - * / % << >> & | ^ &^, comparisons,
//                && || !, nil, errors.New("…"), fmt.Errorf("…", …)
// Anything else makes the function UNTRANSLATABLE: a `def <name>_untranslatable : String := "<reason>"` is
// written instead of `<name>`, so the tie theorem that mentions `<name>` no longer builds.  Nothing is skipped silently.
//
// Typing: a small local inference (all the functions convert explicitly).  Every literal / constant is written
// with its Lean type, every `let` carries its type; Lean's elaborator re-checks all of it, so an inference mistake
// is a build error, not a wrong translation.  Untyped constants take the type of the other operand (Go spec),
// an untyped constant on the left of a non-constant shift takes the type the context gives it.

import (
	"fmt"
	"go/ast"
	"go/token"
	"path/filepath"
	"regexp"
	"sort"
	"strconv"
	"strings"
)

func init() { extraGenerators = append(extraGenerators, genTranslate) }

// whitelist: package ("hl" = hotline, "mb" = internal/mobius), receiver type ("" = function), name, Lean name.
var translateList = []struct{ pkg, recv, name, lean string }{
	{"hl", "", "transactionScanner", "transactionScanner"},
	{"hl", "", "FieldScanner", "FieldScanner"},
	{"hl", "AccessBitmap", "IsSet", "AccessBitmap_IsSet"},
	{"hl", "AccessBitmap", "Set", "AccessBitmap_Set"},
	{"hl", "", "fileItemScanner", "fileItemScanner"},
	{"hl", "", "newsPathScanner", "newsPathScanner"},
	{"hl", "Field", "DecodeInt", "Field_DecodeInt"},
	{"hl", "FilePathItem", "Write", "FilePathItem_Write"},
	{"hl", "Transaction", "Size", "Transaction_Size"},
}

type untranslatable string

func bad(format string, a ...interface{}) { panic(untranslatable(fmt.Sprintf(format, a...))) }

var leanType = map[string]string{"int": "Int", "uint8": "UInt8", "uint16": "UInt16", "uint32": "UInt32", "uint": "UInt64",
	"bool": "Bool", "[]byte": "Slice", "error": "Err"}
var uintBits = map[string]uint{"uint8": 8, "uint16": 16, "uint32": 32, "uint": 64}
var arrayRe = regexp.MustCompile(`^\[(\d+)\]byte$`)
var reservedRe = regexp.MustCompile(`^(t|sw)\d+$`)

// names the generated text uses itself, and Lean keywords: a Go identifier spelled like one gets a prime
var reserved = map[string]bool{"len": true, "idx": true, "slice": true, "int": true, "uint": true, "uint8": true, "uint16": true,
	"uint32": true, "shl": true, "shr": true, "arrIdx": true, "arrSet": true, "beUint16": true, "beUint32": true, "bePutUint16": true, "bePutUint32": true, "pure": true,
	"some": true, "none": true, "decide": true, "true": true, "false": true, "end": true, "from": true, "at": true, "then": true,
	"fun": true, "open": true, "in": true, "do": true, "let": true, "have": true, "show": true, "match": true, "with": true,
	"if": true, "else": true, "return": true, "for": true, "mut": true, "def": true, "theorem": true, "where": true, "by": true,
	"Type": true, "Prop": true, "instance": true, "class": true, "structure": true, "namespace": true, "section": true,
	"import": true, "export": true, "using": true, "deriving": true, "unless": true, "try": true, "catch": true, "finally": true}

func leanIdent(n string) string {
	if reserved[n] || reservedRe.MatchString(n) {
		return n + "'"
	}
	return n
}

func isArray(t string) (int, bool) {
	if m := arrayRe.FindStringSubmatch(t); m != nil {
		n, _ := strconv.Atoi(m[1])
		return n, true
	}
	return 0, false
}

func leanOf(t string) string {
	if l, ok := leanType[t]; ok {
		return l
	}
	if n, ok := isArray(t); ok {
		return fmt.Sprintf("(Vector UInt8 %d)", n)
	}
	bad("type %s is outside the subset", t)
	return ""
}

func zeroOf(t string) string {
	switch t {
	case "bool":
		return "false"
	case "[]byte", "error":
		return "none"
	}
	if n, ok := isArray(t); ok {
		return fmt.Sprintf("(Vector.replicate %d 0)", n)
	}
	return fmt.Sprintf("(0 : %s)", leanOf(t))
}

// val: a translated expression.  typ "untyped" = untyped integer constant, "nil" = the predeclared nil.
type val struct {
	lean    string
	typ     string
	isConst bool
	c       int64
	prop    string // for comparisons: the proposition (lean = "decide (prop)")
}

type tr struct {
	pkg      *pkgFiles
	scopes   []map[string]string // Go name -> type (innermost last)
	assigned map[string]bool     // names assigned somewhere after their declaration
	recv     string              // receiver name
	recvT    string              // its type when it is an array type; "" for a struct
	fields   map[string]string   // struct receiver: field -> type
	fUsed    map[string]bool
	fSet     map[string]bool
	proj     map[string][2]string // receiver field of type []S (S a struct): the one field of S the loop uses, its type
	made     map[string]bool      // locals initialised by make([]byte, n): the only slices PutUint16/32 may write to
	results  []struct{ name, typ string }
	named    bool
	retExtra []string // Lean names returned after the results (receiver state the method assigns)
	tmp      int
	lines    []string
	ind      int
}

func (t *tr) emit(format string, a ...interface{}) {
	t.lines = append(t.lines, strings.Repeat("  ", t.ind)+fmt.Sprintf(format, a...))
}
func (t *tr) fresh(p string) string { t.tmp++; return fmt.Sprintf("%s%d", p, t.tmp) }
func (t *tr) push()                 { t.scopes = append(t.scopes, map[string]string{}) }
func (t *tr) pop()                  { t.scopes = t.scopes[:len(t.scopes)-1] }
func (t *tr) lookup(n string) (string, bool) {
	for i := len(t.scopes) - 1; i >= 0; i-- {
		if ty, ok := t.scopes[i][n]; ok {
			return ty, true
		}
	}
	return "", false
}
func (t *tr) declare(n, ty string) { t.scopes[len(t.scopes)-1][n] = ty }

// ---------------------------------------------------------------- types and constants of the package

func (t *tr) typeDecl(name string) ast.Expr {
	for _, f := range t.pkg.files {
		for _, d := range f.Decls {
			if gd, ok := d.(*ast.GenDecl); ok && gd.Tok == token.TYPE {
				for _, sp := range gd.Specs {
					if ts := sp.(*ast.TypeSpec); ts.Name.Name == name {
						return ts.Type
					}
				}
			}
		}
	}
	return nil
}

// goType normalises a type expression to one of the subset's type names.
func (t *tr) goType(e ast.Expr) string {
	s := src(e)
	switch s {
	case "byte":
		return "uint8"
	case "int", "uint8", "uint16", "uint32", "uint", "bool", "[]byte", "error":
		return s
	case "[]uint8":
		return "[]byte"
	}
	if at, ok := e.(*ast.ArrayType); ok && at.Len != nil && (src(at.Elt) == "byte" || src(at.Elt) == "uint8") {
		n := t.expr(at.Len, "int")
		if n.isConst {
			return fmt.Sprintf("[%d]byte", n.c)
		}
	}
	if id, ok := e.(*ast.Ident); ok {
		if d := t.typeDecl(id.Name); d != nil {
			if _, isStruct := d.(*ast.StructType); !isStruct {
				return t.goType(d)
			}
		}
	}
	bad("type %s is outside the subset", s)
	return ""
}

func (t *tr) pkgConst(name string) (val, bool) {
	for _, f := range t.pkg.files {
		for _, d := range f.Decls {
			gd, ok := d.(*ast.GenDecl)
			if !ok || gd.Tok != token.CONST {
				continue
			}
			for _, sp := range gd.Specs {
				vs := sp.(*ast.ValueSpec)
				for i, n := range vs.Names {
					if n.Name != name {
						continue
					}
					if i >= len(vs.Values) {
						bad("constant %s has no explicit value (iota group)", name)
					}
					save := t.scopes
					t.scopes = []map[string]string{{}} // constants see no locals
					v := t.expr(vs.Values[i], "")
					t.scopes = save
					if !v.isConst {
						bad("constant %s = %s is not an integer constant of the subset", name, src(vs.Values[i]))
					}
					if vs.Type != nil {
						v.typ = t.goType(vs.Type)
					}
					v.lean = ""
					return v, true
				}
			}
		}
	}
	return val{}, false
}

// ---------------------------------------------------------------- expressions

// mat gives a constant its Lean text; an untyped one takes `want` (default int).
func (t *tr) mat(v val, want string) val {
	if !v.isConst {
		if v.typ == "nil" {
			if want != "[]byte" && want != "error" {
				bad("nil used as %q", want)
			}
			return val{lean: "none", typ: want}
		}
		return v
	}
	if v.typ == "untyped" {
		if want == "" {
			want = "int"
		}
		v.typ = want
	}
	if bits, ok := uintBits[v.typ]; ok {
		if v.c < 0 || (bits < 63 && v.c >= int64(1)<<bits) {
			bad("constant %d does not fit %s", v.c, v.typ)
		}
	} else if v.typ != "int" {
		bad("integer constant %d used as %s", v.c, v.typ)
	}
	if v.c < 0 {
		v.lean = fmt.Sprintf("(%d : %s)", v.c, leanOf(v.typ))
	} else {
		v.lean = fmt.Sprintf("(%d : %s)", v.c, leanOf(v.typ))
	}
	return v
}

// constLike: an expression whose type comes from its context (untyped constant, or a shift of one).
func (t *tr) constLike(e ast.Expr) bool {
	switch x := e.(type) {
	case *ast.BasicLit:
		return x.Kind == token.INT
	case *ast.ParenExpr:
		return t.constLike(x.X)
	case *ast.Ident:
		if _, local := t.lookup(x.Name); local {
			return false
		}
		c, ok := t.pkgConst(x.Name)
		return ok && c.typ == "untyped"
	case *ast.UnaryExpr:
		return t.constLike(x.X)
	case *ast.BinaryExpr:
		if x.Op == token.SHL || x.Op == token.SHR {
			return t.constLike(x.X)
		}
		return t.constLike(x.X) && t.constLike(x.Y)
	}
	return false
}

func fold(op token.Token, a, b int64) int64 {
	switch op {
	case token.ADD:
		return a + b
	case token.SUB:
		return a - b
	case token.MUL:
		return a * b
	case token.QUO:
		if b == 0 {
			bad("constant division by zero")
		}
		return a / b
	case token.REM:
		if b == 0 {
			bad("constant division by zero")
		}
		return a % b
	case token.AND:
		return a & b
	case token.OR:
		return a | b
	case token.XOR:
		return a ^ b
	case token.AND_NOT:
		return a &^ b
	case token.SHL:
		if b < 0 || b > 62 || a < 0 || a >= int64(1)<<(62-uint(b)) {
			bad("constant shift too large for the translator")
		}
		return a << uint(b)
	case token.SHR:
		if b < 0 || b > 63 {
			bad("constant shift count out of range")
		}
		return a >> uint(b)
	}
	bad("constant operator %s", op)
	return 0
}

// asInt renders an index / bound as an Int expression.
func (t *tr) asInt(e ast.Expr) string {
	v := t.mat(t.expr(e, "int"), "int")
	switch {
	case v.typ == "int":
		return v.lean
	case uintBits[v.typ] != 0:
		return "(int " + v.lean + ")"
	}
	bad("index %s of type %s", src(e), v.typ)
	return ""
}

var cmpOps = map[token.Token]string{token.LSS: "<", token.GTR: ">", token.LEQ: "≤", token.GEQ: "≥", token.EQL: "=", token.NEQ: "≠"}
var arithOps = map[token.Token]string{token.ADD: "+", token.SUB: "-", token.MUL: "*", token.AND: "&&&", token.OR: "|||", token.XOR: "^^^"}

// expr translates e; partial operations (index, slice, BigEndian reads) are hoisted into `let tN ← …` lines
// emitted before the current statement.  `want` is the type an untyped constant shift should take.
func (t *tr) expr(e ast.Expr, want string) val {
	switch x := e.(type) {
	case *ast.ParenExpr:
		return t.expr(x.X, want)
	case *ast.BasicLit:
		if x.Kind == token.INT {
			n, err := strconv.ParseInt(x.Value, 0, 64)
			if err != nil {
				bad("literal %s", x.Value)
			}
			return val{typ: "untyped", isConst: true, c: n}
		}
		bad("literal %s is outside the subset", x.Value)
	case *ast.Ident:
		if ty, ok := t.lookup(x.Name); ok {
			if ty == "struct" {
				bad("receiver %s used as a whole", x.Name)
			}
			return val{lean: leanIdent(x.Name), typ: ty}
		}
		switch x.Name {
		case "nil":
			return val{typ: "nil"}
		case "true", "false":
			return val{lean: x.Name, typ: "bool"}
		}
		if c, ok := t.pkgConst(x.Name); ok {
			return c
		}
		bad("identifier %s is neither a local nor an integer constant of the package", x.Name)
	case *ast.SelectorExpr:
		if id, ok := x.X.(*ast.Ident); ok && id.Name == t.recv && t.fields != nil {
			ty, ok := t.fields[x.Sel.Name]
			if !ok {
				bad("receiver field %s has a type outside the subset", x.Sel.Name)
			}
			t.fUsed[x.Sel.Name] = true
			return val{lean: leanIdent(t.recv + "_" + x.Sel.Name), typ: ty}
		}
		if id, ok := x.X.(*ast.Ident); ok {
			if ty, ok := t.lookup(id.Name + "." + x.Sel.Name); ok {
				return val{lean: leanIdent(id.Name + "_" + x.Sel.Name), typ: ty}
			}
		}
		bad("selector %s is outside the subset", src(x))
	case *ast.UnaryExpr:
		v := t.expr(x.X, want)
		switch {
		case x.Op == token.NOT && v.typ == "bool":
			return val{lean: "(!" + v.lean + ")", typ: "bool"}
		case x.Op == token.SUB && v.isConst:
			v.c = -v.c
			return v
		case x.Op == token.ADD && v.isConst:
			return v
		case x.Op == token.SUB && v.typ == "int":
			return val{lean: "(-" + v.lean + ")", typ: "int"}
		case x.Op == token.XOR && uintBits[v.typ] != 0 && !v.isConst:
			return val{lean: "(~~~" + v.lean + ")", typ: v.typ}
		}
		bad("unary %s on %s", x.Op, src(x.X))
	case *ast.BinaryExpr:
		return t.binary(x, want)
	case *ast.IndexExpr:
		b := t.expr(x.X, "")
		i := t.asInt(x.Index)
		n := t.fresh("t")
		if b.typ == "[]byte" {
			t.emit("let %s ← idx %s %s", n, b.lean, i)
		} else if _, ok := isArray(b.typ); ok {
			t.emit("let %s ← arrIdx %s %s", n, b.lean, i)
		} else {
			bad("indexing %s of type %s", src(x.X), b.typ)
		}
		return val{lean: n, typ: "uint8"}
	case *ast.SliceExpr:
		b := t.expr(x.X, "")
		if b.typ != "[]byte" || x.Slice3 {
			bad("slice expression %s is outside the subset", src(x))
		}
		lo, hi := "(0 : Int)", "(len "+b.lean+")"
		if x.Low != nil {
			lo = t.asInt(x.Low)
		}
		if x.High != nil {
			hi = t.asInt(x.High)
		}
		n := t.fresh("t")
		t.emit("let %s ← slice %s %s %s", n, b.lean, lo, hi)
		return val{lean: n, typ: "[]byte"}
	case *ast.CallExpr:
		return t.call(x, want)
	}
	bad("expression %s is outside the subset", src(e))
	return val{}
}

func (t *tr) call(x *ast.CallExpr, want string) val {
	f := src(x.Fun)
	switch f {
	case "len":
		if len(x.Args) == 1 {
			a := t.expr(x.Args[0], "")
			if a.typ == "[]byte" {
				return val{lean: "(len " + a.lean + ")", typ: "int"}
			}
			if n, ok := isArray(a.typ); ok {
				return val{typ: "untyped", isConst: true, c: int64(n)}
			}
		}
	case "int", "uint", "uint8", "byte", "uint16", "uint32":
		if _, shadowed := t.lookup(f); shadowed || len(x.Args) != 1 {
			break
		}
		to := f
		if to == "byte" {
			to = "uint8"
		}
		a := t.expr(x.Args[0], to)
		if a.isConst {
			a.typ = "untyped" // a constant conversion: the value must fit (checked by mat)
			return t.mat(a, to)
		}
		if a.typ != "int" && uintBits[a.typ] == 0 {
			bad("conversion %s of a %s", src(x), a.typ)
		}
		if a.typ == to {
			return a
		}
		return val{lean: "(" + to + " " + a.lean + ")", typ: to}
	case "binary.BigEndian.Uint16", "binary.BigEndian.Uint32":
		if len(x.Args) == 1 {
			a := t.expr(x.Args[0], "")
			if a.typ == "[]byte" {
				n := t.fresh("t")
				t.emit("let %s ← beU%s %s", n, strings.TrimPrefix(f, "binary.BigEndian.U"), a.lean)
				return val{lean: n, typ: "u" + strings.TrimPrefix(f, "binary.BigEndian.U")}
			}
		}
	case "make":
		if len(x.Args) == 2 && (src(x.Args[0]) == "[]byte" || src(x.Args[0]) == "[]uint8") {
			n := t.expr(x.Args[1], "int")
			if n.isConst && n.c >= 0 {
				return val{lean: fmt.Sprintf("(some (List.replicate %d 0))", n.c), typ: "[]byte", prop: "make"}
			}
		}
	case "errors.New", "fmt.Errorf":
		if len(x.Args) >= 1 {
			if bl, ok := x.Args[0].(*ast.BasicLit); ok && bl.Kind == token.STRING {
				s, _ := strconv.Unquote(bl.Value)
				return val{lean: "(some " + leanStr(s) + ")", typ: "error"}
			}
		}
	}
	bad("call %s is outside the subset", src(x))
	return val{}
}

func (t *tr) binary(x *ast.BinaryExpr, want string) val {
	op := x.Op
	if op == token.LAND || op == token.LOR {
		a := t.expr(x.X, "")
		before := t.tmp
		b := t.expr(x.Y, "")
		if t.tmp != before {
			bad("%s: an operation that can panic on the right of %s (evaluated conditionally in Go)", src(x), op)
		}
		if a.typ != "bool" || b.typ != "bool" {
			bad("%s on non-bool", op)
		}
		return val{lean: "(" + a.lean + " " + op.String() + " " + b.lean + ")", typ: "bool"}
	}
	if op == token.SHL || op == token.SHR {
		a := t.expr(x.X, want)
		n := t.expr(x.Y, "")
		if a.isConst && n.isConst {
			a.c = fold(op, a.c, n.c)
			return a
		}
		a = t.mat(a, want)
		if uintBits[a.typ] == 0 {
			bad("%s: shift of a %s (only unsigned fixed-width operands are translated)", src(x), a.typ)
		}
		if n.isConst {
			n = t.mat(n, "uint")
		} else if uintBits[n.typ] == 0 {
			bad("%s: shift count of type %s (a signed count panics when negative)", src(x), n.typ)
		}
		fn := map[token.Token]string{token.SHL: "shl", token.SHR: "shr"}[op]
		return val{lean: "(" + fn + " " + a.lean + " " + n.lean + ")", typ: a.typ}
	}
	// the operand whose type is given by the context is translated second
	var a, b val
	if t.constLike(x.X) && !t.constLike(x.Y) {
		b = t.expr(x.Y, "")
		a = t.expr(x.X, b.typ)
	} else {
		a = t.expr(x.X, want)
		w := want
		if !a.isConst {
			w = a.typ
		}
		b = t.expr(x.Y, w)
	}
	if a.isConst && b.isConst && a.typ == "untyped" && b.typ == "untyped" {
		if c, ok := cmpOps[op]; ok {
			_ = c
			bad("comparison of two constants %s", src(x))
		}
		return val{typ: "untyped", isConst: true, c: fold(op, a.c, b.c)}
	}
	// untyped constants take the other operand's type
	if a.isConst && a.typ == "untyped" {
		a = t.mat(a, b.typ)
	} else if b.isConst && b.typ == "untyped" {
		b = t.mat(b, a.typ)
	}
	a, b = t.mat(a, b.typ), t.mat(b, a.typ)
	if a.typ != b.typ {
		bad("%s: operand types %s and %s", src(x), a.typ, b.typ)
	}
	if c, ok := cmpOps[op]; ok {
		ordered := a.typ == "int" || uintBits[a.typ] != 0
		if !ordered && !(op == token.EQL || op == token.NEQ) {
			bad("%s: ordering on %s", src(x), a.typ)
		}
		p := a.lean + " " + c + " " + b.lean
		return val{lean: "(decide (" + p + "))", typ: "bool", prop: p}
	}
	numeric := a.typ == "int" || uintBits[a.typ] != 0
	if !numeric {
		bad("%s: operator %s on %s", src(x), op, a.typ)
	}
	if l, ok := arithOps[op]; ok {
		return val{lean: "(" + a.lean + " " + l + " " + b.lean + ")", typ: a.typ}
	}
	switch op {
	case token.AND_NOT:
		return val{lean: "(" + a.lean + " &&& ~~~" + b.lean + ")", typ: a.typ}
	case token.QUO, token.REM:
		if !b.isConst || b.c == 0 {
			bad("%s: division by a non-constant (panics on zero)", src(x))
		}
		if a.typ == "int" { // Go truncates towards zero
			fn := map[token.Token]string{token.QUO: "Int.tdiv", token.REM: "Int.tmod"}[op]
			return val{lean: "(" + fn + " " + a.lean + " " + b.lean + ")", typ: "int"}
		}
		return val{lean: "(" + a.lean + " " + op.String() + " " + b.lean + ")", typ: a.typ}
	}
	bad("operator %s is outside the subset", op)
	return val{}
}

// ---------------------------------------------------------------- statements

func (t *tr) condText(e ast.Expr) string {
	c := t.expr(e, "")
	if c.typ != "bool" {
		bad("condition %s is not a bool", src(e))
	}
	if c.prop != "" {
		return c.prop
	}
	return c.lean
}

func (t *tr) letKw(name string) string {
	if t.assigned[name] {
		return "let mut"
	}
	return "let"
}

// assignTo stores v (already of the right type) into a local, a named result, or a receiver field.
func (t *tr) target(lhs ast.Expr) (lean, typ string) {
	switch l := lhs.(type) {
	case *ast.Ident:
		ty, ok := t.lookup(l.Name)
		if !ok || ty == "struct" {
			bad("assignment to %s", l.Name)
		}
		return leanIdent(l.Name), ty
	case *ast.SelectorExpr:
		v := t.expr(l, "")
		t.fSet[l.Sel.Name] = true
		return v.lean, v.typ
	}
	bad("assignment to %s is outside the subset", src(lhs))
	return "", ""
}

func (t *tr) assign(lhs ast.Expr, op token.Token, rhs ast.Expr) {
	if ix, ok := lhs.(*ast.IndexExpr); ok { // a[i] = v / a[i] op= v on an array
		base, ok := ix.X.(*ast.Ident)
		ty, _ := "", false
		if ok {
			ty, _ = t.lookup(base.Name)
		}
		if _, isArr := isArray(ty); !isArr {
			bad("assignment to %s (only elements of local / receiver arrays can be assigned)", src(lhs))
		}
		i := t.asInt(ix.Index)
		var v val
		if op == token.ASSIGN {
			v = t.mat(t.expr(rhs, "uint8"), "uint8")
		} else {
			v = t.expr(&ast.BinaryExpr{X: lhs, Op: op, Y: rhs}, "uint8")
		}
		if v.typ != "uint8" {
			bad("%s: element value of type %s", src(lhs), v.typ)
		}
		t.emit("%s ← arrSet %s %s %s", leanIdent(base.Name), leanIdent(base.Name), i, v.lean)
		return
	}
	if id, ok := lhs.(*ast.Ident); ok && id.Name == "_" {
		t.expr(rhs, "")
		return
	}
	name, ty := t.target(lhs)
	var v val
	if op == token.ASSIGN {
		v = t.mat(t.expr(rhs, ty), ty)
	} else {
		v = t.expr(&ast.BinaryExpr{X: lhs, Op: op, Y: rhs}, ty)
	}
	if v.typ != ty {
		bad("%s: %s assigned a %s", src(lhs), ty, v.typ)
	}
	t.emit("%s := %s", name, v.lean)
}

var opOfAssign = map[token.Token]token.Token{token.ADD_ASSIGN: token.ADD, token.SUB_ASSIGN: token.SUB, token.MUL_ASSIGN: token.MUL,
	token.QUO_ASSIGN: token.QUO, token.REM_ASSIGN: token.REM, token.AND_ASSIGN: token.AND, token.OR_ASSIGN: token.OR,
	token.XOR_ASSIGN: token.XOR, token.SHL_ASSIGN: token.SHL, token.SHR_ASSIGN: token.SHR, token.AND_NOT_ASSIGN: token.AND_NOT}

func (t *tr) retLine(vals []string) string {
	vals = append(vals, t.retExtra...)
	switch len(vals) {
	case 0:
		return "return ()"
	case 1:
		return "return " + vals[0]
	}
	return "return (" + strings.Join(vals, ", ") + ")"
}

func (t *tr) block(list []ast.Stmt) {
	t.push()
	defer t.pop()
	n0 := len(t.lines)
	for _, s := range list {
		t.stmt(s)
	}
	if len(t.lines) == n0 {
		t.emit("pure ()")
	}
}

func (t *tr) stmt(s ast.Stmt) {
	switch x := s.(type) {
	case *ast.EmptyStmt:
	case *ast.BlockStmt:
		t.emit("if true then")
		t.ind++
		t.block(x.List)
		t.ind--
	case *ast.DeclStmt:
		gd := x.Decl.(*ast.GenDecl)
		if gd.Tok != token.VAR {
			bad("local %s declaration", gd.Tok)
		}
		for _, sp := range gd.Specs {
			vs := sp.(*ast.ValueSpec)
			if vs.Type == nil || len(vs.Values) > 0 {
				bad("var declaration %s (write `var x T` or `x := e`)", src(vs))
			}
			ty := t.goType(vs.Type)
			for _, n := range vs.Names {
				t.emit("%s %s : %s := %s", t.letKw(n.Name), leanIdent(n.Name), leanOf(ty), zeroOf(ty))
				t.declare(n.Name, ty)
			}
		}
	case *ast.AssignStmt:
		if len(x.Lhs) != len(x.Rhs) || len(x.Lhs) != 1 {
			bad("assignment %s (one variable per assignment)", src(x))
		}
		switch {
		case x.Tok == token.DEFINE:
			id := x.Lhs[0].(*ast.Ident)
			v := t.mat(t.expr(x.Rhs[0], ""), "")
			if v.typ == "nil" || v.typ == "" {
				bad("%s: no type", src(x))
			}
			if id.Name == "_" {
				return
			}
			t.emit("%s %s : %s := %s", t.letKw(id.Name), leanIdent(id.Name), leanOf(v.typ), v.lean)
			t.declare(id.Name, v.typ)
			if v.typ == "[]byte" && v.prop == "make" {
				if t.made == nil {
					t.made = map[string]bool{}
				}
				t.made[id.Name] = true
			}
		case x.Tok == token.ASSIGN:
			t.assign(x.Lhs[0], token.ASSIGN, x.Rhs[0])
		default:
			op, ok := opOfAssign[x.Tok]
			if !ok {
				bad("assignment operator %s", x.Tok)
			}
			t.assign(x.Lhs[0], op, x.Rhs[0])
		}
	case *ast.IncDecStmt:
		op := token.ADD
		if x.Tok == token.DEC {
			op = token.SUB
		}
		t.assign(x.X, op, &ast.BasicLit{Kind: token.INT, Value: "1"})
	case *ast.IfStmt:
		if x.Init != nil {
			bad("if with an init statement")
		}
		t.emit("if %s then", t.condText(x.Cond))
		t.ind++
		t.block(x.Body.List)
		t.ind--
		if x.Else != nil {
			t.emit("else")
			t.ind++
			if eb, ok := x.Else.(*ast.BlockStmt); ok {
				t.block(eb.List)
			} else {
				t.block([]ast.Stmt{x.Else})
			}
			t.ind--
		}
	case *ast.SwitchStmt:
		if x.Init != nil || x.Tag == nil {
			bad("switch without a tag / with an init statement")
		}
		tag := t.mat(t.expr(x.Tag, ""), "")
		sw := t.fresh("sw")
		t.emit("let %s : %s := %s", sw, leanOf(tag.typ), tag.lean)
		var def *ast.CaseClause
		depth := 0
		for _, c := range x.Body.List {
			cc := c.(*ast.CaseClause)
			if cc.List == nil {
				def = cc
				continue
			}
			var alts []string
			for _, ce := range cc.List {
				v := t.expr(ce, tag.typ)
				if !v.isConst {
					bad("switch case %s is not a constant", src(ce))
				}
				alts = append(alts, sw+" = "+t.mat(v, tag.typ).lean)
			}
			t.emit("if %s then", strings.Join(alts, " ∨ "))
			t.ind++
			t.caseBody(cc)
			t.ind--
			t.emit("else")
			t.ind++
			depth++
		}
		if def != nil {
			t.caseBody(def)
		} else {
			t.emit("pure ()")
		}
		t.ind -= depth
	case *ast.ExprStmt:
		ce, ok := x.X.(*ast.CallExpr)
		f := ""
		if ok {
			f = src(ce.Fun)
		}
		if (f != "binary.BigEndian.PutUint16" && f != "binary.BigEndian.PutUint32") || len(ce.Args) != 2 {
			bad("statement %s is outside the subset", src(x))
		}
		id, ok := ce.Args[0].(*ast.Ident)
		if !ok || !t.made[id.Name] {
			bad("%s: the destination must be a local made by make([]byte, n) (no aliasing)", src(x))
		}
		ty := "u" + strings.TrimPrefix(f, "binary.BigEndian.PutU")
		v := t.mat(t.expr(ce.Args[1], ty), ty)
		if v.typ != ty {
			bad("%s: value of type %s", src(x), v.typ)
		}
		t.emit("%s ← bePutU%s %s %s", leanIdent(id.Name), strings.TrimPrefix(f, "binary.BigEndian.PutU"), leanIdent(id.Name), v.lean)
	case *ast.ForStmt:
		t.forStmt(x)
	case *ast.RangeStmt:
		t.rangeStmt(x)
	case *ast.ReturnStmt:
		var vals []string
		if len(x.Results) == 0 {
			if len(t.results) > 0 && !t.named {
				bad("naked return without named results")
			}
			for _, r := range t.results {
				vals = append(vals, leanIdent(r.name))
			}
		} else {
			if len(x.Results) != len(t.results) {
				bad("return %s (a call with several results?)", src(x))
			}
			for i, r := range x.Results {
				v := t.mat(t.expr(r, t.results[i].typ), t.results[i].typ)
				if v.typ != t.results[i].typ {
					bad("return value %s of type %s for a %s result", src(r), v.typ, t.results[i].typ)
				}
				vals = append(vals, v.lean)
			}
		}
		t.emit("%s", t.retLine(vals))
	default:
		bad("statement %s is outside the subset", strings.SplitN(src(s), "\n", 2)[0])
	}
}

func (t *tr) caseBody(cc *ast.CaseClause) {
	for _, s := range cc.Body {
		if b, ok := s.(*ast.BranchStmt); ok {
			bad("%s inside switch", b.Tok)
		}
	}
	t.block(cc.Body)
}

// loops may not leave early: no return / break / continue / goto inside
func (t *tr) noJumps(b *ast.BlockStmt) {
	ast.Inspect(b, func(n ast.Node) bool {
		switch j := n.(type) {
		case *ast.ReturnStmt:
			bad("return inside a loop")
		case *ast.BranchStmt:
			bad("%s inside a loop", j.Tok)
		case *ast.FuncLit:
			bad("function literal")
		}
		return true
	})
}

// for i := a; i < b; i++ { body }   with constant a ≤ b and i not assigned in the body:
//
//	for i' in List.range (b - a) do let i : Int := a + i'; body
func (t *tr) forStmt(x *ast.ForStmt) {
	init, ok1 := x.Init.(*ast.AssignStmt)
	cond, ok2 := x.Cond.(*ast.BinaryExpr)
	post, ok3 := x.Post.(*ast.IncDecStmt)
	if !ok1 || !ok2 || !ok3 || init.Tok != token.DEFINE || len(init.Lhs) != 1 || cond.Op != token.LSS || post.Tok != token.INC ||
		src(cond.X) != src(init.Lhs[0]) || src(post.X) != src(init.Lhs[0]) {
		bad("for loop is not of the form `for i := a; i < b; i++`")
	}
	i := init.Lhs[0].(*ast.Ident).Name
	a, b := t.expr(init.Rhs[0], "int"), t.expr(cond.Y, "int")
	if !a.isConst || !b.isConst || a.typ != "untyped" || b.typ != "untyped" || a.c > b.c {
		bad("for loop bounds %s .. %s are not integer constants", src(init.Rhs[0]), src(cond.Y))
	}
	t.noJumps(x.Body)
	ast.Inspect(x.Body, func(n ast.Node) bool {
		switch s := n.(type) {
		case *ast.AssignStmt:
			for _, l := range s.Lhs {
				if src(l) == i {
					bad("loop variable %s assigned in the body", i)
				}
			}
		case *ast.IncDecStmt:
			if src(s.X) == i {
				bad("loop variable %s assigned in the body", i)
			}
		}
		return true
	})
	k := t.fresh("t")
	t.emit("for %s in List.range %d do", k, b.c-a.c)
	t.ind++
	t.push()
	t.emit("let %s : Int := (%d : Int) + (%s : Int)", leanIdent(i), a.c, k)
	t.declare(i, "int")
	t.block(x.Body.List)
	t.pop()
	t.ind--
}

// for _, v := range s { body }  over a []byte
func (t *tr) rangeStmt(x *ast.RangeStmt) {
	if x.Tok != token.DEFINE || x.Key == nil || src(x.Key) != "_" || x.Value == nil {
		bad("range loop is not of the form `for _, v := range s`")
	}
	s := t.expr(x.X, "")
	v := x.Value.(*ast.Ident).Name
	if t.assigned[v] {
		bad("range variable %s assigned in the body", v)
	}
	t.noJumps(x.Body)
	if strings.HasPrefix(s.typ, "[]struct:") { // for _, v := range recv.F  where F is a slice of structs and the body uses one field v.G
		se := x.X.(*ast.SelectorExpr)
		st := t.typeDecl(strings.TrimPrefix(s.typ, "[]struct:")).(*ast.StructType)
		used := map[string]bool{}
		whole := false
		ast.Inspect(x.Body, func(n ast.Node) bool {
			if sel, ok := n.(*ast.SelectorExpr); ok && src(sel.X) == v {
				used[sel.Sel.Name] = true
				return false
			}
			if id, ok := n.(*ast.Ident); ok && id.Name == v {
				whole = true
			}
			return true
		})
		if len(used) != 1 || whole {
			bad("range over %s: the body must use exactly one field of %s", src(x.X), v)
		}
		for g := range used {
			gt := ""
			for _, f := range st.Fields.List {
				for _, n := range f.Names {
					if n.Name == g {
						gt = t.goType(f.Type)
					}
				}
			}
			if gt == "" {
				bad("field %s.%s not found", v, g)
			}
			if old, ok := t.proj[se.Sel.Name]; ok && old[0] != g {
				bad("receiver field %s is projected to two different fields", se.Sel.Name)
			}
			t.proj[se.Sel.Name] = [2]string{g, gt}
			t.emit("for %s in %s_%s do", leanIdent(v+"_"+g), s.lean, g)
			t.ind++
			t.push()
			t.declare(v+"."+g, gt)
			t.block(x.Body.List)
			t.pop()
			t.ind--
		}
		return
	}
	if s.typ != "[]byte" {
		bad("range over %s of type %s", src(x.X), s.typ)
	}
	t.emit("for %s in (%s.getD []) do", leanIdent(v), s.lean)
	t.ind++
	t.push()
	t.declare(v, "uint8")
	t.block(x.Body.List)
	t.pop()
	t.ind--
}

// ---------------------------------------------------------------- functions

func docComment(file string, fd *ast.FuncDecl) string {
	s := strings.ReplaceAll(src(fd), "-/", "- /")
	s = strings.ReplaceAll(s, "/-", "/ -")
	return fmt.Sprintf("/-- Go source (%s):\n```go\n%s\n```\n-/\n", file, s)
}

func fileOf(p *pkgFiles, fd *ast.FuncDecl) string {
	for n, f := range p.files {
		for _, d := range f.Decls {
			if d == ast.Decl(fd) {
				return n
			}
		}
	}
	return "?"
}

func (t *tr) function(fd *ast.FuncDecl, lean string) string {
	t.push()
	t.assigned = map[string]bool{}
	ast.Inspect(fd.Body, func(n ast.Node) bool {
		mark := func(e ast.Expr) {
			if ix, ok := e.(*ast.IndexExpr); ok {
				e = ix.X
			}
			if id, ok := e.(*ast.Ident); ok {
				t.assigned[id.Name] = true
			}
		}
		switch s := n.(type) {
		case *ast.AssignStmt:
			if s.Tok != token.DEFINE {
				for _, l := range s.Lhs {
					mark(l)
				}
			}
		case *ast.IncDecStmt:
			mark(s.X)
		case *ast.ExprStmt:
			if ce, ok := s.X.(*ast.CallExpr); ok && strings.HasPrefix(src(ce.Fun), "binary.BigEndian.PutUint") && len(ce.Args) > 0 {
				mark(ce.Args[0])
			}
		case *ast.FuncLit:
			bad("function literal")
		}
		return true
	})
	var params, prologue []string
	if fd.Recv != nil {
		r := fd.Recv.List[0]
		if len(r.Names) == 1 {
			t.recv = r.Names[0].Name
		}
		rt := r.Type
		ptr := false
		if st, ok := rt.(*ast.StarExpr); ok {
			rt, ptr = st.X, true
		}
		decl := t.typeDecl(src(rt))
		if st, ok := decl.(*ast.StructType); ok {
			t.fields, t.fUsed, t.fSet, t.proj = map[string]string{}, map[string]bool{}, map[string]bool{}, map[string][2]string{}
			func() { // fields whose type is outside the subset are simply not available
				for _, f := range st.Fields.List {
					ty := func() (ty string) {
						defer func() {
							if recover() != nil {
								ty = ""
							}
						}()
						return t.goType(f.Type)
					}()
					if at, ok := f.Type.(*ast.ArrayType); ok && at.Len == nil && ty == "" {
						if _, isStruct := t.typeDecl(src(at.Elt)).(*ast.StructType); isStruct {
							ty = "[]struct:" + src(at.Elt)
						}
					}
					for _, n := range f.Names {
						if ty != "" {
							t.fields[n.Name] = ty
						}
					}
				}
			}()
			if t.recv != "" {
				t.declare(t.recv, "struct")
			}
			_ = ptr
		} else {
			t.recvT = t.goType(rt)
			if _, ok := isArray(t.recvT); !ok {
				bad("receiver type %s is outside the subset", src(rt))
			}
			if t.recv != "" {
				t.declare(t.recv, t.recvT)
				params = append(params, fmt.Sprintf("(%s : %s)", leanIdent(t.recv), leanOf(t.recvT)))
				if t.assigned[t.recv] {
					prologue = append(prologue, fmt.Sprintf("let mut %s := %s", leanIdent(t.recv), leanIdent(t.recv)))
					if ptr {
						t.retExtra = append(t.retExtra, leanIdent(t.recv))
					}
				}
			}
		}
	}
	recvParamAt := len(params)
	k := 0
	for _, p := range fd.Type.Params.List {
		ty := t.goType(p.Type)
		names := p.Names
		if len(names) == 0 {
			names = []*ast.Ident{{Name: "_"}}
		}
		for _, n := range names {
			k++
			name := n.Name
			if name == "_" {
				params = append(params, fmt.Sprintf("(_a%d : %s)", k, leanOf(ty)))
				continue
			}
			t.declare(name, ty)
			params = append(params, fmt.Sprintf("(%s : %s)", leanIdent(name), leanOf(ty)))
			if t.assigned[name] {
				prologue = append(prologue, fmt.Sprintf("let mut %s := %s", leanIdent(name), leanIdent(name)))
			}
		}
	}
	var resTypes []string
	if fd.Type.Results != nil {
		for _, r := range fd.Type.Results.List {
			ty := t.goType(r.Type)
			names := r.Names
			if len(names) == 0 {
				names = []*ast.Ident{{Name: ""}}
			} else {
				t.named = true
			}
			for _, n := range names {
				t.results = append(t.results, struct{ name, typ string }{n.Name, ty})
				resTypes = append(resTypes, leanOf(ty))
				if n.Name != "" && n.Name != "_" {
					t.declare(n.Name, ty)
					t.assigned[n.Name] = true
					prologue = append(prologue, fmt.Sprintf("let mut %s : %s := %s", leanIdent(n.Name), leanOf(ty), zeroOf(ty)))
				}
			}
		}
	}
	// body (the receiver fields used / assigned are known only afterwards)
	t.ind = 1
	var structOrder []string
	if t.fields != nil {
		for _, f := range t.typeDecl(strings.TrimPrefix(src(fd.Recv.List[0].Type), "*")).(*ast.StructType).Fields.List {
			for _, n := range f.Names {
				structOrder = append(structOrder, n.Name)
			}
		}
		// the fields assigned must be known before the first return is rendered
		ast.Inspect(fd.Body, func(n ast.Node) bool {
			mark := func(e ast.Expr) {
				if se, ok := e.(*ast.SelectorExpr); ok && src(se.X) == t.recv {
					t.fSet[se.Sel.Name] = true
				}
			}
			switch s := n.(type) {
			case *ast.AssignStmt:
				for _, l := range s.Lhs {
					mark(l)
				}
			case *ast.IncDecStmt:
				mark(s.X)
			}
			return true
		})
		_, ptr := fd.Recv.List[0].Type.(*ast.StarExpr)
		for _, f := range structOrder {
			if t.fSet[f] {
				if _, ok := t.fields[f]; !ok {
					bad("receiver field %s has a type outside the subset", f)
				}
				if ptr {
					t.retExtra = append(t.retExtra, leanIdent(t.recv+"_"+f))
					resTypes = append(resTypes, leanOf(t.fields[f]))
				}
			}
		}
	} else if len(t.retExtra) > 0 {
		resTypes = append(resTypes, leanOf(t.recvT))
	}
	t.block(fd.Body.List)
	if n := len(fd.Body.List); n == 0 || !isReturn(fd.Body.List[n-1]) {
		if len(t.results) > 0 {
			bad("missing return at the end of the function")
		}
		t.emit("%s", t.retLine(nil))
	}
	var fparams []string
	for _, f := range structOrder {
		if t.fUsed[f] || t.fSet[f] {
			n := leanIdent(t.recv + "_" + f)
			if strings.HasPrefix(t.fields[f], "[]struct:") {
				pr, ok := t.proj[f]
				if !ok || t.fSet[f] {
					bad("receiver field %s (a slice of structs) is used other than in `for _, v := range`", f)
				}
				fparams = append(fparams, fmt.Sprintf("(%s_%s : List %s)", n, pr[0], leanOf(pr[1])))
				continue
			}
			fparams = append(fparams, fmt.Sprintf("(%s : %s)", n, leanOf(t.fields[f])))
			if t.fSet[f] {
				prologue = append([]string{fmt.Sprintf("let mut %s := %s", n, n)}, prologue...)
			}
		}
	}
	params = append(params[:recvParamAt:recvParamAt], append(fparams, params[recvParamAt:]...)...)
	rt := "Unit"
	if len(resTypes) > 0 {
		rt = strings.Join(resTypes, " × ")
	}
	var b strings.Builder
	if len(resTypes) > 1 {
		rt = "(" + rt + ")"
	}
	fmt.Fprintf(&b, "def %s %s : R %s := do\n", lean, strings.Join(params, " "), rt)
	for _, l := range prologue {
		b.WriteString("  " + l + "\n")
	}
	for _, l := range t.lines {
		b.WriteString(l + "\n")
	}
	return b.String()
}

func isReturn(s ast.Stmt) bool { _, ok := s.(*ast.ReturnStmt); return ok }

func translateOne(p *pkgFiles, recv, name, lean string) (text string, ok bool) {
	fd := findFunc(p, recv, name)
	if fd == nil || fd.Body == nil {
		return fmt.Sprintf("def %s_untranslatable : String := %s\n", lean, leanStr("function not found in the package")), false
	}
	doc := docComment(fileOf(p, fd), fd)
	defer func() {
		if r := recover(); r != nil {
			u, isU := r.(untranslatable)
			if !isU {
				panic(r)
			}
			text, ok = doc+fmt.Sprintf("def %s_untranslatable : String := %s\n", lean, leanStr(string(u))), false
		}
	}()
	t := &tr{pkg: p}
	return doc + t.function(fd, lean), true
}

func genTranslate(hl, mb *pkgFiles, hdr, out string) {
	var b strings.Builder
	files := map[string]bool{}
	var body strings.Builder
	var status []string
	for _, w := range translateList {
		p, dir := hl, "hotline/"
		if w.pkg == "mb" {
			p, dir = mb, "internal/mobius/"
		}
		text, ok := translateOne(p, w.recv, w.name, w.lean)
		if fd := findFunc(p, w.recv, w.name); fd != nil {
			files[dir+fileOf(p, fd)] = true
			text = strings.Replace(text, "Go source ("+fileOf(p, fd)+")", "Go source ("+dir+fileOf(p, fd)+")", 1)
		}
		body.WriteString(text + "\n")
		status = append(status, fmt.Sprintf("(%s, %v)", leanStr(w.lean), ok))
	}
	var fl []string
	for f := range files {
		fl = append(fl, f)
	}
	sort.Strings(fl)
	b.WriteString("import MobiusModel.GoSem\n")
	b.WriteString("/- GENERATED by /verif/extract/gen_translate.go from /repo's current source on every check. Do not edit.\n")
	b.WriteString("   Translation of Go functions into Lean over the semantics in MobiusModel/GoSem.lean (docs/Translator.md).\n")
	b.WriteString("   Source files: " + strings.Join(fl, ", ") + "\n")
	b.WriteString("   A function that is missing or leaves the translated subset appears as `<name>_untranslatable` (with the\n")
	b.WriteString("   reason) INSTEAD of `<name>`, which breaks the theorem in MobiusModel/TranslatedTies.lean that mentions it. -/\n")
	b.WriteString("set_option linter.unusedVariables false\nnamespace Mobius.Generated.Translated\nopen Mobius.GoSem\n\n")
	b.WriteString(body.String())
	b.WriteString("/-- (Lean name, translated) for every whitelisted function -/\ndef translated : List (String × Bool) := [" + strings.Join(status, ", ") + "]\n\n")
	b.WriteString("end Mobius.Generated.Translated\n")
	writeIfChanged(filepath.Join(out, "Translated.lean"), b.String())
}
