package main

// Generated/Persist.lean (C19, C20):
//   * persistCalls: for every function of internal/mobius that makes a file-mutating os.* call, the ordered list of
//     those calls (call, path argument(s) with local identifiers and package constants resolved, context:
//     "" unconditional | "defer" | "if <cond>").
//   * accountGlob: the pattern the account loader globs.
//   * boardOps / boardFieldUses: shape of the functions that touch Server.MessageBoard / Server.Agreement.
//   * flatNewsWriteShape: what FlatNews.Write assigns to f.data and what it hands to os.WriteFile.

import (
	"fmt"
	"os"
	"go/ast"
	"go/token"
	"path/filepath"
	"sort"
	"strconv"
	"strings"
)

func init() { extraGenerators = append(extraGenerators, genPersist) }

var persistMutating = map[string]bool{
	"WriteFile": true, "Rename": true, "Link": true, "Remove": true, "RemoveAll": true, "OpenFile": true,
	"Create": true, "Mkdir": true, "MkdirAll": true, "Truncate": true, "Symlink": true, "Chmod": true,
	"CreateTemp": true, "WriteString": false,
}

type persistCall struct{ fn, a1, a2, ctx, guard string }

// persistConsts collects package-level string constants (name -> quoted literal).
func persistConsts(p *pkgFiles) map[string]string {
	out := map[string]string{}
	for _, f := range p.files {
		for _, d := range f.Decls {
			gd, ok := d.(*ast.GenDecl)
			if !ok || gd.Tok != token.CONST {
				continue
			}
			for _, sp := range gd.Specs {
				vs := sp.(*ast.ValueSpec)
				for i, n := range vs.Names {
					if i < len(vs.Values) {
						if bl, ok := vs.Values[i].(*ast.BasicLit); ok && bl.Kind == token.STRING {
							out[n.Name] = bl.Value
						}
					}
				}
			}
		}
	}
	return out
}

// persistResolve prints e on one line with local single-definition identifiers and string constants substituted.
func persistResolve(e ast.Expr, env map[string]ast.Expr, consts map[string]string, depth int) string {
	if depth > 8 {
		return src(e)
	}
	switch x := e.(type) {
	case *ast.Ident:
		if d, ok := env[x.Name]; ok {
			return persistResolve(d, env, consts, depth+1)
		}
		if c, ok := consts[x.Name]; ok {
			return c
		}
		return x.Name
	case *ast.BasicLit:
		return x.Value
	case *ast.BinaryExpr:
		return persistResolve(x.X, env, consts, depth+1) + " " + x.Op.String() + " " + persistResolve(x.Y, env, consts, depth+1)
	case *ast.ParenExpr:
		return "(" + persistResolve(x.X, env, consts, depth+1) + ")"
	case *ast.CallExpr:
		var as []string
		for _, a := range x.Args {
			as = append(as, persistResolve(a, env, consts, depth+1))
		}
		return src(x.Fun) + "(" + strings.Join(as, ", ") + ")"
	}
	return strings.Join(strings.Fields(src(e)), " ")
}

// persistEnv: identifiers defined exactly once in the function by `x := expr` (single LHS).
func persistEnv(fd *ast.FuncDecl) map[string]ast.Expr {
	count := map[string]int{}
	def := map[string]ast.Expr{}
	ast.Inspect(fd.Body, func(n ast.Node) bool {
		as, ok := n.(*ast.AssignStmt)
		if !ok {
			return true
		}
		for i, l := range as.Lhs {
			id, ok := l.(*ast.Ident)
			if !ok {
				continue
			}
			count[id.Name]++
			if as.Tok == token.DEFINE && len(as.Lhs) == 1 && len(as.Rhs) == 1 && i == 0 {
				def[id.Name] = as.Rhs[0]
			}
		}
		return true
	})
	env := map[string]ast.Expr{}
	for n, e := range def {
		if count[n] == 1 {
			switch e.(type) {
			case *ast.BinaryExpr, *ast.CallExpr, *ast.SelectorExpr, *ast.BasicLit:
				env[n] = e
			}
		}
	}
	return env
}

func persistCallsOf(fd *ast.FuncDecl, consts map[string]string) []persistCall {
	env := persistEnv(fd)
	var out []persistCall
	guardNow := ""
	find := func(n ast.Node, ctx string) {
		ast.Inspect(n, func(m ast.Node) bool {
			switch c := m.(type) {
			case *ast.FuncLit:
				return false
			case *ast.CallExpr:
				se, ok := c.Fun.(*ast.SelectorExpr)
				if !ok {
					return true
				}
				if id, ok := se.X.(*ast.Ident); !ok || id.Name != "os" || !persistMutating[se.Sel.Name] {
					return true
				}
				pc := persistCall{fn: se.Sel.Name, ctx: ctx, guard: guardNow}
				if len(c.Args) > 0 {
					pc.a1 = persistResolve(c.Args[0], env, consts, 0)
				}
				switch se.Sel.Name {
				case "Rename", "Link", "Symlink":
					if len(c.Args) > 1 {
						pc.a2 = persistResolve(c.Args[1], env, consts, 0)
					}
				case "WriteFile":
					if len(c.Args) > 1 {
						pc.a2 = "data:" + strings.Join(strings.Fields(src(c.Args[1])), " ")
					}
				case "OpenFile":
					if len(c.Args) > 1 {
						pc.a2 = "flags:" + strings.Join(strings.Fields(src(c.Args[1])), " ")
					}
				}
				out = append(out, pc)
			}
			return true
		})
	}
	// guards: conditions of earlier `if … { …; return … }` statements (no else, not an error check) of the enclosing
	// blocks: when a later call is reached, every one of them was false
	isGuard := func(st *ast.IfStmt) (string, bool) {
		if st.Else != nil || len(st.Body.List) == 0 {
			return "", false
		}
		if _, ok := st.Body.List[len(st.Body.List)-1].(*ast.ReturnStmt); !ok {
			return "", false
		}
		g := strings.Join(strings.Fields(src(st.Cond)), " ")
		if st.Init != nil {
			g = strings.Join(strings.Fields(src(st.Init)), " ") + "; " + g
		}
		if strings.Contains(g, "err") {
			return "", false
		}
		return g, true
	}
	var walk func(list []ast.Stmt, ctx string)
	walk = func(list []ast.Stmt, ctx string) {
		saved := guardNow
		defer func() { guardNow = saved }()
		for _, s := range list {
			switch st := s.(type) {
			case *ast.IfStmt:
				if st.Init != nil {
					find(st.Init, ctx)
				}
				find(st.Cond, ctx)
				if g, ok := isGuard(st); ok {
					walk(st.Body.List, ctx)
					if guardNow != "" {
						guardNow += " || "
					}
					guardNow += g
					continue
				}
				cond := strings.Join(strings.Fields(src(st.Cond)), " ")
				inner := "if " + cond
				if ctx != "" {
					inner = ctx + " && " + inner
				}
				walk(st.Body.List, inner)
				if st.Else != nil {
					els := "else " + cond
					if ctx != "" {
						els = ctx + " && " + els
					}
					switch e := st.Else.(type) {
					case *ast.BlockStmt:
						walk(e.List, els)
					case *ast.IfStmt:
						walk([]ast.Stmt{e}, els)
					}
				}
			case *ast.BlockStmt:
				walk(st.List, ctx)
			case *ast.ForStmt:
				c := "loop"
				if ctx != "" {
					c = ctx + " && loop"
				}
				walk(st.Body.List, c)
			case *ast.RangeStmt:
				c := "loop"
				if ctx != "" {
					c = ctx + " && loop"
				}
				walk(st.Body.List, c)
			case *ast.DeferStmt:
				c := "defer"
				if ctx != "" {
					c = ctx + " && defer"
				}
				find(st.Call, c)
			default:
				find(s, ctx)
			}
		}
	}
	walk(fd.Body.List, "")
	// deferred calls run when the function returns: move them to the end, last deferred first
	var now, deferred []persistCall
	for _, c := range out {
		if strings.HasSuffix(c.ctx, "defer") {
			deferred = append([]persistCall{c}, deferred...)
		} else {
			now = append(now, c)
		}
	}
	return append(now, deferred...)
}

func persistFuncName(pkg string, fd *ast.FuncDecl) string {
	if fd.Recv != nil && len(fd.Recv.List) > 0 {
		return pkg + "." + strings.TrimPrefix(src(fd.Recv.List[0].Type), "*") + "." + fd.Name.Name
	}
	return pkg + "." + fd.Name.Name
}

func persistSortedFuncs(p *pkgFiles) []*ast.FuncDecl {
	var names []string
	for n := range p.files {
		names = append(names, n)
	}
	sort.Strings(names)
	var out []*ast.FuncDecl
	for _, n := range names {
		for _, d := range p.files[n].Decls {
			if fd, ok := d.(*ast.FuncDecl); ok && fd.Body != nil && !strings.HasPrefix(fd.Name.Name, "Verif") {
				if fd.Recv != nil && strings.HasPrefix(strings.TrimPrefix(src(fd.Recv.List[0].Type), "*"), "Mock") {
					continue
				}
				out = append(out, fd)
			}
		}
	}
	return out
}

func genPersist(hl, mb *pkgFiles, hdr, out string) {
	var b strings.Builder
	b.WriteString(hdr)
	consts := persistConsts(mb)

	// ---- persistCalls
	type row struct {
		name  string
		calls []persistCall
	}
	var rows []row
	for _, fd := range persistSortedFuncs(mb) {
		cs := persistCallsOf(fd, consts)
		if len(cs) > 0 {
			rows = append(rows, row{persistFuncName("mobius", fd), cs})
		}
	}
	sort.Slice(rows, func(i, j int) bool { return rows[i].name < rows[j].name })
	b.WriteString("/-- File-mutating os.* calls of every function in internal/mobius that makes one, in source order:\n")
	b.WriteString("    (function, [(os call, first path argument, second path argument | `data:<expr>` | `flags:<expr>`, context)]);\n")
	b.WriteString("    local identifiers defined once by `:=` and package string constants are substituted. -/\n")
	b.WriteString("def persistCalls : List (String × List (String × String × String × String)) := [\n")
	for i, r := range rows {
		fmt.Fprintf(&b, "  (%s, [", leanStr(r.name))
		for j, c := range r.calls {
			if j > 0 {
				b.WriteString(",\n     ")
			}
			fmt.Fprintf(&b, "(%s, %s, %s, %s)", leanStr(c.fn), leanStr(c.a1), leanStr(c.a2), leanStr(c.ctx))
		}
		b.WriteString("])")
		if i < len(rows)-1 {
			b.WriteString(",")
		}
		b.WriteString("\n")
	}
	b.WriteString("]\n\n")
	b.WriteString("/-- For the same functions and calls (same order): the early-return guards that were passed when the call is reached\n")
	b.WriteString("    (conditions of preceding `if c { …; return … }` statements of the enclosing blocks, error checks excluded; `||`-joined). -/\n")
	b.WriteString("def persistGuards : List (String × List String) := [\n")
	for i, r := range rows {
		var gs []string
		for _, c := range r.calls {
			gs = append(gs, leanStr(c.guard))
		}
		fmt.Fprintf(&b, "  (%s, [%s])", leanStr(r.name), strings.Join(gs, ", "))
		if i < len(rows)-1 {
			b.WriteString(",")
		}
		b.WriteString("\n")
	}
	b.WriteString("]\n\n")

	// ---- account loader glob
	glob := ""
	if fd := findFunc(mb, "", "NewYAMLAccountManager"); fd != nil {
		ast.Inspect(fd.Body, func(n ast.Node) bool {
			c, ok := n.(*ast.CallExpr)
			if !ok || src(c.Fun) != "filepath.Glob" || len(c.Args) != 1 {
				return true
			}
			if j, ok := c.Args[0].(*ast.CallExpr); ok && src(j.Fun) == "filepath.Join" && len(j.Args) > 0 {
				if bl, ok := j.Args[len(j.Args)-1].(*ast.BasicLit); ok && bl.Kind == token.STRING {
					glob, _ = strconv.Unquote(bl.Value)
				}
			}
			return true
		})
	}
	b.WriteString("/-- last path element of the pattern `NewYAMLAccountManager` hands to filepath.Glob -/\n")
	fmt.Fprintf(&b, "def accountGlob : String := %s\n\n", leanStr(glob))

	// ---- board / agreement access
	type use struct{ fn, expr string }
	var uses []use
	type op struct {
		fn, mu string
		shape  bool
		calls  []string
	}
	var ops []op
	for _, pk := range []struct {
		name string
		p    *pkgFiles
	}{{"hotline", hl}, {"mobius", mb}} {
		for _, fd := range persistSortedFuncs(pk.p) {
			var here []use
			var calls []string
			isStoreSel := func(e ast.Expr) bool {
				se, ok := e.(*ast.SelectorExpr)
				return ok && (se.Sel.Name == "MessageBoard" || se.Sel.Name == "Agreement")
			}
			ast.Inspect(fd.Body, func(n ast.Node) bool {
				switch x := n.(type) {
				case *ast.CallExpr:
					if se, ok := x.Fun.(*ast.SelectorExpr); ok && isStoreSel(se.X) {
						if se.Sel.Name == "Write" {
							calls = append(calls, src(x.Fun))
						} else {
							calls = append(calls, strings.Join(strings.Fields(src(x)), " "))
						}
					} else if len(x.Args) == 1 && isStoreSel(x.Args[0]) {
						calls = append(calls, strings.Join(strings.Fields(src(x)), " "))
					}
				case *ast.SelectorExpr:
					if isStoreSel(x) {
						here = append(here, use{persistFuncName(pk.name, fd), src(x)})
					}
				}
				return true
			})
			if len(here) == 0 {
				continue
			}
			uses = append(uses, here...)
			o := op{fn: persistFuncName(pk.name, fd), calls: calls}
			if len(fd.Body.List) >= 2 {
				if es, ok := fd.Body.List[0].(*ast.ExprStmt); ok {
					t := src(es.X)
					if strings.HasSuffix(t, ".Lock()") {
						o.mu = strings.TrimSuffix(t, ".Lock()")
						if ds, ok := fd.Body.List[1].(*ast.DeferStmt); ok && src(ds.Call) == o.mu+".Unlock()" {
							o.shape = true
						}
					}
				}
			}
			ops = append(ops, o)
		}
	}
	sort.Slice(ops, func(i, j int) bool { return ops[i].fn < ops[j].fn })
	sort.SliceStable(uses, func(i, j int) bool { return uses[i].fn < uses[j].fn })
	b.WriteString("/-- Functions of hotline / internal/mobius that use the `MessageBoard` or `Agreement` field:\n")
	b.WriteString("    (function, mutex locked by the first statement, body is `m.Lock(); defer m.Unlock(); …`, calls on the store in order) -/\n")
	b.WriteString("def boardOps : List (String × String × Bool × List String) := [\n")
	for i, o := range ops {
		var cs []string
		for _, c := range o.calls {
			cs = append(cs, leanStr(c))
		}
		fmt.Fprintf(&b, "  (%s, %s, %v, [%s])", leanStr(o.fn), leanStr(o.mu), o.shape, strings.Join(cs, ", "))
		if i < len(ops)-1 {
			b.WriteString(",")
		}
		b.WriteString("\n")
	}
	b.WriteString("]\n\n")
	b.WriteString("/-- Every selector expression naming the `MessageBoard` / `Agreement` field: (enclosing function, expression) -/\n")
	b.WriteString("def boardFieldUses : List (String × String) := [\n")
	for i, u := range uses {
		fmt.Fprintf(&b, "  (%s, %s)", leanStr(u.fn), leanStr(u.expr))
		if i < len(uses)-1 {
			b.WriteString(",")
		}
		b.WriteString("\n")
	}
	b.WriteString("]\n\n")

	// ---- FlatNews.Write: what is assigned to f.data, what is written to the file
	assign, written := "", ""
	if fd := findFunc(mb, "FlatNews", "Write"); fd != nil {
		ast.Inspect(fd.Body, func(n ast.Node) bool {
			switch x := n.(type) {
			case *ast.AssignStmt:
				if len(x.Lhs) == 1 && src(x.Lhs[0]) == "f.data" && len(x.Rhs) == 1 {
					assign = strings.Join(strings.Fields(src(x.Rhs[0])), " ")
				}
			case *ast.CallExpr:
				if src(x.Fun) == "os.WriteFile" && len(x.Args) > 1 {
					written = strings.Join(strings.Fields(src(x.Args[1])), " ")
				}
			}
			return true
		})
	}
	b.WriteString("/-- `FlatNews.Write`: (right-hand side assigned to f.data, data argument of os.WriteFile) -/\n")
	fmt.Fprintf(&b, "def flatNewsWriteShape : String × String := (%s, %s)\n\n", leanStr(assign), leanStr(written))
	// ---- store methods: is the whole body under the store's own lock?
	b.WriteString("/-- Methods of the flat stores: (method, body is `m.Lock(); defer m.Unlock(); …` – i.e. the lock is taken before\n")
	b.WriteString("    anything else, in particular before the file is read in Reload) -/\n")
	b.WriteString("def storeLockFirst : List (String × Bool) := [\n")
	type sm struct{ recv, name string }
	sms := []sm{{"Agreement", "Read"}, {"Agreement", "Reload"}, {"FlatNews", "Read"}, {"FlatNews", "Reload"}, {"FlatNews", "Write"}}
	for i, m := range sms {
		okShape := false
		if fd := findFunc(mb, m.recv, m.name); fd != nil && fd.Body != nil && len(fd.Body.List) >= 2 {
			if es, ok := fd.Body.List[0].(*ast.ExprStmt); ok {
				t := src(es.X)
				if strings.HasSuffix(t, ".Lock()") {
					if ds, ok := fd.Body.List[1].(*ast.DeferStmt); ok && src(ds.Call) == strings.TrimSuffix(t, ".Lock()")+".Unlock()" {
						okShape = true
					}
				}
			}
		}
		fmt.Fprintf(&b, "  (%s, %v)", leanStr("mobius."+m.recv+"."+m.name), okShape)
		if i < len(sms)-1 {
			b.WriteString(",")
		}
		b.WriteString("\n")
	}
	b.WriteString("]\n\n")

	// ---- HandleTranOldPostNews: a failed PostMessageBoard must end the handler (no announcement, no reply)
	postErr := "not-found"
	if fd := findFunc(mb, "", "HandleTranOldPostNews"); fd != nil {
		for i, st := range fd.Body.List {
			if !strings.Contains(src(st), "PostMessageBoard(") {
				continue
			}
			var guard *ast.IfStmt
			if is, ok := st.(*ast.IfStmt); ok { // if err := …PostMessageBoard(…); err != nil { … }
				guard = is
			} else if i+1 < len(fd.Body.List) { // err := …PostMessageBoard(…); if err != nil { … }
				if is, ok := fd.Body.List[i+1].(*ast.IfStmt); ok {
					guard = is
				}
			}
			postErr = "unchecked"
			if guard != nil && strings.Contains(src(guard.Cond), "err != nil") {
				postErr = "logged-only"
				if n := len(guard.Body.List); n > 0 {
					if _, ok := guard.Body.List[n-1].(*ast.ReturnStmt); ok {
						postErr = "returns"
					}
				}
			}
			// SendAll must come after the post statement
			for _, later := range fd.Body.List[:i] {
				if strings.Contains(src(later), "SendAll(") {
					postErr = "announces-before-posting"
				}
			}
			break
		}
	}
	b.WriteString("/-- `HandleTranOldPostNews`: what happens when `PostMessageBoard` reports an error\n")
	b.WriteString("    (`returns` = the handler ends there: nothing is announced or acknowledged) -/\n")
	fmt.Fprintf(&b, "def postErrorHandling : String := %s\n\n", leanStr(postErr))
	// ---- the server binary's own start-up code (cmd/mobius-hotline-server): file-mutating os calls it makes itself
	repo := "/repo"
	if len(os.Args) > 1 {
		repo = os.Args[1]
	}
	b.WriteString("/-- File-mutating os.* calls made by the code of cmd/mobius-hotline-server itself (start-up path before and around the\n")
	b.WriteString("    loaders): (function, [(call, first argument, second argument, context)]).  Only `-init` may create files. -/\n")
	b.WriteString("def mainMutations : List (String × List (String × String × String × String)) := [\n")
	if st, err := os.Stat(filepath.Join(repo, "cmd", "mobius-hotline-server")); err == nil && st.IsDir() {
		mp := parseDir(filepath.Join(repo, "cmd", "mobius-hotline-server"))
		var mrows []row
		for _, fd := range persistSortedFuncs(mp) {
			cs := persistCallsOf(fd, persistConsts(mp))
			if len(cs) > 0 {
				mrows = append(mrows, row{persistFuncName("main", fd), cs})
			}
		}
		sort.Slice(mrows, func(i, j int) bool { return mrows[i].name < mrows[j].name })
		for i, r := range mrows {
			fmt.Fprintf(&b, "  (%s, [", leanStr(r.name))
			for j, c := range r.calls {
				if j > 0 {
					b.WriteString(",\n     ")
				}
				fmt.Fprintf(&b, "(%s, %s, %s, %s)", leanStr(c.fn), leanStr(c.a1), leanStr(c.a2), leanStr(c.ctx))
			}
			b.WriteString("])")
			if i < len(mrows)-1 {
				b.WriteString(",")
			}
			b.WriteString("\n")
		}
	}
	b.WriteString("]\n\n")
	b.WriteString("end Mobius.Generated\n")
	writeIfChanged(filepath.Join(out, "Persist.lean"), b.String())
}
