package main

// Generated/InitGuard.lean (C18): the shape of the `-init` block of cmd/mobius-hotline-server/main.go.
//
// The News model's `Deploy` has ONE flag `initialised` = "config.yaml exists in the configuration directory", and
// `start` copies the template only when it is false.  That is the code's behaviour only if the directory whose
// config.yaml the guard looks at IS the directory the template is copied over, the directory the configuration is
// loaded from, and the directory ThreadedNews.yaml is loaded from — and if the copy happens only when the stat
// reports "does not exist".  These expressions are regenerated here; Props/C18 proves the agreement.

import (
	"fmt"
	"go/ast"
	"go/parser"
	"os"
	"path/filepath"
	"strings"
)

func init() { extraGenerators = append(extraGenerators, genInitGuard) }

// joinParts reads path.Join(D, "file") / filepath.Join(D, "file") -> (src of D, file literal).
func joinParts(e ast.Expr) (dir, file string, ok bool) {
	c, isCall := e.(*ast.CallExpr)
	if !isCall || len(c.Args) != 2 {
		return
	}
	if s := src(c.Fun); s != "path.Join" && s != "filepath.Join" {
		return
	}
	f, okf := strLit(c.Args[1])
	if !okf {
		return
	}
	return src(c.Args[0]), f, true
}

func genInitGuard(hl, mb *pkgFiles, hdr, out string) {
	repo := "/repo"
	if len(os.Args) > 1 {
		repo = os.Args[1]
	}
	facts := map[string]string{}
	var problems []string
	set := func(k, v string) {
		if old, dup := facts[k]; dup && old != v {
			problems = append(problems, fmt.Sprintf("%s occurs twice with different values: %s / %s", k, old, v))
		}
		facts[k] = v
	}
	f, err := parser.ParseFile(fset, filepath.Join(repo, "cmd", "mobius-hotline-server", "main.go"), nil, 0)
	if err != nil {
		problems = append(problems, "cmd/mobius-hotline-server/main.go does not parse: "+err.Error())
	} else {
		var mainFn *ast.FuncDecl
		for _, d := range f.Decls {
			if fd, ok := d.(*ast.FuncDecl); ok && fd.Name.Name == "main" && fd.Recv == nil {
				mainFn = fd
			}
		}
		if mainFn == nil {
			problems = append(problems, "func main not found")
		} else {
			// which flag variable is "-init", which is "-config"
			flagVar := map[string]string{} // flag name -> variable
			ast.Inspect(mainFn.Body, func(n ast.Node) bool {
				as, ok := n.(*ast.AssignStmt)
				if !ok || len(as.Lhs) != 1 || len(as.Rhs) != 1 {
					return true
				}
				c, ok := as.Rhs[0].(*ast.CallExpr)
				if !ok || !strings.HasPrefix(src(c.Fun), "flag.") || len(c.Args) < 1 {
					return true
				}
				if name, ok := strLit(c.Args[0]); ok {
					flagVar[name] = src(as.Lhs[0])
				}
				return true
			})
			set("init_flag_var", flagVar["init"])
			set("config_flag_var", flagVar["config"])
			nInit := 0
			for _, st := range mainFn.Body.List {
				is, ok := st.(*ast.IfStmt)
				if !ok || flagVar["init"] == "" || src(is.Cond) != "*"+flagVar["init"] {
					continue
				}
				nInit++
				if is.Else != nil {
					problems = append(problems, "the -init block has an else branch")
				}
				// inside: exactly one `if _, err := os.Stat(X); COND { …copy… } else { … }`
				nGuard := 0
				for _, inner := range is.Body.List {
					g, ok := inner.(*ast.IfStmt)
					if !ok {
						problems = append(problems, "statement in the -init block outside the guard: "+strings.SplitN(src(inner), "\n", 2)[0])
						continue
					}
					nGuard++
					as, ok := g.Init.(*ast.AssignStmt)
					if !ok || len(as.Rhs) != 1 {
						problems = append(problems, "the guard has no `_, err := os.Stat(…)` initialiser")
						continue
					}
					c, ok := as.Rhs[0].(*ast.CallExpr)
					if !ok || src(c.Fun) != "os.Stat" || len(c.Args) != 1 {
						problems = append(problems, "the guard does not call os.Stat: "+src(as.Rhs[0]))
						continue
					}
					if d, file, ok := joinParts(c.Args[0]); ok {
						set("stat_dir", d)
						set("stat_file", strings.TrimPrefix(file, "/"))
					} else {
						problems = append(problems, "the guard's os.Stat argument is not path.Join(dir, \"file\"): "+src(c.Args[0]))
					}
					set("copy_when", src(g.Cond))
					// everything that writes is in the THEN branch
					ast.Inspect(g.Body, func(n ast.Node) bool {
						if c, ok := n.(*ast.CallExpr); ok {
							switch src(c.Fun) {
							case "copyDir":
								if len(c.Args) == 2 {
									set("copy_src", src(c.Args[0]))
									set("copy_dst", src(c.Args[1]))
								}
							case "os.MkdirAll":
								if len(c.Args) >= 1 {
									set("mkdir", src(c.Args[0]))
								}
							}
						}
						return true
					})
					if g.Else != nil {
						ast.Inspect(g.Else, func(n ast.Node) bool {
							if c, ok := n.(*ast.CallExpr); ok {
								if s := src(c.Fun); s == "copyDir" || strings.HasPrefix(s, "os.") && s != "os.Exit" {
									problems = append(problems, "the guard's else branch calls "+s)
								}
							}
							return true
						})
					}
				}
				if nGuard != 1 {
					problems = append(problems, fmt.Sprintf("%d guards in the -init block", nGuard))
				}
			}
			if nInit != 1 {
				problems = append(problems, fmt.Sprintf("%d `if *init` blocks in main", nInit))
			}
			// copyDir is called nowhere else
			nCopy := 0
			ast.Inspect(mainFn.Body, func(n ast.Node) bool {
				if c, ok := n.(*ast.CallExpr); ok {
					switch src(c.Fun) {
					case "copyDir":
						nCopy++
					case "mobius.LoadConfig":
						if len(c.Args) == 1 {
							if d, file, ok := joinParts(c.Args[0]); ok {
								set("config_dir", d)
								set("config_file", file)
							} else {
								problems = append(problems, "LoadConfig argument: "+src(c.Args[0]))
							}
						}
					case "mobius.NewThreadedNewsYAML":
						if len(c.Args) == 1 {
							if d, file, ok := joinParts(c.Args[0]); ok {
								set("news_dir", d)
								set("news_file", file)
							} else {
								problems = append(problems, "NewThreadedNewsYAML argument: "+src(c.Args[0]))
							}
						}
					}
				}
				return true
			})
			if nCopy != 1 {
				problems = append(problems, fmt.Sprintf("copyDir is called %d times in main", nCopy))
			}
		}
	}
	keys := []string{"init_flag_var", "config_flag_var", "stat_dir", "stat_file", "copy_when", "copy_src", "copy_dst", "mkdir", "config_dir", "config_file", "news_dir", "news_file"}
	var b strings.Builder
	b.WriteString(hdr)
	b.WriteString("/-- cmd/mobius-hotline-server/main.go, the `-init` block and the loaders: (what, Go expression) -/\ndef initGuard : List (String × String) := [\n")
	for i, k := range keys {
		sep := ","
		if i == len(keys)-1 {
			sep = ""
		}
		fmt.Fprintf(&b, "  (%s, %s)%s\n", leanStr(k), leanStr(facts[k]), sep)
	}
	b.WriteString("]\n\n/-- anything about the block that does not have the expected shape -/\ndef initGuardProblems : List String := [")
	for i, p := range problems {
		if i > 0 {
			b.WriteString(", ")
		}
		b.WriteString(leanStr(p))
	}
	b.WriteString("]\n\nend Mobius.Generated\n")
	writeIfChanged(filepath.Join(out, "InitGuard.lean"), b.String())
}
