//go:build c15

package main

// C15 — accounts: what can log in = what is listed = what is on disk.
//
// Real YAMLAccountManager on a throw-away directory + the real handlers (direct mode).  Every
// generated history is executed step by step on the real code and, as one line, on the Lean model
// (`c15run`, the definitions the theorems are about).  After EVERY step four views are taken from
// the implementation — login attempts through ClientConn.Authenticate for every login ever used
// (old and new passwords), the list-users reply, the parsed accounts directory and a second
// manager freshly loaded from the directory — and must agree with each other (direct monitor) and
// with the model's view of the same history (correspondence).

import (
	"encoding/binary"
	"fmt"
	"os"
	"sort"
	"strings"
	"time"

	"github.com/jhalter/mobius/hotline"
	"github.com/jhalter/mobius/internal/mobius"
	"golang.org/x/crypto/bcrypt"
	"gopkg.in/yaml.v3"
)

// yamlUnsafe is the stated exclusion rule for the trusted `deser (ser x) = x` assumption
// (gopkg.in/yaml.v3): a string containing LF whose first character is LF, TAB, U+2028 or U+2029
// does not survive a write/reload (known findings yaml-block-scalar-leading-whitespace).
func yamlUnsafe(s []byte) bool {
	if !strings.Contains(string(s), "\n") {
		return false
	}
	for _, p := range []string{"\n", "\t", " ", " "} {
		if strings.HasPrefix(string(s), p) {
			return true
		}
	}
	return false
}

// legalLogin mirrors Lean's LegalLogin (checked against the oracle's c15legal on every case).
func legalLogin(l []byte) bool {
	if len(l) == 0 || string(l) == "." || string(l) == ".." {
		return false
	}
	for _, b := range l {
		if b == '/' || b == 0 {
			return false
		}
	}
	return true
}

var c15LoginShapes = []string{
	"bob", "Bob", "a b", " lead", "trail ", "-dash", "--", "123", "0x1F", "1e3", "true", "no", "~", "null", "<<", "=",
	"x.yaml", ".hidden", "a:b", "a: b", "# c", "'q'", "\"dq\"", "*", "?", "[a]", "\\", "a\nb", "x\n", "tab\there", "cr\rx",
	"\xff\xfe", "\x80", "caf\xc3\xa9", "\xc3", "\xe2\x80\xa8x", "\xef\xbb\xbfb", "\x01", "\x7f", "2001-01-01", "...", "..x", "a..",
	"{", "}", "!t", "&a", "%", "@", "`", "|", ">", ",", "1:30", ".5", "-1", "+1", "0o7", "_", "\U0001F600",
}

func c15GenLogin(r *RNG) []byte {
	for {
		var l []byte
		switch r.Intn(10) {
		case 0, 1, 2, 3, 4:
			l = []byte(c15LoginShapes[r.Intn(len(c15LoginShapes))])
		case 5:
			l = r.Text(1 + r.Intn(12))
		case 6:
			l = r.Bytes(1 + r.Intn(8))
		case 7:
			l = []byte(r.Name(10))
		case 8: // around NAME_MAX: login+".yaml" is 250..257 bytes
			l = []byte(strings.Repeat(string(rune('a'+r.Intn(26))), r.Pick(200, 245, 246, 247, 250, 251, 252)))
		default:
			l = append([]byte(c15LoginShapes[r.Intn(len(c15LoginShapes))]), byte('0'+r.Intn(10)))
		}
		if legalLogin(l) && !yamlUnsafe(l) {
			return l
		}
	}
}

func c15GenName(r *RNG) []byte {
	for {
		var n []byte
		switch r.Intn(6) {
		case 0, 1:
			n = []byte(c15LoginShapes[r.Intn(len(c15LoginShapes))])
		case 2:
			n = r.Text(r.Intn(40))
		case 3:
			n = r.Bytes(r.Intn(20))
		case 4:
			n = []byte{}
		default:
			n = []byte(r.Name(20))
		}
		if !yamlUnsafe(n) {
			return n
		}
	}
}

// c15GenPw draws a password AS SENT (obfuscated bytes): 0..20 bytes.  bcrypt reads the
// NUL-terminated key cyclically, so `verify (hash p) q <-> p = q` is only assumed for the shapes
// generated here: no 0x00 byte at all, or (15 %) a single leading 0x00 followed by 1..4 non-zero
// bytes (clear text starting with 0xFF) — these never share a bcrypt key with each other, with ""
// or with the one-zero-byte "unchanged" marker, but they START like the marker.
func c15GenPw(r *RNG) []byte {
	if r.Chance(15) {
		b := []byte{0}
		for i := 0; i < 1+r.Intn(4); i++ {
			b = append(b, byte(1+r.Intn(255)))
		}
		return b
	}
	n := r.Pick(0, 1, 1, 2, 3, 5, 8, 20)
	b := make([]byte, n)
	for i := range b {
		b[i] = byte(1 + r.Intn(255))
	}
	return b
}

func c15GenAccess(r *RNG) []byte {
	switch r.Intn(8) {
	case 0:
		return []byte{}
	case 1:
		return r.Bytes(r.Intn(8))
	case 2:
		return r.Bytes(9 + r.Intn(3))
	default:
		return r.Bytes(8)
	}
}

type c15Field struct {
	ty   int
	data []byte
}

func c15Tok(fs []c15Field) string {
	var sb strings.Builder
	fmt.Fprintf(&sb, "%d", len(fs))
	for _, f := range fs {
		fmt.Fprintf(&sb, " %d %s", f.ty, hx(f.data))
	}
	return sb.String()
}

func c15Fields(fs []c15Field) []hotline.Field {
	var out []hotline.Field
	for _, f := range fs {
		var ty [2]byte
		binary.BigEndian.PutUint16(ty[:], uint16(f.ty))
		out = append(out, hotline.NewField(ty, f.data))
	}
	return out
}

// c15SubRecord encodes one update-user sub-record: count(2) then the sub-fields.
func c15SubRecord(fs []c15Field) []byte {
	b := be16(len(fs))
	for _, f := range c15Fields(fs) {
		b = append(b, encField(f)...)
	}
	return b
}

func encField(f hotline.Field) []byte {
	b := append([]byte{}, f.Type[:]...)
	b = append(b, f.FieldSize[:]...)
	return append(b, f.Data...)
}

func obf(b []byte) []byte { return hotline.EncodeString(b) }

// ---------------------------------------------------------------- one running history

type c15Run struct {
	c       *Case
	ts      *TS
	cc      *hotline.ClientConn
	toks    []string            // oracle tokens
	impl    []string            // implementation observations, one per model observation
	labels  []string            // what each observation is
	logins  [][]byte            // every login ever used
	pws     map[string][][]byte // login -> passwords (as sent) ever used with it
	hashPw  map[string]string   // bcrypt string -> hex of a password known to verify (cache)
	emptyPw map[string]bool     // bcrypt string -> verifies ""
	nDone   int
	nMut    int
	key     string // violation key for view disagreements
	dumps   []c15Dump
	wire    int
	mask    hotline.AccessBitmap // the privilege bits that exist (survive the YAML form); undefined bits are C16's subject
	viaWire bool                 // wave d: every request is serialised and parsed back by the real Transaction.Write (the connection loop's parser) before the handler sees it
	big     bool                 // wave d: requests carry large fields (4000 .. 60000 bytes) in every position and order
	budget  int                  // bytes left in the current request (a request must fit the connection scanner's 64 KiB token)
}

// access draws a privilege field restricted to the defined bits.
func (h *c15Run) access(r *RNG) []byte {
	b := c15GenAccess(r)
	for i := range b {
		if i < 8 {
			b[i] &= h.mask[i]
		}
	}
	if h.big && len(b) >= 8 && r.Chance(12) { // the handlers copy the first 8 bytes; the rest of an oversized field is ignored
		b = append(b[:8:8], c15BigBytes(r, r.Pick(4084, 4088, 5000))...)
	}
	return b
}

func (h *c15Run) addLogin(l []byte) {
	for _, x := range h.logins {
		if string(x) == string(l) {
			return
		}
	}
	h.logins = append(h.logins, l)
}

func (h *c15Run) addPw(l, pw []byte) {
	h.addLogin(l)
	for _, x := range h.pws[string(l)] {
		if string(x) == string(pw) {
			return
		}
	}
	h.pws[string(l)] = append(h.pws[string(l)], pw)
}

func (h *c15Run) obs(tok, label, impl string) {
	h.toks = append(h.toks, tok)
	h.labels = append(h.labels, label)
	h.impl = append(h.impl, impl)
}

func classify(res []hotline.Transaction, p any) string {
	switch {
	case p != nil:
		return "panic"
	case len(res) == 0:
		return "silent"
	case res[len(res)-1].ErrorCode != [4]byte{}:
		return "err"
	}
	return "done"
}

func (h *c15Run) verifies(hash string, pw []byte) bool {
	return bcrypt.CompareHashAndPassword([]byte(hash), pw) == nil
}

func (h *c15Run) hasEmptyPw(hash string) bool {
	v, ok := h.emptyPw[hash]
	if !ok {
		v = h.verifies(hash, []byte{})
		h.emptyPw[hash] = v
	}
	return v
}

type c15View struct {
	login, name, access, hash string
}

func (v c15View) String() string {
	return fmt.Sprintf("%s:%s:%s:%s", hx([]byte(v.login)), hx([]byte(v.name)), hx([]byte(v.access)), v.hash)
}

func viewOf(a hotline.Account) c15View {
	return c15View{a.Login, a.Name, string(a.Access[:]), a.Password}
}

// views takes the three stored views: memory (key -> account), directory (file -> account), reloaded manager.
func (h *c15Run) views() (mem, disk, load map[string]c15View, problems []string) {
	mem, disk, load = map[string]c15View{}, map[string]c15View{}, map[string]c15View{}
	for _, a := range h.ts.Acct.List() {
		g := h.ts.Acct.Get(a.Login)
		if g == nil || viewOf(*g) != viewOf(a) {
			problems = append(problems, fmt.Sprintf("listed account %q is not what Get returns under its login", a.Login))
		}
		mem[a.Login] = viewOf(a)
	}
	es, err := os.ReadDir(h.ts.Users)
	if err != nil {
		problems = append(problems, "cannot read accounts dir: "+err.Error())
	}
	for _, e := range es {
		b, err := os.ReadFile(h.ts.Users + "/" + e.Name())
		if err != nil || e.IsDir() {
			problems = append(problems, fmt.Sprintf("unreadable entry %q in accounts dir", e.Name()))
			continue
		}
		if !strings.HasSuffix(e.Name(), ".yaml") {
			// not an account file for the loader (it globs *.yaml) — but nothing else belongs here: the
			// writers remove / rename their temporary file, so a left-over copy of account data is reported
			// observation only: such a file is invisible to the loader, to list-users and to logins, so the
			// agreement the property states still holds (a left-over temporary file is untidy, not a violation)
			h.c.Dist("observation/stray-file-in-accounts-dir")
			continue
		}
		var a hotline.Account
		if err := yaml.Unmarshal(b, &a); err != nil {
			problems = append(problems, fmt.Sprintf("file %q does not parse: %v", e.Name(), err))
			continue
		}
		disk[e.Name()] = viewOf(a)
	}
	am2, err := mobius.NewYAMLAccountManager(h.ts.Users)
	if err != nil {
		problems = append(problems, "a second manager cannot load the directory: "+err.Error())
	} else {
		for _, a := range am2.List() {
			load[a.Login] = viewOf(a)
		}
	}
	return
}

func canonViews(m map[string]c15View, modelPw map[string]string) string {
	var es []string
	for k, v := range m {
		es = append(es, hx([]byte(k))+"="+fmt.Sprintf("%s:%s:%s:%s", hx([]byte(v.login)), hx([]byte(v.name)), hx([]byte(v.access)), modelPw[v.hash]))
	}
	sort.Strings(es)
	return strings.Join(es, ",")
}

// check is run after EVERY step: the four views agree with each other (direct monitor); tokens for
// the model's view of the same moment are appended (correspondence, compared at the end).
func (h *c15Run) check(step int) {
	c := h.c
	// view 2: list-users through the real handler
	res, _, p := h.ts.Call(h.cc, mkTran(hotline.TranListUsers, uint32(1000+step)))
	listObs := classify(res, p)
	listed := map[string]struct {
		name, access string
		hasPw        bool
	}{}
	if listObs == "done" {
		var recs []string
		for _, f := range res[0].Fields {
			recs = append(recs, hx(f.Data))
			// independent reference decoding of the record: count(2) then fields
			d := f.Data
			if len(d) < 2 {
				c.Violation("list-users-unparseable", "list-users record shorter than its field count")
				continue
			}
			n := int(binary.BigEndian.Uint16(d))
			d = d[2:]
			var name, login, access []byte
			hasPw := false
			ok := true
			for i := 0; i < n; i++ {
				if len(d) < 4 || len(d) < 4+int(binary.BigEndian.Uint16(d[2:4])) {
					ok = false
					break
				}
				l := int(binary.BigEndian.Uint16(d[2:4]))
				switch binary.BigEndian.Uint16(d[0:2]) {
				case 102:
					name = d[4 : 4+l]
				case 105:
					login = obf(d[4 : 4+l])
				case 110:
					access = d[4 : 4+l]
				case 106:
					hasPw = true
				}
				d = d[4+l:]
			}
			if !ok || len(d) != 0 {
				c.Note("record", hx(f.Data))
				c.Violation("list-users-unparseable", "list-users record does not parse as count + fields")
				continue
			}
			listed[string(login)] = struct {
				name, access string
				hasPw        bool
			}{string(name), string(access), hasPw}
		}
		sort.Strings(recs)
		listObs = fmt.Sprintf("users %d", len(recs))
		for _, r := range recs {
			listObs += " " + r
		}
	}
	h.obs("L", fmt.Sprintf("step %d list-users", step), listObs)

	mem, disk, load, problems := h.views()
	// ---- direct monitor: the views agree with each other
	// bad reports a disagreement between the views under a key naming the clause; in the long-logins
	// family disagreements about a long login keep that family's key.
	badK := func(key, login, what string) {
		c.Note("step", step)
		c.Note("history", strings.Join(h.toks, " "))
		if h.key == "rename-long-login-mem-disk-diverge" && len(login) > 200 {
			key = h.key
		}
		c.Violation(key, what)
	}
	for _, p := range problems {
		badK("accounts-dir-unloadable", "", p)
	}
	for l, v := range mem {
		if v.login != l {
			badK("memory-key-differs-from-login", l, fmt.Sprintf("memory holds login %q under key %q", v.login, l))
		}
		d, ok := disk[l+".yaml"]
		if !ok {
			badK("memory-without-file", l, fmt.Sprintf("login %q is in memory but has no file %q", l, l+".yaml"))
		} else if d.login != v.login {
			badK("file-holds-other-login", l, fmt.Sprintf("file %q says Login: %q but memory holds it as %q (a restart loads it under the login inside the file)", l+".yaml", d.login, v.login))
		} else if d != v {
			badK("file-content-differs-from-memory", l, fmt.Sprintf("login %q: file content (name / privileges / password hash) differs from memory", l))
		}
		if lv, ok := load[l]; !ok || lv != v {
			badK("restart-differs", l, fmt.Sprintf("login %q is in memory but a restart does not reproduce it", l))
		}
		li, ok := listed[l]
		if !ok {
			badK("list-users-differs", l, fmt.Sprintf("login %q can be looked up but is not in the list-users reply", l))
		} else if li.name != v.name || li.access != v.access || li.hasPw == h.hasEmptyPw(v.hash) {
			badK("list-users-differs", l, fmt.Sprintf("login %q: list-users shows other name/privileges/password flag than memory", l))
		}
		if !strings.HasPrefix(v.hash, "$2a$") || len(v.hash) != 60 {
			badK("password-not-hashed", l, fmt.Sprintf("login %q: stored password is not a bcrypt hash", l))
		}
		for _, pw := range h.pws[l] {
			if v.hash == string(pw) || v.hash == string(obf(pw)) || (len(pw) >= 6 && (strings.Contains(v.hash, string(pw)) || strings.Contains(v.hash, string(obf(pw))))) {
				badK("password-not-hashed", l, fmt.Sprintf("login %q: stored password field contains the password", l))
			}
		}
	}
	for f, d := range disk {
		if _, inMem := mem[strings.TrimSuffix(f, ".yaml")]; f != d.login+".yaml" && !inMem {
			badK("file-holds-other-login", d.login, fmt.Sprintf("file %q holds login %q", f, d.login))
		}
		if _, ok := mem[d.login]; !ok {
			badK("file-without-memory", d.login, fmt.Sprintf("file %q (login %q) has no account in memory", f, d.login))
		}
	}
	for l := range load {
		if _, ok := mem[l]; !ok {
			badK("restart-differs", l, fmt.Sprintf("a restart would bring back login %q which is not in memory", l))
		}
	}
	for l := range listed {
		if _, ok := mem[l]; !ok {
			badK("list-users-differs", l, fmt.Sprintf("list-users shows login %q which cannot be looked up", l))
		}
	}
	// ---- view 1: login attempts for every login ever used, old and new passwords
	for _, l := range h.logins {
		cands := append([][]byte{{}}, h.pws[string(l)]...)
		for _, pw := range cands {
			got := h.cc.Authenticate(string(l), pw)
			h.obs("I "+hx(l)+" "+hx(pw), fmt.Sprintf("step %d login %s pw %s", step, hx(l), hx(pw)), map[bool]string{true: "auth 1", false: "auth 0"}[got])
			v, inMem := mem[string(l)]
			if got && !inMem {
				badK("login-differs", string(l), fmt.Sprintf("login %q authenticates but is not listed", l))
			}
			if inMem && got != h.verifies(v.hash, pw) {
				badK("login-differs", string(l), fmt.Sprintf("login %q: Authenticate disagrees with the stored hash", l))
			}
			if got {
				h.hashPw[v.hash] = hx(pw)
			}
		}
	}
	// ---- the model's dump of the same moment; impl hashes are rendered as the password the MODEL
	// says is stored, after checking with bcrypt that the real hash accepts exactly that password.
	h.obs("X", fmt.Sprintf("step %d dump", step), "")
	h.impl[len(h.impl)-1] = "DUMP" // resolved in finish() (needs the model's passwords)
	h.dumps = append(h.dumps, c15Dump{len(h.impl) - 1, mem, disk, load})
}

type c15Dump struct {
	idx             int
	mem, disk, load map[string]c15View
}

func (h *c15Run) restart() string {
	am2, err := mobius.NewYAMLAccountManager(h.ts.Users)
	if err != nil {
		return "restart-failed"
	}
	h.ts.Acct = am2
	h.ts.Srv.AccountManager = am2
	return "done"
}

// wireLogins: REAL logins (handshake + login transaction through handleNewConnection) for every login
// ever used, with up to maxPw of the passwords ever used with it and "": the login succeeds iff the stored
// hash of exactly THAT login accepts the password, and the session that results is that account's
// (login, name, privileges) — not merely "some session".
func (h *c15Run) wireLogins(maxPw int) {
	c := h.c
	for _, l := range h.logins {
		cands := [][]byte{{}}
		for i, pw := range h.pws[string(l)] {
			if i < maxPw {
				cands = append(cands, pw)
			}
		}
		// the password that currently works, if it is among the ones ever used
		for _, pw := range cands {
			h.wire++
			addr := fmt.Sprintf("10.%d.%d.%d:5500", 1+h.wire/60000, (h.wire/250)%240, h.wire%250+1)
			w := h.ts.Connect(addr, nil)
			w.Conn.Feed(clientHandshake)
			w.Conn.Feed(encTran(mkTran(hotline.TranLogin, 1, fld(hotline.FieldUserLogin, obf(l)), fld(hotline.FieldUserPassword, pw))))
			var sess *hotline.ClientConn
			done := false
			waitFor(5*time.Second, func() bool {
				for _, cc := range h.ts.Srv.ClientMgr.List() {
					if cc.RemoteAddr == addr {
						sess = cc
						return true
					}
				}
				if _, fin := w.WaitDone(0); fin {
					done = true
					return true
				}
				return len(w.Conn.Written()) > 8
			})
			ok := sess != nil
			var got hotline.Account
			if ok && sess.Account != nil {
				got = *sess.Account
			}
			w.Conn.EOF()
			if !done {
				w.WaitDone(3 * time.Second)
			}
			h.ts.TakeOutbox()
			c.Dist(map[bool]string{true: "wire-login/accepted", false: "wire-login/refused"}[ok])
			h.obs("I "+hx(l)+" "+hx(pw), fmt.Sprintf("wire login %s pw %s", hx(l), hx(pw)), map[bool]string{true: "auth 1", false: "auth 0"}[ok])
			acct := h.ts.Acct.Get(string(l))
			want := acct != nil && h.verifies(acct.Password, pw)
			note := func() {
				c.Note("login", hx(l))
				c.Note("password_as_sent", hx(pw))
				c.Note("history", strings.Join(h.toks, " "))
			}
			if ok != want {
				note()
				c.Violation("login-differs", fmt.Sprintf("a real login as %q is %s although the account %s", l,
					map[bool]string{true: "accepted", false: "refused"}[ok],
					map[bool]string{true: "exists and its stored hash accepts that password", false: "does not exist or its stored hash rejects that password"}[want]))
			}
			if ok && acct != nil && (got.Login != string(l) || got.Name != acct.Name || got.Access != acct.Access || got.Password != acct.Password) {
				note()
				c.Note("session_login", hx([]byte(got.Login)))
				c.Violation("login-session-identity", fmt.Sprintf("logging in as %q yields a session of account %q", l, got.Login))
			}
		}
	}
}

// finish asks the model for the whole history and compares observation by observation.
func (h *c15Run) finish() {
	c := h.c
	ans := c.O.Ask("c15run 255 " + strings.Join(h.toks, " "))
	parts := strings.Split(ans, " | ")
	// initial `A` tokens produce no observation; count the observing tokens
	if len(parts) != len(h.impl) {
		c.Note("oracle", clip(ans))
		c.Note("history", strings.Join(h.toks, " "))
		c.Disagree("c15-oracle-shape", fmt.Sprintf("oracle returned %d observations for %d", len(parts), len(h.impl)))
		return
	}
	dumpAt := map[int]c15Dump{}
	for _, d := range h.dumps {
		dumpAt[d.idx] = d
	}
	for i := range parts {
		model := parts[i]
		impl := h.impl[i]
		if d, ok := dumpAt[i]; ok {
			// model: "dump mem a=login:name:access:pw,... disk ... load ..."
			modelPw := map[string]string{}
			resolve := func(m map[string]c15View, section string) {
				for k, v := range m {
					// find the model's password for this key in this section
					want := ""
					found := false
					for _, e := range strings.Split(section, ",") {
						if strings.HasPrefix(e, hx([]byte(k))+"=") {
							f := strings.Split(e, ":")
							want = f[len(f)-1]
							found = true
						}
					}
					if !found {
						continue
					}
					if cached, ok := h.hashPw[v.hash]; ok && cached == want {
						modelPw[v.hash] = want
					} else if h.verifies(v.hash, unhx(want)) {
						h.hashPw[v.hash] = want
						modelPw[v.hash] = want
					} else {
						modelPw[v.hash] = "HASH-DOES-NOT-ACCEPT-" + want
					}
				}
			}
			ms := strings.SplitN(strings.TrimPrefix(model, "dump mem "), " disk ", 2)
			if len(ms) != 2 {
				c.Disagree("c15-oracle-shape", "bad dump from oracle: "+clip(model))
				return
			}
			ds := strings.SplitN(ms[1], " load ", 2)
			if len(ds) != 2 {
				c.Disagree("c15-oracle-shape", "bad dump from oracle: "+clip(model))
				return
			}
			resolve(d.mem, ms[0])
			resolve(d.disk, ds[0])
			resolve(d.load, ds[1])
			impl = "dump mem " + canonViews(d.mem, modelPw) + " disk " + canonViews(d.disk, modelPw) + " load " + canonViews(d.load, modelPw)
			model = "dump mem " + sortCSV(ms[0]) + " disk " + sortCSV(ds[0]) + " load " + sortCSV(ds[1])
		} else if strings.HasPrefix(model, "user ") && strings.HasPrefix(impl, "user ") {
			// the password part is judged by the login attempts and the dump; the reply's hash is compared with the stored one directly
			model = strings.Join(strings.Fields(model)[:4], " ")
			impl = strings.Join(strings.Fields(impl)[:4], " ")
		} else if strings.HasPrefix(model, "users ") {
			f := strings.Fields(model)
			recs := f[2:]
			sort.Strings(recs)
			model = f[0] + " " + f[1]
			for _, r := range recs {
				model += " " + r
			}
		}
		if impl != model {
			c.Note("observation", h.labels[i])
			c.Note("history", strings.Join(h.toks, " "))
		}
		if !c.Corr("accounts-model", impl, model, false) {
			return
		}
	}
}

func sortCSV(s string) string {
	if s == "" {
		return ""
	}
	p := strings.Split(s, ",")
	sort.Strings(p)
	return strings.Join(p, ",")
}

func newC15Run(c *Case, key string) (*c15Run, error) {
	ts, err := newTS(TSOpt{Direct: true, Accounts: []AcctSpec{
		{Login: "admin", Name: "admin", Password: "adm", Access: allAccess()},
		{Login: "guest", Name: "Guest User", Password: "", Access: guestAccess()},
	}})
	if err != nil {
		return nil, err
	}
	cc, _ := ts.DirectClient("admin", []byte("admin"), "10.0.0.1:1234")
	h := &c15Run{c: c, ts: ts, cc: cc, pws: map[string][][]byte{}, hashPw: map[string]string{}, emptyPw: map[string]bool{}, key: key}
	all := ts.Acct.Get("admin").Access // all bits, as loaded: only the defined bits survive the YAML form
	h.mask = all
	ga := ts.Acct.Get("guest").Access
	h.toks = append(h.toks, "A "+hx([]byte("admin"))+" "+hx([]byte("admin"))+" "+hx(obf([]byte("adm")))+" "+hx(all[:])) // the fixture stores bcrypt(password as sent)
	h.toks = append(h.toks, "A "+hx([]byte("guest"))+" "+hx([]byte("Guest User"))+" - "+hx(ga[:]))
	h.addPw([]byte("guest"), []byte{})
	return h, nil
}
