//go:build c01

package main

// Folder download as the server really frames it (handleFileTransfer → DownloadFolderHandler over a
// pipe, a scripted client answering every item with send / resume / skip): every length prefix on the
// stream equals the bytes that follow — item header size, the 4-byte transfer size of each sent item,
// the INFO fork size inside the flattened header — and the data that follows is the file from the
// offset the client asked for.  (The tree-level properties of folder transfers are C10's.)

import (
	"bytes"
	"encoding/binary"
	"fmt"
	"io"
	"net"
	"os"
	"path/filepath"
	"time"

	"github.com/jhalter/mobius/hotline"
)

func init() {
	c01Extra = append(c01Extra, func(x *Ctx) {
		x.Add(&Family{Name: "folder-download-framing", Quick: 60, Thor: 1500, Run: func(c *Case) {
			r := c.R
			ts, err := newTS(TSOpt{Direct: true})
			if err != nil {
				c.Disagree("fixture", err.Error())
				return
			}
			defer ts.Close()
			// folder "dl" with 2..5 files (walk order = lexical)
			nFiles := 2 + r.Intn(4)
			contents := map[string][]byte{}
			os.MkdirAll(filepath.Join(ts.Root, "dl", "sub"), 0755)
			for i := 0; i < nFiles; i++ {
				name := fmt.Sprintf("f%d.txt", i)
				if r.Chance(30) {
					name = filepath.Join("sub", name)
				}
				data := r.Bytes(r.Pick(0, 1, 16, 100, 1000, 5000))
				contents[name] = data
				os.WriteFile(filepath.Join(ts.Root, "dl", name), data, 0644)
			}
			cc, _ := ts.DirectClient("admin", []byte("a"), "10.0.0.9:1234")
			// aliases inside the folder, made by the real Make-Alias handler: of files that live outside it (the item
			// must announce and deliver the TARGET's bytes), sometimes of a folder (announced as a folder item)
			nAlias := r.Pick(0, 1, 1, 2)
			os.MkdirAll(filepath.Join(ts.Root, "orig"), 0755)
			for k := 0; k < nAlias; k++ {
				name := fmt.Sprintf("al%d.txt", k)
				data := r.Bytes(r.Pick(0, 1, 16, 100, 1000, 5000))
				os.WriteFile(filepath.Join(ts.Root, "orig", name), data, 0644)
				dst, rel := "dl", name
				if r.Chance(40) {
					dst, rel = "dl/sub", filepath.Join("sub", name)
				}
				if !c01MakeAlias(ts, cc, "orig", name, dst) {
					c.Disagree("make-alias", "the make-alias request was refused")
					return
				}
				contents[rel] = data
			}
			if r.Chance(25) {
				os.MkdirAll(filepath.Join(ts.Root, "origdir"), 0755)
				os.WriteFile(filepath.Join(ts.Root, "origdir", "inner.txt"), r.Bytes(10), 0644)
				if !c01MakeAlias(ts, cc, "", "origdir", "dl") {
					c.Disagree("make-alias", "the make-alias request for a folder was refused")
					return
				}
			}
			res, _, pan := ts.Call(cc, mkTran(hotline.TranDownloadFldr, 5, fld(hotline.FieldFileName, []byte("dl"))))
			if pan != nil || len(res) != 1 || res[0].ErrorCode != [4]byte{} {
				c.Disagree("folder-download-request", fmt.Sprint("request refused / panic: ", pan))
				return
			}
			ref := res[0].GetField(hotline.FieldRefNum).Data
			srvSide, cliSide := net.Pipe()
			defer cliSide.Close()
			go func() {
				defer func() { recover() }()
				defer srvSide.Close()
				_ = ts.Srv.VerifHandleFileTransfer(srvSide, "10.0.0.9:1234")
			}()
			cliSide.SetDeadline(time.Now().Add(20 * time.Second))
			fail := func(key, what string) { c.Violation(key, what) }
			if _, err := cliSide.Write(append(append([]byte("HTXF"), ref...), 0, 0, 0, 0, 0, 0, 0, 0)); err != nil {
				c.Disagree("pipe", err.Error())
				return
			}
			cliSide.Write([]byte{0, 3}) // ready for the first item
			script := ""
			sent := 0
			for {
				// item header: size(2) type(2) path
				hdr := make([]byte, 4)
				if _, err := io.ReadFull(cliSide, hdr); err != nil {
					break // end of the transfer
				}
				plen := int(binary.BigEndian.Uint16(hdr[:2])) - 2
				if plen < 2 || plen > 4000 {
					c.Note("script", script)
					c.Note("item_header", hx(hdr))
					fail("folder-stream-framing", "after an item's bytes the stream does not continue with a well-formed item header")
					return
				}
				pb := make([]byte, plen)
				if _, err := io.ReadFull(cliSide, pb); err != nil {
					c.Note("script", script)
					fail("folder-stream-framing", "item header size exceeds the bytes that follow")
					return
				}
				var fp hotline.FilePath
				if _, err := fp.Write(pb); err != nil || int(fp.Len()) != len(fp.Items) {
					c.Note("script", script)
					c.Note("item_path", hx(pb))
					fail("folder-stream-framing", "item header path is not a well-formed file path")
					return
				}
				var comps []string
				for _, it := range fp.Items {
					comps = append(comps, string(it.Name))
				}
				rel := filepath.Join(comps...)
				isDir := hdr[3] == 1
				data, known := contents[rel]
				if isDir || !known {
					cliSide.Write([]byte{0, 3})
					script += " dir:" + rel
					continue
				}
				off := 0
				switch r.Intn(4) {
				case 0: // skip
					cliSide.Write([]byte{0, 3})
					script += " skip:" + rel
					continue
				case 1: // resume
					if len(data) > 0 {
						off = 1 + r.Intn(len(data))
					}
					frd := hotline.NewFileResumeData([]hotline.ForkInfoList{*hotline.NewForkInfoList(be32(off))})
					b, _ := frd.BinaryMarshal()
					cliSide.Write(append(append([]byte{0, 2}, be16(len(b))...), b...))
					script += fmt.Sprintf(" resume@%d:%s", off, rel)
				default:
					cliSide.Write([]byte{0, 1})
					script += " send:" + rel
				}
				pre := make([]byte, 4)
				if _, err := io.ReadFull(cliSide, pre); err != nil {
					c.Note("script", script)
					fail("folder-stream-framing", "no transfer size follows a requested item")
					return
				}
				total := int(binary.BigEndian.Uint32(pre))
				if total < 56 || total > 1<<20 {
					c.Note("script", script)
					c.Note("transfer_size", total)
					fail("folder-item-size-prefix", "implausible transfer size for a requested item")
					return
				}
				body := make([]byte, total)
				if _, err := io.ReadFull(cliSide, body); err != nil {
					c.Note("script", script)
					c.Note("transfer_size", total)
					fail("folder-item-size-prefix", "the transfer size of an item exceeds the bytes the server sends for it")
					return
				}
				infoLen := int(binary.BigEndian.Uint32(body[36:40]))
				hlen := 40 + infoLen + 16
				if hlen > total || !bytes.Equal(body[40+infoLen:44+infoLen], []byte("DATA")) {
					c.Note("script", script)
					fail("folder-item-header", "INFO fork size inside the flattened header does not lead to the DATA fork header")
					return
				}
				want := data[off:]
				got := body[hlen:]
				if len(got) >= len(want)+16 && bytes.Equal(got[len(want):len(want)+4], []byte("MACR")) {
					got = got[:len(want)] // empty resource fork header follows the data of a fully sent item
				}
				if !bytes.Equal(got, want) {
					c.Note("script", script)
					c.Note("item", rel)
					c.Note("offset", off)
					c.Note("transfer_size", total)
					c.Note("data_bytes_after_header", len(body)-hlen)
					c.Note("expected_data_bytes", len(want))
					fail("folder-item-size-prefix", "the bytes announced by an item's transfer size are not the flattened header plus the file from the requested offset")
					return
				}
				sent++
				cliSide.Write([]byte{0, 3})
			}
			c.Dist(fmt.Sprintf("folder-framing/items-sent-%d", min(sent, 4)))
			if sent > 0 {
				c.Nontrivial(script + fmt.Sprint(len(contents)))
			}
			if nAlias > 0 {
				c.Dist("folder-framing/with-aliases")
			}
		}})
	})
}
