//go:build c07 || c11

package main

// Helpers shared by C07 (containment) and C11 (file views): file requests as data, their wire
// form for the real handlers and their line form for the Lean oracle, canonical replies, and the
// directory tree as oracle tokens.

import (
	"bytes"
	"encoding/binary"
	"fmt"
	"os"
	"path/filepath"
	"sort"
	"strings"

	"github.com/jhalter/mobius/hotline"
	"golang.org/x/text/encoding/charmap"
)

type fileReq struct {
	Kind       string // list info setinfo delete move newfolder alias download upload dlfolder upfolder
	PF         []byte
	HasPF      bool
	Name       []byte
	NewPF      []byte
	HasNewPF   bool
	Comment    []byte
	HasComment bool
	NewName    []byte
	HasNewName bool
	Resume     bool
}

func optTok(b []byte, has bool) string {
	if !has {
		return "nil"
	}
	return hx(b)
}

// encItems is the FilePath wire form: count, then per item 0,0,len,name.
func encItems(items [][]byte) []byte {
	b := be16(len(items))
	for _, it := range items {
		b = append(b, 0, 0, byte(len(it)))
		b = append(b, it...)
	}
	return b
}

func (q fileReq) tran(id uint32) hotline.Transaction {
	var fs []hotline.Field
	add := func(id [2]byte, b []byte) { fs = append(fs, hotline.Field{Type: id, FieldSize: [2]byte{byte(len(b) >> 8), byte(len(b))}, Data: append([]byte{}, b...)}) }
	if q.Kind != "list" {
		add(hotline.FieldFileName, q.Name)
	}
	if q.HasPF {
		add(hotline.FieldFilePath, q.PF)
	}
	if q.HasNewPF {
		add(hotline.FieldFileNewPath, q.NewPF)
	}
	if q.HasComment {
		add(hotline.FieldFileComment, q.Comment)
	}
	if q.HasNewName {
		add(hotline.FieldFileNewName, q.NewName)
	}
	var ty hotline.TranType
	switch q.Kind {
	case "list":
		ty = hotline.TranGetFileNameList
	case "info":
		ty = hotline.TranGetFileInfo
	case "setinfo":
		ty = hotline.TranSetFileInfo
	case "delete":
		ty = hotline.TranDeleteFile
	case "move":
		ty = hotline.TranMoveFile
	case "newfolder":
		ty = hotline.TranNewFolder
	case "alias":
		ty = hotline.TranMakeFileAlias
	case "download":
		ty = hotline.TranDownloadFile
	case "upload":
		ty = hotline.TranUploadFile
		add(hotline.FieldTransferSize, []byte{0, 0, 0, 10})
		if q.Resume {
			add(hotline.FieldFileTransferOptions, []byte{0, 2})
		}
	case "dlfolder":
		ty = hotline.TranDownloadFldr
	case "upfolder":
		ty = hotline.TranUploadFldr
		add(hotline.FieldTransferSize, []byte{0, 0, 0, 10})
		add(hotline.FieldFolderItemCount, []byte{0, 1})
	}
	return mkTran(ty, id, fs...)
}

// oracleArgs renders the request for the `c11` oracle op.
func (q fileReq) oracleArgs() string {
	pf := optTok(q.PF, q.HasPF)
	switch q.Kind {
	case "list":
		return "list " + pf
	case "info", "delete", "newfolder", "download":
		return q.Kind + " " + pf + " " + hx(q.Name)
	case "setinfo":
		return "setinfo " + pf + " " + hx(q.Name) + " " + optTok(q.Comment, q.HasComment) + " " + optTok(q.NewName, q.HasNewName)
	case "move", "alias":
		return q.Kind + " " + pf + " " + hx(q.Name) + " " + optTok(q.NewPF, q.HasNewPF)
	case "upload":
		r := "0"
		if q.Resume {
			r = "1"
		}
		return "upload " + pf + " " + hx(q.Name) + " " + r
	}
	return "bad"
}

func (q fileReq) String() string {
	return fmt.Sprintf("%s pf=%s name=%s newpf=%s comment=%s newname=%s resume=%v", q.Kind, optTok(q.PF, q.HasPF), hx(q.Name),
		optTok(q.NewPF, q.HasNewPF), optTok(q.Comment, q.HasComment), optTok(q.NewName, q.HasNewName), q.Resume)
}

func getF(t *hotline.Transaction, id [2]byte) ([]byte, bool) {
	for _, f := range t.Fields {
		if f.Type == id {
			return f.Data, true
		}
	}
	return nil, false
}

type listEntry struct {
	Name    []byte
	Type    []byte
	Creator []byte
	Size    uint32
}

func parseList(t *hotline.Transaction) []listEntry {
	var out []listEntry
	for _, f := range t.Fields {
		if f.Type != hotline.FieldFileNameWithInfo || len(f.Data) < 20 {
			continue
		}
		d := f.Data
		nl := int(binary.BigEndian.Uint16(d[18:20]))
		if 20+nl > len(d) {
			nl = len(d) - 20
		}
		out = append(out, listEntry{Name: d[20 : 20+nl], Type: d[0:4], Creator: d[4:8], Size: binary.BigEndian.Uint32(d[8:12])})
	}
	return out
}

// canonReply renders what the handler returned in the format of the oracle's showReply.
func canonReply(kind string, res []hotline.Transaction, panicked any) string {
	if panicked != nil {
		return "panic"
	}
	if len(res) == 0 {
		return "none"
	}
	t := &res[0]
	if t.ErrorCode != [4]byte{} {
		return "err"
	}
	switch kind {
	case "list":
		es := parseList(t)
		var sb strings.Builder
		fmt.Fprintf(&sb, "list %d", len(es))
		for _, e := range es {
			fmt.Fprintf(&sb, " %s:%s:%s:%d", hx(e.Name), hx(e.Type), hx(e.Creator), e.Size)
		}
		return sb.String()
	case "info":
		n, _ := getF(t, hotline.FieldFileName)
		ts, _ := getF(t, hotline.FieldFileTypeString)
		cs, _ := getF(t, hotline.FieldFileCreatorString)
		ty, _ := getF(t, hotline.FieldFileType)
		c, hc := getF(t, hotline.FieldFileComment)
		sz, hs := getF(t, hotline.FieldFileSize)
		szs := "nil"
		if hs && len(sz) == 4 {
			szs = fmt.Sprint(binary.BigEndian.Uint32(sz))
		}
		return fmt.Sprintf("info %s %s %s %s %s %s", hx(n), hx(ts), hx(cs), hx(ty), optTok(c, hc), szs)
	case "download":
		x, _ := getF(t, hotline.FieldTransferSize)
		f, _ := getF(t, hotline.FieldFileSize)
		if len(x) != 4 || len(f) != 4 {
			return "download malformed"
		}
		return fmt.Sprintf("download %d %d", binary.BigEndian.Uint32(x), binary.BigEndian.Uint32(f))
	case "upload":
		rd, has := getF(t, hotline.FieldFileResumeData)
		if !has {
			return "upload nil"
		}
		// RFLT header: 4 format + 2 version + 34 rsvd + 2 count, then fork 4 type + 4 size ...
		if len(rd) >= 42+8 {
			return fmt.Sprintf("upload %d", binary.BigEndian.Uint32(rd[46:50]))
		}
		return "upload malformed"
	case "dlfolder", "upfolder":
		return "opaque"
	}
	return "ok"
}

type treeEnt struct {
	comps []string
	tok   string
}

func lessComps(a, b []string) bool {
	for i := 0; i < len(a) && i < len(b); i++ {
		if a[i] != b[i] {
			return a[i] < b[i]
		}
	}
	return len(a) < len(b)
}

// treeTokens renders the tree below root as oracle entries, sorted by component list (children of a
// folder in os.ReadDir order).  Dates inside `.info_*` files are zeroed (the model has no clock).
// ok=false when something is not representable for the model (a symlink pointing outside root).
func treeTokens(root string) (toks []string, ok bool) {
	ok = true
	var ents []treeEnt
	ents = append(ents, treeEnt{nil, "-:D"})
	var walk func(dir string, comps []string)
	walk = func(dir string, comps []string) {
		des, err := os.ReadDir(dir)
		if err != nil {
			ok = false
			return
		}
		for _, de := range des {
			c := append(append([]string{}, comps...), de.Name())
			p := filepath.Join(dir, de.Name())
			rel := hx([]byte(strings.Join(c, "/")))
			li, err := os.Lstat(p)
			if err != nil {
				ok = false
				continue
			}
			switch {
			case li.Mode()&os.ModeSymlink != 0:
				tgt, _ := os.Readlink(p)
				if tgt == root {
					ents = append(ents, treeEnt{c, rel + ":L:-"})
				} else if strings.HasPrefix(tgt, root+"/") {
					ents = append(ents, treeEnt{c, rel + ":L:" + hx([]byte(tgt[len(root)+1:]))})
				} else {
					ok = false
				}
			case li.IsDir():
				ents = append(ents, treeEnt{c, rel + ":D"})
				walk(p, c)
			default:
				b, _ := os.ReadFile(p)
				if strings.HasPrefix(de.Name(), ".info_") && len(b) >= 68 {
					b = append([]byte{}, b...)
					for i := 52; i < 68; i++ {
						b[i] = 0
					}
				}
				ents = append(ents, treeEnt{c, rel + ":F:" + hx(b)})
			}
		}
	}
	walk(root, nil)
	sort.SliceStable(ents, func(i, j int) bool { return lessComps(ents[i].comps, ents[j].comps) })
	for _, e := range ents {
		toks = append(toks, e.tok)
	}
	return toks, ok
}

func sortedCopy(xs []string) []string {
	c := append([]string{}, xs...)
	sort.Strings(c)
	return c
}

// splitOracleStep parses "R <reply…> T <n> <entry>*" into the reply string and the sorted entries.
func splitOracleStep(ans string) (reply string, tree []string, ok bool) {
	if !strings.HasPrefix(ans, "R ") {
		return ans, nil, false
	}
	i := strings.LastIndex(ans, " T ")
	if i < 0 {
		return ans, nil, false
	}
	reply = ans[2:i]
	parts := strings.Fields(ans[i+3:])
	if len(parts) == 0 {
		return reply, nil, false
	}
	return reply, sortedCopy(parts[1:]), true
}

var macEncoder = charmap.Macintosh.NewEncoder()
var macDecoder = charmap.Macintosh.NewDecoder()

// macEnc encodes a UTF-8 disk name the way the file list does.
func macEnc(s string) ([]byte, bool) {
	e, err := charmap.Macintosh.NewEncoder().String(s)
	if err != nil {
		return nil, false
	}
	return []byte(e), true
}

func macDec(b []byte) string {
	s, _ := charmap.Macintosh.NewDecoder().String(string(b))
	return s
}

// validInfoFork builds the bytes of an information fork file.
func validInfoFork(ty, creator string, name, comment []byte) []byte {
	var b bytes.Buffer
	b.WriteString("AMAC")
	b.WriteString(ty)
	b.WriteString(creator)
	b.Write(make([]byte, 4))
	b.Write([]byte{0, 0, 1, 0})
	b.Write(make([]byte, 32))
	b.Write(make([]byte, 16))
	b.Write([]byte{0, 0})
	b.Write(be16(len(name)))
	b.Write(name)
	b.Write(be16(len(comment)))
	b.Write(comment)
	return b.Bytes()
}
