//go:build c01

package main

// C01 — wire format fidelity: every Go encoder is drained through scripted buffer sizes and
// compared byte for byte with the reference Hotline layout computed by the Lean oracle; every Go
// decoder is run on encoder output, mutated and random bytes and compared with the mirrored model.

import (
	"encoding/binary"
	"fmt"
	"io"
	"strings"

	"github.com/jhalter/mobius/hotline"
)

func init() {
	props["C01"] = func(x *Ctx) {
		x.rule = "objects generated from the repo's own types with lengths biased to 0,1,255,256,65532..65535; each encoder drained under 7 buffer-size scripts and compared with the Lean reference layout; decoders run on encoder output, 7 mutation kinds and random bytes and compared with the mirrored model. non-trivial = object with at least one variable-length part non-empty (encoders) / input that reaches the field loop or a bounds decision (decoders); distinct = distinct canonical bytes. send path (wave d): histories of 4..23 transactions to 2..4 registered clients and one unknown client through the real sendTransaction (called directly, and through the real processOutbox), the connections failing scripted Write calls (error after 0 / a few / many bytes), every history with at least one failed write followed by a later send; non-trivial = every history; distinct = distinct history. downloads (wave d): 2..4 files (0..40000 bytes, some with a stored resource fork) in 4 folders plus 0..3 aliases made by the real Make-Alias handler (aliases of aliases included), each entry downloaded whole or resumed through the real download handler + handleFileTransfer; folder downloads with aliases of outside files / of a folder inside the folder; non-trivial = alias download / folder with an item sent; distinct = (name, chain length, offset, content)"
		x.assume = []string{
			"reference layouts in lean/MobiusModel/Wire.lean transcribed from docs/HLProtocol (trusted transcription)",
			"Go slices handed to decoders have cap == len (as the server's copies do)",
		}
		x.Add(&Family{Name: "transaction-encode", Quick: 2500, Thor: 60000, Run: func(c *Case) {
			r := c.R
			fs := genFields(r, 200000)
			t := hotline.Transaction{Flags: byte(r.Pick(0, 0, 0, r.Intn(256))), IsReply: byte(r.Pick(0, 1, r.Intn(256))), Fields: fs}
			binary.BigEndian.PutUint16(t.Type[:], uint16(r.Pick(107, 105, 200, 0, r.Intn(65536))))
			binary.BigEndian.PutUint32(t.ID[:], uint32(r.U64()))
			binary.BigEndian.PutUint32(t.ErrorCode[:], uint32(r.Pick(0, 1, int(r.U64()&0x7fffffff))))
			line := fmt.Sprintf("tran %d %d %d %d %d%s", t.Flags, t.IsReply, binary.BigEndian.Uint16(t.Type[:]),
				binary.BigEndian.Uint32(t.ID[:]), binary.BigEndian.Uint32(t.ErrorCode[:]), fieldArgs(fs))
			ref := c.O.Ask(line)
			c.Note("fields", len(fs))
			checkEncoder(c, "Transaction", func() io.Reader { tt := t; return &tt }, ref)
			if len(fs) > 0 {
				c.Nontrivial(ref)
			}
			c.Sample(map[string]any{"family": "transaction-encode", "fields": len(fs), "bytes": len(ref) / 2})
			// decode what was encoded (round trip through the real decoder) when every field fits a scanner token
			enc := unhx(ref)
			got := goTranDecode(enc)
			want := c.O.Ask("trandec " + hx(enc))
			c.Corr("Transaction.Write", got, want, false)
			if got != tranCanon(&t) {
				c.Note("decoded", clip(got))
				big := false
				for _, f := range fs {
					if len(f.Data) > 65532 {
						big = true
					}
				}
				if big {
					c.Violation("field-over-65532-undecodable", "a transaction carrying a field of 65533..65535 data bytes is emitted but cannot be decoded")
				} else {
					c.Violation("transaction-roundtrip", "decoding an emitted transaction does not yield the original object")
				}
			}
		}})
		x.Add(&Family{Name: "transaction-decode-malformed", Quick: 6000, Thor: 300000, Run: func(c *Case) {
			r := c.R
			fs := genFields(r, 3000)
			t := hotline.Transaction{Fields: fs}
			binary.BigEndian.PutUint16(t.Type[:], uint16(r.Intn(600)))
			enc, _ := io.ReadAll(&t)
			in := mutate(r, enc)
			if r.Chance(30) {
				in = mutate(r, in)
			}
			got := goTranDecode(in)
			want := c.O.Ask("trandec " + hx(in))
			c.Note("input", short(in))
			c.Dist("decode/" + strings.SplitN(got, " ", 2)[0])
			if len(in) >= 22 {
				c.Nontrivial(string(in))
			}
			c.Corr("Transaction.Write", got, want, false)
		}})
		x.Add(&Family{Name: "field", Quick: 3000, Thor: 100000, Run: func(c *Case) {
			r := c.R
			l := sizeBias(r, 65535)
			var ty [2]byte
			binary.BigEndian.PutUint16(ty[:], uint16(r.Intn(65536)))
			f := hotline.NewField(ty, r.Bytes(l))
			ref := c.AskS("field", fmt.Sprint(binary.BigEndian.Uint16(ty[:])), hx(f.Data))
			checkEncoder(c, "Field", func() io.Reader { ff := f; return &ff }, ref)
			if l > 0 {
				c.Nontrivial(ref)
			}
			enc := unhx(ref)
			if binary.BigEndian.Uint16(enc[2:4]) != uint16(len(enc)-4) {
				c.Violation("field-prefix", "field size prefix differs from the data length")
			}
			in := enc
			if r.Chance(50) {
				in = mutate(r, enc)
			}
			c.Corr("Field.Write", goFieldDecode(in), c.O.Ask("fielddec "+hx(in)), false)
		}})
		registerC01Objects(x)
		for _, f := range c01Extra {
			f(x)
		}
	}
}

var c01Extra []func(x *Ctx)
