//go:build c18

package main

// C18 — threaded news keeps every article and threads new ones correctly.
//
// Real ThreadedNewsYAML on a throw-away file + the real news handlers (direct mode).  Every
// generated history runs step by step on the real code and, as one line, on the Lean model
// (`c18run`).  Replies (get-article 400, list-articles 371, list-categories 370) are compared with
// the model's; article lists are additionally parsed with the reference parser (`artparse`); direct
// monitors judge the implementation's own tree before/after each request (fresh id, links, frame,
// exact deletes, nothing persisted by a contained panic); after each history a second store loaded
// from the YAML file must answer like the model's view of the file.

import (
	"bytes"
	"encoding/binary"
	"fmt"
	"os"
	"sort"
	"strings"

	"github.com/jhalter/mobius/hotline"
	"github.com/jhalter/mobius/internal/mobius"
)

// c18YamlUnsafe: the stated exclusion rule for the YAML round-trip assumption (known findings
// yaml-block-scalar-leading-whitespace, yaml-merge-key-name).
func c18YamlUnsafe(s []byte) bool {
	if !bytes.Contains(s, []byte("\n")) {
		return false
	}
	for _, p := range []string{"\n", "\t", " ", " "} {
		if strings.HasPrefix(string(s), p) {
			return true
		}
	}
	return false
}

var c18Shapes = []string{
	"News", "General", "a b", " lead", "trail ", "-dash", "123", "true", "~", "null", "=", "a: b", "# c", "'q'", "\"dq\"",
	"x\ny", "cr\rx", "\xff\xfe", "\x80", "caf\xc3\xa9", "\xc3", "\xe2\x80\xa8x", "\x01", "2001-01-01", "...", "{", "[", "!t", "&a", "*a", "|", ">", "%", "@", "`", "0x1F", "1e3", ".", "..", "/", "a/b", "\U0001F600",
}

func c18Text(r *RNG, max int) []byte {
	for {
		var b []byte
		switch r.Intn(8) {
		case 0, 1:
			b = []byte(c18Shapes[r.Intn(len(c18Shapes))])
		case 2:
			b = r.Text(r.Intn(40))
		case 3:
			b = r.Bytes(r.Intn(24))
		case 4:
			b = []byte(r.Name(30))
		case 5:
			b = r.Text(r.Pick(max, max-1, max/2, 200))
		case 6:
			b = []byte{}
		default:
			b = r.Text(1 + r.Intn(12))
		}
		if len(b) > max {
			b = b[:max]
		}
		if !c18YamlUnsafe(b) {
			return b
		}
	}
}

func c18Name(r *RNG) []byte {
	for {
		var b []byte
		switch r.Intn(6) {
		case 0, 1, 2:
			b = []byte(c18Shapes[r.Intn(len(c18Shapes))])
		case 3:
			b = r.Text(1 + r.Intn(10))
		case 4:
			b = r.Bytes(1 + r.Intn(6))
		default:
			b = r.Text(r.Pick(0, 1, 31, 255))
		}
		if !c18YamlUnsafe(b) && string(b) != "<<" {
			return b
		}
	}
}

func c18Body(r *RNG, thorough bool, bigLeft *int) []byte {
	big := 4
	if thorough {
		big = 12
	}
	if *bigLeft > 0 && r.Chance(big) {
		*bigLeft--
		n := r.Pick(65535, 65534, 32768, 32767, 40000, 65535)
		b := bytes.Repeat(r.Text(1+r.Intn(40)), n/1+1)[:n]
		if c18YamlUnsafe(b) {
			b[0] = 'x'
		}
		return b
	}
	if r.Chance(6) {
		// around the initial buffer of the field scanner (4096) and a few multiples
		n := r.Pick(4000, 4090, 4096, 4097, 5000, 8192, 12000) - r.Intn(3)
		b := bytes.Repeat(r.Text(1+r.Intn(40)), n+1)[:n]
		if c18YamlUnsafe(b) {
			b[0] = 'x'
		}
		return b
	}
	for {
		var b []byte
		switch r.Intn(5) {
		case 0:
			b = []byte{}
		case 1:
			b = r.Text(r.Intn(2000))
		case 2:
			b = []byte(strings.Repeat("line of text\r", r.Intn(30)))
		case 3:
			b = r.Bytes(r.Intn(300))
		default:
			b = c18Text(r, 255)
		}
		if !c18YamlUnsafe(b) {
			return b
		}
	}
}

func newsPathField(p [][]byte) []byte {
	b := be16(len(p))
	for _, n := range p {
		b = append(b, 0, 0, byte(len(n)))
		b = append(b, n...)
	}
	return b
}

func pathTok(p [][]byte) string {
	s := fmt.Sprint(len(p))
	for _, n := range p {
		s += " " + hx(n)
	}
	return s
}

func cksum(b []byte) uint32 {
	h := uint32(7)
	for _, x := range b {
		h = h*31 + uint32(x)
	}
	return h
}

// ---------------------------------------------------------------- snapshots of the implementation's tree

type c18Art struct {
	title, poster, data            string
	date                           [8]byte
	prev, next, parent, firstChild uint32
}
type c18Item struct {
	ty   [2]byte
	arts map[uint32]c18Art
}

// pathKey: injective rendering of a path (length-prefixed components), so that "is at or below" is a prefix test.
func pathKey(p []string) string {
	var sb strings.Builder
	for _, c := range p {
		fmt.Fprintf(&sb, "%d:%s,", len(c), c)
	}
	return sb.String()
}

// childName: key = path ++ [name] ?
func childName(key string, path []string) (string, bool) {
	pre := pathKey(path)
	if !strings.HasPrefix(key, pre) || len(key) == len(pre) {
		return "", false
	}
	rest := key[len(pre):]
	var n int
	i := strings.IndexByte(rest, ':')
	if i < 0 {
		return "", false
	}
	fmt.Sscan(rest[:i], &n)
	if len(rest) != i+1+n+1 {
		return "", false
	}
	return rest[i+1 : i+1+n], true
}

func snapTree(cats map[string]hotline.NewsCategoryListData15, prefix []string, out map[string]c18Item) {
	for k, c := range cats {
		p := append(append([]string{}, prefix...), k)
		it := c18Item{ty: c.Type, arts: map[uint32]c18Art{}}
		for id, a := range c.Articles {
			it.arts[id] = c18Art{a.Title, a.Poster, a.Data, a.Date, binary.BigEndian.Uint32(a.PrevArt[:]), binary.BigEndian.Uint32(a.NextArt[:]),
				binary.BigEndian.Uint32(a.ParentArt[:]), binary.BigEndian.Uint32(a.FirstChildArt[:])}
		}
		out[pathKey(p)] = it
		snapTree(c.SubCats, p, out)
	}
}

func (h *c18Run) snap() map[string]c18Item {
	out := map[string]c18Item{}
	snapTree(h.ts.News.ThreadedNews.Categories, nil, out)
	return out
}

func (a c18Art) content() string {
	return fmt.Sprintf("%q|%q|%x|%q", a.title, a.poster, a.date, a.data)
}

// ---------------------------------------------------------------- a running history

type c18Run struct {
	c        *Case
	ts       *TS
	cc       *hotline.ClientConn
	file     string
	toks     []string
	impl     []string
	labels   []string
	nPost    int
	nPanic   int
	nDel     int
	tid      uint32
	quiet    bool // skip the follow-up queries of a step (long histories)
	nReload  int
	saved    []byte
	hasSaved bool
	// wave d
	forceWire   bool // every request goes through the wire parser
	wireDiffers int  // requests whose parsed fields differed from the fields sent (diagnosis; the property's monitors judge)
	noFinish    bool
}

func (h *c18Run) obs(tok, label, impl string) {
	h.toks = append(h.toks, tok)
	h.labels = append(h.labels, label)
	h.impl = append(h.impl, impl)
}

// c18Sentinel marks the end of what one dispatched request queued on the outbox.
var c18Sentinel = hotline.TranType{0xff, 0xfe}

// call sends one request.  Half of the requests (and every post with a large body) go through
// ClientConn.handleTransaction — the dispatch a real connection uses, replies travel over the outbox —
// the others call the registered handler function directly.
func (h *c18Run) call(ty hotline.TranType, fs ...hotline.Field) ([]hotline.Transaction, any) {
	h.tid++
	big := false
	total := 0
	for _, f := range fs {
		total += 4 + len(f.Data)
		if len(f.Data) > 30000 {
			big = true
		}
	}
	mode := h.c.R.Intn(3) // 0 = registered handler, 1 = handleTransaction on a built Transaction, 2 = through the wire parser
	if h.forceWire {
		mode = 2
	}
	if big && mode == 0 {
		mode = 1 + h.c.R.Intn(2)
	}
	if mode == 0 {
		res, _, p := h.ts.Call(h.cc, mkTran(ty, h.tid, fs...))
		return res, p
	}
	req := mkTran(ty, h.tid, fs...)
	if mode == 2 {
		// what a client does: serialise (fields in an arbitrary order), and what a connection does with the
		// bytes: the real Transaction.Write (bufio.Scanner + FieldScanner) builds the Transaction the handler sees
		perm := c18Permute(h.c.R, fs)
		wire := c18WireBytes(ty, h.tid, perm)
		var parsed hotline.Transaction
		var perr error
		func() {
			defer func() {
				if r := recover(); r != nil {
					perr = fmt.Errorf("panic in Transaction.Write: %v", r)
				}
			}()
			_, perr = parsed.Write(wire)
		}()
		h.c.Dist("dispatch/wire-parser")
		h.c.Dist(fmt.Sprintf("wire-request-bytes/%s", c18SizeBucket(total)))
		if perr != nil {
			// the connection loop drops a transaction it cannot parse: the request is lost
			h.c.Note("wire_parse_error", perr.Error())
			return nil, nil
		}
		if d := c18FieldsDiffer(perm, parsed.Fields); d != "" {
			h.c.Note("wire_parse_differs", d)
			h.c.Note("wire_field_order", c18FieldOrder(perm))
			h.wireDiffers++
		}
		req = parsed
	} else {
		h.c.Dist("dispatch/handleTransaction")
	}
	var panicked any
	func() {
		defer func() {
			if r := recover(); r != nil {
				panicked = r
			}
		}()
		h.cc.VerifHandleTransaction(req)
	}()
	// barrier: once the collector has taken the sentinel it has stored everything sent before it
	h.ts.Srv.VerifOutbox() <- hotline.Transaction{Type: c18Sentinel}
	var res []hotline.Transaction
	for _, t := range h.ts.TakeOutbox() {
		if t.Type != c18Sentinel {
			res = append(res, t)
		}
	}
	return res, panicked
}

// c18WireBytes: an independent serialiser of a request (header, field count, fields in the given order).
func c18WireBytes(ty hotline.TranType, id uint32, fs []hotline.Field) []byte {
	var payload []byte
	payload = append(payload, be16(len(fs))...)
	for _, f := range fs {
		payload = append(payload, f.Type[0], f.Type[1])
		payload = append(payload, be16(len(f.Data))...)
		payload = append(payload, f.Data...)
	}
	b := []byte{0, 0, ty[0], ty[1]}
	b = append(b, be32(int(id))...)
	b = append(b, 0, 0, 0, 0)
	b = append(b, be32(len(payload))...)
	b = append(b, be32(len(payload))...)
	return append(b, payload...)
}

func c18Permute(r *RNG, fs []hotline.Field) []hotline.Field {
	out := append([]hotline.Field{}, fs...)
	if r.Chance(30) {
		return out // the order a well-known client uses
	}
	for i := len(out) - 1; i > 0; i-- {
		j := r.Intn(i + 1)
		out[i], out[j] = out[j], out[i]
	}
	return out
}

func c18FieldOrder(fs []hotline.Field) string {
	s := ""
	for _, f := range fs {
		s += fmt.Sprintf("%d(%d) ", binary.BigEndian.Uint16(f.Type[:]), len(f.Data))
	}
	return s
}

func c18FieldsDiffer(sent, got []hotline.Field) string {
	if len(sent) != len(got) {
		return fmt.Sprintf("%d fields sent, %d parsed", len(sent), len(got))
	}
	for i := range sent {
		if sent[i].Type != got[i].Type || !bytes.Equal(sent[i].Data, got[i].Data) {
			return fmt.Sprintf("field %d (type %d, %d bytes) parsed as type %d, %d bytes, data equal: %v", i, binary.BigEndian.Uint16(sent[i].Type[:]), len(sent[i].Data),
				binary.BigEndian.Uint16(got[i].Type[:]), len(got[i].Data), bytes.Equal(sent[i].Data, got[i].Data))
		}
	}
	return ""
}

func c18SizeBucket(n int) string {
	switch {
	case n <= 4096:
		return "le-4096"
	case n <= 8192:
		return "le-8192"
	case n <= 32768:
		return "le-32768"
	}
	return "gt-32768"
}

func c18Kind(res []hotline.Transaction, p any) string {
	switch {
	case p != nil:
		return "panic"
	case len(res) == 0:
		return "silent"
	case res[len(res)-1].ErrorCode != [4]byte{}:
		return "err"
	}
	return "done"
}

func strs(p [][]byte) []string {
	s := make([]string, len(p))
	for i, x := range p {
		s[i] = string(x)
	}
	return s
}

func (h *c18Run) viol(key, what string) {
	h.c.Note("history", clip(strings.Join(h.toks, " ")))
	h.c.Violation(key, what)
}

// frame checks that everything except the named item (or subtree, when sub is true) is identical.
func (h *c18Run) frame(before, after map[string]c18Item, except []string, sub bool, key, what string) {
	ek := pathKey(except)
	isEx := func(k string) bool {
		if k == ek {
			return true
		}
		return sub && strings.HasPrefix(k, ek)
	}
	for k, b := range before {
		if isEx(k) {
			continue
		}
		a, ok := after[k]
		if !ok {
			h.viol(key, fmt.Sprintf("%s: item %q disappeared", what, k))
			return
		}
		if a.ty != b.ty || len(a.arts) != len(b.arts) {
			h.viol(key, fmt.Sprintf("%s: item %q changed", what, k))
			return
		}
		for id, x := range b.arts {
			if y, ok := a.arts[id]; !ok || x != y {
				h.viol(key, fmt.Sprintf("%s: article %d of item %q changed", what, id, k))
				return
			}
		}
	}
	for k := range after {
		if _, ok := before[k]; !ok && !isEx(k) {
			h.viol(key, fmt.Sprintf("%s: item %q appeared", what, k))
			return
		}
	}
}

func (h *c18Run) fileBytes() []byte {
	b, _ := os.ReadFile(h.file)
	return b
}

// stepPost posts (parent 0) or replies.
func (h *c18Run) stepPost(path [][]byte, parent uint32, idField []byte, title, poster, body []byte) {
	c := h.c
	before := h.snap()
	fileBefore := h.fileBytes()
	h.cc.UserName = poster
	fs := []hotline.Field{fld(hotline.FieldNewsPath, newsPathField(path)), fld(hotline.FieldNewsArtID, idField),
		fld(hotline.FieldNewsArtTitle, title), fld(hotline.FieldNewsArtDataFlav, []byte("text/plain")), fld(hotline.FieldNewsArtData, body)}
	res, p := h.call(hotline.TranPostNewsArt, fs...)
	kind := c18Kind(res, p)
	after := h.snap()
	pk := pathKey(strs(path))
	var date [8]byte
	bi, existed := before[pk]
	ai := after[pk]
	newID := uint32(0)
	for id := range ai.arts {
		if _, ok := bi.arts[id]; !ok {
			if newID != 0 {
				h.viol("post-adds-several", "one post added more than one article")
			}
			newID = id
		}
	}
	c.Dist("post/" + kind + map[bool]string{true: "/stored", false: "/not-stored"}[newID != 0])
	if kind == "panic" {
		h.nPanic++
	}
	// ---- direct monitors on the implementation's own tree
	h.frame(before, after, strs(path), false, "post-touches-other-category", "post")
	// a new thread (or a reply to a present article) in an existing item must be stored — in particular
	// in a category that is empty (fresh, or emptied by deletes) and was reloaded from the file
	if _, parentThere := bi.arts[parent]; existed && newID == 0 && len(path) > 0 && (len(idField) == 2 || len(idField) == 4) && (parent == 0 || parentThere) {
		c.Note("path", fmt.Sprintf("%q", strs(path)))
		c.Note("reply_kind", kind)
		if len(bi.arts) == 0 {
			h.viol("post-into-empty-category-fails", fmt.Sprintf("a post into the existing but empty item %q was not stored (%s); reloads so far: %d", strs(path), kind, h.nReload))
		} else {
			h.viol("post-refused", fmt.Sprintf("a post into the existing item %q was not stored (%s)", strs(path), kind))
		}
	}
	if newID != 0 {
		h.nPost++
		n := ai.arts[newID]
		date = n.date
		var maxID uint32
		for id := range bi.arts {
			if id > maxID {
				maxID = id
			}
		}
		if _, used := bi.arts[newID]; used || newID != maxID+1 {
			c.Note("new_id", newID)
			h.viol("post-id-not-fresh", fmt.Sprintf("new article got id %d; ids present before: max %d (%d articles)", newID, maxID, len(bi.arts)))
		}
		if n.parent != parent {
			h.viol("post-parent-not-recorded", fmt.Sprintf("article %d stored with parent %d, requested %d", newID, n.parent, parent))
		}
		if n.title != string(title) || n.poster != string(poster) || n.data != string(body) {
			h.viol("post-content-altered", "the stored article differs from what was posted")
		}
		if len(bi.arts) > 0 {
			if n.prev != maxID {
				h.viol("post-prev-link", fmt.Sprintf("article %d has prev %d, the previously newest article is %d", newID, n.prev, maxID))
			}
			if ai.arts[maxID].next != newID {
				h.viol("post-next-link", fmt.Sprintf("previously newest article %d has next %d after posting %d", maxID, ai.arts[maxID].next, newID))
			}
		}
		if parent != 0 {
			pb, pa := bi.arts[parent], ai.arts[parent]
			want := pb.firstChild
			if want == 0 {
				want = newID
			}
			if pa.firstChild != want {
				h.viol("post-first-child", fmt.Sprintf("parent %d first child %d -> %d after reply %d", parent, pb.firstChild, pa.firstChild, newID))
			}
		}
		for id, x := range bi.arts {
			y, ok := ai.arts[id]
			if !ok {
				h.viol("post-loses-article", fmt.Sprintf("article %d disappeared when %d was posted", id, newID))
			} else if x.content() != y.content() || x.prev != y.prev || x.parent != y.parent ||
				(id != maxID && x.next != y.next) || (id != parent && x.firstChild != y.firstChild) {
				h.viol("post-changes-other-article", fmt.Sprintf("article %d changed when %d was posted", id, newID))
			}
		}
		if bytes.Equal(fileBefore, h.fileBytes()) {
			h.viol("post-not-persisted", "a successful post did not rewrite the news file")
		}
	} else {
		// nothing stored: no content may change; nothing may be persisted
		if existed {
			for id, x := range bi.arts {
				y, ok := ai.arts[id]
				if !ok || x.content() != y.content() || x.prev != y.prev || x.parent != y.parent || x.firstChild != y.firstChild {
					h.viol("failed-post-changes-article", fmt.Sprintf("article %d changed although the post stored nothing", id))
				}
			}
		}
		if len(after) != len(before) {
			h.viol("failed-post-changes-tree", "a post that stored nothing changed the set of items")
		}
		if !bytes.Equal(fileBefore, h.fileBytes()) {
			h.viol("failed-post-persisted", "a post that stored nothing rewrote the news file")
		}
	}
	h.obs(fmt.Sprintf("P %s %s %s %s %s %s", pathTok(path), hx(idField), hx(title), hx(poster), hx(date[:]), hx(body)),
		fmt.Sprintf("post path=%s parent=%d", pk, parent), kind)
	// queries around the new article
	if h.quiet {
		return
	}
	h.queryList(path)
	if newID != 0 {
		h.queryArt(path, newID, false)
		if parent != 0 {
			h.queryArt(path, parent, false)
		}
		if newID > 1 {
			h.queryArt(path, newID-1, false)
		}
	}
}

func (h *c18Run) stepCreate(parent [][]byte, name []byte, category bool) {
	before := h.snap()
	var res []hotline.Transaction
	var p any
	pf := []hotline.Field{}
	if len(parent) > 0 || h.c.R.Chance(50) {
		pf = append(pf, fld(hotline.FieldNewsPath, newsPathField(parent)))
	}
	tok := "B"
	if category {
		tok = "C"
		res, p = h.call(hotline.TranNewNewsCat, append(pf, fld(hotline.FieldNewsCatName, name))...)
	} else {
		res, p = h.call(hotline.TranNewNewsFldr, append(pf, fld(hotline.FieldFileName, name))...)
	}
	kind := c18Kind(res, p)
	after := h.snap()
	full := append(append([]string{}, strs(parent)...), string(name))
	h.frame(before, after, full, true, "create-touches-other-item", "create")
	_, parentThere := before[pathKey(strs(parent))]
	if _, made := after[pathKey(full)]; (len(parent) == 0 || parentThere) && (kind != "done" || !made) {
		h.c.Note("parent", fmt.Sprintf("%q", strs(parent)))
		h.c.Note("reply_kind", kind)
		h.viol("create-refused", fmt.Sprintf("create of %q under the existing item %q was not carried out (%s); reloads / restarts so far: %d", string(name), strs(parent), kind, h.nReload))
	}
	if kind == "done" {
		it, ok := after[pathKey(full)]
		want := hotline.NewsBundle
		if category {
			want = hotline.NewsCategory
		}
		if !ok || it.ty != want || len(it.arts) != 0 {
			h.viol("create-wrong-item", "after a create request the item is missing, of the wrong type or not empty")
		}
	} else if len(after) != len(before) {
		h.viol("failed-create-changes-tree", "a create request that failed changed the set of items")
	}
	h.c.Dist("create/" + tok + "/" + kind)
	h.obs(fmt.Sprintf("%s %s %s", tok, pathTok(parent), hx(name)), "create "+pathKey(full), kind)
	h.queryCats(parent)
}

func (h *c18Run) stepDelArt(path [][]byte, id uint32, idField []byte) {
	before := h.snap()
	res, p := h.call(hotline.TranDelNewsArt, fld(hotline.FieldNewsPath, newsPathField(path)), fld(hotline.FieldNewsArtID, idField),
		fld(hotline.FieldNewsArtRecurseDel, []byte{0, byte(h.c.R.Intn(2))}))
	kind := c18Kind(res, p)
	after := h.snap()
	pk := pathKey(strs(path))
	h.frame(before, after, strs(path), false, "delete-article-touches-other-category", "delete-article")
	bi, existed := before[pk]
	ai, exists := after[pk]
	if !existed && exists {
		h.viol("delete-article-missing-category-creates-item", fmt.Sprintf("delete-article on %q, which named no item, created an item there (type %v)", pk, ai.ty))
	}
	if existed {
		if !exists {
			h.viol("delete-article-removes-category", "delete-article removed the whole item")
		}
		for k, x := range bi.arts {
			y, ok := ai.arts[k]
			if k == id {
				if ok {
					h.viol("delete-article-ineffective", fmt.Sprintf("article %d is still present after delete-article", id))
				}
				continue
			}
			if !ok || x != y {
				h.viol("delete-article-not-exact", fmt.Sprintf("article %d changed or disappeared when %d was deleted", k, id))
			}
		}
		if len(ai.arts) > len(bi.arts) {
			h.viol("delete-article-not-exact", "delete-article added an article")
		}
		if _, was := bi.arts[id]; was {
			h.nDel++
		}
	}
	h.c.Dist("delete-article/" + kind + map[bool]string{true: "/category-present", false: "/category-missing"}[existed])
	h.obs(fmt.Sprintf("DA %s %s", pathTok(path), hx(idField)), fmt.Sprintf("delete-article %s %d", pk, id), kind)
	if h.quiet {
		return
	}
	h.queryList(path)
	h.queryArt(path, id, false)
	if len(path) > 0 {
		h.queryCats(path[:len(path)-1])
	}
}

func (h *c18Run) stepDelItem(path [][]byte) {
	before := h.snap()
	res, p := h.call(hotline.TranDelNewsItem, fld(hotline.FieldNewsPath, newsPathField(path)))
	kind := c18Kind(res, p)
	after := h.snap()
	h.frame(before, after, strs(path), true, "delete-item-not-exact", "delete-item")
	if kind == "done" {
		for k := range after {
			if strings.HasPrefix(k, pathKey(strs(path))) {
				h.viol("delete-item-ineffective", fmt.Sprintf("item %q is still present after delete-item", k))
			}
		}
		if _, was := before[pathKey(strs(path))]; was {
			h.nDel++
		}
	}
	h.c.Dist("delete-item/" + kind)
	h.obs("DI "+pathTok(path), "delete-item "+pathKey(strs(path)), kind)
	if len(path) > 0 {
		h.queryCats(path[:len(path)-1])
	}
	h.queryList(path)
}

// stepRestart: a fresh store loaded from the file replaces the running one (server restart).
func (h *c18Run) stepRestart() {
	s2, err := mobius.NewThreadedNewsYAML(h.file)
	o := "done"
	if err != nil {
		o = "err"
		h.c.Note("load_error", err.Error())
		h.viol("news-file-unloadable", "a fresh store cannot load the news file: "+err.Error())
	} else {
		h.ts.News = s2
		h.ts.Srv.ThreadedNewsMgr = s2
	}
	h.nReload++
	h.c.Dist("restart/" + o)
	h.obs("R", "restart", o)
}

// stepSaveFile / stepRestoreFile: the operator copies ThreadedNews.yaml and later puts the copy back
// (only the file changes; the running store learns of it at the next reload).
func (h *c18Run) stepSaveFile() {
	h.saved = h.fileBytes()
	h.hasSaved = true
	h.obs("SV", "operator saves a copy of the file", "saved")
}

func (h *c18Run) stepRestoreFile() bool {
	if !h.hasSaved {
		return false
	}
	tmp := h.file + ".operator"
	if os.WriteFile(tmp, h.saved, 0644) != nil || os.Rename(tmp, h.file) != nil {
		return false
	}
	h.c.Dist("file-restored")
	h.obs("RS", "operator puts the saved copy back", "restored")
	return true
}

func (h *c18Run) stepReload() {
	h.nReload++
	err := h.ts.News.Load()
	o := "done"
	if err != nil {
		o = "err"
	}
	h.c.Dist("reload/" + o)
	h.obs("R", "reload", o)
}

// ---------------------------------------------------------------- queries (through the real handlers)

func idField(r *RNG, id uint32) []byte {
	if id < 65536 && r.Bool() {
		return be16(int(id))
	}
	return be32(int(id))
}

func (h *c18Run) queryArt(path [][]byte, id uint32, second bool) {
	res, p := h.call(hotline.TranGetNewsArtData, fld(hotline.FieldNewsPath, newsPathField(path)), fld(hotline.FieldNewsArtID, idField(h.c.R, id)),
		fld(hotline.FieldNewsArtDataFlav, []byte("text/plain")))
	o := c18Kind(res, p)
	if o == "done" {
		t := res[0]
		if len(t.Fields) == 0 {
			o = "none"
		} else {
			g := func(f [2]byte) []byte { return t.GetField(f).Data }
			u := func(f [2]byte) uint32 {
				d := g(f)
				if len(d) != 4 {
					return 0xFFFFFFFF
				}
				return binary.BigEndian.Uint32(d)
			}
			if string(g(hotline.FieldNewsArtDataFlav)) != "text/plain" {
				h.viol("get-article-flavor", "get-article reply without the text/plain flavor")
			}
			o = fmt.Sprintf("art %s %s %s %d %d %d %d %d %d", hx(g(hotline.FieldNewsArtTitle)), hx(g(hotline.FieldNewsArtPoster)), hx(g(hotline.FieldNewsArtDate)),
				u(hotline.FieldNewsArtPrevArt), u(hotline.FieldNewsArtNextArt), u(hotline.FieldNewsArtParentArt), u(hotline.FieldNewsArt1stChildArt),
				len(g(hotline.FieldNewsArtData)), cksum(g(hotline.FieldNewsArtData)))
		}
	}
	tok := "GA"
	if second {
		tok = "GA2"
	}
	h.obs(fmt.Sprintf("%s %s %s", tok, pathTok(path), hx(be32(int(id)))), fmt.Sprintf("%s %s %d", tok, pathKey(strs(path)), id), o)
}

// queryList: list-articles reply, compared with the model AND parsed with the reference parser.
func (h *c18Run) queryList(path [][]byte) { h.queryList2(path, false) }

func (h *c18Run) queryList2(path [][]byte, second bool) {
	c := h.c
	res, p := h.call(hotline.TranGetNewsArtNameList, fld(hotline.FieldNewsPath, newsPathField(path)))
	o := c18Kind(res, p)
	if o == "done" {
		d := res[0].GetField(hotline.FieldNewsArtListData).Data
		o = hx(d)
		// direct monitor: parseable, ascending, exactly the present articles
		store := h.ts.Srv.ThreadedNewsMgr
		ok := len(d) >= 10 && d[8] == 0 && d[9] == 0
		if ok {
			count := binary.BigEndian.Uint32(d[4:8])
			ans := c.AskS("artparse", fmt.Sprint(count), hx(d[10:]))
			if !strings.HasPrefix(ans, "ok ") {
				c.Note("list_field", short(d))
				c.Note("path", pathKey(strs(path)))
				h.viol("article-list-unparseable", fmt.Sprintf("the list-articles reply (%d entries, %d bytes) cannot be parsed by the reference parser: %s", count, len(d), ans))
			} else {
				f := strings.Fields(ans)
				n := len(f[2:]) / 6
				last := int64(-1)
				for i := 0; i < n; i++ {
					e := f[2+6*i : 8+6*i]
					var id int64
					fmt.Sscan(e[0], &id)
					if id <= last {
						h.viol("article-list-order", fmt.Sprintf("list-articles is not in ascending id order (%d after %d)", id, last))
					}
					last = id
					a := store.GetArticle(strs(path), uint32(id))
					if a == nil {
						h.viol("article-list-ghost", fmt.Sprintf("list-articles shows id %d which get-article does not know", id))
						continue
					}
					var par, sz int64
					fmt.Sscan(e[2], &par)
					fmt.Sscan(e[5], &sz)
					if hx([]byte(a.Title)) != e[3] || hx([]byte(a.Poster)) != e[4] || hx(a.Date[:]) != e[1] ||
						uint32(par) != binary.BigEndian.Uint32(a.ParentArt[:]) || int(sz) != len(a.Data)%65536 {
						h.viol("article-list-entry-wrong", fmt.Sprintf("list-articles entry %d does not describe the stored article", id))
					}
				}
				// every present article is listed
				listed := " " + strings.Join(f[2:], " ") + " "
				for id := uint32(0); id <= uint32(h.nPost+3) && id < 400; id++ {
					if a := store.GetArticle(strs(path), id); a != nil && !strings.Contains(listed, fmt.Sprintf(" %d %s ", id, hx(a.Date[:]))) {
						h.viol("article-list-incomplete", fmt.Sprintf("article %d is present but not in the list-articles reply", id))
					}
				}
			}
		} else {
			h.viol("article-list-unparseable", "list-articles reply shorter than its fixed header")
		}
	}
	tok := "LA"
	if second {
		tok = "LA2"
	}
	h.obs(tok+" "+pathTok(path), tok+" "+pathKey(strs(path)), o)
}

func (h *c18Run) queryCats(path [][]byte) { h.queryCats2(path, false) }

func (h *c18Run) queryCats2(path [][]byte, second bool) {
	res, p := h.call(hotline.TranGetNewsCatNameList, fld(hotline.FieldNewsPath, newsPathField(path)))
	o := c18Kind(res, p)
	if o == "done" {
		fs := res[0].Fields
		o = fmt.Sprintf("cats %d", len(fs))
		var names []string
		for _, f := range fs {
			o += " " + hx(f.Data)
			// independent decoding: type(2) count(2) [guid/sn 24] nameLen(1) name
			d := f.Data
			off := 4
			if len(d) >= 2 && d[0] == 0 && d[1] == 3 {
				off = 28
			}
			if len(d) < off+1 || len(d) != off+1+int(d[off]) {
				h.viol("category-list-unparseable", "a list-categories entry does not parse")
				continue
			}
			names = append(names, string(d[off+1:]))
		}
		if !sort.StringsAreSorted(names) {
			h.viol("category-list-order", "list-categories is not sorted by name")
		}
		// exactly the children of the path in the implementation's own tree
		if !second {
			var want []string
			for k := range h.snap() {
				if n, ok := childName(k, strs(path)); ok {
					want = append(want, n)
				}
			}
			sort.Strings(want)
			if fmt.Sprintf("%q", want) != fmt.Sprintf("%q", names) {
				h.c.Note("listed", fmt.Sprintf("%q", names))
				h.c.Note("children", fmt.Sprintf("%q", want))
				h.viol("category-list-not-children", fmt.Sprintf("list-categories of %q does not show exactly the items directly below it", strs(path)))
			}
		}
	}
	tok := "LC"
	if second {
		tok = "LC2"
	}
	h.obs(tok+" "+pathTok(path), tok+" "+pathKey(strs(path)), o)
}

// sweep queries everything observable over the pool: categories of every prefix, article lists, every article.
func (h *c18Run) sweep(paths [][][]byte, second bool) {
	seen := map[string]bool{}
	for _, p := range paths {
		for i := 0; i <= len(p); i++ {
			k := pathKey(strs(p[:i]))
			if !seen["c"+k] {
				seen["c"+k] = true
				h.queryCats2(p[:i], second)
			}
		}
		k := pathKey(strs(p))
		if !seen["a"+k] {
			seen["a"+k] = true
			h.queryList2(p, second)
			top := uint32(h.nPost + 2)
			if top > 60 {
				top = 60
			}
			for id := uint32(0); id <= top; id++ {
				h.queryArt(p, id, second)
			}
		}
	}
}

// secondStore answers the same queries from a store freshly loaded from the YAML file.
func (h *c18Run) secondStore(paths [][][]byte) { h.secondStoreKey(paths, "reload-differs") }

func (h *c18Run) secondStoreKey(paths [][][]byte, key string) {
	s2, err := mobius.NewThreadedNewsYAML(h.file)
	if err != nil {
		h.c.Note("load_error", err.Error())
		h.viol("news-file-unloadable", "a second store cannot load the news file: "+err.Error())
		return
	}
	// the same sweep from memory and from the file: apart from `next` links (which a contained panic
	// may have left un-persisted) a restart must reproduce every reply
	i0 := len(h.impl)
	h.sweep(paths, false)
	i1 := len(h.impl)
	old := h.ts.Srv.ThreadedNewsMgr
	h.ts.Srv.ThreadedNewsMgr = s2
	h.sweep(paths, true)
	h.ts.Srv.ThreadedNewsMgr = old
	if len(h.impl)-i1 != i1-i0 {
		h.viol(key, "the second store answers a different number of queries")
		return
	}
	for k := 0; k < i1-i0; k++ {
		a, b := h.impl[i0+k], h.impl[i1+k]
		if strings.HasPrefix(a, "art ") && strings.HasPrefix(b, "art ") {
			fa, fb := strings.Fields(a), strings.Fields(b)
			if len(fa) == 10 && len(fb) == 10 {
				fa[5], fb[5] = "_", "_" // next
				a, b = strings.Join(fa, " "), strings.Join(fb, " ")
			}
		}
		if a != b {
			h.c.Note("query", h.labels[i0+k])
			h.c.Note("memory", clip(a))
			h.c.Note("file", clip(b))
			h.viol(key, "a store freshly loaded from the news file answers "+h.labels[i0+k]+" differently from the running store")
			return
		}
	}
}

func (h *c18Run) finish() {
	c := h.c
	ans := c.O.Ask("c18run " + strings.Join(h.toks, " "))
	parts := strings.Split(ans, " | ")
	if len(parts) != len(h.impl) {
		c.Note("oracle", clip(ans))
		c.Disagree("c18-oracle-shape", fmt.Sprintf("oracle returned %d observations for %d", len(parts), len(h.impl)))
		return
	}
	for i := range parts {
		if parts[i] != h.impl[i] {
			c.Note("observation", h.labels[i])
			c.Note("index", i)
			var hist []string
			for j := 0; j <= i && j < len(h.labels); j++ {
				if !strings.HasPrefix(h.labels[j], "GA") && !strings.HasPrefix(h.labels[j], "LA") && !strings.HasPrefix(h.labels[j], "LC") {
					hist = append(hist, h.labels[j]+"="+h.impl[j])
				}
			}
			c.Note("ops_so_far", hist)
		}
		if !c.Corr("news-model", h.impl[i], parts[i], false) {
			return
		}
	}
}

func newC18Run(c *Case) (*c18Run, error) {
	ts, err := newTS(TSOpt{Direct: true})
	if err != nil {
		return nil, err
	}
	cc, _ := ts.DirectClient("admin", []byte("poster"), "10.0.0.9:99")
	return &c18Run{c: c, ts: ts, cc: cc, file: ts.Cfg + "/ThreadedNews.yaml"}, nil
}
