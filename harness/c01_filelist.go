//go:build c01

package main

// File-list records as the server produces them (GetFileNameList): each record must be the
// FileNameWithInfo layout of (type, creator, size, Mac-Roman name) and its name-size prefix must
// equal the number of name bytes that follow — for names with Mac-Roman-representable non-ASCII
// characters the UTF-8 and Mac-Roman lengths differ.

import (
	"encoding/binary"
	"fmt"
	"os"
	"path/filepath"
	"sort"

	"github.com/jhalter/mobius/hotline"
	"golang.org/x/text/encoding/charmap"
)

var macRomanRunes = []rune("éüñçåøßæ™©®†°•¶ÄÖÜàèìòùâêîôûëïÿ€«»…–—“”‘’¿¡∞±≤≥µ∂∑∏π∫ªºΩ√ƒ≈∆◊")

func genListName(r *RNG) string {
	n := 1 + r.Intn(20)
	rs := make([]rune, 0, n)
	for i := 0; i < n; i++ {
		switch r.Intn(4) {
		case 0:
			rs = append(rs, macRomanRunes[r.Intn(len(macRomanRunes))])
		case 1:
			rs = append(rs, rune(" ._-()"[r.Intn(6)]))
		default:
			rs = append(rs, rune('a'+r.Intn(26)))
		}
	}
	if rs[0] == '.' || rs[0] == '@' || rs[0] == ' ' {
		rs[0] = 'x'
	}
	s := string(rs)
	if r.Chance(40) {
		s += []string{".txt", ".jpg", ".sit", ".incomplete", ".pdf", ""}[r.Intn(6)]
	}
	return s
}

func init() {
	c01Extra = append(c01Extra, func(x *Ctx) {
		x.Add(&Family{Name: "file-list-records", Quick: 400, Thor: 8000, Run: func(c *Case) {
			r := c.R
			dir, err := os.MkdirTemp("/var/tmp", "mobius-c01-")
			if err != nil {
				return
			}
			defer os.RemoveAll(dir)
			names := map[string]int{}
			for i := 0; i < 1+r.Intn(6); i++ {
				nm := genListName(r)
				if _, dup := names[nm]; dup {
					continue
				}
				if r.Chance(25) {
					os.Mkdir(filepath.Join(dir, nm), 0755)
					k := r.Intn(4)
					for j := 0; j < k; j++ {
						os.WriteFile(filepath.Join(dir, nm, fmt.Sprint("f", j)), []byte("x"), 0644)
					}
					names[nm] = -1 - k
				} else {
					sz := r.Pick(0, 1, 10, 513, 70000)
					os.WriteFile(filepath.Join(dir, nm), make([]byte, sz), 0644)
					names[nm] = sz
				}
			}
			fields, err := hotline.GetFileNameList(dir, []string{`^\.`})
			if err != nil {
				c.Note("error", err.Error())
				c.Disagree("GetFileNameList-error", "GetFileNameList failed on a plain directory")
				return
			}
			var sorted []string
			for nm := range names {
				sorted = append(sorted, nm)
			}
			sort.Strings(sorted)
			c.Note("names", sorted)
			if len(fields) != len(names) {
				c.Note("records", len(fields))
				c.Violation("file-list-record-count", "the file list does not hold one record per visible entry")
				return
			}
			enc := charmap.Macintosh.NewEncoder()
			byName := map[string][]byte{}
			for _, f := range fields {
				d := f.Data
				if len(d) < 20 {
					c.Violation("file-list-record-short", "file list record shorter than its fixed header")
					return
				}
				if int(binary.BigEndian.Uint16(d[18:20])) != len(d)-20 {
					c.Note("record", hx(d))
					c.Violation("file-list-name-size", fmt.Sprintf("name-size prefix is %d but %d name bytes follow", binary.BigEndian.Uint16(d[18:20]), len(d)-20))
					return
				}
				byName[string(d[20:])] = d
			}
			for _, nm := range sorted {
				listed := nm
				if filepath.Ext(nm) == ".incomplete" {
					listed = nm[:len(nm)-len(".incomplete")]
				}
				mr, err := enc.String(listed)
				if err != nil {
					continue
				}
				d, ok := byName[mr]
				if !ok {
					c.Note("missing", nm)
					c.Violation("file-list-name-encoding", "an entry is not listed under the Mac-Roman encoding of its name")
					return
				}
				size := names[nm]
				if size < 0 {
					size = -1 - size
				}
				ref := c.AskS("fnwi", hx(d[0:4]), hx(d[4:8]), fmt.Sprint(size), "00000000", "0", hx([]byte(mr)))
				c.Corr("layout-file-list-record", hx(d), ref, true)
				c.Nontrivial(ref)
			}
		}})
	})
}
