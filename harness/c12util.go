//go:build c12 || c13 || c14

package main

// Helpers shared by the chat / presence / outbox checks (C12, C13, C14).

import (
	"encoding/binary"
	"fmt"
	"runtime"
	"sort"
	"strings"
	"time"
	"unicode/utf8"

	"github.com/jhalter/mobius/hotline"
)

// ---------------------------------------------------------------- race-free direct calls

var sentinelType = hotline.TranType{0xff, 0xfe}

// syncOutbox pushes a sentinel through the (unbuffered, FIFO) outbox and collects everything the
// collector goroutine stored up to it.  ts.Call's own TakeOutbox can miss the last transaction when
// the collector has received it from the channel but not yet appended it.
func syncOutbox(ts *TS) []hotline.Transaction {
	ts.Srv.VerifOutbox() <- hotline.Transaction{Type: sentinelType}
	var acc []hotline.Transaction
	deadline := time.Now().Add(180 * time.Second) // generous: the machine may be heavily loaded; no latency is asserted
	for {
		acc = append(acc, ts.TakeOutbox()...)
		if n := len(acc); n > 0 && acc[n-1].Type == sentinelType {
			return acc[:n-1]
		}
		if time.Now().After(deadline) {
			panic("harness: outbox collector did not deliver the sentinel")
		}
		runtime.Gosched()
	}
}

// callSync runs the registered handler for t on cc; res = what the handler returned, queued = what it
// put on the outbox itself (SendAll), panicked = recovered panic value.
func callSync(ts *TS, cc *hotline.ClientConn, t hotline.Transaction) (res, queued []hotline.Transaction, panicked any) {
	h, ok := ts.Srv.VerifHandlers()[t.Type]
	if !ok {
		return nil, nil, "no handler"
	}
	func() {
		defer func() {
			if r := recover(); r != nil {
				panicked = r
			}
		}()
		res = h(cc, &t)
	}()
	return res, syncOutbox(ts), panicked
}

// disconnectSync runs cc.Disconnect() (Delete + user-left notices) and returns the notices.
func disconnectSync(ts *TS, cc *hotline.ClientConn) []hotline.Transaction {
	cc.Disconnect()
	return syncOutbox(ts)
}

// longWait is how long the harness waits for something the server must eventually do.  It is deliberately
// huge: checks run on a loaded machine and never assert latencies; it only bounds the time spent on a real failure.
const longWait = 120 * time.Second

// loginWire performs handshake + login over an in-memory connection and waits (long) for the login reply.
func loginWire(ts *TS, addr, login, password string, extra ...hotline.Field) (*WireClient, error) {
	c := ts.Connect(addr, nil)
	c.Conn.Feed(clientHandshake)
	c.Conn.Feed(encTran(loginTran(1, login, password, extra...)))
	r, ok := c.ReplyTo(1, longWait)
	if !ok {
		return c, fmt.Errorf("no login reply within %v", longWait)
	}
	if r.ErrorCode != [4]byte{} {
		return c, fmt.Errorf("login refused")
	}
	return c, nil
}

// ---------------------------------------------------------------- canonical outputs (same text as Oracle.outStr)

func fnv64a(b []byte) uint64 {
	h := uint64(14695981039346656037)
	for _, c := range b {
		h ^= uint64(c)
		h *= 1099511628211
	}
	return h
}

func dataStr(b []byte) string {
	if len(b) <= 40 {
		return hx(b)
	}
	return fmt.Sprintf("#%d:%d", len(b), fnv64a(b))
}

func u16(b []byte) int {
	if len(b) < 2 {
		return -1
	}
	return int(binary.BigEndian.Uint16(b))
}

func outStr(t hotline.Transaction) string {
	var sb strings.Builder
	id := uint32(0)
	if t.IsReply == 1 {
		id = binary.BigEndian.Uint32(t.ID[:])
	}
	fmt.Fprintf(&sb, "%d:%d:%d:%d:%d", binary.BigEndian.Uint16(t.ClientID[:]), t.IsReply, binary.BigEndian.Uint16(t.Type[:]),
		binary.BigEndian.Uint32(t.ErrorCode[:]), id)
	for _, f := range t.Fields {
		fmt.Fprintf(&sb, ",%d=%s", binary.BigEndian.Uint16(f.Type[:]), dataStr(f.Data))
	}
	return sb.String()
}

func outsStr(ts []hotline.Transaction) string {
	if len(ts) == 0 {
		return "."
	}
	s := make([]string, len(ts))
	for i, t := range ts {
		s[i] = outStr(t)
	}
	return strings.Join(s, ";")
}

// outsStrSorted: order-insensitive form (wire mode: transactions are written by concurrent goroutines).
func sortedJoin(s []string) string {
	if len(s) == 0 {
		return "."
	}
	c := append([]string{}, s...)
	sort.Strings(c)
	return strings.Join(c, ";")
}

func fieldOf(t *hotline.Transaction, id int) ([]byte, bool) {
	for _, f := range t.Fields {
		if int(binary.BigEndian.Uint16(f.Type[:])) == id {
			return f.Data, true
		}
	}
	return nil, false
}

func tranType(t *hotline.Transaction) int { return int(binary.BigEndian.Uint16(t.Type[:])) }
func tranTo(t *hotline.Transaction) int   { return int(binary.BigEndian.Uint16(t.ClientID[:])) }
func tranID(t *hotline.Transaction) uint32 {
	return binary.BigEndian.Uint32(t.ID[:])
}

// ---------------------------------------------------------------- reference formatting of a chat line

// pad13Ref is the protocol's "%13.13s" written against unicode/utf8 directly: the first 13 runes of the
// name (an invalid byte is one rune, copied through), left-padded with spaces to 13 runes.
func pad13Ref(name []byte) []byte {
	n, i := 0, 0
	for i < len(name) && n < 13 {
		w := 1
		if name[i] >= utf8.RuneSelf {
			_, w = utf8.DecodeRune(name[i:])
		}
		i += w
		n++
	}
	out := make([]byte, 0, 13+i)
	for k := n; k < 13; k++ {
		out = append(out, ' ')
	}
	return append(out, name[:i]...)
}

func chatTextRef(name []byte, emote bool, msg []byte) []byte {
	var b []byte
	if emote {
		b = append(b, "\r*** "...)
		b = append(b, name...)
		b = append(b, ' ')
		b = append(b, msg...)
	} else {
		b = append(b, '\r')
		b = append(b, pad13Ref(name)...)
		b = append(b, ":  "...)
		b = append(b, msg...)
	}
	if len(b) > 8192 {
		b = b[:8192]
	}
	return b
}

// textBytes draws names / messages: ASCII, Mac-Roman high bytes, valid multi-byte UTF-8 of every width,
// invalid UTF-8 (truncated sequences, overlongs, surrogates), NUL, CR.
func textBytes(r *RNG, n int) []byte {
	b := make([]byte, 0, n+4)
	mode := r.Intn(7)
	pieces := [][]byte{[]byte("é"), []byte("€"), []byte("😀"), {0xed, 0xa0, 0x80}, {0xc0, 0xaf}, {0xe2, 0x82}, {0xf4, 0x90, 0x80, 0x80},
		{0xf0, 0x9f}, {0xff}, {0x80}, {0}, {'\r'}, {' '}, []byte("ж"), {0xe0, 0x9f, 0xbf}, {0xef, 0xbf, 0xbd}}
	for len(b) < n {
		switch mode {
		case 0, 1:
			b = append(b, byte('a'+r.Intn(26)))
		case 2:
			b = append(b, byte(0x80+r.Intn(0x80)))
		case 3:
			b = append(b, pieces[r.Intn(len(pieces))]...)
		case 4:
			b = append(b, byte(r.U64()))
		case 5:
			if r.Chance(50) {
				b = append(b, byte('A'+r.Intn(26)))
			} else {
				b = append(b, pieces[r.Intn(len(pieces))]...)
			}
		default:
			b = append(b, []byte("€")...)
		}
	}
	return b[:n]
}
