package main

import (
	"encoding/json"
	"flag"
	"fmt"
	"os"
	"runtime"
	"time"
)

// props maps a property id to the function that registers its case families.
var props = map[string]func(x *Ctx){}

func main() {
	prop := flag.String("prop", "", "property id")
	tier := flag.String("tier", "quick", "quick|thorough")
	seed := flag.Uint64("seed", 1, "seed")
	oracle := flag.String("oracle", "/verif/lean/.lake/build/bin/oracle", "oracle binary")
	verif := flag.String("verif", "/verif", "verif dir")
	proofJSON := flag.String("proof", "", "proof info json from bin/check")
	replay := flag.String("replay", "", "replay file")
	noEvidence := flag.Bool("no-evidence", false, "do not write evidence (replay mode)")
	flag.Parse()

	var rp struct {
		Property string `json:"property"`
		Family   string `json:"family"`
		CaseSeed uint64 `json:"case_seed"`
		CaseIdx  int    `json:"case_idx"`
		Tier     string `json:"tier"`
	}
	if *replay != "" {
		b, err := os.ReadFile(*replay)
		if err != nil {
			fmt.Println("cannot read replay:", err)
			os.Exit(2)
		}
		if err := json.Unmarshal(b, &rp); err != nil {
			fmt.Println("bad replay file:", err)
			os.Exit(2)
		}
		*prop = rp.Property
		if rp.Tier != "" {
			*tier = rp.Tier
		}
	}
	reg, ok := props[*prop]
	if !ok {
		fmt.Println("unknown property", *prop)
		os.Exit(2)
	}
	x := &Ctx{Prop: *prop, Tier: *tier, Seed: *seed, start: time.Now(), nontriv: map[uint64]struct{}{}, dist: map[string]int64{}}
	n := runtime.NumCPU()
	if *replay != "" {
		n = 1
	}
	for i := 0; i < n; i++ {
		o, err := startOracle(*oracle)
		if err != nil {
			fmt.Println("cannot start oracle:", err)
			os.Exit(2)
		}
		x.Oracles = append(x.Oracles, o)
	}
	defer func() {
		for _, o := range x.Oracles {
			o.Close()
		}
	}()
	reg(x)

	var proof *ProofInfo
	if *proofJSON != "" {
		b, err := os.ReadFile(*proofJSON)
		if err == nil {
			proof = &ProofInfo{}
			_ = json.Unmarshal(b, proof)
		}
	}

	if *replay != "" {
		if rp.Family == "" {
			fmt.Println("replay file names a broken obligation/correspondence only; re-run the check to see whether it still fails")
			os.Exit(0)
		}
		x.runFamilies(rp.Family, rp.CaseSeed, true, rp.CaseIdx)
		if len(x.fails) > 0 {
			b, _ := json.MarshalIndent(x.fails, "", " ")
			fmt.Println(string(b))
			fmt.Printf("REPLAY: property=%s still fails (%s)\n", *prop, x.fails[0].Key)
			for _, o := range x.Oracles {
				o.Close()
			}
			os.Exit(1)
		}
		fmt.Printf("REPLAY: property=%s case passes now\n", *prop)
		return
	}

	x.runFamilies("", 0, false)
	if *noEvidence {
		b, _ := json.MarshalIndent(x.fails, "", " ")
		fmt.Println(string(b))
		return
	}
	code := x.finish(*verif, proof, "proof")
	for _, o := range x.Oracles {
		o.Close()
	}
	os.Exit(code)
}
