//go:build c04

package main

// C04 — nothing is served before a successful login.
//
// Every case builds a fresh real server (YAML account manager, ban file, message board, files),
// logs two bystanders in over the wire, then runs the real handleNewConnection on a generated
// pre-login byte stream: handshake variant, credential variant, then destructive transactions.
// Observed: every byte written to the peer, every registration with the client manager, a
// snapshot of the whole sandbox (config dir + file root) before/after, everything the bystanders
// received.  Judged directly with the property's predicate and compared with the Lean Session.run.

import (
	"bytes"
	"fmt"
	"os"
	"path/filepath"
	"strings"
	"time"

	"github.com/jhalter/mobius/hotline"
)

// allowedUnauthOutput is the property's upper bound on what an unauthenticated peer may be sent:
// nothing, or the handshake reply, optionally followed by exactly one error reply to its first
// transaction or (banned address) one ban notice.  Returns "" when allowed, else the reason.
func allowedUnauthOutput(w []byte, loginID uint32, haveLoginID bool, banned bool) (string, uint32) {
	if len(w) == 0 {
		return "", 0
	}
	if len(w) < 8 || !bytes.Equal(w[:8], hsReplyBytes) {
		return "the peer was sent something other than the handshake reply first", 0
	}
	if len(w) == 8 {
		return "", 0
	}
	ts, rest, err := splitTransactions(w[8:])
	if err != nil || len(rest) != 0 {
		return "bytes after the handshake reply are not whole transactions", 0
	}
	if len(ts) != 1 {
		return fmt.Sprintf("%d transactions were sent to an unauthenticated peer", len(ts)), 0
	}
	t := ts[0]
	isErr := t.IsReply == 1 && u16(t.Type) == 0 && u32(t.ErrorCode) == 1 && len(t.Fields) == 1 &&
		t.Fields[0].Type == hotline.FieldError && bytes.Equal(t.Fields[0].Data, incorrectLg)
	if isErr {
		if haveLoginID && u32(t.ID) != loginID {
			return "the error reply does not carry the id of the peer's first transaction", 0
		}
		return "", 0
	}
	isBan := t.IsReply == 0 && u16(t.Type) == 104 && u32(t.ErrorCode) == 0 && len(t.Fields) == 2 &&
		t.Fields[0].Type == hotline.FieldData && (bytes.Equal(t.Fields[0].Data, permBanText) || bytes.Equal(t.Fields[0].Data, tempBanText)) &&
		t.Fields[1].Type == hotline.FieldChatOptions && bytes.Equal(t.Fields[1].Data, []byte{0, 0})
	if isBan {
		if !banned {
			return "a ban notice was sent to an address that is not banned", 0
		}
		return "", u32(t.ID)
	}
	return "an unauthenticated peer was sent a transaction that is neither the login error reply nor a ban notice: " + tranKey(t), 0
}

type c04Fixture struct {
	ts   *TS
	mgr  *recMgr
	by   []*WireClient
	base []int // bytes each bystander had received at the baseline
}

func flipCase(b []byte) []byte {
	c := append([]byte{}, b...)
	for i := range c {
		p := 255 - c[i]
		if (p >= 'a' && p <= 'z') || (p >= 'A' && p <= 'Z') {
			c[i] ^= 0x20
			return c
		}
	}
	if len(c) > 0 {
		c[0] ^= 0x20
	}
	return c
}

func destructive(r *RNG, k int, id uint32, byID [2]byte) hotline.Transaction {
	switch k {
	case 0: // delete a file
		return tranOf(204, id, fld(hotline.FieldFileName, []byte("doomed.txt")))
	case 1: // create an account with every privilege
		all := allAccess()
		return tranOf(350, id, fld(hotline.FieldUserLogin, hotline.EncodeString([]byte("mallory"))), fld(hotline.FieldUserName, []byte("M")),
			fld(hotline.FieldUserPassword, []byte{1, 2, 3}), fld(hotline.FieldUserAccess, all[:]))
	case 2: // post to the message board
		return tranOf(103, id, fld(hotline.FieldData, []byte("spam "+r.Name(10))))
	case 3: // public chat
		return tranOf(105, id, fld(hotline.FieldData, []byte("hello "+r.Name(10))))
	case 4: // new folder
		return tranOf(205, id, fld(hotline.FieldFileName, []byte("newdir")))
	case 5: // delete an account
		return tranOf(351, id, fld(hotline.FieldUserLogin, hotline.EncodeString([]byte("alice"))))
	case 6: // broadcast
		return tranOf(355, id, fld(hotline.FieldData, []byte("broadcast")))
	case 7: // disconnect + ban a bystander
		return tranOf(110, id, fld(hotline.FieldUserID, byID[:]), fld(hotline.FieldOptions, []byte{0, 2}))
	case 8: // delete a folder
		return tranOf(204, id, fld(hotline.FieldFileName, []byte("dir")))
	case 9: // user list / keep-alive: harmless but must not be answered either
		return tranOf(uint16(r.Pick(300, 500, 101)), id)
	case 10: // news category
		return tranOf(382, id, fld(hotline.FieldNewsCatName, []byte("cat")))
	default: // instant message to a bystander
		return tranOf(108, id, fld(hotline.FieldUserID, byID[:]), fld(hotline.FieldData, []byte("psst")), fld(hotline.FieldOptions, []byte{0, 1}))
	}
}

func c04Family(c *Case) {
	r := c.R
	if tooManyStalls(c) {
		c.Dist("skipped/after-repeated-stalls")
		return
	}
	// ---- accounts
	alicePw := wirePassword(r, r.Pick(1, 8, 20, 71, 72, 72))
	if r.Chance(25) {
		alicePw = wirePassword(r, 72)
		for len(alicePw) < 72 {
			alicePw = append(alicePw, byte(1+r.Intn(255)))
		}
	}
	// letters in the plaintext so that a case change is a different password
	alicePw[0] = 255 - byte('a'+r.Intn(26))
	rootPw := wirePassword(r, 12)
	accts := []sessAcct{
		{Login: "by1", Name: "By One", PwWire: []byte{0x8e}, Access: guestAccess()},
		{Login: "by2", Name: "By Two", PwWire: []byte{0x8d}, Access: guestAccess()},
		{Login: "alice", Name: "Alice", PwWire: alicePw, Access: guestAccess()},
		{Login: "root", Name: "Root", PwWire: rootPw, Access: allAccess()},
	}
	guestPresent := r.Chance(80)
	guestPw := []byte{}
	if r.Chance(15) {
		guestPw = wirePassword(r, 6)
	}
	if guestPresent {
		accts = append(accts, sessAcct{Login: "guest", Name: "Guest", PwWire: guestPw, Access: guestAccess()})
	}
	// an account whose stored Password is not a well-formed bcrypt hash (operator-edited / legacy file):
	// no password at all may be accepted for it
	legacyRaw := pickStr(r, "", "secret", "hunter2", "x", "$2a$04$", "$2a$04$abcdefghijklmnopqrstuu",
		"$9z$04$N9Kc1U7yJ7DLGBndd8HhdOSV6wBephNCmQjQ9UwYqRxpqfBc5q8Fi", "$2a$99$N9Kc1U7yJ7DLGBndd8HhdOSV6wBephNCmQjQ9UwYqRxpqfBc5q8Fi",
		"2a$04$N9Kc1U7yJ7DLGBndd8HhdOSV6wBephNCmQjQ9UwYqRxpqfBc5q8Fi")
	legacyPresent := r.Chance(60)
	if legacyPresent {
		la := guestAccess()
		if r.Bool() {
			la = allAccess()
		}
		accts = append(accts, sessAcct{Login: "legacy", Name: "Legacy", PwWire: []byte{}, Access: la, RawHash: &legacyRaw})
	}
	find := func(login string) *sessAcct {
		for i := range accts {
			if accts[i].Login == login {
				return &accts[i]
			}
		}
		return nil
	}
	// ---- fixture
	ts, err := newTS(TSOpt{Accounts: acctSpecs(accts), Board: "old news\r", Agreement: "agree"})
	if err != nil {
		c.Note("fixture", err.Error())
		c.Dist("skipped/fixture")
		return
	}
	defer ts.Close()
	if err := installRawAccounts(ts, accts); err != nil {
		c.Note("fixture", err.Error())
		c.Dist("skipped/fixture")
		return
	}
	mgr := &recMgr{ClientManager: ts.Srv.ClientMgr}
	ts.Srv.ClientMgr = mgr
	os.WriteFile(filepath.Join(ts.Root, "doomed.txt"), []byte("precious"), 0644)
	os.MkdirAll(filepath.Join(ts.Root, "dir"), 0755)
	os.WriteFile(filepath.Join(ts.Root, "dir", "inner.txt"), []byte("x"), 0644)
	var bys []*WireClient
	defer func() {
		for _, b := range bys {
			b.Conn.EOF()
		}
	}()
	waitCount := func(b *WireClient, n int) bool {
		return waitFor(8*time.Second, func() bool { return countTransactions(b.Conn.Written()) >= n })
	}
	// ---- history: an administrator renames "alice" through the real HandleUpdateUser (optionally with a
	// new / removed password) before anybody else connects; the old login must stop working at once
	renamed := false
	oldAlicePw := append([]byte{}, alicePw...)
	if r.Chance(18) {
		newLogin := pickStr(r, "alicia", "alice2", "Alice", "bob", "a")
		pwMode := r.Intn(3)
		rc, err := ts.LoginOK("10.0.0.9:5000", "root", string(hotline.EncodeString(rootPw)), nil, fld(hotline.FieldUserName, []byte("admin")), fld(hotline.FieldVersion, []byte{0, 0xbe}))
		if err != nil || !waitCount(rc, 3) {
			rc.Conn.EOF()
			fixtureLoginFailed(c, "administrator login")
			return
		}
		ga := guestAccess()
		subs := []hotline.Field{
			fld(hotline.FieldData, hotline.EncodeString([]byte("alice"))),
			fld(hotline.FieldUserLogin, hotline.EncodeString([]byte(newLogin))),
			fld(hotline.FieldUserName, []byte("Alice")),
			fld(hotline.FieldUserAccess, ga[:]),
		}
		newPw := alicePw
		switch pwMode {
		case 0: // a single zero byte = keep the password
			subs = append(subs, fld(hotline.FieldUserPassword, []byte{0}))
		case 1:
			newPw = wirePassword(r, 16)
			subs = append(subs, fld(hotline.FieldUserPassword, newPw))
		default: // no password field = password removed
			newPw = []byte{}
		}
		body := be16(len(subs))
		for _, f := range subs {
			body = append(body, f.Type[:]...)
			body = append(body, be16(len(f.Data))...)
			body = append(body, f.Data...)
		}
		rc.Conn.Feed(encTran(tranOf(349, 77, fld(hotline.FieldData, body))))
		rep, ok := rc.ReplyTo(77, 5*time.Second)
		rc.Conn.EOF()
		rc.WaitDone(5 * time.Second)
		gone := waitFor(5*time.Second, func() bool { return len(ts.Srv.ClientMgr.List()) == 0 })
		if !ok || u32(rep.ErrorCode) != 0 || !gone || ts.Srv.AccountManager.Get(newLogin) == nil {
			c.Note("rename", fmt.Sprint(ok, gone))
			fixtureLoginFailed(c, "account rename by the administrator")
			return
		}
		a := find("alice")
		a.Login = newLogin
		a.PwWire = newPw
		alicePw = newPw
		renamed = true
		c.Dist(fmt.Sprintf("history/renamed-pwmode-%d", pwMode))
		c.Note("renamed_to", newLogin)
	}
	aliceLogin := "alice"
	if renamed {
		aliceLogin = find2(accts, "Alice").Login
	}
	// strictly sequential logins: each newcomer is waited for by the exact number of transactions
	// its login causes (login reply + user access + agreement) plus a keep-alive round trip — the
	// handler answers it only after its login sequence (including the user-joined notices to the
	// others) has been queued; by1 then gets exactly one user-joined notice for by2
	for i, l := range []string{"by1", "by2"} {
		a := find(l)
		b, err := ts.LoginOK(fmt.Sprintf("10.0.0.%d:5000", i+1), l, string(hotline.EncodeString(a.PwWire)), nil, fld(hotline.FieldUserName, []byte(a.Name)))
		bys = append(bys, b)
		if err != nil || !waitCount(b, 3) {
			fixtureLoginFailed(c, "bystander login")
			return
		}
		b.Conn.Feed(encTran(tranOf(500, 0x70000000)))
		if !waitCount(b, 4) {
			fixtureLoginFailed(c, "bystander keep-alive")
			return
		}
	}
	if !waitCount(bys[0], 5) {
		fixtureLoginFailed(c, "user-joined notice to the first bystander")
		return
	}
	barrier := func(id uint32) bool {
		ok := true
		for _, b := range bys {
			b.Conn.Feed(encTran(tranOf(500, id)))
		}
		for _, b := range bys {
			if _, got := b.ReplyTo(id, 5*time.Second); !got {
				ok = false
			}
		}
		time.Sleep(2 * time.Millisecond)
		return ok
	}
	var byID [2]byte
	if l := ts.Srv.ClientMgr.List(); len(l) > 0 {
		byID = l[0].ID
	}
	baseInbox := make([]int, len(bys))
	for i, b := range bys {
		baseInbox[i] = len(b.Conn.Written())
	}
	baseSnap := snapshot(ts.Dir)
	// ---- the pre-login stream
	addr := fmt.Sprintf("%d.%d.%d.%d:%d", 11+r.Intn(200), r.Intn(256), r.Intn(256), 1+r.Intn(254), 1024+r.Intn(60000))
	ip := strings.Split(addr, ":")[0]
	hs := append([]byte{}, clientHandshake...)
	hsKind := "valid"
	switch k := r.Intn(100); {
	case k < 55:
	case k < 65:
		copy(hs[8:], r.Bytes(4))
		hsKind = "valid-other-version"
	case k < 80:
		hs[r.Intn(8)] ^= byte(1 << r.Intn(8))
		hsKind = "one-bit-off"
	case k < 85:
		hs[8+r.Intn(4)] ^= byte(1 << r.Intn(8))
		hsKind = "version-bit-off"
	case k < 95:
		hs = hs[:r.Intn(12)]
		hsKind = "short"
	default:
		hs = r.Bytes(12)
		hsKind = "random"
	}
	hsValid := len(hs) == 12 && bytes.Equal(hs[:8], clientHandshake[:8])
	// credentials
	who := r.Pick(0, 0, 0, 1, 2, 2, 3) // alice (current login), root, guest(empty login), unknown
	if legacyPresent && r.Chance(18) {
		who = 4 // the account whose stored value is not a bcrypt hash
	}
	if renamed && r.Chance(55) {
		who = 5 // the login the account had before it was renamed
	}
	var loginPlain string
	var truePw []byte
	exists := true
	verifiable := true
	switch who {
	case 0:
		loginPlain, truePw = aliceLogin, alicePw
	case 4:
		loginPlain, truePw = "legacy", []byte(legacyRaw) // "correct" = the literal stored value
		verifiable = false
	case 5:
		loginPlain, truePw = "alice", oldAlicePw
		exists = false
	case 1:
		loginPlain, truePw = "root", rootPw
	case 2:
		loginPlain, truePw = "", guestPw
		exists = guestPresent
	default:
		loginPlain, truePw = pickStr(r, "nobody", "Alice", "alice ", "alic", "ROOT", "guest2", "alice\x00"), alicePw
		exists = find(loginPlain) != nil // only when a rename happened to produce exactly this login
	}
	loginWire := hotline.EncodeString([]byte(loginPlain))
	var pw []byte
	credKind := "correct"
	kcred := r.Intn(100)
	if who == 5 && r.Chance(60) {
		kcred = 0 // the old login with its old password
	}
	switch k := kcred; {
	case k < 22:
		pw = append([]byte{}, truePw...)
		if who == 4 && r.Chance(40) {
			pw = hotline.EncodeString(truePw)
			credKind = "obfuscated-stored-value"
		}
	case k < 36:
		pw = wirePassword(r, 20)
		credKind = "random"
	case k < 50:
		if len(truePw) > 0 {
			pw = append([]byte{}, truePw[:r.Intn(len(truePw))]...)
		}
		credKind = "prefix"
	case k < 60:
		pw = append(append([]byte{}, truePw...), byte(1+r.Intn(255)))
		if len(pw) > 72 {
			pw = pw[:72]
			pw[71] ^= 0x5a
			if pw[71] == 0 {
				pw[71] = 1
			}
		}
		credKind = "extended"
	case k < 72:
		pw = flipCase(truePw)
		credKind = "case-changed"
	case k < 80:
		pw = []byte{}
		credKind = "empty"
	case k < 86:
		pw = nil // field absent
		credKind = "absent"
	case k < 93:
		pw = append([]byte{}, truePw...)
		if len(pw) > 0 {
			pw[r.Intn(len(pw))] ^= byte(1 << r.Intn(8))
			for i := range pw {
				if pw[i] == 0 {
					pw[i] = 0x41
				}
			}
		}
		credKind = "one-bit-off"
	default: // the password of another account
		pw = append([]byte{}, rootPw...)
		credKind = "other-accounts-password"
	}
	loginField := loginWire
	if who == 2 && r.Chance(40) {
		loginField = nil // login field absent = empty = guest
	}
	loginID := 1 + uint32(r.Intn(1<<30))
	var extra []hotline.Field
	if r.Chance(40) {
		extra = append(extra, fld(hotline.FieldUserName, []byte(r.Name(10))))
	}
	if r.Chance(40) {
		extra = append(extra, fld(hotline.FieldVersion, []byte{0, 0xbe}))
	}
	lt := loginTranWire(uint16(r.Pick(107, 107, 107, 107, 0, 300, 204)), loginID, loginField, pw, extra...)
	if loginField != nil && pw != nil && r.Chance(8) { // a second login field: the first one counts
		lt.Fields = append(lt.Fields, fld(hotline.FieldUserLogin, hotline.EncodeString([]byte("root"))), fld(hotline.FieldUserPassword, rootPw))
	}
	loginB := encTran(lt)
	mutated := false
	if r.Chance(8) {
		loginB = mutate(r, loginB)
		mutated = true
		credKind = "mutated-transaction"
	}
	if len(hs) < 12 {
		loginB = nil
	}
	var tail []byte
	nd := r.Pick(0, 1, 2, 3, 5)
	if len(hs) < 12 {
		nd = 0
	}
	var dkinds []int
	for i := 0; i < nd; i++ {
		k := r.Intn(12)
		dkinds = append(dkinds, k)
		tail = append(tail, encTran(destructive(r, k, 0x60000000+uint32(i), byID))...)
	}
	// ban variant
	banned := false
	var bans []banSpec
	now := time.Now()
	if hsKind != "short" && r.Chance(3) {
		banned = true
		if r.Bool() {
			ts.Bans.Add(ip, nil)
			bans = append(bans, banSpec{IP: ip, Perm: true})
		} else {
			u := now.Add(time.Hour)
			ts.Bans.Add(ip, &u)
			bans = append(bans, banSpec{IP: ip, Until: u.UnixNano()})
		}
		baseSnap = snapshot(ts.Dir)
	}
	pwEq := bytes.Equal(pw, truePw) // nil and empty both mean "no bytes"
	expectIn := hsValid && !banned && exists && pwEq && verifiable
	data := append(append(append([]byte{}, hs...), loginB...), tail...)
	c.Note("addr", addr)
	c.Note("handshake", hsKind)
	c.Note("credentials", credKind)
	c.Note("login", loginPlain)
	if who == 4 {
		c.Note("stored_password_value", legacyRaw)
	}
	c.Note("stream", short(data))
	c.Note("appended", dkinds)
	c.Note("banned", banned)
	c.Dist("handshake/" + hsKind)
	c.Dist("credentials/" + credKind)
	c.Dist(fmt.Sprintf("account/%d-exists=%v", who, exists))
	if banned {
		c.Dist("banned-address")
	}
	// ---- the model
	askM := func(noticeID uint32) sessModel {
		return parseSessModel(askSession(c, "session", addr, now.UnixNano(), noticeID, accts, bans, [][]byte{data}))
	}
	m := askM(0)
	if !m.DispOK {
		c.Note("oracle", clip(m.Raw))
		c.Disagree("oracle-session", "the oracle could not evaluate Session.run")
		return
	}
	if !mutated && m.In != expectIn {
		c.Note("model", clip(m.Raw))
		c.Note("generator_expectation", expectIn)
		c.Disagree("model-vs-generator", "the model's login decision differs from the generator's intent")
		return
	}
	wantIn := m.In
	if !mutated {
		wantIn = expectIn
	}
	// ---- run
	cuts := []int(nil)
	if r.Chance(50) {
		cuts = cutsRandom(r, len(data))
	}
	// the peer is gone right after the handshake reply: every later Write fails, while its login and
	// pipelined requests already sit in one segment
	failWrites := !wantIn && len(hs) == 12 && r.Chance(15)
	if failWrites {
		cuts = nil
		c.Dist("writes-fail-after-handshake-reply")
		c.Note("writes_fail_after_handshake_reply", true)
	}
	conn := newScriptConn(data, cuts)
	if failWrites {
		conn.failAfter = 8
	}
	gateOK := true
	if wantIn {
		// keep the session open until the login's own transactions were written (they are dropped otherwise)
		loginOuts := 3
		// gate the EOF only: a mutated first transaction that still logs in may extend beyond the
		// bytes the generator calls "the login"
		conn.gateOff = len(data)
		conn.gate = func(int) {
			if !waitFor(5*time.Second, func() bool { return countTransactions(conn.Written()) >= loginOuts-1 }) {
				gateOK = false
				stalls.Add(1)
			}
			time.Sleep(2 * time.Millisecond)
		}
	}
	run := runControl(ts, conn, addr, 20*time.Second)
	if !wantIn {
		barrier(0x70000002)
	}
	written := conn.Attempted() // everything the server tried to send, failed writes included
	registered := mgr.addedFrom(addr)
	afterSnap := snapshot(ts.Dir)
	var byNew []string
	for i, b := range bys {
		w := b.Conn.Written()
		if len(w) > baseInbox[i] {
			trs, _, _ := splitTransactions(w[baseInbox[i]:])
			for _, t := range trs {
				if t.IsReply == 1 && u32(t.ID) == 0x70000002 {
					continue
				}
				byNew = append(byNew, fmt.Sprintf("bystander%d: %s", i+1, tranKey(t)))
			}
		}
	}
	loginReply, rejectedSeen := false, false
	if len(written) > 8 {
		trs, _, _ := splitTransactions(written[8:])
		for _, t := range trs {
			if t.IsReply == 1 && u32(t.ID) == loginID && u32(t.ErrorCode) == 0 {
				loginReply = true
			}
			if t.IsReply == 1 && u32(t.ID) == loginID && u32(t.ErrorCode) == 1 {
				rejectedSeen = true
			}
		}
	}
	// logged in = the peer got the success reply to its login; a registration without any reply also
	// counts (the reply of an unexpected login can be lost when the stream ends right away), a
	// registration next to the "Incorrect login." reply does not: that is an unauthenticated
	// connection that touched the registry, judged below
	observedIn := loginReply || (registered > 0 && !rejectedSeen)
	c.Note("written", short(written))
	c.Note("registered", registered)
	c.Note("return", errStr(run.Err))
	c.Note("model", clip(m.Raw))
	if !run.Done {
		c.Violation("prelogin-hang", "handleNewConnection did not return on a finite pre-login stream")
		return
	}
	// ---- (1) the login decision, judged against the property's condition (generator knows the credentials)
	if !mutated && observedIn != expectIn {
		if expectIn {
			c.Note("gate_ok", gateOK)
			c.Violation("login-refused-with-valid-credentials", "valid handshake, existing account and its current password, yet the connection was not logged in")
		} else {
			c.Violation("login-without-valid-credentials", fmt.Sprintf("the connection was logged in although the login condition does not hold (handshake %s, account exists=%v, stored hash well-formed=%v, password %s)", hsKind, exists, verifiable, credKind))
		}
		return
	}
	// ---- (2) not logged in => inert and silent
	if !observedIn {
		why, noticeID := allowedUnauthOutput(written, loginID, !mutated, banned)
		if why != "" {
			c.Violation("unauthenticated-peer-was-answered", why)
			return
		}
		if strings.Join(baseSnap, "\n") != strings.Join(afterSnap, "\n") {
			c.Note("diff", snapDiff(baseSnap, afterSnap))
			c.Violation("unauthenticated-changed-state", "accounts / files / news / bans changed although the connection never logged in")
			return
		}
		if len(byNew) > 0 {
			c.Note("bystanders_received", byNew)
			c.Violation("unauthenticated-reached-other-users", "a logged-in bystander received a transaction caused by a connection that never logged in")
			return
		}
		if registered > 0 {
			c.Violation("unauthenticated-connection-registered", "a connection whose login was rejected was entered into the user registry")
			return
		}
		if noticeID != 0 {
			m = askM(noticeID)
		}
		c.Corr("unauth-bytes", hx(written), hx(m.Peer), false)
	}
	c.Dist("outcome/" + m.Outcome)
	c.Corr("login-decision", fmt.Sprint(observedIn), fmt.Sprint(m.In), false)
	wantClass := outcomeErrClassC04(m.Outcome)
	if failWrites && m.Outcome == "loginRejected" {
		wantClass = "loopErr" // the failed write of the error reply is returned
	}
	c.Corr("outcome", errClassC04(errStr(run.Err)), wantClass, false)
	if hsValid && !banned && len(loginB) >= 22 {
		c.Nontrivial(fmt.Sprintf("%x|%s|%v", fnv64(data), credKind, guestPresent))
	}
	c.Sample(map[string]any{"family": "unauth-gate", "renamed_before": renamed, "writes_fail": failWrites, "handshake": hsKind, "credentials": credKind, "account_exists": exists, "logged_in": observedIn, "appended": len(dkinds), "outcome": m.Outcome})
}

func snapDiff(a, b []string) []string {
	ma := map[string]bool{}
	for _, l := range a {
		ma[l] = true
	}
	mb := map[string]bool{}
	for _, l := range b {
		mb[l] = true
	}
	var d []string
	for _, l := range a {
		if !mb[l] {
			d = append(d, "- "+l)
		}
	}
	for _, l := range b {
		if !ma[l] {
			d = append(d, "+ "+l)
		}
	}
	if len(d) > 12 {
		d = d[:12]
	}
	return d
}

func errClassC04(e string) string {
	switch {
	case e == "nil":
		return "nil"
	case strings.Contains(e, "invalid handshake size"):
		return "hsShort"
	case strings.Contains(e, "invalid protocol"):
		return "hsInvalid"
	case strings.HasPrefix(e, "error writing login transaction"):
		return "loginUndecodable"
	default:
		return "loopErr"
	}
}

func outcomeErrClassC04(o string) string {
	switch o {
	case "hsShort", "hsInvalid", "loginUndecodable":
		return o
	case "ended-decodeErr":
		return "loopErr"
	default:
		return "nil"
	}
}

func init() {
	props["C04"] = func(x *Ctx) {
		x.rule = "each case: fresh server (accounts by1, by2, alice [1..72-byte password], root [all privileges], guest present in 80% [sometimes with a password], in 60% an account \"legacy\" whose hand-written file holds a Password that is not a bcrypt hash [empty, plaintext, truncated, unknown version/cost]); in 18% an administrator first renames alice through the real HandleUpdateUser (password kept / changed / removed) and the OLD login is then tried; in 15% of the not-to-be-logged-in cases every Write after the 8-byte handshake reply fails while login and requests arrive in one segment; two bystanders logged in over the wire; a pre-login stream = handshake (valid / other version / one bit off in the ids / one bit off in the version / short / random) + first transaction (login alice|root|empty=guest|unknown or case-changed login; password correct / random / strict prefix / extended / case-changed / empty / absent / one bit off / another account's; type 107 or other; 8% byte-mutated) + 0..5 destructive transactions (delete file/folder, new account, board post, chat, new folder, delete account, broadcast, disconnect+ban, news category, instant message); 3% from a banned address. non-trivial = valid handshake, not banned, first transaction present (the credential check decides); distinct = distinct (stream, credential kind, guest present). batch-edit-login: fresh server with accounts alice/bob/carol/dave (random 1..30-byte passwords); an administrator sends ONE TranUpdateUser over the wire with 1..5 records drawn from password change / keep ({0}) / password removal / deletion / creation (erin, frank) / rename (password kept, changed, removed) — 4% of the batches contain a record that must stop the handler (deletion of an absent account, rename onto an existing login) —, sub-fields of every record shuffled; then up to 7 connections present, for the accounts the batch names, the password the last edit set, the password held before the batch, a password another record of the same batch set, or nothing (plus an untouched account); verdict by the property's condition (exists now and password = current password) for acknowledged batches, table and decisions compared with LoginHistory.applyBatch / Session.run; distinct = distinct (records, wire bytes). ban-reload-gate: bans entered through BanFile.Add (permanent / until +1..5 h / expired), the operator's new list (some entries kept, some dropped, some added) served through a FIFO in place of Banlist.yaml so that the reload sequence (message board, BanFile.Load, threaded news, agreement) waits inside the file read; connections with valid guest credentials from kept / dropped / added / never-listed addresses arrive while it waits and again after it finished; verdict: an address refused before and after is never served, after the reload the gate follows the new list exactly; decisions compared with BanReload.run. set-user-login: 1..4 single-account edits sent one after the other by an administrator (TranSetUser on existing / absent accounts, single-record TranUpdateUser: password change, keep, removal, rename) with password fields from a wire-level pool (first wire byte 0 of lengths 2, 8, 20, others; zero byte inside; the one-byte marker {0}; absent; empty; one byte; high bytes; text), then up to 6 login attempts per history presenting what the last acknowledged edit set / what was held before / what some edit carried, judged logged in iff the account exists and the password verifies (bcrypt by the harness) against the value last set; acknowledgements and table compared with LoginHistory.applyEdits; distinct = distinct edit history"
		x.assume = []string{
			"bcrypt: verify(hash(p), q) iff p = q for passwords of at most 72 bytes without NUL bytes (the oracle's verify is equality on the stored password bytes)",
			"for a stream expected to log in, the bytes after the login are delivered once the login's own transactions were written (the server drops queued replies when the connection ends)",
			"bystander inboxes are read after a keep-alive round trip on each bystander (everything queued earlier on the outbox has been handed to its writer by then)",
			"batched edits: the editing administrator holds every account privilege; logins are legal file names; the direct verdict is taken for batches the server acknowledged",
			"ban reload: Banlist.yaml decodes (an undecodable file leaves the list empty and Load only reports an error); the 40..100 ms the harness lets connections run before it releases the file read decide only whether the overlap is exercised, never a verdict",
		}
		x.Add(&Family{Name: "unauth-gate", Quick: 2600, Thor: 30000, Run: c04Family})
		x.Add(&Family{Name: "batch-edit-login", Quick: 260, Thor: 4000, Run: c04BatchEditFamily})
		x.Add(&Family{Name: "ban-reload-gate", Quick: 60, Thor: 600, Run: c04BanReloadFamily})
		x.Add(&Family{Name: "set-user-login", Quick: 240, Thor: 4000, Run: c04SetUserFamily})
		if only := os.Getenv("VERIF_ONLY_FAMILY"); only != "" { // dev aid: run one family
			var keep []*Family
			for _, f := range x.families {
				if f.Name == only {
					keep = append(keep, f)
				}
			}
			x.families = keep
		}
	}
}

// find2 looks an account up by display name (the login may have been changed by a rename).
func find2(as []sessAcct, name string) *sessAcct {
	for i := range as {
		if as[i].Name == name {
			return &as[i]
		}
	}
	return &sessAcct{}
}
