//go:build c05 || c06 || c16

package main

// Helpers shared by the three access-privilege properties (C05, C06, C16).

import (
	"encoding/binary"
	"fmt"
	"os"
	"path/filepath"
	"sort"
	"strings"

	"github.com/jhalter/mobius/hotline"
	"github.com/jhalter/mobius/internal/mobius"
	"gopkg.in/yaml.v3"
)

// definedPrivs: the 40 privileges of the Hotline protocol (0..18, 20..40) — the property's own list,
// written here independently of the Go constants and of the Lean tables (cross-checked with the oracle).
var definedPrivs = func() []int {
	var l []int
	for i := 0; i <= 40; i++ {
		if i != 19 {
			l = append(l, i)
		}
	}
	return l
}()

func isDefinedPriv(i int) bool { return i >= 0 && i <= 40 && i != 19 }

// bitOf is the property's definition of "privilege i": bit i counted from the most significant bit of the first byte.
func bitOf(b [8]byte, i int) bool { return b[i/8]>>(7-uint(i%8))&1 == 1 }

func withBit(b [8]byte, i int) [8]byte { b[i/8] |= 0x80 >> uint(i%8); return b }

func withoutBit(b [8]byte, i int) [8]byte { b[i/8] &^= 0x80 >> uint(i%8); return b }

func bmOf(bits ...int) hotline.AccessBitmap {
	var b [8]byte
	for _, i := range bits {
		b = withBit(b, i)
	}
	return hotline.AccessBitmap(b)
}

func bmBits(b [8]byte) []int {
	var l []int
	for i := 0; i < 64; i++ {
		if bitOf(b, i) {
			l = append(l, i)
		}
	}
	return l
}

func maskDefined(b [8]byte) [8]byte {
	var o [8]byte
	for _, i := range definedPrivs {
		if bitOf(b, i) {
			o = withBit(o, i)
		}
	}
	return o
}

func subsetOf(a, b [8]byte) bool {
	for i := 0; i < 8; i++ {
		if a[i]&^b[i] != 0 {
			return false
		}
	}
	return true
}

func bmHex(b [8]byte) string { return hx(b[:]) }

func allOnes() hotline.AccessBitmap {
	return hotline.AccessBitmap{0xff, 0xff, 0xff, 0xff, 0xff, 0xff, 0xff, 0xff}
}

func randBitmap(r *RNG) hotline.AccessBitmap {
	var b [8]byte
	switch r.Intn(6) {
	case 0: // uniform
		copy(b[:], r.Bytes(8))
	case 1: // sparse
		for k := r.Intn(5); k >= 0; k-- {
			b = withBit(b, r.Intn(64))
		}
	case 2: // dense
		for i := range b {
			b[i] = 0xff
		}
		for k := r.Intn(5); k >= 0; k-- {
			b = withoutBit(b, r.Intn(64))
		}
	case 3: // defined privileges only
		for _, i := range definedPrivs {
			if r.Bool() {
				b = withBit(b, i)
			}
		}
	case 4: // one byte
		b[r.Intn(8)] = byte(r.U64())
	default: // around the undefined positions
		copy(b[:], r.Bytes(8))
		b = withBit(b, 19)
		if r.Bool() {
			b = withBit(b, 41+r.Intn(23))
		}
	}
	return hotline.AccessBitmap(b)
}

// yamlTrueKeys renders a bitmap with the real MarshalYAML + yaml.v3 and returns the keys whose value is true
// (in document order) and all keys.
func yamlTrueKeys(b hotline.AccessBitmap) (trueKeys, allKeys []string, text string, err error) {
	out, err := yaml.Marshal(b)
	if err != nil {
		return nil, nil, "", err
	}
	var n yaml.Node
	if err := yaml.Unmarshal(out, &n); err != nil {
		return nil, nil, string(out), err
	}
	if len(n.Content) != 1 || n.Content[0].Kind != yaml.MappingNode {
		return nil, nil, string(out), fmt.Errorf("access bitmap is not rendered as a mapping")
	}
	m := n.Content[0]
	for i := 0; i+1 < len(m.Content); i += 2 {
		k := m.Content[i].Value
		allKeys = append(allKeys, k)
		if m.Content[i+1].Value == "true" {
			trueKeys = append(trueKeys, k)
		}
	}
	return trueKeys, allKeys, string(out), nil
}

// accountFileNamed / accountFileLegacy: the two storage formats of an account file.
func accountFileNamed(login string, b hotline.AccessBitmap) ([]byte, error) {
	acc := hotline.Account{Login: login, Name: "N " + login, Password: "$2a$04$9P/jgLn1fR9TjSoWL.rKxuN6g.1TSpf2o6Hw.aaRuBwrWIJNwsKkS", Access: b}
	return yaml.Marshal(acc)
}

func accountFileLegacy(login string, vals []int) []byte {
	var sb strings.Builder
	fmt.Fprintf(&sb, "Login: %s\nName: N %s\nPassword: $2a$04$9P/jgLn1fR9TjSoWL.rKxuN6g.1TSpf2o6Hw.aaRuBwrWIJNwsKkS\nAccess:\n", login, login)
	for _, v := range vals {
		fmt.Fprintf(&sb, "  - %d\n", v)
	}
	return []byte(sb.String())
}

// loadAccountsDir runs the real NewYAMLAccountManager on dir (recovering a panic of the loader).
func loadAccountsDir(dir string) (am *mobius.YAMLAccountManager, err error) {
	defer func() {
		if r := recover(); r != nil {
			err = fmt.Errorf("panic: %v", r)
		}
	}()
	return mobius.NewYAMLAccountManager(dir)
}

func tmpDir(prefix string) string {
	d, err := os.MkdirTemp("/var/tmp", "mobius-verif-"+prefix+"-")
	if err != nil {
		panic(err)
	}
	return d
}

func sortedCopy(l []string) []string {
	o := append([]string{}, l...)
	sort.Strings(o)
	return o
}

func u16(b [2]byte) int { return int(binary.BigEndian.Uint16(b[:])) }

func errText(t hotline.Transaction) string {
	for _, f := range t.Fields {
		if f.Type == hotline.FieldError {
			return string(f.Data)
		}
	}
	return ""
}

func isErrReply(t hotline.Transaction) bool {
	return t.IsReply == 1 && t.ErrorCode != [4]byte{}
}

// readAccountFile parses Users/<login>.yaml with the yaml library only (no account manager).
func readAccountFile(usersDir, login string) (*hotline.Account, error) {
	b, err := os.ReadFile(filepath.Join(usersDir, login+".yaml"))
	if err != nil {
		return nil, err
	}
	var a hotline.Account
	if err := yaml.Unmarshal(b, &a); err != nil {
		return nil, err
	}
	return &a, nil
}
