//go:build c05 || c06 || c16

package main

// Helpers shared by the three access-privilege properties (C05, C06, C16).

import (
	"encoding/binary"
	"encoding/json"
	"flag"
	"fmt"
	"os"
	"path/filepath"
	"sort"
	"strings"

	"github.com/jhalter/mobius/hotline"
	"github.com/jhalter/mobius/internal/mobius"
	"gopkg.in/yaml.v3"
)

// definedPrivs: the 40 privileges of the Hotline protocol (0..18, 20..40) — the property's own list,
// written here independently of the Go constants and of the Lean tables (cross-checked with the oracle).
var definedPrivs = func() []int {
	var l []int
	for i := 0; i <= 40; i++ {
		if i != 19 {
			l = append(l, i)
		}
	}
	return l
}()

func isDefinedPriv(i int) bool { return i >= 0 && i <= 40 && i != 19 }

// bitOf is the property's definition of "privilege i": bit i counted from the most significant bit of the first byte.
func bitOf(b [8]byte, i int) bool { return b[i/8]>>(7-uint(i%8))&1 == 1 }

func withBit(b [8]byte, i int) [8]byte { b[i/8] |= 0x80 >> uint(i%8); return b }

func withoutBit(b [8]byte, i int) [8]byte { b[i/8] &^= 0x80 >> uint(i%8); return b }

func bmOf(bits ...int) hotline.AccessBitmap {
	var b [8]byte
	for _, i := range bits {
		b = withBit(b, i)
	}
	return hotline.AccessBitmap(b)
}

func bmBits(b [8]byte) []int {
	var l []int
	for i := 0; i < 64; i++ {
		if bitOf(b, i) {
			l = append(l, i)
		}
	}
	return l
}

func maskDefined(b [8]byte) [8]byte {
	var o [8]byte
	for _, i := range definedPrivs {
		if bitOf(b, i) {
			o = withBit(o, i)
		}
	}
	return o
}

func subsetOf(a, b [8]byte) bool {
	for i := 0; i < 8; i++ {
		if a[i]&^b[i] != 0 {
			return false
		}
	}
	return true
}

func bmHex(b [8]byte) string { return hx(b[:]) }

func allOnes() hotline.AccessBitmap {
	return hotline.AccessBitmap{0xff, 0xff, 0xff, 0xff, 0xff, 0xff, 0xff, 0xff}
}

func randBitmap(r *RNG) hotline.AccessBitmap {
	var b [8]byte
	switch r.Intn(6) {
	case 0: // uniform
		copy(b[:], r.Bytes(8))
	case 1: // sparse
		for k := r.Intn(5); k >= 0; k-- {
			b = withBit(b, r.Intn(64))
		}
	case 2: // dense
		for i := range b {
			b[i] = 0xff
		}
		for k := r.Intn(5); k >= 0; k-- {
			b = withoutBit(b, r.Intn(64))
		}
	case 3: // defined privileges only
		for _, i := range definedPrivs {
			if r.Bool() {
				b = withBit(b, i)
			}
		}
	case 4: // one byte
		b[r.Intn(8)] = byte(r.U64())
	default: // around the undefined positions
		copy(b[:], r.Bytes(8))
		b = withBit(b, 19)
		if r.Bool() {
			b = withBit(b, 41+r.Intn(23))
		}
	}
	return hotline.AccessBitmap(b)
}

// yamlTrueKeys renders a bitmap with the real MarshalYAML + yaml.v3 and returns the keys whose value is true
// (in document order) and all keys.
func yamlTrueKeys(b hotline.AccessBitmap) (trueKeys, allKeys []string, text string, err error) {
	out, err := yaml.Marshal(b)
	if err != nil {
		return nil, nil, "", err
	}
	var n yaml.Node
	if err := yaml.Unmarshal(out, &n); err != nil {
		return nil, nil, string(out), err
	}
	if len(n.Content) != 1 || n.Content[0].Kind != yaml.MappingNode {
		return nil, nil, string(out), fmt.Errorf("access bitmap is not rendered as a mapping")
	}
	m := n.Content[0]
	for i := 0; i+1 < len(m.Content); i += 2 {
		k := m.Content[i].Value
		allKeys = append(allKeys, k)
		if m.Content[i+1].Value == "true" {
			trueKeys = append(trueKeys, k)
		}
	}
	return trueKeys, allKeys, string(out), nil
}

// accountFileNamed / accountFileLegacy: the two storage formats of an account file.
func accountFileNamed(login string, b hotline.AccessBitmap) ([]byte, error) {
	acc := hotline.Account{Login: login, Name: "N " + login, Password: "$2a$04$9P/jgLn1fR9TjSoWL.rKxuN6g.1TSpf2o6Hw.aaRuBwrWIJNwsKkS", Access: b}
	return yaml.Marshal(acc)
}

func accountFileLegacy(login string, vals []int) []byte {
	var sb strings.Builder
	fmt.Fprintf(&sb, "Login: %s\nName: N %s\nPassword: $2a$04$9P/jgLn1fR9TjSoWL.rKxuN6g.1TSpf2o6Hw.aaRuBwrWIJNwsKkS\nAccess:\n", login, login)
	for _, v := range vals {
		fmt.Fprintf(&sb, "  - %d\n", v)
	}
	return []byte(sb.String())
}

// loadAccountsDir runs the real NewYAMLAccountManager on dir (recovering a panic of the loader).
func loadAccountsDir(dir string) (am *mobius.YAMLAccountManager, err error) {
	defer func() {
		if r := recover(); r != nil {
			err = fmt.Errorf("panic: %v", r)
		}
	}()
	return mobius.NewYAMLAccountManager(dir)
}

func tmpDir(prefix string) string {
	d, err := os.MkdirTemp("/var/tmp", "mobius-verif-"+prefix+"-")
	if err != nil {
		panic(err)
	}
	return d
}

func sortedCopy(l []string) []string {
	o := append([]string{}, l...)
	sort.Strings(o)
	return o
}

func u16(b [2]byte) int { return int(binary.BigEndian.Uint16(b[:])) }

func errText(t hotline.Transaction) string {
	for _, f := range t.Fields {
		if f.Type == hotline.FieldError {
			return string(f.Data)
		}
	}
	return ""
}

func isErrReply(t hotline.Transaction) bool {
	return t.IsReply == 1 && t.ErrorCode != [4]byte{}
}

// readAccountFile parses Users/<login>.yaml with the yaml library only (no account manager).
func readAccountFile(usersDir, login string) (*hotline.Account, error) {
	b, err := os.ReadFile(filepath.Join(usersDir, login+".yaml"))
	if err != nil {
		return nil, err
	}
	var a hotline.Account
	if err := yaml.Unmarshal(b, &a); err != nil {
		return nil, err
	}
	return &a, nil
}

// ---------------------------------------------------------------- request builders (account editing)

func obf(s string) []byte { return hotline.EncodeString([]byte(s)) }

// newUserTran: transaction 350.  access == nil omits the access field.
func newUserTran(id uint32, login, name, pw string, access []byte) hotline.Transaction {
	fs := []hotline.Field{
		fld(hotline.FieldUserLogin, obf(login)),
		fld(hotline.FieldUserName, []byte(name)),
		fld(hotline.FieldUserPassword, []byte(pw)),
	}
	if access != nil {
		fs = append(fs, fld(hotline.FieldUserAccess, access))
	}
	return mkTran(hotline.TranNewUser, id, fs...)
}

func encSub(fs ...hotline.Field) []byte {
	out := be16(len(fs))
	for _, f := range fs {
		out = append(out, f.Type[:]...)
		out = append(out, be16(len(f.Data))...)
		out = append(out, f.Data...)
	}
	return out
}

// editor sub-requests of transaction 349 (one FieldData each)
func subCreateOrModify(login, name string, pw []byte, access []byte) hotline.Field {
	fs := []hotline.Field{
		fld(hotline.FieldUserLogin, obf(login)),
		fld(hotline.FieldUserName, []byte(name)),
	}
	if pw != nil {
		fs = append(fs, fld(hotline.FieldUserPassword, pw))
	}
	if access != nil {
		fs = append(fs, fld(hotline.FieldUserAccess, access))
	}
	return fld(hotline.FieldData, encSub(fs...))
}

func subDelete(login string) hotline.Field {
	return fld(hotline.FieldData, encSub(fld(hotline.FieldData, obf(login))))
}

func subRename(oldLogin, newLogin, name string, access []byte) hotline.Field {
	return fld(hotline.FieldData, encSub(
		fld(hotline.FieldData, obf(oldLogin)),
		fld(hotline.FieldUserLogin, obf(newLogin)),
		fld(hotline.FieldUserName, []byte(name)),
		fld(hotline.FieldUserPassword, []byte{0}),
		fld(hotline.FieldUserAccess, access),
	))
}

// directClientWith registers a direct client for login and overrides its in-memory bitmap (all 64 positions,
// including the ones the named account-file format cannot store).
func directClientWith(ts *TS, login, addr string, access hotline.AccessBitmap) (*hotline.ClientConn, *nopConn) {
	cc, nc := ts.DirectClient(login, []byte(login), addr)
	if cc.Account != nil {
		cc.Account.Access = access
	}
	cc.Flags.Set(hotline.UserFlagAdmin, 0)
	if access.IsSet(hotline.AccessDisconUser) {
		cc.Flags.Set(hotline.UserFlagAdmin, 1)
	}
	return cc, nc
}

// requesterReply picks the reply addressed to the requester out of a handler result.
func requesterReplies(res []hotline.Transaction, cc *hotline.ClientConn) (replies []hotline.Transaction, others []hotline.Transaction) {
	for _, t := range res {
		if t.IsReply == 1 && t.ClientID == cc.ID {
			replies = append(replies, t)
		} else {
			others = append(others, t)
		}
	}
	return
}

// ---------------------------------------------------------------- table-driven families and replay

// tableIndex returns the table position of a case.  In a normal run that is the case index; in replay mode
// (one case, re-run from its seed) the runner passes index 0, so the position is recovered from the replay
// file: the "idx" detail every table-driven case records, or by searching the index whose seed matches.
func tableIndex(c *Case, n int) int {
	idx := c.Idx
	if rf := flag.Lookup("replay"); rf != nil && rf.Value.String() != "" {
		if b, err := os.ReadFile(rf.Value.String()); err == nil {
			var rp struct {
				Seed   uint64         `json:"seed"`
				Detail map[string]any `json:"detail"`
			}
			if json.Unmarshal(b, &rp) == nil {
				found := false
				if v, ok := rp.Detail["idx"].(float64); ok {
					idx, found = int(v), true
				}
				for i := 0; !found && i < n; i++ {
					if mix(rp.Seed, c.Fam, uint64(i)) == c.Seed {
						idx, found = i, true
					}
				}
			}
		}
	}
	c.Note("idx", idx)
	return idx
}

// resetNotes clears the per-sub-case notes but keeps the table position.
func resetNotes(c *Case) {
	idx, ok := c.Detail["idx"]
	c.Detail = nil
	if ok {
		c.Note("idx", idx)
	}
}
