//go:build c10

package main

// C10 — folder transfers reproduce the tree, item by item.
//
// Generated directory trees are written under a throw-away file root and downloaded through the
// real HandleDownloadFolder + handleFileTransfer by a reference folder-download client that answers
// every item header with a scripted action (send / resume from k / next / disconnect); generated
// client trees are uploaded through HandleUploadFolder + handleFileTransfer by a reference
// folder-upload client against pre-populated folders (complete files, partial files, existing
// sub-folders), optionally cut inside an item and resumed in a second session; uploaded trees are
// downloaded again.  Headers, counts, size prefixes and flattened-file headers are compared with the
// Lean model's transcript; payload bytes and resulting directory trees are judged here.

import (
	"encoding/binary"
	"fmt"
	"os"
	"path/filepath"
	"sort"
	"strings"

	"github.com/jhalter/mobius/hotline"
)

// ---------------------------------------------------------------- trees

type tnode struct {
	name     string
	isDir    bool
	kids     []*tnode
	file     *diskFile
	linkTo   string // alias: the absolute path it points to (the node's file describes the target's bytes)
	hasLinks bool   // (root) the tree contains aliases
}

var treeNamePool = []string{"a", "a.txt", "a-b", "a b", "A", "B", "a0", "ab", "b", "Z", "z", "é", "x!", "x", "x.d", "0", "00", "_", "~",
	".hidden", ".dotdir", ".ds", "a.", "a..b", "Mix.Jpg", "read me.txt", "ÿ", "aé", "b.zip", "c.sit", "d.pdf", "x.d.e",
	// characters that mean something to fmt verbs, shells, quoting and path code — a name is only ever a name
	"50% off", "%s", "%!", "100%", "%d items", "a%20b", "%%", "%v%v", "it's", `say "hi"`, `back\slash`, "-rf", "--", " lead", "trail ", "a\tb", "$HOME", "*", "?", "[x]", "{a,b}", "Ünïcode ñ", "€uro", "ƒ"}

func genTreeName(r *RNG, used map[string]bool, allowDot bool) string {
	for {
		var n string
		switch r.Intn(4) {
		case 0, 1, 2:
			n = treeNamePool[r.Intn(len(treeNamePool))]
		default:
			n = r.Name(10)
		}
		if !allowDot && (strings.HasPrefix(n, ".") || !isASCII(n)) {
			continue // names of requested folders travel in Mac Roman: keep them ASCII and visible
		}
		if strings.HasSuffix(n, ".incomplete") || strings.HasPrefix(n, ".info_") || strings.HasPrefix(n, ".rsrc_") || n == "." || n == ".." {
			continue
		}
		if used[n] {
			continue
		}
		used[n] = true
		return n
	}
}

func countBucket(n int) string {
	switch {
	case n == 0:
		return "0"
	case n <= 3:
		return "1-3"
	case n <= 10:
		return "4-10"
	case n <= 30:
		return "11-30"
	default:
		return ">30"
	}
}

func isASCII(s string) bool {
	for i := 0; i < len(s); i++ {
		if s[i] >= 0x80 {
			return false
		}
	}
	return true
}

func c10FileSize(r *RNG, max int) int {
	switch r.Intn(10) {
	case 0:
		return 0
	case 1:
		return r.Pick(1, 2, 15, 16, 17)
	case 2, 3, 4, 5:
		return r.Intn(600)
	case 6, 7:
		return r.Intn(5000)
	case 8:
		return r.Pick(4095, 4096, 4097, 32767, 32768, 32769)
	default:
		return r.Intn(max + 1)
	}
}

// genTree builds a random tree below a directory named `name`; forks controls whether files get side files.
func genTree(r *RNG, name string, depth, maxFan, maxSize int, forks bool, budget *int) *tnode {
	t := &tnode{name: name, isDir: true}
	fan := r.Intn(maxFan + 1)
	if depth == 0 {
		fan = 2 + r.Intn(maxFan-1)
		if r.Chance(5) {
			fan = r.Intn(2) // nearly empty and empty folders
		}
	} else if depth == 1 && r.Chance(60) {
		fan = 1 + r.Intn(maxFan)
	}
	if *budget > 60 && depth <= 2 {
		fan = maxFan // a large tree was asked for
	}
	used := map[string]bool{}
	for i := 0; i < fan && *budget > 0; i++ {
		*budget--
		n := genTreeName(r, used, true)
		if depth < 3 && (r.Chance(35) || (*budget > 60 && r.Chance(30))) {
			t.kids = append(t.kids, genTree(r, n, depth+1, maxFan, maxSize, forks, budget))
			continue
		}
		f := &diskFile{Name: n, ReqName: []byte(n), Data: genData(r, c10FileSize(r, maxSize)), ModTime: randModTime(r)}
		if forks {
			switch r.Intn(8) {
			case 0, 1:
				i := randInfoSpec(r, []byte(n))
				f.Info = &i
			case 2:
				i := randInfoSpec(r, []byte(n))
				f.Info = &i
				f.HasRsrc = true
				f.Rsrc = genData(r, r.Pick(0, 1, 40, r.Intn(3000)))
			case 3:
				if r.Chance(30) {
					f.HasRsrc = true // a resource fork without an information fork (fork count stays 2)
					f.Rsrc = genData(r, 1+r.Intn(50))
				}
			}
		}
		t.kids = append(t.kids, &tnode{name: n, file: f})
	}
	return t
}

// addAliases puts aliases of files into folders of a stored tree: links made by the real Make Alias transaction
// when every path component is ASCII (same name, other folder), fixture links otherwise / additionally (other
// names, dot names, targets outside the tree).  In the model an alias is a file holding the target's bytes, with
// the target's modification time and no side files of its own.
func addAliases(c *Case, ts *TS, cc *hotline.ClientConn, tree *tnode, parent string, pathItems [][]byte) {
	r := c.R
	type at struct {
		n     *tnode
		dir   string
		comps [][]byte
	}
	var dirs, files []at
	var rec func(t *tnode, dir string, comps [][]byte)
	rec = func(t *tnode, dir string, comps [][]byte) {
		p := filepath.Join(dir, t.name)
		cs := append(append([][]byte{}, comps...), []byte(t.name))
		if t.isDir {
			dirs = append(dirs, at{t, p, cs})
			for _, k := range t.kids {
				rec(k, p, cs)
			}
		} else if t.linkTo == "" {
			files = append(files, at{t, dir, comps})
		}
	}
	rec(tree, parent, pathItems)
	relRoot := c10RelRoot(ts)
	// linkString: the absolute path, or the relative path from the folder that will hold the link (as `ln -s` stores it)
	linkString := func(linkDir, target string) string {
		if r.Chance(50) {
			if rel, err := filepath.Rel(linkDir, target); err == nil {
				if !strings.HasPrefix(rel, "..") && r.Chance(30) {
					rel = "./" + rel
				}
				c.Dist("folder-download/alias-link-string=relative")
				return rel
			}
		}
		c.Dist("folder-download/alias-link-string=absolute")
		return target
	}
	// makeAlias runs the real Make Alias transaction, 30% of the time under a RELATIVE file root (the server's working
	// directory is not the tree: the link string is then relative to the working directory)
	makeAlias := func(id uint32, name string, from, to [][]byte) bool {
		saved := ts.Srv.Config.FileRoot
		if relRoot != "" && r.Chance(30) {
			ts.Srv.Config.FileRoot = relRoot
			c.Dist("folder-download/alias-by-handler-under-relative-root")
		}
		res, _, pan := ts.Call(cc, mkTran(hotline.TranMakeFileAlias, id, fld(hotline.FieldFileName, []byte(name)),
			fld(hotline.FieldFilePath, encodePathItems(from)), fld(hotline.FieldFileNewPath, encodePathItems(to))))
		ts.Srv.Config.FileRoot = saved
		return pan == nil && len(res) == 1 && res[0].ErrorCode == [4]byte{}
	}
	outside := &diskFile{Dir: filepath.Join(ts.Root, "outside-targets"), Name: fmt.Sprintf("o%d.dat", r.Intn(1000)), Data: genData(r, r.Intn(3000)), ModTime: randModTime(r)}
	outside.write()
	n := 1 + r.Intn(4)
	for i := 0; i < n && len(files) > 0; i++ {
		d := dirs[r.Intn(len(dirs))]
		used := map[string]bool{}
		for _, k := range d.n.kids {
			used[k.name] = true
		}
		tf := files[r.Intn(len(files))]
		target, tdata, tmod := filepath.Join(tf.dir, tf.n.name), tf.n.file.Data, tf.n.file.ModTime
		name := tf.n.name
		viaHandler := false
		if r.Chance(25) {
			target, tdata, tmod, name = outside.path(), outside.Data, outside.ModTime, outside.Name
		} else if !used[name] && tf.dir != d.dir && r.Chance(60) {
			ascii := true
			for _, cp := range append(append([][]byte{}, tf.comps...), d.comps...) {
				ascii = ascii && isASCII(string(cp))
			}
			viaHandler = ascii && isASCII(name)
		}
		if !viaHandler {
			name = r.pickStr("alias-", "ln ", ".hidden-alias-", "z-") + name
		}
		if used[name] || len(name) > 200 {
			continue
		}
		lp := filepath.Join(d.dir, name)
		if viaHandler {
			if !makeAlias(9000+uint32(i), name, tf.comps, d.comps) {
				continue
			}
			c.Dist("folder-download/alias-by-handler")
		} else {
			if os.Symlink(linkString(d.dir, target), lp) != nil {
				continue
			}
			c.Dist("folder-download/alias-by-fixture")
		}
		_, _ = tdata, tmod
		if an := c10AliasNode(c, d.dir, name); an != nil {
			d.n.kids = append(d.n.kids, an)
			tree.hasLinks = true
		}
	}
	// DANGLING aliases: made by the real handler or the fixture, the target then removed — announced and sent as a file
	// with an empty data fork (zero dates, default type and creator: nothing can be stat'ed), and the walk goes on
	for i, m := 0, r.Intn(3); i < m; i++ {
		d := dirs[r.Intn(len(dirs))]
		used := map[string]bool{}
		for _, k := range d.n.kids {
			used[k.name] = true
		}
		name := fmt.Sprintf("gone%d%s", r.Intn(100), r.pickStr(".txt", ".jpg", "", ".zip"))
		if r.Chance(15) {
			name = "." + name
		}
		if used[name] {
			continue
		}
		gdir := filepath.Join(ts.Root, "outside-targets", fmt.Sprintf("gone-%d", r.Intn(100000)))
		if os.MkdirAll(gdir, 0755) != nil || os.WriteFile(filepath.Join(gdir, name), genData(r, 1+r.Intn(300)), 0644) != nil {
			continue
		}
		ascii := true
		for _, cp := range d.comps {
			ascii = ascii && isASCII(string(cp))
		}
		lp := filepath.Join(d.dir, name)
		if ascii && r.Chance(60) {
			if !makeAlias(9200+uint32(i), name, [][]byte{[]byte("outside-targets"), []byte(filepath.Base(gdir))}, d.comps) {
				continue
			}
			c.Dist("folder-download/dangling-alias-by-handler")
		} else {
			if os.Symlink(r.pickStr(filepath.Join(gdir, name), "no/such/relative/target", linkString(d.dir, filepath.Join(gdir, name))), lp) != nil {
				continue
			}
			c.Dist("folder-download/dangling-alias-by-fixture")
		}
		os.RemoveAll(gdir)
		if an := c10AliasNode(c, d.dir, name); an != nil {
			d.n.kids = append(d.n.kids, an)
			tree.hasLinks = true
		}
	}
	// aliases of FOLDERS: one folder item without children, whatever the target holds (the walk does not descend)
	outDir := filepath.Join(ts.Root, "outside-targets", fmt.Sprintf("dir%d", r.Intn(1000)))
	os.MkdirAll(filepath.Join(outDir, "inner"), 0755)
	os.WriteFile(filepath.Join(outDir, "inner", "not-sent.txt"), []byte("below an aliased folder"), 0644)
	os.WriteFile(filepath.Join(outDir, "not-sent-either"), genData(r, 10), 0644)
	for i, m := 0, r.Intn(3); i < m; i++ {
		d := dirs[r.Intn(len(dirs))]
		used := map[string]bool{}
		for _, k := range d.n.kids {
			used[k.name] = true
		}
		tg := dirs[r.Intn(len(dirs))]
		target, name := tg.dir, tg.n.name
		parentComps := tg.comps[:len(tg.comps)-1]
		viaHandler := false
		if r.Chance(30) {
			target, name = outDir, filepath.Base(outDir)
		} else if !used[name] && filepath.Dir(tg.dir) != d.dir && r.Chance(60) {
			ascii := isASCII(name)
			for _, cp := range append(append([][]byte{}, parentComps...), d.comps...) {
				ascii = ascii && isASCII(string(cp))
			}
			viaHandler = ascii
		}
		if !viaHandler {
			name = r.pickStr("dir-alias-", "to ", ".hidden-dir-alias-", "y-") + name
		}
		if used[name] || len(name) > 200 {
			continue
		}
		if viaHandler {
			if !makeAlias(9100+uint32(i), name, parentComps, d.comps) {
				continue
			}
			c.Dist("folder-download/folder-alias-by-handler")
		} else {
			if os.Symlink(linkString(d.dir, target), filepath.Join(d.dir, name)) != nil {
				continue
			}
			c.Dist("folder-download/folder-alias-by-fixture")
		}
		if an := c10AliasNode(c, d.dir, name); an != nil {
			d.n.kids = append(d.n.kids, an)
			tree.hasLinks = true
		}
	}
}

// c10RelRoot: the file root as a path relative to the working directory of this process ("" when there is none).
func c10RelRoot(ts *TS) string {
	wd, err := os.Getwd()
	if err != nil {
		return ""
	}
	rr, err := filepath.Rel(wd, ts.Root)
	if err != nil || filepath.IsAbs(rr) {
		return ""
	}
	if fi, err := os.Stat(rr); err != nil || !fi.IsDir() {
		return ""
	}
	return rr
}

// c10AliasNode describes the alias dir/name for the expectation.  WHERE it leads is decided by the MODEL (`resolveAt`:
// an absolute link string from the root, a relative one from the folder that holds the link — never from the working
// directory); WHAT exists there is read from the disk without following anything.  A regular file → a file item with
// that file's bytes and date under the alias's name; a folder → one folder item; nothing → the empty file.  The kernel's
// own resolution of the link is compared with the model's (correspondence `alias-resolution`).
func c10AliasNode(c *Case, dir, name string) *tnode {
	lp := filepath.Join(dir, name)
	ls, err := os.Readlink(lp)
	if err != nil {
		return nil
	}
	kind := "r"
	if filepath.IsAbs(ls) {
		kind = "a"
	}
	ans := c.O.Ask(fmt.Sprintf("aliasres %s %s %s", hx([]byte(dir)), kind, hx([]byte(ls))))
	mp, ok := unhexC10(ans)
	if !ok {
		c.Note("oracle", ans)
		c.Disagree("oracle-aliasres", "the oracle could not resolve a link string")
		os.Remove(lp)
		return nil
	}
	modelPath := "/" + string(mp)
	if real, err := filepath.EvalSymlinks(lp); err == nil {
		if d2, err := filepath.EvalSymlinks(dir); err == nil && d2 == dir {
			c.Note("alias", lp)
			c.Note("link_string", ls)
			c.Corr("alias-resolution", real, modelPath, false)
		}
	}
	li, err := os.Lstat(modelPath)
	switch {
	case err != nil:
		c.Dist("folder-download/alias-leads-to=nothing")
		return &tnode{name: name, linkTo: ls, file: &diskFile{Dir: dir, Name: name, ReqName: []byte(name), Data: []byte{}, Dangling: true}}
	case li.IsDir():
		c.Dist("folder-download/alias-leads-to=folder")
		return &tnode{name: name, isDir: true, linkTo: ls}
	case li.Mode().IsRegular():
		data, err := os.ReadFile(modelPath)
		if err != nil {
			os.Remove(lp)
			return nil
		}
		c.Dist("folder-download/alias-leads-to=file")
		return &tnode{name: name, linkTo: ls, file: &diskFile{Dir: dir, Name: name, ReqName: []byte(name), Data: data, ModTime: li.ModTime()}}
	}
	os.Remove(lp) // a chain of aliases: not generated
	return nil
}

func unhexC10(s string) ([]byte, bool) {
	s = strings.TrimSpace(s)
	if s == "-" || s == "" {
		return nil, s == "-"
	}
	if len(s)%2 != 0 {
		return nil, false
	}
	out := make([]byte, len(s)/2)
	for i := range out {
		var v byte
		for j := 0; j < 2; j++ {
			ch := s[2*i+j]
			switch {
			case ch >= '0' && ch <= '9':
				v = v<<4 | (ch - '0')
			case ch >= 'a' && ch <= 'f':
				v = v<<4 | (ch - 'a' + 10)
			case ch >= 'A' && ch <= 'F':
				v = v<<4 | (ch - 'A' + 10)
			default:
				return nil, false
			}
		}
		out[i] = v
	}
	return out, true
}

// writeTree stores the tree below parentDir.
func writeTree(t *tnode, parentDir string) error {
	p := filepath.Join(parentDir, t.name)
	if t.isDir {
		if err := os.MkdirAll(p, 0755); err != nil {
			return err
		}
		for _, k := range t.kids {
			if err := writeTree(k, p); err != nil {
				return err
			}
		}
		return nil
	}
	t.file.Dir = parentDir
	return t.file.write()
}

// oracleTokens renders the tree for the oracle; side files are ordinary (dot) files of the directory.
func (t *tnode) oracleTokens(sb *strings.Builder) {
	if !t.isDir {
		sb.WriteString(" F " + t.file.oracleSpec())
		return
	}
	n := len(t.kids)
	for _, k := range t.kids {
		if !k.isDir && k.file.Info != nil {
			n++
		}
		if !k.isDir && k.file.HasRsrc {
			n++
		}
	}
	fmt.Fprintf(sb, " D %s %d", hx([]byte(t.name)), n)
	for _, k := range t.kids {
		k.oracleTokens(sb)
		if !k.isDir && k.file.Info != nil {
			fmt.Fprintf(sb, " F %s %d - 0000000000000000 54455854 54545854 0", hx([]byte(".info_"+k.name)), len(k.file.InfoRaw))
		}
		if !k.isDir && k.file.HasRsrc {
			fmt.Fprintf(sb, " F %s %d - 0000000000000000 54455854 54545854 0", hx([]byte(".rsrc_"+k.name)), len(k.file.Rsrc))
		}
	}
}

func (t *tnode) tokens() string {
	var sb strings.Builder
	t.oracleTokens(&sb)
	return strings.TrimSpace(sb.String())
}

// visibleBelow collects the relative paths ("a/b") of all entries below the root whose own name does not start with a dot.
func (t *tnode) collect(prefix string, files map[string]*diskFile, dirs map[string]bool, all bool) {
	for _, k := range t.kids {
		p := k.name
		if prefix != "" {
			p = prefix + "/" + k.name
		}
		if all || !strings.HasPrefix(k.name, ".") {
			if k.isDir {
				dirs[p] = true
			} else {
				files[p] = k.file
			}
		}
		if k.isDir {
			k.collect(p, files, dirs, all)
		}
	}
}

func compsKey(comps [][]byte) string {
	s := make([]string, len(comps))
	for i, c := range comps {
		s[i] = string(c)
	}
	return strings.Join(s, "/")
}

// ---------------------------------------------------------------- reference folder-download client

type fdlItem struct {
	hdr    []byte
	key    string
	isDir  bool
	act    string // "s" | "n" | "r<k>" | "" (never answered)
	k      int
	body   []byte
	answer bool
}

type fdlClient struct {
	force   map[string]string // scripted actions by item path ("s", "n", "r<k>")
	r       *RNG
	files   map[string]*diskFile
	mode    int // 0 all send, 1 mixed, 2 resume-heavy, 3 all next
	stopAt  int // disconnect instead of answering item header number stopAt (-1: never)
	stopMid bool
	state   int
	items   []*fdlItem
	proto   []string
}

func (cl *fdlClient) chooseAction(it *fdlItem) []byte {
	r := cl.r
	f := cl.files[it.key]
	kind := 1
	if a, ok := cl.force[it.key]; ok {
		switch {
		case a == "n":
			it.act = "n"
			return []byte{0, 3}
		case strings.HasPrefix(a, "r"):
			k := 0
			fmt.Sscanf(a[1:], "%d", &k)
			it.act, it.k = a, k
			rd := resumeDataBytes(k)
			return append(append([]byte{0, 2}, be16(len(rd))...), rd...)
		default:
			it.act = "s"
			return []byte{0, 1}
		}
	}
	switch cl.mode {
	case 0:
		kind = 1
	case 1:
		kind = r.Pick(1, 1, 2, 3)
	case 2:
		kind = r.Pick(2, 2, 2, 1)
	default:
		kind = 3
	}
	if it.isDir && kind == 2 && r.Chance(70) {
		kind = 3 // clients answer folders with "next"; resume on a folder is exercised occasionally
	}
	switch kind {
	case 3:
		it.act = "n"
		return []byte{0, 3}
	case 2:
		size := 0
		if f != nil {
			size = len(f.Data)
		}
		k := r.Pick(0, 1, size-1, size, r.Intn(size+1), r.Intn(size+1))
		if k < 0 {
			k = 0
		}
		if k > size {
			k = size
		}
		it.act, it.k = fmt.Sprintf("r%d", k), k
		rd := resumeDataBytes(k)
		b := []byte{0, 2}
		b = append(b, be16(len(rd))...)
		return append(b, rd...)
	default:
		it.act = "s"
		if r.Chance(10) {
			return []byte{0, byte(r.Pick(0, 4, 7))} // anything but 2 and 3 means "send"
		}
		return []byte{0, 1}
	}
}

func (cl *fdlClient) next(w []byte) ([]byte, bool) {
	switch cl.state {
	case 0:
		if len(w) != 0 {
			cl.proto = append(cl.proto, fmt.Sprintf("server wrote %d bytes before the client's first action", len(w)))
		}
		cl.state = 1
		return []byte{0, 3}, false
	case 1:
		comps, isDir, rest, err := parseItemHeader(w)
		it := &fdlItem{hdr: w, isDir: isDir}
		cl.items = append(cl.items, it)
		if err != nil {
			prev := "none"
			if n := len(cl.items); n >= 2 {
				prev = fmt.Sprintf("%q answered %q", cl.items[n-2].key, cl.items[n-2].act)
			}
			cl.proto = append(cl.proto, "expected an item header (previous item: "+prev+"): "+err.Error())
			return nil, true
		}
		it.key = compsKey(comps)
		if len(rest) != 0 {
			it.hdr = w[:len(w)-len(rest)]
			cl.proto = append(cl.proto, fmt.Sprintf("%d extra bytes after item header %d", len(rest), len(cl.items)))
		}
		if cl.stopAt == len(cl.items)-1 && !cl.stopMid {
			return nil, true
		}
		a := cl.chooseAction(it)
		it.answer = true
		if !isDir && it.act != "n" {
			cl.state = 2
		}
		return a, false
	default:
		it := cl.items[len(cl.items)-1]
		it.body = w
		cl.state = 1
		if cl.stopAt == len(cl.items)-1 && cl.stopMid {
			return nil, true
		}
		return []byte{0, 3}, false
	}
}

// ---------------------------------------------------------------- folder download case

func runC10Download(c *Case) {
	r := c.R
	ts, err := newTS(TSOpt{Direct: true, PreserveForks: r.Bool()})
	if err != nil {
		return
	}
	set := &transferSet{ts: ts, x: c.X}
	defer func() {
		if !set.waitAll() {
			c.Violation("transfer-handler-hangs", "a transfer handler did not return")
		}
		ts.Close()
	}()
	cc, _ := ts.DirectClient("admin", []byte("admin"), "127.0.0.1:1234")
	if rr := c10RelRoot(ts); rr != "" && r.Chance(25) {
		// the whole case under a RELATIVE file root (as `-config config` gives): the working directory is not the tree
		ts.Srv.Config.FileRoot = rr
		c.Dist("folder-download/relative-file-root")
	}
	id := uint32(100)
	maxSize := 100 * 1024
	if c.X.Tier == "thorough" {
		maxSize = 200 * 1024
	}
	for ti := 0; ti < 4; ti++ {
		budget := 10 + r.Intn(50)
		fanMax := 5
		if ti == 0 && r.Chance(30) {
			budget, fanMax = 60+r.Intn(90), 7 // an occasional large tree (item counts beyond a few dozen)
		}
		rootName := genTreeName(r, map[string]bool{}, false)
		tree := genTree(r, rootName, 0, fanMax, maxSize, r.Chance(60), &budget)
		var pathItems [][]byte
		parent := ts.Root
		for d := r.Pick(0, 0, 1); d > 0; d-- {
			n := fmt.Sprintf("p%d-%d", ti, d)
			pathItems = append(pathItems, []byte(n))
			parent = filepath.Join(parent, n)
		}
		tree.name = fmt.Sprintf("%s#%d", rootName, ti)
		if err := writeTree(tree, parent); err != nil {
			c.Dist("skip/write-failed")
			continue
		}
		if r.Chance(50) {
			addAliases(c, ts, cc, tree, parent, pathItems)
		}
		for _, mode := range []int{0, 1, r.Pick(2, 3)} {
			id++
			c10DownloadOnce(c, ts, set, cc, id, tree, pathItems, mode)
		}
	}
}

func c10DownloadOnce(c *Case, ts *TS, set *transferSet, cc *hotline.ClientConn, id uint32, tree *tnode, pathItems [][]byte, mode int) {
	c10DownloadForced(c, ts, set, cc, id, tree, pathItems, mode, nil)
}

func c10DownloadForced(c *Case, ts *TS, set *transferSet, cc *hotline.ClientConn, id uint32, tree *tnode, pathItems [][]byte, mode int, force map[string]string) {
	r := c.R
	files, dirs := map[string]*diskFile{}, map[string]bool{}
	tree.collect("", files, dirs, false)
	nVisible := len(files) + len(dirs)
	tok := tree.tokens()
	describe := func() {
		c.Note("tree", tok)
		c.Note("mode", mode)
	}
	viol := func(key, what string) { describe(); c.Violation(key, what) }
	fields := []hotline.Field{fld(hotline.FieldFileName, []byte(tree.name))}
	if len(pathItems) > 0 {
		fields = append(fields, fld(hotline.FieldFilePath, encodePathItems(pathItems)))
	}
	res, _, pan := ts.Call(cc, mkTran(hotline.TranDownloadFldr, id, fields...))
	if pan != nil || len(res) != 1 || res[0].ErrorCode != [4]byte{} {
		c.Note("panic", fmt.Sprint(pan))
		viol("folder-download-request-failed", "a granted folder download request got no reference number")
		return
	}
	refB, _ := getField(&res[0], hotline.FieldRefNum)
	cntB, ok := getField(&res[0], hotline.FieldFolderItemCount)
	szB, ok2 := getField(&res[0], hotline.FieldTransferSize)
	if len(refB) != 4 || !ok || len(cntB) != 2 || !ok2 || len(szB) != 4 {
		c.Note("reply", replyCanon(&res[0]))
		viol("folder-download-reply-fields", "the folder download reply lacks reference number, item count or transfer size")
		return
	}
	var ref [4]byte
	copy(ref[:], refB)
	count := int(binary.BigEndian.Uint16(cntB))
	describe()
	if tree.hasLinks {
		// CalcTotalSize adds the length of a link's target string for an alias (as coded; field 108 of a folder reply
		// is not part of the property): only the count is compared for trees with aliases
		m := strings.Fields(c.O.Ask("fcount " + tok))
		if len(m) > 0 {
			c.Corr("folder-count", fmt.Sprint(count), m[0], false)
		}
	} else {
		c.Corr("folder-count-and-size", fmt.Sprintf("%d %d", count, binary.BigEndian.Uint32(szB)), c.O.Ask("fcount "+tok), false)
	}

	cl := &fdlClient{r: r, files: files, mode: mode, stopAt: -1, force: force}
	if force == nil && nVisible > 0 && r.Chance(12) {
		cl.stopAt = r.Intn(nVisible)
		cl.stopMid = r.Bool()
	}
	conn := newDlgConn(preambleBytes(ref, 0), randSegs(r), cl.next)
	x := set.start(ref, conn)
	if !x.waitBody() {
		viol("transfer-handler-hangs", "the folder download did not finish")
		return
	}
	// what the server wrote after the client's last turn: the next header when the client left; anything
	// else means the server ended the transfer in the middle of an item
	aborted := false
	if tail := conn.Tail(); len(tail) > 0 {
		comps, isDir, rest, err := parseItemHeader(tail)
		switch {
		case cl.state == 2 && len(cl.items) > 0:
			cl.items[len(cl.items)-1].body = tail
			aborted = true
		case err != nil || len(rest) != 0:
			cl.proto = append(cl.proto, "bytes after the client's last turn are not one item header")
		default:
			cl.items = append(cl.items, &fdlItem{hdr: tail, key: compsKey(comps), isDir: isDir})
		}
	}
	if len(cl.proto) > 0 {
		c.Note("protocol", cl.proto)
		viol("folder-download-dialogue", "the folder download did not follow the item dialogue: "+cl.proto[0])
		return
	}
	stopped := cl.stopAt >= 0
	c.Dist(fmt.Sprintf("folder-download/mode=%d stopped=%v", mode, stopped))
	c.Dist("folder-download/items=" + countBucket(len(cl.items)))

	// --- the property, directly
	if aborted && !stopped {
		viol("folder-download-aborted", fmt.Sprintf("the server ended the folder download inside item %d of %d announced although the client kept answering", len(cl.items), count))
	}
	if !stopped {
		if len(cl.items) != count {
			viol("item-count-vs-headers", fmt.Sprintf("reply field 220 announces %d items, %d item headers were sent", count, len(cl.items)))
		}
		seen := map[string]int{}
		for _, it := range cl.items {
			seen[it.key]++
		}
		for k := range files {
			if seen[k] != 1 {
				viol("visible-file-not-sent-once", fmt.Sprintf("visible file %q got %d headers", k, seen[k]))
			}
		}
		for k := range dirs {
			if seen[k] != 1 {
				viol("visible-folder-not-sent-once", fmt.Sprintf("visible folder %q got %d headers", k, seen[k]))
			}
		}
		if len(seen) != nVisible {
			viol("unexpected-item-header", fmt.Sprintf("%d distinct items sent, %d visible entries exist", len(seen), nVisible))
		}
	}
	pos := map[string]int{}
	for i, it := range cl.items {
		pos[it.key] = i
		if it.isDir != dirs[it.key] && (dirs[it.key] || files[it.key] != nil) {
			viol("item-kind", fmt.Sprintf("item %q announced with the wrong kind", it.key))
		}
		// depth-first: the parent folder (if visible) was sent before, and everything since is below it
		if j := strings.LastIndex(it.key, "/"); j >= 0 {
			par := it.key[:j]
			if dirs[par] {
				pi, ok := pos[par]
				if !ok {
					viol("depth-first-order", fmt.Sprintf("item %q sent before its folder", it.key))
				} else {
					for q := pi + 1; q < i; q++ {
						if !strings.HasPrefix(cl.items[q].key, par+"/") {
							viol("depth-first-order", fmt.Sprintf("item %q is separated from its folder by %q", it.key, cl.items[q].key))
						}
					}
				}
			}
		}
	}
	var acts []string
	var rows []string
	for _, it := range cl.items {
		if it.answer {
			acts = append(acts, it.act)
		}
		f := files[it.key]
		if it.isDir || f == nil {
			rows = append(rows, fmt.Sprintf("%s %s %d", hx(it.hdr), map[bool]string{true: "d", false: "f"}[it.isDir], len(it.body)))
			if len(it.body) != 0 {
				viol("bytes-after-folder-or-skip", fmt.Sprintf("%d bytes followed item %q which is a folder", len(it.body), it.key))
			}
			continue
		}
		if len(it.body) == 0 {
			rows = append(rows, fmt.Sprintf("%s f 0", hx(it.hdr)))
			continue
		}
		if it.act == "n" {
			viol("bytes-after-folder-or-skip", fmt.Sprintf("%d bytes followed item %q which the client skipped", len(it.body), it.key))
		}
		k := 0
		if strings.HasPrefix(it.act, "r") {
			k = it.k
		}
		rem := len(f.Data) - k
		if len(it.body) < 4 {
			viol("file-body-short", fmt.Sprintf("item %q: %d bytes follow the action", it.key, len(it.body)))
			continue
		}
		prefix := int(binary.BigEndian.Uint32(it.body[:4]))
		sp := splitFlattened(it.body[4:], rem)
		if !sp.OK {
			c.Note("item", it.key)
			c.Note("action", it.act)
			c.Note("body_len", len(it.body))
			viol("file-body-unparseable", fmt.Sprintf("item %q (%s): %s", it.key, it.act, sp.Why))
			continue
		}
		after := sp.Trailer
		rl := 0
		if len(after) > 0 && f.HasRsrc {
			rl = len(f.Rsrc)
			if rl > len(after) {
				rl = len(after)
			}
		}
		rows = append(rows, fmt.Sprintf("%s f %d prefix=%d ffo=%s data=%d trailer=%s rsrc=%d", hx(it.hdr), len(it.body), prefix, hx(sp.Hdr), rem, hx(after[:len(after)-rl]), rl))
		c.Nontrivial(fmt.Sprintf("%s|%d|%s|%v|%v|%d", it.key, len(f.Data), it.act, f.Info != nil, f.HasRsrc, len(f.Rsrc)))
		note := func() { c.Note("item", it.key); c.Note("action", it.act); c.Note("file_size", len(f.Data)); c.Note("prefix", prefix) }
		if !bytesEq(sp.Data, f.Data[k:]) {
			note()
			c.Note("diff", firstDiff(sp.Data, f.Data[k:]))
			viol("folder-item-data", fmt.Sprintf("item %q (%s): the data part is not the file's bytes from offset %d", it.key, it.act, k))
		}
		eff := f.effInfo()
		if sp.InfoSize != len(eff.encode()) || !bytesEq(sp.Name, eff.Name) || sp.ForkCount != f.forkCount() {
			note()
			viol("folder-item-header", fmt.Sprintf("item %q: flattened-file header fields are inconsistent with the file", it.key))
		}
		switch {
		case it.act == "s" && f.Info == nil:
			if len(after) != 0 {
				note()
				viol("folder-item-trailer", fmt.Sprintf("item %q: %d bytes follow the data of a two-fork file", it.key, len(after)))
			}
			if !f.HasRsrc && len(it.body)-4 != prefix {
				note()
				viol("folder-item-size-prefix", fmt.Sprintf("item %q (send): size prefix %d, %d bytes follow", it.key, prefix, len(it.body)-4))
			}
		case it.act == "s":
			want := append(forkHeaderBytes("MACR", len(f.Rsrc)), f.Rsrc...)
			if !bytesEq(after, want) {
				note()
				viol("folder-item-trailer", fmt.Sprintf("item %q: the bytes after the data are not the MACR fork header and the stored fork", it.key))
			}
			if len(it.body)-4 != prefix+16 {
				note()
				viol("folder-item-size-prefix", fmt.Sprintf("item %q (send, three forks): size prefix %d, %d bytes follow (fork header not counted)", it.key, prefix, len(it.body)-4))
			}
		default: // resume
			if len(after) != 0 {
				note()
				viol("folder-item-trailer", fmt.Sprintf("item %q (resume): %d bytes follow the data", it.key, len(after)))
			}
			if !f.HasRsrc && len(it.body)-4 != prefix {
				note()
				viol("folder-item-size-prefix", fmt.Sprintf("item %q (resume from %d of %d): size prefix %d, %d bytes follow", it.key, k, len(f.Data), prefix, len(it.body)-4))
			}
		}
	}
	// --- the model's transcript (headers in walk order, per-action size prefix and header bytes)
	model := c.O.Ask("fdl " + strings.Join(acts, " ") + " | " + tok)
	impl := fmt.Sprintf("count=%d n=%d", count, len(cl.items))
	for _, rw := range rows {
		impl += " | " + rw
	}
	describe()
	c.Note("actions", strings.Join(acts, " "))
	c.Corr("folder-download-transcript", impl, model, true)
	c.Sample(map[string]any{"family": c.Fam, "items": len(cl.items), "mode": mode, "announced": count})
}

// ---------------------------------------------------------------- reference folder-upload client

type upItemSpec struct {
	comps [][]byte
	key   string
	isDir bool
	fc    int
	info  infoSpec
	data  []byte
	rsrc  []byte
}

type fulClient struct {
	items   []*upItemSpec
	cutItem int // index of the item whose file stream is cut (-1: none)
	cutAt   int // bytes of (4-byte size + flattened file) delivered
	state   int
	idx     int
	wrote   [][]byte // per item: what the server wrote in response (answer, then acknowledgement)
	first   []byte
	proto   []string
	offsets map[int]int
}

func (cl *fulClient) header(i int) []byte {
	it := cl.items[i]
	return itemHeaderBytes(it.comps, it.isDir)
}

func (cl *fulClient) advance() ([]byte, bool) {
	cl.idx++
	if cl.idx >= len(cl.items) {
		return nil, true
	}
	cl.state = 1
	return cl.header(cl.idx), false
}

func (cl *fulClient) next(w []byte) ([]byte, bool) {
	switch cl.state {
	case 0:
		cl.first = w
		if len(cl.items) == 0 {
			return nil, true
		}
		cl.idx = 0
		cl.state = 1
		return cl.header(0), false
	case 1:
		it := cl.items[cl.idx]
		cl.wrote = append(cl.wrote, append([]byte{}, w...))
		if it.isDir || (len(w) == 2 && w[1] == 3) {
			return cl.advance()
		}
		off := 0
		if len(w) >= 2 && w[1] == 2 {
			if len(w) < 4 {
				cl.proto = append(cl.proto, "resume answer without resume data")
				return nil, true
			}
			l := int(binary.BigEndian.Uint16(w[2:4]))
			o, ok := parseResumeOffset(w[4:])
			if !ok || len(w) != 4+l {
				cl.proto = append(cl.proto, "resume answer carries malformed resume data")
				return nil, true
			}
			off = o
		} else if !(len(w) == 2 && w[1] == 1) {
			cl.proto = append(cl.proto, fmt.Sprintf("unknown answer %x to item %d", w, cl.idx))
			return nil, true
		}
		if off > len(it.data) {
			cl.proto = append(cl.proto, fmt.Sprintf("resume offset %d beyond the file (%d)", off, len(it.data)))
			return nil, true
		}
		cl.offsets[cl.idx] = off
		stream := uploadStreamBytes(it.fc, it.info, it.data[off:], it.rsrc)
		b := append(be32(len(stream)), stream...)
		if cl.cutItem == cl.idx && cl.cutAt < len(b) {
			return append([]byte{}, b[:cl.cutAt]...), true
		}
		cl.state = 2
		return b, false
	default:
		cl.wrote[len(cl.wrote)-1] = append(cl.wrote[len(cl.wrote)-1], w...)
		return cl.advance()
	}
}

// preState describes what the upload folder holds before the upload.
type preEntry struct {
	kind string // "d" | "f" | "p" (partial)
	data []byte
}

func flattenItems(t *tnode, prefix [][]byte, r *RNG, out *[]*upItemSpec) {
	kids := append([]*tnode{}, t.kids...)
	if r.Bool() {
		sort.Slice(kids, func(i, j int) bool { return kids[i].name < kids[j].name })
	}
	for _, k := range kids {
		comps := append(append([][]byte{}, prefix...), []byte(k.name))
		it := &upItemSpec{comps: comps, key: compsKey(comps), isDir: k.isDir}
		if !k.isDir {
			it.fc = 2
			it.data = k.file.Data
			it.info = randInfoSpec(r, []byte(k.name))
			if len(it.info.Comment) > 30 {
				it.info.Comment = it.info.Comment[:10]
			}
			if r.Chance(30) {
				it.fc = 3
				it.rsrc = genData(r, r.Pick(0, 3, 100, r.Intn(2000)))
			}
		}
		*out = append(*out, it)
		if k.isDir {
			flattenItems(k, comps, r, out)
		}
	}
}

func itemsTokens(items []*upItemSpec) string {
	var sb strings.Builder
	for _, it := range items {
		p := make([]string, len(it.comps))
		for i, c := range it.comps {
			p[i] = hx(c)
		}
		if it.isDir {
			fmt.Fprintf(&sb, " D %s", strings.Join(p, "/"))
		} else {
			fmt.Fprintf(&sb, " F %s %d %s %d %d", strings.Join(p, "/"), it.fc, it.info.oracleArgs(), len(it.data), len(it.rsrc))
		}
	}
	return strings.TrimSpace(sb.String())
}

func keyToken(key string) string {
	ps := strings.Split(key, "/")
	for i, p := range ps {
		ps[i] = hx([]byte(p))
	}
	return strings.Join(ps, "/")
}

// diskStore lists the upload folder as the model's store: path:slot tokens (side files excluded) and contents.
func diskStore(root string) (tokens []string, final map[string][]byte, partial map[string][]byte, dirs map[string]bool, side []string) {
	final, partial, dirs = map[string][]byte{}, map[string][]byte{}, map[string]bool{}
	filepath.Walk(root, func(p string, info os.FileInfo, err error) error {
		if err != nil || p == root {
			return nil
		}
		rel, _ := filepath.Rel(root, p)
		base := filepath.Base(p)
		switch {
		case info.IsDir():
			dirs[rel] = true
		case strings.HasPrefix(base, ".info_") || strings.HasPrefix(base, ".rsrc_"):
			side = append(side, rel)
		case strings.HasSuffix(base, ".incomplete"):
			b, _ := os.ReadFile(p)
			partial[strings.TrimSuffix(rel, ".incomplete")] = b
		default:
			b, _ := os.ReadFile(p)
			final[rel] = b
		}
		return nil
	})
	keys := map[string]bool{}
	for k := range final {
		keys[k] = true
	}
	for k := range partial {
		keys[k] = true
	}
	for k := range dirs {
		keys[k] = true
	}
	for k := range keys {
		s := ""
		if dirs[k] {
			s = "d"
		} else if b, ok := final[k]; ok {
			s = fmt.Sprintf("f%d", len(b))
		}
		if b, ok := partial[k]; ok {
			s += fmt.Sprintf("p%d", len(b))
		}
		tokens = append(tokens, keyToken(k)+":"+s)
	}
	sort.Strings(tokens)
	sort.Strings(side)
	return
}

func sortedFsTokens(s string) string {
	t := strings.Fields(s)
	sort.Strings(t)
	return strings.Join(t, " ")
}

type c10Env struct {
	c   *Case
	ts  *TS
	set *transferSet
	cc  *hotline.ClientConn
	id  uint32
}

// uploadSession runs one folder upload of `items` into <root>/<folder> and compares answers and the resulting store with the model.
func (e *c10Env) uploadSession(folder string, items []*upItemSpec, cutItem, cutAt int, expect map[string][]byte, label string) (ok bool, offsets map[int]int) {
	c := e.c
	target := filepath.Join(e.ts.Root, folder)
	preTok, preFinal, prePartial, _, _ := diskStore(target)
	itok := itemsTokens(items)
	describe := func() {
		c.Note("session", label)
		c.Note("store_before", strings.Join(preTok, " "))
		c.Note("items", clip(itok))
		c.Note("cut", fmt.Sprintf("%d:%d", cutItem, cutAt))
	}
	viol := func(key, what string) { describe(); c.Violation(key, what) }
	e.id++
	total := 0
	for _, it := range items {
		total += len(it.data)
	}
	res, _, pan := e.ts.Call(e.cc, mkTran(hotline.TranUploadFldr, e.id, fld(hotline.FieldFileName, []byte(folder)),
		fld(hotline.FieldTransferSize, be32(total)), fld(hotline.FieldFolderItemCount, be16(len(items))), fld(hotline.FieldFileTransferOptions, []byte{0, 1})))
	if pan != nil || len(res) != 1 || res[0].ErrorCode != [4]byte{} {
		viol("folder-upload-request-failed", "a granted folder upload request got no reference number")
		return false, nil
	}
	refB, _ := getField(&res[0], hotline.FieldRefNum)
	if len(refB) != 4 {
		viol("folder-upload-request-failed", "the folder upload reply carries no reference number")
		return false, nil
	}
	var ref [4]byte
	copy(ref[:], refB)
	cl := &fulClient{items: items, cutItem: cutItem, cutAt: cutAt, offsets: map[int]int{}}
	conn := newDlgConn(preambleBytes(ref, total), randSegs(c.R), cl.next)
	x := e.set.start(ref, conn)
	if !x.waitBody() {
		viol("transfer-handler-hangs", "the folder upload did not finish")
		return false, nil
	}
	if cl.state == 2 || (cl.state == 1 && cl.idx < len(items)) {
		// the server stopped before acknowledging the current item (expected only when cut)
		if t := conn.Tail(); len(t) > 0 {
			if cl.state == 2 {
				cl.wrote[len(cl.wrote)-1] = append(cl.wrote[len(cl.wrote)-1], t...)
			} else {
				cl.wrote = append(cl.wrote, t)
			}
		}
	} else if t := conn.Tail(); len(t) > 0 && len(cl.wrote) > 0 {
		cl.wrote[len(cl.wrote)-1] = append(cl.wrote[len(cl.wrote)-1], t...)
	}
	if len(cl.proto) > 0 {
		c.Note("protocol", cl.proto)
		viol("folder-upload-dialogue", "the folder upload did not follow the item dialogue: "+cl.proto[0])
		return false, nil
	}
	if !bytesEq(cl.first, []byte{0, 3}) && len(items) > 0 {
		c.Note("first", hx(cl.first))
		viol("folder-upload-dialogue", "the server did not open the dialogue with next-file")
	}
	// model
	cutTok := "-"
	if cutItem >= 0 {
		cutTok = fmt.Sprintf("%d:%d", cutItem, cutAt)
	}
	model := c.O.Ask("ful " + cutTok + " | " + strings.Join(preTok, " ") + " | " + itok)
	postTok, final, partial, dirs, _ := diskStore(target)
	ws := make([]string, len(cl.wrote))
	for i, w := range cl.wrote {
		ws[i] = hx(w)
	}
	// normalise the model's answer (its listing order is arbitrary)
	mOK, mW, mFS := "", "", ""
	if i := strings.Index(model, " wrote="); i >= 0 {
		mOK = model[:i]
		rest := model[i+7:]
		if j := strings.Index(rest, " fs="); j >= 0 {
			mW, mFS = rest[:j], rest[j+4:]
		} else {
			mW = rest
		}
	}
	describe()
	c.Corr("folder-upload-answers", strings.Join(ws, " "), mW, false)
	c.Corr("folder-upload-store", strings.Join(postTok, " "), sortedFsTokens(mFS), false)
	_ = mOK
	// the property, directly: a streamed file whose final name already exists (and has no partial file) — empty
	// files included — is answered next-file and is byte-identical afterwards
	for i, it := range items {
		if it.isDir || i >= len(cl.wrote) {
			continue
		}
		old, existed := preFinal[it.key]
		if _, part := prePartial[it.key]; !existed || part {
			continue
		}
		if !bytesEq(cl.wrote[i], []byte{0, 3}) {
			c.Note("item", it.key)
			c.Note("existing_size", len(old))
			c.Note("client_size", len(it.data))
			c.Note("server_answer", hx(cl.wrote[i]))
			viol("existing-file-not-skipped", fmt.Sprintf("%s: file %q already exists (%d bytes) but the server answered %x instead of next-file", label, it.key, len(old), cl.wrote[i]))
		}
		if now, has := final[it.key]; !has || !bytesEq(now, old) {
			c.Note("item", it.key)
			c.Note("existing_size", len(old))
			viol("existing-file-not-skipped", fmt.Sprintf("%s: file %q existed before the upload and is not byte-identical afterwards", label, it.key))
		}
	}
	// every streamed item exists afterwards with exactly the expected bytes (expect: key -> content, nil = folder)
	if cutItem < 0 {
		for _, it := range items {
			if it.isDir {
				if !dirs[it.key] {
					viol("uploaded-folder-missing", fmt.Sprintf("%s: folder %q was streamed but does not exist", label, it.key))
				}
				continue
			}
			got, has := final[it.key]
			want := expect[it.key]
			if !has || !bytesEq(got, want) {
				c.Note("diff", firstDiff(got, want))
				viol("uploaded-file-not-exact", fmt.Sprintf("%s: file %q does not hold the expected bytes after the upload (exists=%v)", label, it.key, has))
			}
			if _, p := partial[it.key]; p {
				viol("partial-left-behind", fmt.Sprintf("%s: file %q still has a partial file after a complete upload", label, it.key))
			}
		}
		streamed := map[string]bool{}
		for _, it := range items {
			streamed[it.key] = true
		}
		for k := range final {
			if !streamed[k] && expect[k] == nil {
				if _, pre := expect["\x00pre:"+k]; !pre {
					viol("upload-created-extra-file", fmt.Sprintf("%s: %q exists but was neither streamed nor there before", label, k))
				}
			}
		}
	}
	return true, cl.offsets
}

func runC10Upload(c *Case) {
	r := c.R
	ts, err := newTS(TSOpt{Direct: true, PreserveForks: r.Bool()})
	if err != nil {
		return
	}
	set := &transferSet{ts: ts, x: c.X}
	defer func() {
		if !set.waitAll() {
			c.Violation("transfer-handler-hangs", "a transfer handler did not return")
		}
		ts.Close()
	}()
	cc, _ := ts.DirectClient("admin", []byte("admin"), "127.0.0.1:1234")
	c.Dist(fmt.Sprintf("folder-upload/preserve-forks=%v", ts.Srv.Config.PreserveResourceForks))
	e := &c10Env{c: c, ts: ts, set: set, cc: cc, id: 500}
	maxSize := 60 * 1024
	for ti := 0; ti < 4; ti++ {
		budget := 6 + r.Intn(30)
		tree := genTree(r, "t", 0, 5, maxSize, false, &budget)
		folder := fmt.Sprintf("up%d %s", ti, genTreeName(r, map[string]bool{}, false))
		var items []*upItemSpec
		flattenItems(tree, nil, r, &items)
		if len(items) == 0 {
			continue
		}
		target := filepath.Join(ts.Root, folder)
		expect := map[string][]byte{}
		// pre-populate: some folders, some complete files (possibly with other contents), some partial files
		preMode := r.Intn(3) // 0: empty target, 1: some, 2: many
		if preMode > 0 {
			os.MkdirAll(target, 0755)
		}
		for _, it := range items {
			if it.isDir {
				if preMode > 0 && r.Chance(20*preMode) {
					os.MkdirAll(filepath.Join(target, filepath.FromSlash(it.key)), 0755)
				}
				continue
			}
			expect[it.key] = it.data
			if preMode == 0 || !r.Chance(25*preMode) {
				continue
			}
			p := filepath.Join(target, filepath.FromSlash(it.key))
			if os.MkdirAll(filepath.Dir(p), 0755) != nil {
				continue
			}
			if r.Bool() {
				// complete file already there: skipped, keeps what it holds
				b := it.data
				if r.Chance(30) {
					b = genData(r, r.Intn(100))
				}
				if r.Chance(25) {
					b = []byte{} // an existing EMPTY file is complete too: skipped, stays empty
				}
				os.WriteFile(p, b, 0644)
				expect[it.key] = b
			} else {
				k := r.Pick(0, 1, len(it.data)/2, len(it.data)-1, len(it.data))
				if k < 0 {
					k = 0
				}
				if k > len(it.data) {
					k = len(it.data)
				}
				os.WriteFile(p+".incomplete", it.data[:k], 0644)
				if r.Chance(15) {
					// a stale partial file next to a final name: the partial-file test comes second and wins,
					// the item is resumed and renamed over the final name
					os.WriteFile(p, genData(r, r.Intn(50)), 0644)
				}
			}
		}
		cutItem, cutAt := -1, 0
		if r.Chance(45) {
			// cut inside one file item, then a second session completes it
			var fileIdx []int
			for i, it := range items {
				if !it.isDir {
					fileIdx = append(fileIdx, i)
				}
			}
			if len(fileIdx) > 0 {
				cutItem = fileIdx[r.Intn(len(fileIdx))]
				it := items[cutItem]
				full := 4 + len(uploadStreamBytes(it.fc, it.info, it.data, it.rsrc))
				hl := 4 + 56 + len(it.info.encode())
				cutAt = r.Pick(0, 3, 4, 5, hl-1, hl, hl+1, hl+len(it.data)/2, full-1, r.Intn(full))
				if cutAt < 0 {
					cutAt = 0
				}
			}
		}
		c.Dist(fmt.Sprintf("folder-upload/pre=%d cut=%v", preMode, cutItem >= 0))
		c.Dist("folder-upload/items=" + countBucket(len(items)))
		_, preFinal, _, _, _ := diskStore(target)
		ok, _ := e.uploadSession(folder, items, cutItem, cutAt, expect, "first session")
		if !ok {
			continue
		}
		c.Nontrivial(fmt.Sprintf("%s|%d|%d:%d", itemsTokens(items), preMode, cutItem, cutAt))
		if cutItem < 0 && r.Chance(40) {
			// the client streams the same folder again: everything is complete (empty files included) and must be skipped
			_, nowFinal, _, _, _ := diskStore(target)
			again := map[string][]byte{}
			for k, v := range nowFinal {
				again[k] = v
			}
			e.uploadSession(folder, items, -1, 0, again, "re-upload of the complete folder")
			c.Dist("folder-upload/re-upload")
		}
		if cutItem >= 0 {
			// the client comes back and streams the same folder again: complete files are skipped, the partial one is resumed
			_, final, _, _, _ := diskStore(target)
			for k, b := range final {
				if _, streamed := expect[k]; streamed {
					if old, was := preFinal[k]; was && bytesEq(b, old) {
						continue // not reached before the cut: still what it held before the upload
					}
					if !bytesEq(b, expect[k]) {
						c.Note("file", k)
						c.Violation("published-before-complete", "after a cut folder upload a final name holds something else than the expected bytes")
					}
				}
			}
			e.uploadSession(folder, items, -1, 0, expect, "second session (after a cut)")
		}
		c.Sample(map[string]any{"family": c.Fam, "items": len(items), "pre": preMode, "cut": cutItem >= 0})
	}
}

// ---------------------------------------------------------------- upload, then download

func runC10RoundTrip(c *Case) {
	r := c.R
	ts, err := newTS(TSOpt{Direct: true, PreserveForks: r.Bool()})
	if err != nil {
		return
	}
	set := &transferSet{ts: ts, x: c.X}
	defer func() {
		if !set.waitAll() {
			c.Violation("transfer-handler-hangs", "a transfer handler did not return")
		}
		ts.Close()
	}()
	cc, _ := ts.DirectClient("admin", []byte("admin"), "127.0.0.1:1234")
	e := &c10Env{c: c, ts: ts, set: set, cc: cc, id: 900}
	for ti := 0; ti < 3; ti++ {
		budget := 8 + r.Intn(40)
		tree := genTree(r, "t", 0, 5, 40*1024, false, &budget)
		folder := fmt.Sprintf("rt%d-%s", ti, genTreeName(r, map[string]bool{}, false))
		var items []*upItemSpec
		flattenItems(tree, nil, r, &items)
		if len(items) == 0 {
			continue
		}
		expect := map[string][]byte{}
		for _, it := range items {
			if !it.isDir {
				expect[it.key] = it.data
			}
		}
		if ok, _ := e.uploadSession(folder, items, -1, 0, expect, "round trip upload"); !ok {
			continue
		}
		// describe what is on disk now as a tree (names, data; no side files; modification times from the disk)
		tree.name = folder
		var fix func(t *tnode, dir string)
		fix = func(t *tnode, dir string) {
			p := filepath.Join(dir, t.name)
			if !t.isDir {
				if st, err := os.Stat(p); err == nil {
					t.file.ModTime = st.ModTime()
				}
				t.file.Info, t.file.HasRsrc, t.file.Rsrc, t.file.Dir = nil, false, nil, dir
				if ts.Srv.Config.PreserveResourceForks {
					// the upload stored the client's information fork and an (empty or sent) resource fork next to the file
					for _, it := range items {
						if !it.isDir && filepath.Join(ts.Root, folder, filepath.FromSlash(it.key)) == p {
							i := it.info
							t.file.Info, t.file.InfoRaw = &i, i.encode()
							t.file.HasRsrc, t.file.Rsrc = true, []byte{}
							if it.fc == 3 {
								t.file.Rsrc = it.rsrc
							}
						}
					}
				}
				return
			}
			for _, k := range t.kids {
				fix(k, p)
			}
		}
		fix(tree, ts.Root)
		e.id++
		c10DownloadOnce(c, ts, set, cc, e.id, tree, nil, 0)
		c.Dist("round-trip")
	}
}

// ---------------------------------------------------------------- names of 252..255 bytes

// longName makes a name of exactly n bytes that starts with the given tag.
func longName(r *RNG, tag string, n int) string {
	const al = "abcdefghijklmnopqrstuvwxyzABCDEFGHIJKLMNOPQRSTUVWXYZ0123456789 -_."
	b := []byte(tag)
	for len(b) < n {
		b = append(b, al[r.Intn(len(al))])
	}
	b = b[:n]
	if b[n-1] == ' ' || b[n-1] == '.' {
		b[n-1] = 'x'
	}
	return string(b)
}

// maxUploadFileName: a file is received under <name>.incomplete, which must itself fit NAME_MAX (255).
const maxUploadFileName = 255 - len(".incomplete")

// runC10LongNames: folder names of 252, 253, 254 and 255 bytes (the one-byte length of a path item at
// its limit; 3+len wraps in byte arithmetic from 253 on), nested inside each other, holding files whose
// names are as long as an upload allows (244 bytes) — uploaded, then downloaded; and a tree stored on
// disk whose FILE names are 252..255 bytes long, downloaded.
func runC10LongNames(c *Case) {
	r := c.R
	ts, err := newTS(TSOpt{Direct: true, PreserveForks: r.Chance(30)})
	if err != nil {
		return
	}
	set := &transferSet{ts: ts, x: c.X}
	defer func() {
		if !set.waitAll() {
			c.Violation("transfer-handler-hangs", "a transfer handler did not return")
		}
		ts.Close()
	}()
	cc, _ := ts.DirectClient("admin", []byte("admin"), "127.0.0.1:1234")
	e := &c10Env{c: c, ts: ts, set: set, cc: cc, id: 1500}
	mkFile := func(name string) *tnode {
		return &tnode{name: name, file: &diskFile{Name: name, ReqName: []byte(name), Data: genData(r, r.Pick(0, 1, 300, r.Intn(5000))), ModTime: randModTime(r)}}
	}
	lens := []int{252, 253, 254, 255}
	// --- upload, then download
	tree := &tnode{name: "t", isDir: true}
	tree.kids = append(tree.kids, mkFile(longName(r, "top-", maxUploadFileName)), mkFile("plain.txt"))
	for i, L := range lens {
		inner := &tnode{name: longName(r, fmt.Sprintf("in%d-", L), lens[(i+1+r.Intn(3))%4]), isDir: true,
			kids: []*tnode{mkFile("g"), mkFile(longName(r, "deep-", maxUploadFileName-r.Intn(3)))}}
		d := &tnode{name: longName(r, fmt.Sprintf("d%d-", L), L), isDir: true,
			kids: []*tnode{mkFile("f.txt"), mkFile(longName(r, "f-", maxUploadFileName)), inner}}
		if r.Chance(30) {
			d.kids = append(d.kids, &tnode{name: longName(r, "empty-", lens[r.Intn(4)]), isDir: true})
		}
		tree.kids = append(tree.kids, d)
	}
	folder := fmt.Sprintf("long-%d", r.Intn(1000))
	var items []*upItemSpec
	flattenItems(tree, nil, r, &items)
	expect := map[string][]byte{}
	for _, it := range items {
		if !it.isDir {
			expect[it.key] = it.data
		}
	}
	if ok, _ := e.uploadSession(folder, items, -1, 0, expect, "names of 252..255 bytes"); !ok {
		return
	}
	_, final, _, dirs, _ := diskStore(filepath.Join(ts.Root, folder))
	for _, it := range items {
		maxSeg := 0
		for _, cp := range it.comps {
			if len(cp) > maxSeg {
				maxSeg = len(cp)
			}
		}
		missing := false
		if it.isDir {
			missing = !dirs[it.key]
		} else {
			b, has := final[it.key]
			missing = !has || !bytesEq(b, it.data)
		}
		if missing {
			c.Note("item_path_segment_lengths", func() []int {
				var l []int
				for _, cp := range it.comps {
					l = append(l, len(cp))
				}
				return l
			}())
			c.Note("item_is_folder", it.isDir)
			c.Note("items_streamed", len(items))
			c.Note("longest_segment", maxSeg)
			c.Violation("long-item-name-upload-fails", fmt.Sprintf("a folder upload streaming names of 252..255 bytes did not recreate item %d of %d (longest path segment of the item: %d bytes)", indexOfItem(items, it)+1, len(items), maxSeg))
			break
		}
	}
	c.Nontrivial(fmt.Sprintf("long-upload|%d", len(items)))
	c.Dist("long-names/upload")
	// what is on disk now, downloaded again
	tree.name = folder
	var fix func(t *tnode, dir string)
	fix = func(t *tnode, dir string) {
		p := filepath.Join(dir, t.name)
		if !t.isDir {
			if st, err := os.Stat(p); err == nil {
				t.file.ModTime = st.ModTime()
			}
			t.file.Dir = dir
			if ts.Srv.Config.PreserveResourceForks {
				// the upload stored the client's information fork and an (empty or sent) resource fork
				for _, it := range items {
					if !it.isDir && filepath.Join(ts.Root, folder, filepath.FromSlash(it.key)) == p {
						i := it.info
						t.file.Info, t.file.InfoRaw = &i, i.encode()
						t.file.HasRsrc, t.file.Rsrc = true, []byte{}
						if it.fc == 3 {
							t.file.Rsrc = it.rsrc
						}
					}
				}
			}
			return
		}
		for _, k := range t.kids {
			fix(k, p)
		}
	}
	fix(tree, ts.Root)
	e.id++
	c10DownloadOnce(c, ts, set, cc, e.id, tree, nil, 0)
	// --- a stored tree whose file names are 252..255 bytes long (no side files fit next to them), downloaded
	stored := &tnode{name: fmt.Sprintf("stored-%d", r.Intn(1000)), isDir: true}
	for _, L := range lens {
		stored.kids = append(stored.kids, mkFile(longName(r, fmt.Sprintf("file%d-", L), L)))
		stored.kids = append(stored.kids, &tnode{name: longName(r, fmt.Sprintf("dir%d-", L), L), isDir: true,
			kids: []*tnode{mkFile(longName(r, "x-", lens[r.Intn(4)])), mkFile("y")}})
	}
	if writeTree(stored, ts.Root) == nil {
		for _, mode := range []int{0, 1} {
			e.id++
			c10DownloadOnce(c, ts, set, cc, e.id, stored, nil, mode)
		}
		c.Dist("long-names/download")
	}
}

func indexOfItem(items []*upItemSpec, it *upItemSpec) int {
	for i, x := range items {
		if x == it {
			return i
		}
	}
	return -1
}

// runC10NameTooLong: KNOWN FINDING name-too-long-for-incomplete-suffix.  A folder upload containing a FILE whose
// name is 245..255 bytes long, followed by further items: the file is received under <name>.incomplete, which
// exceeds the file system's 255-byte name limit; the handler returns and the later items are lost.  Only the
// property's own predicate is evaluated here (the model has no name-length limit), under exactly that key.
func runC10NameTooLong(c *Case) {
	r := c.R
	L := []int{245, 250, 255}[c.Idx%3]
	if c.Idx >= 3 {
		L = 245 + r.Intn(11)
	}
	ts, err := newTS(TSOpt{Direct: true})
	if err != nil {
		return
	}
	set := &transferSet{ts: ts, x: c.X}
	defer func() {
		set.waitAll()
		ts.Close()
	}()
	cc, _ := ts.DirectClient("admin", []byte("admin"), "127.0.0.1:1234")
	long := longName(r, fmt.Sprintf("file%d-", L), L)
	mk := func(isDir bool, data []byte, comps ...string) *upItemSpec {
		it := &upItemSpec{isDir: isDir, fc: 2, data: data}
		for _, cp := range comps {
			it.comps = append(it.comps, []byte(cp))
		}
		it.key = compsKey(it.comps)
		if !isDir {
			it.info = randInfoSpec(r, []byte(comps[len(comps)-1]))
			it.info.Comment = nil
		}
		return it
	}
	items := []*upItemSpec{mk(true, nil, "before"), mk(false, genData(r, 40), "before", "ok.txt"), mk(false, genData(r, 1+r.Intn(500)), long),
		mk(true, nil, "after"), mk(false, genData(r, 25), "after", "later.txt")}
	folder := fmt.Sprintf("toolong-%d", L)
	total := 0
	for _, it := range items {
		total += len(it.data)
	}
	res, _, pan := ts.Call(cc, mkTran(hotline.TranUploadFldr, 7, fld(hotline.FieldFileName, []byte(folder)),
		fld(hotline.FieldTransferSize, be32(total)), fld(hotline.FieldFolderItemCount, be16(len(items)))))
	if pan != nil || len(res) != 1 || res[0].ErrorCode != [4]byte{} {
		return
	}
	refB, _ := getField(&res[0], hotline.FieldRefNum)
	var ref [4]byte
	copy(ref[:], refB)
	cl := &fulClient{items: items, cutItem: -1, offsets: map[int]int{}}
	x := set.start(ref, newDlgConn(preambleBytes(ref, total), nil, cl.next))
	if !x.waitBody() {
		c.Violation("transfer-handler-hangs", "the folder upload did not finish")
		return
	}
	_, final, _, dirs, _ := diskStore(filepath.Join(ts.Root, folder))
	c.Note("long_file_name_bytes", L)
	c.Note("items", []string{"before/", "before/ok.txt", fmt.Sprintf("<%d-byte name>", L), "after/", "after/later.txt"})
	c.Note("listing", listDir(filepath.Join(ts.Root, folder)))
	if !dirs["before"] || !bytesEq(final["before/ok.txt"], items[1].data) {
		c.Violation("uploaded-file-not-exact", "the items streamed BEFORE the long-named file were not recreated")
	}
	if b, has := final[long]; !has || !bytesEq(b, items[2].data) {
		c.Violation("name-too-long-for-incomplete-suffix", fmt.Sprintf("a folder upload did not recreate a file whose name is %d bytes long", L))
	}
	if b, has := final["after/later.txt"]; !dirs["after"] || !has || !bytesEq(b, items[4].data) {
		c.Violation("name-too-long-for-incomplete-suffix", fmt.Sprintf("the items streamed after a file whose name is %d bytes long were not recreated", L))
	}
	c.Nontrivial(fmt.Sprintf("toolong|%d", L))
	c.Dist("name-too-long-witness")
}

// runC10Regressions replays the witnesses of the three defects repaired in /repo (fef72d3, 6c1e410, 6ca3f0f) on every run.
func runC10Regressions(c *Case) {
	r := c.R
	ts, err := newTS(TSOpt{Direct: true})
	if err != nil {
		return
	}
	set := &transferSet{ts: ts, x: c.X}
	defer func() {
		set.waitAll()
		ts.Close()
	}()
	cc, _ := ts.DirectClient("admin", []byte("admin"), "127.0.0.1:1234")
	// (1) resume from 15 of 20 bytes; (3) a file with an information fork and no resource fork, followed by another file
	info := randInfoSpec(r, []byte("f.txt"))
	info.Comment = []byte("a comment")
	tree := &tnode{name: "regress", isDir: true, kids: []*tnode{
		{name: "f.txt", file: &diskFile{Name: "f.txt", ReqName: []byte("f.txt"), Data: genData(r, 20), ModTime: randModTime(r), Info: &info}},
		{name: "g.txt", file: &diskFile{Name: "g.txt", ReqName: []byte("g.txt"), Data: genData(r, 20), ModTime: randModTime(r)}},
	}}
	if writeTree(tree, ts.Root) != nil {
		return
	}
	c10DownloadForced(c, ts, set, cc, 11, tree, nil, 0, map[string]string{"f.txt": "s", "g.txt": "r15"})
	c10DownloadForced(c, ts, set, cc, 12, tree, nil, 0, map[string]string{"f.txt": "r15", "g.txt": "s"})
	// (2) a resumed folder-upload item whose transfer fails must not be published
	e := &c10Env{c: c, ts: ts, set: set, cc: cc, id: 50}
	data := genData(r, 20)
	it := &upItemSpec{comps: [][]byte{[]byte("f.txt")}, key: "f.txt", fc: 2, info: randInfoSpec(r, []byte("f.txt")), data: data}
	it.info.Comment = nil
	target := filepath.Join(ts.Root, "regress-up")
	os.MkdirAll(target, 0755)
	os.WriteFile(filepath.Join(target, "f.txt.incomplete"), data[:5], 0644)
	hl := 4 + 56 + len(it.info.encode())
	expect := map[string][]byte{"f.txt": data}
	e.uploadSession("regress-up", []*upItemSpec{it}, 0, hl+3, expect, "regression: resumed item cut after 3 bytes")
	if _, err := os.Stat(filepath.Join(target, "f.txt")); err == nil {
		c.Note("witness", "partial file of 5 bytes, resumed item cut after 3 more bytes")
		c.Violation("published-before-complete", "a resumed folder-upload item whose transfer failed was published under its final name")
	}
	e.uploadSession("regress-up", []*upItemSpec{it}, -1, 0, expect, "regression: second session")
	c.Nontrivial("regressions")
}

func init() {
	props["C10"] = func(x *Ctx) {
		x.rule = "folder-download: 4 trees per case (depth ≤ 4, fan-out ≤ 5, ≤ 60 entries — 30% of the cases one tree with fan-out ≤ 7 and up to 150 entries —, empty folders, dot-files and dot-folders with visible entries below them, names chosen to separate per-directory byte order from whole-path order, file sizes 0..100 KiB (thorough 200 KiB), optional .info_/.rsrc_ side files, requested at the root or one level down; half of the trees additionally hold 1..4 aliases of files — made by the real Make Alias transaction or placed by the fixture, visible and dot-named, pointing inside or outside the tree — which must be sent as files carrying the target's bytes — and 0..2 aliases of FOLDERS (inside or outside the tree, made by the handler or the fixture), each of which must be announced as one folder item without children, and 0..2 DANGLING aliases (target removed after Make Alias, or fixture links to nothing), each of which must be sent as a file with an empty data fork while the walk goes on), each downloaded under 3 action scripts (all send; mixed send/resume/next; resume-heavy or all next; resume offsets 0,1,size-1,size,random; 12% of the runs the client disconnects at an item header or after a file). folder-upload: 4 client trees per case streamed in client order into an empty, partly or largely pre-populated folder (existing folders, complete files with equal, other or EMPTY contents, partial files holding a prefix; 40% of the uncut uploads are streamed a second time), 45% cut inside a file item (before the size, inside the header, at header end ±1, mid data, last byte) followed by a second complete session. folder-roundtrip: upload into an empty folder, then download with all-send. long-names: folders named with 252, 253, 254 and 255 bytes (nested, with files named with up to 244 bytes = NAME_MAX minus the .incomplete suffix) uploaded and downloaded again, and stored files named with 252..255 bytes downloaded. non-trivial = a file item whose bytes were transferred (download) / a session that streamed at least one item (upload); distinct = distinct (path, size, action, fork combination) resp. (items, pre-population, cut). Wave d: a third of the pool names carry characters that mean something to fmt verbs, shells, quoting or path code ('50% off', '%s', '%!', '100%', '%%', quotes, backslash, leading '-', leading/trailing space, tab, '$HOME', '*', '[x]', Mac-Roman high characters) in folder and file names of every family, under both values of PreserveResourceForks (download 50%, upload 50%, round trip 50%); fixture aliases carry an absolute or (half of the time) a RELATIVE link string computed from the folder holding the link, Make Alias runs 30% of the time under a file root RELATIVE to the harness's working directory (which is not the tree) and 25% of the download cases run entirely under that relative root; where an alias leads is computed by the Lean model (resolveAt) and compared with the kernel's resolution, what is there is read from the disk"
		x.assume = []string{
			"root folder names are visible (no leading dot); names ending in .incomplete or starting with .info_/.rsrc_ are not generated (the on-disk naming scheme cannot tell them from partial/side files)",
			"resume of a file with a stored resource fork, and a resource fork without an information fork, are compared with the model as coded (DESIGN §7 C08 'not covered': resume of the resource fork); the size-prefix clause is judged directly only without a stored resource fork or for 'send'",
			"folder upload item paths are plain names (cleaning of hostile paths is C07's subject)",
			"uploaded FILE names are at most 244 bytes in every family except name-too-long-witness (known finding name-too-long-for-incomplete-suffix: the server receives a file under <name>.incomplete, which must fit the file system's 255-byte name limit); folder names and stored (downloaded) file names go up to 255",
		}
		x.Add(&Family{Name: "regressions", Quick: 1, Thor: 1, Run: runC10Regressions})
		x.Add(&Family{Name: "name-too-long-witness", Quick: 3, Thor: 4, Run: runC10NameTooLong})
		x.Add(&Family{Name: "long-names", Quick: 8, Thor: 48, Run: runC10LongNames})
		x.Add(&Family{Name: "folder-download", Quick: 48, Thor: 640, Run: runC10Download})
		x.Add(&Family{Name: "folder-upload", Quick: 48, Thor: 640, Run: runC10Upload})
		x.Add(&Family{Name: "folder-roundtrip", Quick: 32, Thor: 320, Run: runC10RoundTrip})
	}
}
