//go:build c02

package main

// C02 — segmentation-independent parsing of client byte streams.
//
//  scanner-partitions    real bufio.Scanner + transactionScanner over random partitions of random
//                        streams vs the Lean specification tokensOf (and the operational scan model)
//  session-segmentation  real handleNewConnection over a scripted connection: every generated
//                        session is run under >= 4 segmentations (all at once, one byte at a
//                        time, random pieces, cuts at header boundaries +-1, a single cut); all
//                        runs must give identical canonical observations (direct property check)
//                        and agree with the Lean Session.run on what is dispatched
//  transfer-segmentation real handleFileTransfer: preamble + a small upload under segmentations;
//                        the files created must be identical and hold exactly the bytes sent

import (
	"bufio"
	"bytes"
	"context"
	"encoding/binary"
	"errors"
	"fmt"
	"io"
	"os"
	"path/filepath"
	"sort"
	"strings"
	"sync"
	"time"

	"github.com/jhalter/mobius/hotline"
)

// ---------------------------------------------------------------- (i) scanner

type chunkReader struct {
	chunks [][]byte
	i      int
}

func (r *chunkReader) Read(p []byte) (int, error) {
	for r.i < len(r.chunks) && len(r.chunks[r.i]) == 0 {
		r.i++
	}
	if r.i >= len(r.chunks) {
		return 0, io.EOF
	}
	n := copy(p, r.chunks[r.i])
	r.chunks[r.i] = r.chunks[r.i][n:]
	return n, nil
}

// realScan runs the real scanner the way handleNewConnection does: stop at the first token that
// cannot be a transaction because it is empty (the server's decoder rejects it and returns).
func realScan(chunks [][]byte) (status string, toks [][]byte) {
	cp := make([][]byte, len(chunks))
	for i, c := range chunks {
		cp[i] = append([]byte{}, c...)
	}
	sc := bufio.NewScanner(&chunkReader{chunks: cp})
	sc.Split(hotline.VerifTransactionScanner)
	for sc.Scan() {
		t := append([]byte{}, sc.Bytes()...)
		toks = append(toks, t)
		if len(t) == 0 {
			return "noProgress", toks
		}
	}
	switch {
	case sc.Err() == nil:
		return "eof", toks
	case errors.Is(sc.Err(), bufio.ErrTooLong):
		return "tooLong", toks
	default:
		return "err:" + sc.Err().Error(), toks
	}
}

func scanCanon(status string, toks [][]byte) string {
	var sb strings.Builder
	fmt.Fprintf(&sb, "%s %d", status, len(toks))
	for _, t := range toks {
		fmt.Fprintf(&sb, " %d", len(t))
	}
	return sb.String()
}

// tranWithTotal builds a transaction-shaped byte string whose encoded length is exactly total (>= 22).
func tranWithTotal(r *RNG, total int) []byte {
	if total < 22 {
		total = 22
	}
	payload := total - 22 // bytes available for fields
	var fs []hotline.Field
	for payload >= 4 {
		l := payload - 4
		if l > 65535 {
			l = 65535
		}
		if payload-4-l != 0 && payload-4-l < 4 {
			l -= 4
		}
		fs = append(fs, hotline.NewField(hotline.FieldData, r.Bytes(l)))
		payload -= 4 + l
	}
	t := hotline.Transaction{Fields: fs}
	binary.BigEndian.PutUint16(t.Type[:], uint16(r.Pick(500, 105, 101, 300)))
	binary.BigEndian.PutUint32(t.ID[:], uint32(r.U64()))
	b := encTran(t)
	// payload of 1..3 bytes cannot be expressed with fields: pad and fix the size fields
	for len(b) < total {
		b = append(b, 0)
	}
	binary.BigEndian.PutUint32(b[12:], uint32(len(b)-20))
	binary.BigEndian.PutUint32(b[16:], uint32(len(b)-20))
	return b
}

// genScanStream: a stream of transaction-shaped items with the interesting sizes.
func genScanStream(c *Case) []byte {
	r := c.R
	var s []byte
	n := r.Pick(0, 1, 1, 2, 3, 5, 9)
	for i := 0; i < n; i++ {
		switch r.Intn(12) {
		case 0, 1, 2, 3, 4:
			t := hotline.Transaction{Fields: genFields(r, 300)}
			binary.BigEndian.PutUint16(t.Type[:], uint16(r.Intn(600)))
			binary.BigEndian.PutUint32(t.ID[:], uint32(r.U64()))
			s = append(s, encTran(t)...)
			c.Dist("scan-item/valid")
		case 5:
			s = append(s, tranWithTotal(r, 22+r.Intn(9000))...)
			c.Dist("scan-item/medium")
		case 6:
			s = append(s, tranWithTotal(r, r.Pick(65534, 65535, 65536, 65536, 65537, 65538, 65540, 70000))...)
			c.Dist("scan-item/around-64KiB")
		case 7: // the uint32 wrap of 20+totalSize: token length 0..19
			b := r.Bytes(22 + r.Intn(30))
			binary.BigEndian.PutUint32(b[12:], uint32(0xFFFFFFEC+uint32(r.Pick(0, 0, 0, r.Intn(20), r.Intn(20)))))
			s = append(s, b...)
			c.Dist("scan-item/wrap")
		case 8: // minimal sizes
			b := make([]byte, 20+r.Intn(4))
			binary.BigEndian.PutUint32(b[12:], uint32(r.Pick(0, 1, 2, 3)))
			s = append(s, b...)
			c.Dist("scan-item/tiny")
		case 9:
			s = append(s, r.Bytes(r.Intn(40))...)
			c.Dist("scan-item/garbage")
		default:
			s = append(s, encTran(tranOf(500, uint32(r.U64())))...)
			c.Dist("scan-item/keepalive")
		}
	}
	switch r.Intn(8) {
	case 0: // truncated tail
		b := encTran(hotline.Transaction{Fields: genFields(r, 300)})
		s = append(s, b[:r.Intn(len(b))]...)
		c.Dist("scan-tail/truncated")
	case 1: // 16..21 trailing bytes whose size field wraps to a length they cover
		k := 16 + r.Intn(6)
		b := r.Bytes(k)
		tl := r.Intn(k + 1)
		binary.BigEndian.PutUint32(b[12:], uint32(tl)-20)
		s = append(s, b...)
		c.Dist("scan-tail/short-wrap")
	case 2:
		k := 16 + r.Intn(6)
		b := make([]byte, k)
		binary.BigEndian.PutUint32(b[12:], uint32(r.Intn(3)))
		s = append(s, b...)
		c.Dist("scan-tail/short-header")
	default:
		c.Dist("scan-tail/none")
	}
	return s
}

func partitionCuts(r *RNG, n int) []int {
	switch r.Intn(7) {
	case 0:
		return nil
	case 1:
		if n <= 6000 {
			return cutsOnes(n)
		}
		return cutsRandom(r, n)
	case 2:
		var c []int
		for p := 4096; p < n; p += 4096 {
			c = append(c, p+r.Pick(-1, 0, 1))
		}
		return c
	case 3:
		return cutsOne(r, n, 22)
	default:
		return cutsRandom(r, n)
	}
}

func splitAt(data []byte, cuts []int) [][]byte {
	return chunksOf(data, cuts, 1<<30)
}

func scannerFamily(c *Case) {
	r := c.R
	stream := genScanStream(c)
	cuts1 := partitionCuts(r, len(stream))
	cuts2 := partitionCuts(r, len(stream))
	ch1 := splitAt(stream, cuts1)
	ch2 := splitAt(stream, cuts2)
	st1, tk1 := realScan(ch1)
	st2, tk2 := realScan(ch2)
	impl1 := scanCanon(st1, tk1)
	impl2 := scanCanon(st2, tk2)
	c.Note("stream", short(stream))
	c.Note("stream_len", len(stream))
	c.Note("chunks1", len(ch1))
	c.Note("chunks2", len(ch2))
	c.Dist("scan-status/" + strings.SplitN(st1, ":", 2)[0])
	// direct property check: two partitions of the same bytes give the same tokens
	same := impl1 == impl2 && len(tk1) == len(tk2)
	if same {
		for i := range tk1 {
			if !bytes.Equal(tk1[i], tk2[i]) {
				same = false
			}
		}
	}
	if !same {
		c.Note("partition1", impl1)
		c.Note("partition2", impl2)
		c.Note("cuts1", clipInts(cuts1))
		c.Note("cuts2", clipInts(cuts2))
		c.Violation("scanner-segmentation-dependent", "the transaction scanner tokenises the same bytes differently under two partitions")
		return
	}
	// tokens are consecutive slices of the stream
	off := 0
	for _, t := range tk1 {
		if off+len(t) > len(stream) || !bytes.Equal(stream[off:off+len(t)], t) {
			c.Violation("scanner-token-not-a-slice", "a token is not the next slice of the stream")
			return
		}
		off += len(t)
	}
	spec := c.Ask("tokens", stream)
	c.Corr("tokensOf", impl1, spec, false)
	if len(stream) <= 3000 && len(ch1) <= 400 {
		args := make([][]byte, 0, len(ch1))
		for _, ch := range ch1 {
			if len(ch) > 0 {
				args = append(args, ch)
			}
		}
		c.Corr("scan-operational", impl1, c.Ask("scan", args...), false)
	}
	if len(tk1) >= 1 && (len(ch1) >= 2 || len(ch2) >= 2) {
		c.Nontrivial(fmt.Sprintf("%x|%v|%v", fnv64(stream), fnv64(intsBytes(cuts1)), fnv64(intsBytes(cuts2))))
	}
	c.Sample(map[string]any{"family": "scanner-partitions", "stream_len": len(stream), "tokens": len(tk1), "status": st1, "chunks": []int{len(ch1), len(ch2)}})
}

func intsBytes(xs []int) []byte {
	b := make([]byte, 0, 4*len(xs))
	for _, x := range xs {
		b = append(b, byte(x>>24), byte(x>>16), byte(x>>8), byte(x))
	}
	return b
}

func clipInts(xs []int) []int {
	if len(xs) > 64 {
		return xs[:64]
	}
	return xs
}

// ---------------------------------------------------------------- (ii) sessions

type sessReq struct {
	Ty    uint16
	ID    uint32
	Bytes []byte
	Outs  int // transactions the server sends to this client when the request is dispatched
	Reply int // how many of them are replies carrying the request id
}

type sessScript struct {
	Accts     []sessAcct
	Board     string
	Agreement string
	HS        []byte
	LoginID   uint32
	LoginB    []byte
	LoginOuts int
	Reqs      []sessReq
	Tail      []byte
	Kind      string
}

func (s *sessScript) stream() []byte {
	b := append([]byte{}, s.HS...)
	b = append(b, s.LoginB...)
	for _, q := range s.Reqs {
		b = append(b, q.Bytes...)
	}
	return append(b, s.Tail...)
}

func (s *sessScript) bounds() []int {
	var bs []int
	off := 0
	add := func(n int) {
		for _, d := range []int{0, 12, 16, 20, 22} {
			if d <= n {
				bs = append(bs, off+d)
			}
		}
		off += n
		bs = append(bs, off)
	}
	off = len(s.HS)
	bs = append(bs, off)
	add(len(s.LoginB))
	for _, q := range s.Reqs {
		add(len(q.Bytes))
	}
	return bs
}

func hasBit(a hotline.AccessBitmap, bit int) bool { return a.IsSet(bit) }

func genSessionScript(c *Case) *sessScript {
	r := c.R
	s := &sessScript{Board: "board line one\rline two\r", Agreement: "be nice"}
	alicePw := wirePassword(r, 20)
	carolAccess := guestAccess()
	carolAccess.Set(hotline.AccessNoAgreement)
	carolAccess.Set(hotline.AccessAnyName)
	mute := accessOf(hotline.AccessNewsReadArt)
	s.Accts = []sessAcct{
		{Login: "guest", Name: "Guest User", PwWire: []byte{}, Access: guestAccess()},
		{Login: "alice", Name: "Alice", PwWire: alicePw, Access: guestAccess()},
		{Login: "carol", Name: "Carol", PwWire: []byte{0x9c}, Access: carolAccess},
		{Login: "mute", Name: "Mute", PwWire: []byte{0x91, 0x92}, Access: mute},
	}
	s.HS = append([]byte{}, clientHandshake...)
	if r.Chance(30) {
		copy(s.HS[8:], r.Bytes(4)) // version / sub-version are not checked
	}
	who := r.Intn(4)
	acct := s.Accts[who]
	s.LoginID = 1 + uint32(r.Intn(1<<20))
	var extra []hotline.Field
	hasVersion := r.Chance(50)
	if hasVersion {
		extra = append(extra, fld(hotline.FieldVersion, []byte{0, 0xbe}))
	}
	if r.Chance(40) {
		extra = append(extra, fld(hotline.FieldUserName, []byte(r.Name(12))))
	}
	if r.Chance(30) {
		extra = append(extra, fld(hotline.FieldUserIconID, []byte{0, byte(r.Intn(200))}))
	}
	loginWire := hotline.EncodeString([]byte(acct.Login))
	if who == 0 && r.Chance(70) {
		loginWire = []byte{} // empty login = guest
	}
	lt := loginTranWire(uint16(r.Pick(107, 107, 107, 0, 500)), s.LoginID, loginWire, acct.PwWire, extra...)
	lt.Flags = byte(r.Pick(0, 0, r.Intn(256)))
	s.LoginB = encTran(lt)
	s.LoginOuts = 3 // login reply, user access, agreement
	if hasBit(acct.Access, hotline.AccessNoAgreement) && !hasVersion {
		s.LoginOuts = 2
	}
	s.Kind = "clean"
	// requests
	n := r.Pick(0, 1, 2, 3, 4, 6, 9, 14)
	used := map[uint32]bool{s.LoginID: true}
	for i := 0; i < n; i++ {
		id := 1 + uint32(r.Intn(1<<24))
		for used[id] {
			id++
		}
		used[id] = true
		var q sessReq
		q.ID = id
		var t hotline.Transaction
		switch r.Intn(9) {
		case 0, 1:
			q.Ty, q.Outs, q.Reply = 500, 1, 1
			t = tranOf(500, id)
		case 2:
			q.Ty, q.Outs, q.Reply = 300, 1, 1
			t = tranOf(300, id)
		case 3:
			q.Ty, q.Outs, q.Reply = 101, 1, 1
			t = tranOf(101, id)
		case 4, 5:
			q.Ty = 105
			msg := r.Text(r.Pick(0, 1, 5, 40, 300, 9000))
			fs := []hotline.Field{fld(hotline.FieldData, msg)}
			if r.Chance(25) {
				fs = append(fs, fld(hotline.FieldChatOptions, []byte{0, byte(r.Intn(2))}))
			}
			t = tranOf(105, id, fs...)
			switch {
			case !hasBit(acct.Access, hotline.AccessSendChat):
				q.Outs, q.Reply = 1, 1
			case hasBit(acct.Access, hotline.AccessReadChat):
				q.Outs, q.Reply = 1, 0
			default:
				q.Outs, q.Reply = 0, 0
			}
		case 6:
			q.Ty, q.Outs, q.Reply = 200, 1, 1
			t = tranOf(200, id)
		case 7:
			q.Ty, q.Outs, q.Reply = 370, 1, 1
			t = tranOf(370, id)
		default:
			q.Ty, q.Outs, q.Reply = uint16(r.Pick(9999, 0, 1, 999)), 0, 0
			t = tranOf(q.Ty, id, genFields(r, 200)...)
		}
		t.Flags = byte(r.Pick(0, 0, 0, r.Intn(256)))
		t.IsReply = byte(r.Pick(0, 0, 0, 1))
		q.Bytes = encTran(t)
		s.Reqs = append(s.Reqs, q)
	}
	follow := func() []byte { // valid requests that must NOT be dispatched any more
		var b []byte
		for i := 0; i < r.Intn(3); i++ {
			b = append(b, encTran(tranOf(uint16(r.Pick(500, 300, 105)), 0x7f000000+uint32(i)))...)
		}
		return b
	}
	switch k := r.Intn(100); {
	case k < 55:
	case k < 65: // a partial transaction at EOF is dropped
		b := encTran(tranOf(105, 0x7e000001, fld(hotline.FieldData, r.Text(1+r.Intn(60)))))
		s.Tail = b[:1+r.Intn(len(b)-1)]
		s.Kind = "truncated-tail"
	case k < 73: // parameter count larger than the fields present: Transaction.Write fails, the connection ends
		b := encTran(tranOf(500, 0x7e000002, fld(hotline.FieldData, r.Text(r.Intn(20)))))
		binary.BigEndian.PutUint16(b[20:], uint16(2+r.Intn(5)))
		s.Tail = append(b, follow()...)
		s.Kind = "bad-param-count"
	case k < 79: // a transaction that cannot fit the scanner's 64 KiB buffer ends the loop
		s.Tail = append(tranWithTotal(r, r.Pick(65537, 65540, 66000, 70000)), follow()...)
		s.Kind = "oversize"
	case k < 83: // exactly at the limit: still a token
		id := uint32(0x7d000001)
		b := tranWithTotal(r, r.Pick(65535, 65536))
		binary.BigEndian.PutUint16(b[2:], 9999)
		binary.BigEndian.PutUint32(b[4:], id)
		s.Reqs = append(s.Reqs, sessReq{Ty: 9999, ID: id, Bytes: b})
		s.Kind = "at-limit"
	case k < 88: // size field wraps: token shorter than a header
		b := r.Bytes(22 + r.Intn(20))
		binary.BigEndian.PutUint32(b[12:], 0xFFFFFFEC+uint32(r.Intn(20)))
		s.Tail = append(b, follow()...)
		s.Kind = "wrap-size"
	case k < 91: // handshake too short
		s.HS = s.HS[:r.Intn(12)]
		s.LoginB, s.Reqs, s.Tail = nil, nil, nil
		s.Kind = "short-handshake"
	case k < 94:
		s.HS[r.Intn(8)] ^= byte(1 << r.Intn(8))
		s.Kind = "invalid-handshake"
	case k < 97: // wrong password
		lt2 := loginTranWire(107, s.LoginID, hotline.EncodeString([]byte("alice")), append([]byte{1}, alicePw...))
		s.LoginB = encTran(lt2)
		s.Kind = "wrong-password"
	default: // first token is not a transaction
		s.LoginB = mutate(r, s.LoginB)
		s.Kind = "mutated-login"
	}
	return s
}

type sessObs struct {
	Canon      string
	Written    []byte
	Trans      []hotline.Transaction
	Rest       []byte
	Err        string
	Done       bool
	GateTimely bool
	Clients    int
}

// runSession runs one segmentation of the script on a fresh server.
func runSession(s *sessScript, data []byte, cuts []int, gateOff int, expectBeforeGate int) (sessObs, error) {
	ts, err := newTS(TSOpt{Accounts: acctSpecs(s.Accts), Board: s.Board, Agreement: s.Agreement})
	if err != nil {
		return sessObs{}, err
	}
	defer ts.Close()
	os.WriteFile(filepath.Join(ts.Root, "readme.txt"), []byte("hello"), 0644)
	os.MkdirAll(filepath.Join(ts.Root, "Uploads"), 0755)
	before := snapKey(snapshot(ts.Cfg))
	conn := newScriptConn(data, cuts)
	o := sessObs{GateTimely: true}
	if gateOff >= 0 {
		conn.gateOff = gateOff
		conn.gate = func(int) {
			ok := waitFor(10*time.Second, func() bool { return countTransactions(conn.Written()) >= expectBeforeGate })
			if !ok {
				o.GateTimely = false
			}
			time.Sleep(2 * time.Millisecond) // let anything unexpected that was queued as well reach the connection
		}
	}
	run := runControl(ts, conn, "10.1.2.3:4000", 20*time.Second)
	o.Done = run.Done
	o.Err = errStr(run.Err)
	o.Written = conn.Written()
	o.Clients = len(ts.Srv.ClientMgr.List())
	var keys []string
	hs := o.Written
	if len(hs) >= 8 {
		o.Trans, o.Rest, _ = splitTransactions(o.Written[8:])
		hs = o.Written[:8]
	}
	for _, t := range o.Trans {
		keys = append(keys, tranKey(t))
	}
	sort.Strings(keys)
	after := snapKey(snapshot(ts.Cfg))
	o.Canon = fmt.Sprintf("done=%v err=%q hs=%s rest=%s clients=%d closed=%v state=%v n=%d\n%s", o.Done, o.Err, hx(hs), hx(o.Rest),
		o.Clients, conn.IsClosed(), before == after, len(keys), strings.Join(keys, "\n"))
	return o, nil
}

func sessionFamily(c *Case) {
	r := c.R
	if tooManyStalls(c) {
		c.Dist("session-skipped/after-repeated-stalls")
		return
	}
	s := genSessionScript(c)
	data := s.stream()
	c.Dist("session-kind/" + s.Kind)
	c.Note("kind", s.Kind)
	c.Note("stream", short(data))
	c.Note("stream_len", len(data))
	bounds := s.bounds()
	// the model's view (any chunking: the theorem says it does not matter; use a random one)
	mcuts := cutsRandom(r, len(data))
	m := parseSessModel(askSession(c, "session", "10.1.2.3:4000", 0, 0, s.Accts, nil, chunksOf(data, mcuts, 48)))
	if !m.DispOK {
		c.Note("oracle", clip(m.Raw))
		c.Disagree("oracle-session", "the oracle could not evaluate Session.run")
		return
	}
	mflat := parseSessModel(askSession(c, "sessionflat", "10.1.2.3:4000", 0, 0, s.Accts, nil, [][]byte{data}))
	c.Corr("run-vs-runStream", m.Raw, mflat.Raw, false)
	c.Dist("session-outcome/" + m.Outcome)
	// what the model dispatches must be a prefix of the requests generated (else the script is not what we think)
	if len(m.Disp) > len(s.Reqs) {
		c.Dist("session-skipped/more-dispatched-than-scripted")
		return
	}
	expect := 0
	gateOff := -1
	if m.In && s.Kind == "mutated-login" {
		// the mutation left a first token that still logs in: the script's offsets and expected
		// outputs no longer describe the stream
		c.Dist("session-skipped/mutated-login-accepted")
		return
	}
	if m.In {
		expect = s.LoginOuts
		gateOff = len(s.HS) + len(s.LoginB)
		for i, d := range m.Disp {
			if d[0] != uint32(s.Reqs[i].Ty) || d[1] != s.Reqs[i].ID {
				c.Dist("session-skipped/dispatch-not-a-prefix")
				return
			}
			expect += s.Reqs[i].Outs
			gateOff += len(s.Reqs[i].Bytes)
		}
	}
	type seg struct {
		name string
		cuts []int
	}
	segs := []seg{{"all-at-once", nil}, {"one-byte", cutsOnes(len(data))}, {"random", cutsRandom(r, len(data))}}
	switch r.Intn(3) {
	case 0:
		segs = append(segs, seg{"boundaries", cutsBoundary(r, len(data), bounds)})
	case 1:
		segs = append(segs, seg{"single-cut", cutsOne(r, len(data), 12)})
	default:
		segs = append(segs, seg{"boundaries", cutsBoundary(r, len(data), bounds)}, seg{"single-cut", cutsOne(r, len(data), 12)})
	}
	var obs []sessObs
	for _, sg := range segs {
		o, err := runSession(s, data, sg.cuts, gateOff, expect)
		if err != nil {
			c.Note("fixture", err.Error())
			c.Dist("session-skipped/fixture")
			return
		}
		obs = append(obs, o)
	}
	// direct property check: identical observations under every segmentation
	for i := 1; i < len(obs); i++ {
		if obs[i].Canon != obs[0].Canon {
			if !obs[i].GateTimely || !obs[0].GateTimely || !obs[i].Done || !obs[0].Done {
				stalls.Add(1)
			}
			c.Note("segmentation_a", segs[0].name)
			c.Note("observation_a", clip(obs[0].Canon))
			c.Note("segmentation_b", segs[i].name)
			c.Note("cuts_b", clipInts(segs[i].cuts))
			c.Note("observation_b", clip(obs[i].Canon))
			c.Violation("session-segmentation-dependent", fmt.Sprintf("the same client bytes give different replies/state when delivered %s and %s", segs[0].name, segs[i].name))
			return
		}
	}
	o := obs[0]
	if !o.Done || !o.GateTimely {
		stalls.Add(1)
		c.Note("observation", clip(o.Canon))
		c.Note("model", clip(m.Raw))
		c.Disagree("session-stalled", "the connection handler did not produce what the model dispatches / did not return")
		return
	}
	// agreement with the model on what is dispatched
	replies := map[uint32]int{}
	chats := 0
	loginOK := false
	for _, t := range o.Trans {
		if t.IsReply == 1 {
			replies[u32(t.ID)]++
			if u32(t.ID) == s.LoginID && u32(t.ErrorCode) == 0 && len(s.LoginB) > 0 {
				loginOK = true
			}
		} else if u16(t.Type) == 106 {
			chats++
		}
	}
	var implD, modelD strings.Builder
	fmt.Fprintf(&implD, "in=%v", loginOK)
	fmt.Fprintf(&modelD, "in=%v", m.In)
	if m.In {
		wantChats := 0
		for i := range m.Disp {
			q := s.Reqs[i]
			fmt.Fprintf(&modelD, " %d.%d:%d", q.Ty, q.ID, q.Reply)
			fmt.Fprintf(&implD, " %d.%d:%d", q.Ty, q.ID, replies[q.ID])
			delete(replies, q.ID)
			if q.Ty == 105 && q.Reply == 0 {
				wantChats += q.Outs
			}
		}
		delete(replies, s.LoginID)
		fmt.Fprintf(&modelD, " chats=%d stray=0 total=%d", wantChats, expect)
		fmt.Fprintf(&implD, " chats=%d stray=%d total=%d", chats, len(replies), len(o.Trans))
	} else {
		fmt.Fprintf(&modelD, " peer=%s", hx(m.Peer))
		fmt.Fprintf(&implD, " peer=%s", hx(o.Written))
	}
	c.Note("model", clip(m.Raw))
	c.Note("observation", clip(o.Canon))
	c.Corr("session-dispatch", implD.String(), modelD.String(), false)
	c.Corr("session-outcome", errClass(o.Err), outcomeErrClass(m.Outcome), false)
	if m.In && len(m.Disp) >= 1 {
		c.Nontrivial(fmt.Sprintf("%x", fnv64(data)))
	}
	c.Sample(map[string]any{"family": "session-segmentation", "kind": s.Kind, "bytes": len(data), "dispatched": len(m.Disp), "outcome": m.Outcome, "segmentations": len(segs)})
}

// errClass maps handleNewConnection's return value to the outcome classes of the model.
func errClass(e string) string {
	switch {
	case e == "nil":
		return "nil"
	case strings.Contains(e, "invalid handshake size"):
		return "hsShort"
	case strings.Contains(e, "invalid protocol"):
		return "hsInvalid"
	case strings.HasPrefix(e, "error writing login transaction"):
		return "loginUndecodable"
	default:
		return "decodeErr"
	}
}

func outcomeErrClass(o string) string {
	switch o {
	case "hsShort", "hsInvalid", "loginUndecodable":
		return o
	case "ended-decodeErr":
		return "decodeErr"
	case "loginPanic", "ended-decodePanic":
		return "nil" // recovered by dontPanic: the named result stays nil
	default:
		return "nil"
	}
}

// ---------------------------------------------------------------- (iii) transfers

type xferRun struct {
	Err   string
	Files string
	Data  string
}

func transferFamily(c *Case) {
	r := c.R
	if tooManyStalls(c) {
		c.Dist("transfer-skipped/after-repeated-stalls")
		return
	}
	name := "up-" + r.Name(8) + ".bin"
	name = strings.ReplaceAll(name, " ", "_")
	data := r.Bytes(r.Pick(0, 1, 100, 3000, 40000))
	rsrc := []byte{}
	forks := 2
	preserve := r.Chance(40)
	if r.Chance(30) {
		forks = 3
		rsrc = r.Bytes(r.Pick(1, 50, 5000))
	}
	info := hotline.NewFlatFileInformationFork(name, [8]byte{0, 0, 0, 0, 0, 0, 0, 1}, "TEXT", "ttxt")
	if r.Chance(50) {
		_ = info.SetComment(r.Text(r.Intn(40)))
	}
	hdr := c.O.Ask(fmt.Sprintf("ffo %d %s %d", forks, infoArgsC02(&info), len(data)))
	if strings.HasPrefix(hdr, "bad-op") || strings.HasPrefix(hdr, "ORACLE") {
		c.Disagree("oracle-ffo", "oracle could not build the flattened file header")
		return
	}
	body := append(unhx(hdr), data...)
	if forks == 3 {
		body = append(body, unhx(c.O.Ask(fmt.Sprintf("forkhdr %s %d", hx([]byte("MACR")), len(rsrc))))...)
		body = append(body, rsrc...)
	}
	kind := "valid"
	badMagic := false
	shortPre := -1
	switch r.Intn(10) {
	case 0:
		kind, badMagic = "bad-magic", true
	case 1:
		kind, shortPre = "short-preamble", r.Intn(16)
	}
	c.Dist("transfer-kind/" + kind)
	c.Note("kind", kind)
	c.Note("name", name)
	c.Note("data_len", len(data))
	c.Note("forks", forks)
	type seg struct {
		name string
		mk   func(n int) []int
	}
	segs := []seg{
		{"all-at-once", func(n int) []int { return nil }},
		{"one-byte", func(n int) []int { return cutsOnes(n) }},
		{"random", func(n int) []int { return cutsRandom(r, n) }},
		{"single-cut", func(n int) []int { return cutsOne(r, n, 16) }},
	}
	cutsFor := make([][]int, len(segs))
	// stream length is the same for every run (the reference number differs)
	total := 16 + len(body)
	if shortPre >= 0 {
		total = shortPre
	}
	for i, sg := range segs {
		cutsFor[i] = sg.mk(total)
	}
	bnd := []int{4, 8, 12, 16, 16 + 24, 16 + 40}
	cutsFor = append(cutsFor, cutsBoundary(r, total, bnd))
	segs = append(segs, seg{"boundaries", nil})
	runs := make([]xferRun, len(segs))
	models := make([]string, len(segs))
	streams := make([][]byte, len(segs))
	var wg sync.WaitGroup
	var fixErr error
	var mu sync.Mutex
	for i := range segs {
		wg.Add(1)
		go func(i int) {
			defer wg.Done()
			ts, err := newTS(TSOpt{Accounts: []AcctSpec{{Login: "guest", Name: "g", Password: "", Access: allAccess()}}, PreserveForks: preserve})
			if err != nil {
				mu.Lock()
				fixErr = err
				mu.Unlock()
				return
			}
			defer ts.Close()
			cc, err := ts.LoginOK("10.9.8.7:1000", "", "", nil)
			if err != nil {
				mu.Lock()
				fixErr = err
				mu.Unlock()
				return
			}
			cc.Conn.Feed(encTran(tranOf(203, 77, fld(hotline.FieldFileName, []byte(name)), fld(hotline.FieldTransferSize, be32(len(body))))))
			rep, ok := cc.ReplyTo(77, 5*time.Second)
			if !ok || len(rep.GetField(hotline.FieldRefNum).Data) != 4 {
				mu.Lock()
				fixErr = errors.New("no upload reference number")
				mu.Unlock()
				return
			}
			ref := rep.GetField(hotline.FieldRefNum).Data
			pre := append([]byte("HTXF"), ref...)
			pre = append(pre, be32(len(body))...)
			pre = append(pre, 0, 0, 0, 0)
			if badMagic {
				pre[0] = 'X'
			}
			stream := append(pre, body...)
			if shortPre >= 0 {
				stream = stream[:shortPre]
			}
			streams[i] = stream
			conn := newScriptConn(stream, cutsFor[i])
			done := make(chan error, 1)
			go func() { done <- ts.Srv.VerifHandleFileTransfer(conn, "10.9.8.7:1001") }()
			select {
			case e := <-done:
				runs[i].Err = errClassXfer(e)
			case <-time.After(30 * time.Second):
				runs[i].Err = "timeout"
			}
			runs[i].Files = strings.Join(snapshot(ts.Root), "\n")
			if b, err := os.ReadFile(filepath.Join(ts.Root, name)); err == nil {
				runs[i].Data = hx(b)
			} else {
				runs[i].Data = "absent"
			}
			cc.Conn.EOF()
			cc.WaitDone(5 * time.Second)
		}(i)
	}
	wg.Wait()
	if fixErr != nil {
		fixtureLoginFailed(c, fixErr.Error())
		return
	}
	for i := range segs {
		args := [][]byte{}
		for _, ch := range chunksOf(streams[i], cutsFor[i], 40) {
			args = append(args, ch)
		}
		models[i] = c.Ask("xpreamble", args...)
	}
	for i := 1; i < len(runs); i++ {
		if runs[i] != runs[0] {
			c.Note("segmentation_a", segs[0].name)
			c.Note("result_a", clip(fmt.Sprint(runs[0].Err, "\n", runs[0].Files)))
			c.Note("segmentation_b", segs[i].name)
			c.Note("cuts_b", clipInts(cutsFor[i]))
			c.Note("result_b", clip(fmt.Sprint(runs[i].Err, "\n", runs[i].Files)))
			c.Violation("transfer-segmentation-dependent", fmt.Sprintf("the same transfer bytes give different files when delivered %s and %s", segs[0].name, segs[i].name))
			return
		}
	}
	// the upload holds exactly the bytes sent (valid transfers)
	if kind == "valid" {
		if runs[0].Data != hx(data) {
			c.Note("result", clip(fmt.Sprint(runs[0].Err, "\n", runs[0].Files)))
			c.Violation("upload-content", "an uploaded file does not hold exactly the data fork sent")
			return
		}
	}
	for i := range segs {
		wantOK := kind == "valid"
		mOK := strings.HasPrefix(models[i], "ok ")
		implOK := runs[i].Data != "absent"
		c.Corr("transfer-preamble", fmt.Sprintf("accepted=%v", implOK), fmt.Sprintf("accepted=%v", mOK), false)
		if mOK != wantOK {
			c.Note("model", clip(models[i]))
			c.Disagree("transfer-preamble-model", "the preamble model disagrees with the generator's intent")
		}
		if mOK {
			// the bytes the model leaves for the transfer are the flattened file object sent
			f := strings.Fields(models[i])
			if len(f) != 4 || f[3] != hx(body) || f[2] != fmt.Sprint(len(body)) {
				c.Note("model", clip(models[i]))
				c.Disagree("transfer-preamble-rest", "the preamble model does not leave exactly the transfer payload")
			}
		}
	}
	if kind == "valid" {
		c.Nontrivial(fmt.Sprintf("%s|%x|%d", name, fnv64(body), forks))
	}
	c.Sample(map[string]any{"family": "transfer-segmentation", "kind": kind, "data": len(data), "forks": forks, "preserve_forks": preserve, "segmentations": len(segs)})
}

func errClassXfer(e error) string {
	if e == nil {
		return "nil"
	}
	s := e.Error()
	if i := strings.Index(s, ":"); i > 0 {
		return s[:i]
	}
	return s
}

func infoArgsC02(i *hotline.FlatFileInformationFork) string {
	return strings.Join([]string{hx(i.Platform[:]), hx(i.TypeSignature[:]), hx(i.CreatorSignature[:]), hx(i.Flags[:]),
		hx(i.PlatformFlags[:]), hx(i.RSVD[:]), hx(i.CreateDate[:]), hx(i.ModifyDate[:]), hx(i.NameScript[:]), hx(i.Name), hx(i.Comment)}, " ")
}

var _ = context.Background

func init() {
	props["C02"] = func(x *Ctx) {
		x.rule = "scanner: random streams of transaction-shaped items (valid, 22..9000 bytes, 65534..70000 bytes around the 64 KiB token limit, size fields 0xFFFFFFEC.. that wrap, truncated / 16..21-byte tails) under two random partitions each (single chunk, one byte, 4096+-1, one cut, random pieces); non-trivial = at least one token and at least two chunks; distinct = distinct (stream, partitions). sessions: scripted sessions (4 accounts, login variants, 0..14 cheap requests: keep-alive, user list, messages, chat, file list, news categories, unknown types; endings: clean EOF, truncated tail, bad parameter count, oversize, at-limit, wrapping size, short/invalid handshake, wrong password, mutated login) each run on a fresh server under 4-5 segmentations (all at once, one byte at a time, random pieces, cuts at header boundaries +-1, a single cut); non-trivial = logged in and >= 1 request dispatched; distinct = distinct stream bytes. fixed headers: ALL 2^11 partitions of the 12-byte handshake through performHandshake and ALL 2^15 partitions of the 16-byte transfer preamble through handleFileTransfer, per case (valid / other version / one bit off; valid / bad magic); folder uploads: 2..6 items (files of 0..9000 bytes with 2 or 3 forks, optionally a sub-folder), fresh or resumed after a first session cut in the middle of a file (server answers skip / resume / send per item), the same bytes under 5 segmentations on fresh servers; non-trivial = every folder case; distinct = (mode, stream, resumed item, cut); transfers: preamble + flattened-file upload (2 or 3 forks, 0..40000 data bytes; also bad magic / short preamble) under 5 segmentations on fresh servers; non-trivial = valid upload; distinct = (name, payload)"
		x.assume = []string{
			"an in-memory connection whose Read returns scripted pieces stands for TCP segmentation (kernel behaviour itself is not exercised)",
			"bytes that end a session (undecodable transaction, EOF) are delivered only after the replies to everything before them were written, and never in the same read as the bytes before them: the server drops replies once a client is deregistered, a race that exists for every segmentation and is not what C02 is about",
			"bufio.Scanner is library code: modelled by Scan.scan (buffer accumulation, 64 KiB limit, empty-token rule) and compared with the real library on every run",
		}
		x.Add(&Family{Name: "scanner-partitions", Quick: 1500, Thor: 40000, Run: scannerFamily})
		x.Add(&Family{Name: "session-segmentation", Quick: 320, Thor: 4000, Run: sessionFamily})
		x.Add(&Family{Name: "transfer-segmentation", Quick: 48, Thor: 800, Run: transferFamily})
		x.Add(&Family{Name: "folder-upload-segmentation", Quick: 28, Thor: 400, Run: folderUploadFamily})
		x.Add(&Family{Name: "fixed-header-partitions", Quick: 6, Thor: 32, Run: fixedHeaderFamily})
		x.rule += "; accept loops (wave d): the real Serve / ServeFileTransfers on loopback TCP listeners, fresh server per delivery, client from its own 127.x.y.z address: sessions (clean, truncated tail, wrong password, invalid handshake) and flattened-file uploads delivered all at once, with a first TCP segment of 1..3 bytes, a cut inside / at the end of the 12- or 16-byte header, one byte at a time through the header, random pieces (TCP_NODELAY, a pause after each write); non-trivial = logged-in session / every upload; distinct = (stream, cuts)"
		x.assume = append(x.assume, "accept-loop families: the pauses between TCP writes make it likely, not certain, that the server's reads see the pieces separately; coalescing can hide a defect there, it cannot raise an alarm")
		for _, f := range c02Extra {
			f(x)
		}
	}
}

var c02Extra []func(x *Ctx)
