//go:build c02

package main

// C02, exhaustive part: ALL 2^11 partitions of the 12-byte handshake through the real
// performHandshake and ALL 2^15 partitions (quick tier: a random quarter per case) of the 16-byte
// transfer preamble through the real handleFileTransfer (with a reference number nobody registered: the handler returns right after
// decoding the preamble, "invalid transaction ID" = preamble accepted).

import (
	"fmt"
	"strings"

	"github.com/jhalter/mobius/hotline"
)

func maskCuts(mask, n int) []int {
	var c []int
	for i := 1; i < n; i++ {
		if mask&(1<<(i-1)) != 0 {
			c = append(c, i)
		}
	}
	return c
}

func fixedHeaderFamily(c *Case) {
	r := c.R
	// ---- handshake
	hs := append([]byte{}, clientHandshake...)
	kind := "valid"
	switch r.Intn(4) {
	case 0:
		copy(hs[8:], r.Bytes(4))
		kind = "valid-other-version"
	case 1:
		hs[r.Intn(8)] ^= byte(1 << r.Intn(8))
		kind = "one-bit-off"
	}
	extra := r.Bytes(r.Intn(6)) // bytes that belong to what follows: must stay unread
	data := append(append([]byte{}, hs...), extra...)
	c.Note("handshake", hx(hs))
	c.Dist("fixed/handshake-" + kind)
	run := func(cuts []int) string {
		conn := newScriptConn(data, cuts)
		err := hotline.VerifPerformHandshake(conn)
		return fmt.Sprintf("err=%s wrote=%s consumed=%d", errStr(err), hx(conn.Written()), conn.pos)
	}
	ref := run(nil)
	for mask := 1; mask < 1<<11; mask++ {
		cuts := maskCuts(mask, 12)
		if got := run(cuts); got != ref {
			c.Note("cuts", cuts)
			c.Note("all_at_once", ref)
			c.Note("partitioned", got)
			c.Violation("handshake-segmentation-dependent", "the same 12 handshake bytes are treated differently when they arrive in pieces")
			return
		}
	}
	c.Evals(1<<11 - 1)
	// the model: what ReadFull delivers and the validity decision
	mcuts := maskCuts(1+r.Intn(1<<11-1), 12)
	var args []string
	for _, ch := range chunksOf(data, mcuts, 64) {
		args = append(args, hx(ch))
	}
	rf := strings.Fields(c.AskS("readfull", append([]string{"12"}, args...)...))
	valid := c.AskS("hsvalid", hx(hs))
	wantOK := valid == "true"
	implOK := strings.HasPrefix(ref, "err=nil")
	c.Corr("handshake-valid", fmt.Sprint(implOK), fmt.Sprint(wantOK), false)
	if len(rf) == 2 {
		c.Corr("readfull-12", hx(hs)+" "+hx(extra), rf[0]+" "+rf[1], false)
	}
	// ---- transfer preamble
	ts, err := newTS(TSOpt{})
	if err != nil {
		c.Dist("skipped/fixture")
		return
	}
	defer ts.Close()
	pre := append([]byte("HTXF"), r.Bytes(4)...)
	pre = append(pre, r.Bytes(4)...)
	pre = append(pre, 0, 0, 0, 0)
	pkind := "valid"
	if r.Chance(25) {
		pre[r.Intn(4)] ^= byte(1 << r.Intn(8))
		pkind = "bad-magic"
	}
	pdata := append(append([]byte{}, pre...), r.Bytes(r.Intn(6))...)
	c.Note("preamble", hx(pre))
	c.Dist("fixed/preamble-" + pkind)
	prun := func(cuts []int) string {
		conn := newScriptConn(pdata, cuts)
		e := ts.Srv.VerifHandleFileTransfer(conn, "10.0.0.9:1")
		return fmt.Sprintf("err=%s consumed=%d", errClassXfer(e), conn.pos)
	}
	pref := prun(nil)
	// thorough: all 2^15 partitions; quick: a random quarter of them per case
	quarter := -1
	if c.X.Tier != "thorough" {
		quarter = r.Intn(4)
	}
	np := 0
	for mask := 1; mask < 1<<15; mask++ {
		if quarter >= 0 && mask>>13 != quarter {
			continue
		}
		np++
		cuts := maskCuts(mask, 16)
		if got := prun(cuts); got != pref {
			c.Note("cuts", cuts)
			c.Note("all_at_once", pref)
			c.Note("partitioned", got)
			c.Violation("preamble-segmentation-dependent", "the same 16 preamble bytes are treated differently when they arrive in pieces")
			return
		}
	}
	c.Evals(np)
	pm := c.Ask("xpreamble", chunksOf(pdata, maskCuts(1+r.Intn(1<<15-1), 16), 64)...)
	c.Corr("preamble-accepted", fmt.Sprint(strings.HasPrefix(pref, "err=invalid transaction ID")), fmt.Sprint(strings.HasPrefix(pm, "ok ")), false)
	c.Nontrivial(hx(hs) + hx(extra) + hx(pdata))
	c.Sample(map[string]any{"family": "fixed-header-partitions", "handshake": kind, "preamble": pkind, "handshake_partitions": 1 << 11, "preamble_partitions": np})
}
