//go:build c05

package main

// C05 wave e — `case-logins`: logins differing only in case as separate accounts with live sessions; after every
// single-account edit (naming a key or another spelling) every session is judged against ITS OWN account's stored
// bitmap: Authorize on all 40 defined privileges and three real governed requests (read news, list accounts,
// broadcast).  An edit of account X must not change what a session of account Y ≠ X (byte-wise) may do.

import (
	"fmt"
	"strings"

	"github.com/jhalter/mobius/hotline"
)

type clProbe struct {
	name string
	bit  int
	tran func(id uint32) hotline.Transaction
}

var clProbes = []clProbe{
	{"read-news", hotline.AccessNewsReadArt, func(id uint32) hotline.Transaction { return mkTran(hotline.TranGetMsgs, id) }},
	{"list-accounts", hotline.AccessOpenUser, func(id uint32) hotline.Transaction { return mkTran(hotline.TranListUsers, id) }},
	{"broadcast", hotline.AccessBroadcast, func(id uint32) hotline.Transaction {
		return mkTran(hotline.TranUserBroadcast, id, fld(hotline.FieldData, []byte("hello")))
	}},
}

func runCaseLoginsC05(c *Case) {
	r := c.R
	w := clBuild(c, func(string) hotline.AccessBitmap { return hotline.AccessBitmap(maskDefined(randBitmap(r))) })
	if w == nil {
		return
	}
	defer w.ts.Close()
	steps := 4 + r.Intn(4)
	keyEdits, otherSpelling := 0, 0
	for st := 0; st < steps; st++ {
		named := w.pickNamed(r)
		now := hotline.AccessBitmap(maskDefined(randBitmap(r)))
		e := w.edit(c, named, now)
		what := fmt.Sprintf("step %d: %s", st+1, clDescribe(e))
		c.Note(fmt.Sprintf("step%d", st+1), clDescribe(e))
		if e.pan != nil {
			c.Violation("set-user-panic", what+": the handler panicked: "+fmt.Sprint(e.pan))
			return
		}
		if e.isKey {
			keyEdits++
		} else {
			otherSpelling++
		}
		for si, s := range w.sess {
			acct := w.stored(s.login)
			if acct == nil || acct.Login != s.login {
				c.Disagree("case-logins-account-lost", what+": the account "+s.login+" is gone")
				return
			}
			who := fmt.Sprintf("session #%d of account %q", si+1, s.login)
			// (1) an edit of account X never changes what a session of account Y ≠ X may do
			if s.login != named {
				if s.cc.Account.Access != e.sessPrev[si] {
					c.Violation("set-user-changed-other-accounts-session", fmt.Sprintf("%s: %s now carries %s (before: %s; its own account stores %s)",
						what, who, bmHex(s.cc.Account.Access), bmHex(e.sessPrev[si]), bmHex(acct.Access)))
				}
				if e.pushed[s.cc.ID] {
					c.Violation("access-pushed-to-other-account", fmt.Sprintf("%s: %s was sent the edited account's access bitmap", what, who))
				}
			}
			// (2) Authorize, all defined privileges, against the session's own stored account
			for g := 0; g <= 40; g++ {
				if !isDefinedPriv(g) {
					continue
				}
				held, may := acct.Access.IsSet(g), s.cc.Authorize(g)
				if may && !held {
					c.Violation("session-authorized-without-account-privilege", fmt.Sprintf("%s: %s passes Authorize(%d), a privilege its account does not hold (account %s, session %s)",
						what, who, g, bmHex(acct.Access), bmHex(s.cc.Account.Access)))
					break
				}
				if !may && held {
					c.Violation("session-refused-despite-account-privilege", fmt.Sprintf("%s: %s is refused privilege %d, which its account holds (account %s, session %s)",
						what, who, g, bmHex(acct.Access), bmHex(s.cc.Account.Access)))
					break
				}
			}
			// (3) real governed requests
			for _, p := range clProbes {
				w.nID++
				res, _, pan := w.ts.Call(s.cc, p.tran(w.nID))
				if pan != nil {
					continue
				}
				rep, others := requesterReplies(res, s.cc)
				denied := len(rep) == 1 && isErrReply(rep[0]) && strings.HasPrefix(errText(rep[0]), "You are not allowed to ")
				held := acct.Access.IsSet(p.bit)
				switch {
				case !held && !denied:
					c.Violation("effect-without-account-privilege", fmt.Sprintf("%s: %s performed %s (%d transactions to others) although its account does not hold privilege %d",
						what, who, p.name, len(others), p.bit))
				case held && denied:
					c.Violation("refused-despite-account-privilege", fmt.Sprintf("%s: %s was refused %s although its account holds privilege %d", what, who, p.name, p.bit))
				}
				c.Evals(1)
			}
		}
		// (4) the stored accounts: exactly the named key changes; another spelling changes nothing
		for _, k := range w.keys {
			a := w.stored(k)
			if a == nil {
				continue
			}
			if k != named && a.Access != e.acctPrev[k] {
				c.Disagree("set-user-changed-other-account", fmt.Sprintf("%s: the stored account %q changed from %s to %s", what, k, bmHex(e.acctPrev[k]), bmHex(a.Access)))
			}
		}
		c.Corr("case-logins-step", w.state(), c.O.Ask("sulogins "+strings.Join(w.toks, " ")), false)
	}
	c.Dist(fmt.Sprintf("case-logins/accounts-%d/sessions-%d", len(w.keys), len(w.sess)))
	c.Dist(fmt.Sprintf("case-logins/edits-of-keys-%d/other-spellings-%d", keyEdits, otherSpelling))
	if keyEdits > 0 && otherSpelling > 0 {
		c.Nontrivial(strings.Join(w.toks, " "))
	}
	if c.Idx%40 == 0 {
		c.Sample(map[string]any{"family": "case-logins", "accounts": w.keys, "history": w.toks, "final": w.state()})
	}
}

func c05WaveE(x *Ctx) {
	x.rule += " wave e: case-logins = an account directory with 2-3 case variants of one login as separate accounts (+ sometimes a near-collision) and a single spelling of a second login, 1-2 sessions on each, 4-7 administrator set-user requests naming any spelling of the pool (keys and non-keys) with random bitmaps; after every edit every session is judged against its own account's stored bitmap (Authorize × 40 privileges, read news / list accounts / broadcast); non-trivial = at least one edit of a key and one naming another spelling, distinct by the whole history."
	x.Add(&Family{Name: "case-logins", Quick: 120, Thor: 2500, Run: runCaseLoginsC05})
}
