//go:build c02 || c04 || c17

package main

// Helpers shared by the Session-based properties (C02, C04, C17): a scripted in-memory connection
// with a delivery gate, account fixtures, oracle request builders / answer parsers.

import (
	"context"
	"encoding/binary"
	"fmt"
	"io"
	"os"
	"path/filepath"
	"sort"
	"strconv"
	"strings"
	"sync"
	"sync/atomic"
	"time"

	"github.com/jhalter/mobius/hotline"
	"github.com/jhalter/mobius/internal/mobius"
	"gopkg.in/yaml.v3"
)

var hsReplyBytes = []byte{0x54, 0x52, 0x54, 0x50, 0, 0, 0, 0}

// ---------------------------------------------------------------- scripted connection

// scriptConn is the server side of an in-memory connection: the whole client stream is known in
// advance, every Read ends at the next cut position (or earlier if the caller's buffer is
// smaller), EOF follows the last byte.  Before the first byte at or beyond gateOff (or EOF) is
// delivered, gate(off) is called once: the harness uses it to wait until the server's
// asynchronous replies to everything before gateOff have been written, so that session-ending
// bytes do not race with them (the server drops replies once the client is deregistered).  A read
// never delivers bytes from both sides of gateOff.  Every Write is recorded, also after Close.
type scriptConn struct {
	mu         sync.Mutex
	data       []byte
	pos        int
	cuts       []int // ascending offsets in (0, len(data))
	cutIdx     int
	gateOff    int // -1 = no gate
	gate       func(delivered int)
	closed     bool
	writes     [][]byte
	reads      int
	failAfter  int      // >= 0: every Write once this many bytes were accepted fails (peer gone)
	attempts   [][]byte // every Write call, failed ones included
	gatePassed bool
	afterEOF   bool
}

func newScriptConn(data []byte, cuts []int) *scriptConn {
	cs := append([]int{}, cuts...)
	sort.Ints(cs)
	return &scriptConn{data: data, cuts: cs, gateOff: -1, failAfter: -1}
}

func (s *scriptConn) Read(p []byte) (int, error) {
	s.mu.Lock()
	if s.closed {
		s.mu.Unlock()
		return 0, io.ErrClosedPipe
	}
	if len(p) == 0 {
		s.mu.Unlock()
		return 0, nil
	}
	pos := s.pos
	for s.cutIdx < len(s.cuts) && s.cuts[s.cutIdx] <= pos {
		s.cutIdx++
	}
	end := len(s.data)
	if s.cutIdx < len(s.cuts) && s.cuts[s.cutIdx] < end {
		end = s.cuts[s.cutIdx]
	}
	n := end - pos
	if n > len(p) {
		n = len(p)
	}
	needGate := false
	if s.gate != nil && s.gateOff >= 0 && !s.gatePassed {
		if pos < s.gateOff && pos+n > s.gateOff {
			n = s.gateOff - pos // never deliver bytes from both sides of the gate in one read
		} else if pos >= s.gateOff {
			needGate = true
		}
	}
	g := s.gate
	s.mu.Unlock()
	if needGate {
		g(pos)
		s.mu.Lock()
		s.gatePassed = true
		s.mu.Unlock()
	}
	s.mu.Lock()
	defer s.mu.Unlock()
	if s.closed {
		return 0, io.ErrClosedPipe
	}
	s.reads++
	if pos >= len(s.data) {
		s.afterEOF = true
		return 0, io.EOF
	}
	copy(p, s.data[pos:pos+n])
	s.pos = pos + n
	return n, nil
}

func (s *scriptConn) Write(p []byte) (int, error) {
	s.mu.Lock()
	defer s.mu.Unlock()
	s.attempts = append(s.attempts, append([]byte{}, p...))
	if s.failAfter >= 0 {
		n := 0
		for _, w := range s.writes {
			n += len(w)
		}
		if n >= s.failAfter {
			return 0, io.ErrClosedPipe
		}
	}
	s.writes = append(s.writes, append([]byte{}, p...))
	return len(p), nil
}

// Attempted returns everything the server tried to write, failed writes included.
func (s *scriptConn) Attempted() []byte {
	s.mu.Lock()
	defer s.mu.Unlock()
	var b []byte
	for _, w := range s.attempts {
		b = append(b, w...)
	}
	return b
}

func (s *scriptConn) Close() error {
	s.mu.Lock()
	s.closed = true
	s.mu.Unlock()
	return nil
}

func (s *scriptConn) Written() []byte {
	s.mu.Lock()
	defer s.mu.Unlock()
	var b []byte
	for _, w := range s.writes {
		b = append(b, w...)
	}
	return b
}

func (s *scriptConn) IsClosed() bool {
	s.mu.Lock()
	defer s.mu.Unlock()
	return s.closed
}

// countTransactions counts the whole transactions in what the server wrote after the 8-byte handshake reply.
func countTransactions(b []byte) int {
	if len(b) < 8 {
		return 0
	}
	ts, _, _ := splitTransactions(b[8:])
	return len(ts)
}

// ---------------------------------------------------------------- segmentation scripts

// cutsOnes: a cut after every byte.
func cutsOnes(n int) []int {
	c := make([]int, 0, n)
	for i := 1; i < n; i++ {
		c = append(c, i)
	}
	return c
}

// cutsRandom: random piece sizes (mostly small, sometimes large).
func cutsRandom(r *RNG, n int) []int {
	var c []int
	pos := 0
	mode := r.Intn(4)
	for pos < n {
		var k int
		switch mode {
		case 0:
			k = 1 + r.Intn(7)
		case 1:
			k = 1 + r.Intn(64)
		case 2:
			k = 1 + r.Intn(5000)
		default:
			k = r.Pick(1, 2, 3, 11, 12, 13, 16, 20, 22, 100, 4095, 4096, 4097, 30000)
		}
		pos += k
		if pos < n {
			c = append(c, pos)
		}
	}
	return c
}

// cutsBoundary: cuts at b-1, b, b+1 for a random subset of the given structural boundaries.
func cutsBoundary(r *RNG, n int, bounds []int) []int {
	seen := map[int]bool{}
	var c []int
	for _, b := range bounds {
		if !r.Chance(60) {
			continue
		}
		for _, d := range []int{-1, 0, 1} {
			if r.Chance(70) {
				p := b + d
				if p > 0 && p < n && !seen[p] {
					seen[p] = true
					c = append(c, p)
				}
			}
		}
	}
	sort.Ints(c)
	return c
}

// cutsOne: a single cut (biased into the first fixed-size header).
func cutsOne(r *RNG, n int, hdr int) []int {
	if n < 2 {
		return nil
	}
	p := 1 + r.Intn(n-1)
	if r.Chance(60) && hdr > 1 && hdr <= n {
		p = 1 + r.Intn(hdr-1)
	}
	return []int{p}
}

// chunksOf splits data at the cuts (for the oracle); at most maxChunks chunks (later cuts dropped).
func chunksOf(data []byte, cuts []int, maxChunks int) [][]byte {
	var out [][]byte
	prev := 0
	for _, c := range cuts {
		if c <= prev || c >= len(data) {
			continue
		}
		if len(out) >= maxChunks-1 {
			break
		}
		out = append(out, data[prev:c])
		prev = c
	}
	if prev < len(data) {
		out = append(out, data[prev:])
	}
	return out
}

// ---------------------------------------------------------------- accounts

// sessAcct: an account whose stored hash is bcrypt(pwWire) — pwWire are the bytes a client sends
// in field 106 (the obfuscated password), which is what the server hashes when it creates an account.
type sessAcct struct {
	Login  string
	Name   string
	PwWire []byte
	Access hotline.AccessBitmap
	// RawHash != nil: the account file is written by the harness with this literal Password value,
	// which is NOT a well-formed bcrypt hash (empty, plaintext, truncated, unknown version / cost):
	// no password may ever be accepted for it.
	RawHash *string
}

// spec: AcctSpec.Password is the plaintext; the fixture stores bcrypt(EncodeString(plaintext)) = bcrypt(PwWire).
func (a sessAcct) spec() AcctSpec {
	return AcctSpec{Login: a.Login, Name: a.Name, Password: string(hotline.EncodeString(a.PwWire)), Access: a.Access}
}

func acctSpecs(as []sessAcct) []AcctSpec {
	out := []AcctSpec{}
	for _, a := range as {
		if a.RawHash != nil {
			continue
		}
		out = append(out, a.spec())
	}
	return out
}

// installRawAccounts writes the account files of the RawHash accounts by hand and restarts the
// account manager on the directory (as after a server restart with operator-edited files).
func installRawAccounts(ts *TS, as []sessAcct) error {
	any := false
	for _, a := range as {
		if a.RawHash == nil {
			continue
		}
		any = true
		acc := hotline.Account{Login: a.Login, Name: a.Name, Password: *a.RawHash, Access: a.Access}
		b, err := yaml.Marshal(acc)
		if err != nil {
			return err
		}
		if err := os.WriteFile(filepath.Join(ts.Users, a.Login+".yaml"), b, 0644); err != nil {
			return err
		}
	}
	if !any {
		return nil
	}
	am, err := mobius.NewYAMLAccountManager(ts.Users)
	if err != nil {
		return err
	}
	ts.Acct = am
	ts.Srv.AccountManager = am
	return nil
}

// modelHash renders the stored hash for the oracle: tag 1 + password bytes for a well-formed
// bcrypt hash of those bytes, tag 0 + the literal value for something that is not a bcrypt hash.
func (a sessAcct) modelHash() []byte {
	if a.RawHash != nil {
		return append([]byte{0}, []byte(*a.RawHash)...)
	}
	return append([]byte{1}, a.PwWire...)
}

// wirePassword draws 1..max password bytes as sent on the wire, none of them zero (a NUL inside a
// bcrypt key makes distinct passwords collide — outside the assumed behaviour of `verify`).
func wirePassword(r *RNG, max int) []byte {
	n := 1 + r.Intn(max)
	b := make([]byte, n)
	for i := range b {
		b[i] = byte(1 + r.Intn(255))
	}
	return b
}

// loginTranWire builds a login transaction from wire-level field contents.
func loginTranWire(ty uint16, id uint32, loginWire, pwWire []byte, extra ...hotline.Field) hotline.Transaction {
	fs := []hotline.Field{}
	if loginWire != nil {
		fs = append(fs, fld(hotline.FieldUserLogin, loginWire))
	}
	if pwWire != nil {
		fs = append(fs, fld(hotline.FieldUserPassword, pwWire))
	}
	fs = append(fs, extra...)
	t := hotline.Transaction{Fields: fs}
	binary.BigEndian.PutUint16(t.Type[:], ty)
	binary.BigEndian.PutUint32(t.ID[:], id)
	return t
}

// ---------------------------------------------------------------- oracle: session

type banSpec struct {
	IP    string
	Perm  bool
	Until int64 // unix nanoseconds
}

// askSession evaluates the Lean Session.run on the given chunking.
func askSession(c *Case, op string, addr string, nowNs int64, noticeID uint32, accts []sessAcct, bans []banSpec, chunks [][]byte) string {
	var sb strings.Builder
	fmt.Fprintf(&sb, "%s %s %d %d %d", op, hx([]byte(addr)), nowNs, noticeID, len(accts))
	for _, a := range accts {
		fmt.Fprintf(&sb, " %s %s", hx([]byte(a.Login)), hx(a.modelHash()))
	}
	fmt.Fprintf(&sb, " %d", len(bans))
	for _, b := range bans {
		k := "t"
		if b.Perm {
			k = "p"
		}
		fmt.Fprintf(&sb, " %s %s %d", hx([]byte(b.IP)), k, b.Until)
	}
	for _, ch := range chunks {
		if len(ch) == 0 {
			continue
		}
		sb.WriteByte(' ')
		sb.WriteString(hx(ch))
	}
	return c.O.Ask(sb.String())
}

type sessModel struct {
	Raw      string
	Outcome  string
	In       bool
	Peer     []byte
	Login    string // hex or "none"
	LoginID  string
	Disp     [][2]uint32 // (type, id)
	DispOK   bool
	WorldCnt int
}

func parseSessModel(s string) sessModel {
	m := sessModel{Raw: s}
	parts := strings.Fields(s)
	for i, p := range parts {
		kv := strings.SplitN(p, "=", 2)
		if len(kv) != 2 {
			continue
		}
		switch kv[0] {
		case "outcome":
			m.Outcome = kv[1]
		case "in":
			m.In = kv[1] == "1"
		case "peer":
			m.Peer = unhx(kv[1])
		case "login":
			m.Login = kv[1]
		case "lid":
			m.LoginID = kv[1]
		case "world":
			m.WorldCnt, _ = strconv.Atoi(kv[1])
		case "disp":
			n, _ := strconv.Atoi(kv[1])
			m.DispOK = true
			for _, q := range parts[i+1:] {
				ab := strings.SplitN(q, ".", 2)
				if len(ab) != 2 {
					m.DispOK = false
					break
				}
				a, _ := strconv.ParseUint(ab[0], 10, 32)
				b, _ := strconv.ParseUint(ab[1], 10, 32)
				m.Disp = append(m.Disp, [2]uint32{uint32(a), uint32(b)})
			}
			if len(m.Disp) != n {
				m.DispOK = false
			}
		}
	}
	if m.Outcome == "" {
		m.DispOK = false
	}
	return m
}

// ---------------------------------------------------------------- running a control connection

type connRun struct {
	Conn *scriptConn
	Err  error
	Done bool
}

// runControl runs the real handleNewConnection on conn and waits for it to return.
func runControl(ts *TS, conn *scriptConn, addr string, wait time.Duration) connRun {
	done := make(chan error, 1)
	go func() {
		done <- ts.Srv.VerifHandleNewConnection(context.Background(), conn, addr)
	}()
	select {
	case err := <-done:
		return connRun{Conn: conn, Err: err, Done: true}
	case <-time.After(wait):
		conn.Close()
		return connRun{Conn: conn, Done: false}
	}
}

func errStr(err error) string {
	if err == nil {
		return "nil"
	}
	return err.Error()
}

// tranKey renders a server→client transaction without its destination (not on the wire).
func tranKey(t hotline.Transaction) string {
	id := ""
	if t.IsReply == 1 {
		id = fmt.Sprintf(" id=%d", binary.BigEndian.Uint32(t.ID[:]))
	}
	return fmt.Sprintf("reply=%d type=%d err=%d%s%s", t.IsReply, binary.BigEndian.Uint16(t.Type[:]),
		binary.BigEndian.Uint32(t.ErrorCode[:]), id, fieldsCanon(t.Fields))
}

func u16(b [2]byte) uint16 { return binary.BigEndian.Uint16(b[:]) }
func u32(b [4]byte) uint32 { return binary.BigEndian.Uint32(b[:]) }

func tranOf(ty uint16, id uint32, fields ...hotline.Field) hotline.Transaction {
	t := hotline.Transaction{Fields: fields}
	binary.BigEndian.PutUint16(t.Type[:], ty)
	binary.BigEndian.PutUint32(t.ID[:], id)
	return t
}

func snapKey(lines []string) string {
	return fmt.Sprintf("%d:%x", len(lines), fnv64([]byte(strings.Join(lines, "\n"))))
}

func pickStr(r *RNG, xs ...string) string { return xs[r.Intn(len(xs))] }

// recMgr wraps the server's client manager and records registrations (the "registry changes").
type recMgr struct {
	hotline.ClientManager
	mu   sync.Mutex
	adds []string // remote addresses registered
}

func (m *recMgr) Add(cc *hotline.ClientConn) {
	m.mu.Lock()
	m.adds = append(m.adds, cc.RemoteAddr)
	m.mu.Unlock()
	m.ClientManager.Add(cc)
}

func (m *recMgr) addedFrom(addr string) int {
	m.mu.Lock()
	defer m.mu.Unlock()
	n := 0
	for _, a := range m.adds {
		if a == addr {
			n++
		}
	}
	return n
}

var (
	permBanText = []byte("You are permanently banned on this server")
	tempBanText = []byte("You are temporarily banned on this server")
	incorrectLg = []byte("Incorrect login.")
)

// stalls counts cases in which the real server did not produce what every model run says it
// produces (a wait ran into its timeout).  After a few of them the failure is on record and the
// remaining cases of wait-heavy families are skipped so that the check still ends quickly.
var stalls atomic.Int64

const stallLimit = 3

// tooManyStalls: skipping is allowed only once a failure is on record (a stall that turned out to be
// harmless must never silently shrink the run).
func tooManyStalls(c *Case) bool {
	if stalls.Load() < stallLimit {
		return false
	}
	c.X.mu.Lock()
	n := len(c.X.fails)
	c.X.mu.Unlock()
	return n > 0
}

// fixtureLoginFailed: a plain, valid login of a fixture client (bystander, administrator, …) was
// not answered.  A single occurrence is tolerated (machine hiccup); repeated ones are reported.
var fixtureFails atomic.Int64

func fixtureLoginFailed(c *Case, what string) {
	c.Dist("skipped/fixture-login")
	stalls.Add(1)
	if fixtureFails.Add(1) >= 3 {
		c.Note("fixture", what)
		c.Disagree("fixture-login-failed", "valid logins of fixture clients are repeatedly not answered by the real connection handler: "+what)
	}
}
