//go:build c12

package main

// C12, wave d — chat reaches its audience while some members of the audience do not read.
//
// Family `chat-stalled-reader`: the same kind of history as chat-e2e (real handleNewConnection, the
// connection's own transaction loop, the real processOutbox with one goroutine per outgoing transaction),
// but one or two logged-in clients stay connected and STOP READING: from some write on, every Write to
// their connection blocks (what a TCP connection does once the peer's window and the socket buffers are
// full) until the harness lets go at the very end.  They stay in every audience they were in.  The other
// clients keep chatting (public lines, private lines in chats the stalled clients are members of, subject
// changes, joins, leaves, declines, invitations — also to the stalled ones —, new logins, departures).
// Judged on the READING clients' inboxes while the stalled ones are still blocked: exactly the
// transactions the chat model addresses to them, each once (`c12inbox`, and the scheduler model with that
// stalled set, `c12stall`); every wait is event-driven with a bound of a minute.  Afterwards the stalled
// clients are released and must have been handed, exactly once, everything addressed to them meanwhile.

import (
	"encoding/binary"
	"fmt"
	"os"
	"sort"
	"strings"
	"sync/atomic"
	"time"

	"github.com/jhalter/mobius/hotline"
)

// stallBound is how long a reading client may wait for something the server owes it.  Generous: nothing
// here asserts a latency; on a server that delivers at all the waits end within microseconds of the write.
// Once waits have run out (the code under test evidently does not deliver in this situation and the failure
// is recorded) later cases use a short bound so that the run reports instead of waiting for minutes.
var stallTimeouts atomic.Int64

func stallWait(cond func() bool) bool {
	d := 60 * time.Second
	if stallTimeouts.Load() >= 2 {
		d = 4 * time.Second
	}
	deadline := time.Now().Add(d)
	for {
		if cond() {
			return true
		}
		if time.Now().After(deadline) {
			stallTimeouts.Add(1)
			return false
		}
		time.Sleep(200 * time.Microsecond)
	}
}

type stallClient struct {
	wc      *WireClient
	id      int
	acct    int
	conn    int // model connection serial = login order
	live    bool
	stalled bool
	nreq    uint32
	// stall control
	after   int64 // writes still let through after the stall begins
	seen    atomic.Int64
	blocked atomic.Int64
}

func runChatStalled(c *Case) {
	r := c.R
	ts, err := newTS(TSOpt{Accounts: c12Accounts()})
	if err != nil {
		panic(err)
	}
	defer ts.Close()
	gate := make(chan struct{})
	released := false
	release := func() {
		if !released {
			released = true
			close(gate)
		}
	}
	defer release()

	var clients []*stallClient
	var evs []string
	var chats []uint32
	req := uint32(1000)
	gaveUp := false

	relevant := func(x *stallClient) ([]string, error, []byte) {
		_, trans, rest, err := x.wc.Received()
		var got []string
		for i := range trans {
			if c12Relevant(&trans[i]) || (trans[i].IsReply == 0 && tranType(&trans[i]) == 302) { // 302: the user-left notice of a departure
				t := trans[i]
				binary.BigEndian.PutUint16(t.ClientID[:], uint16(x.id))
				got = append(got, outStr(t))
			}
		}
		return got, err, rest
	}
	login := func(m int) *stallClient {
		name := textBytes(r, r.Pick(1, 4, 9, 13, 14, 20))
		icon := be16(r.Intn(500))
		c0 := ts.Connect(fmt.Sprintf("10.2.0.%d:5000", len(clients)+1), nil)
		c0.Conn.Feed(clientHandshake)
		c0.Conn.Feed(encTran(loginTran(1, fmt.Sprintf("u%d", m), "", fld(hotline.FieldUserName, name), fld(hotline.FieldUserIconID, icon))))
		var rep *hotline.Transaction
		ok := stallWait(func() bool {
			_, trans, _, _ := c0.Received()
			for i := range trans {
				if trans[i].IsReply == 1 && tranID(&trans[i]) == 1 {
					rep = &trans[i]
					return true
				}
			}
			return false
		})
		if !ok || rep.ErrorCode != [4]byte{} {
			gaveUp = true
			return nil
		}
		cl := &stallClient{wc: c0, acct: m, live: true, conn: len(clients)}
		for _, cc := range ts.Srv.ClientMgr.List() {
			if cc.Connection == c0.Conn {
				cl.id = int(binary.BigEndian.Uint16(cc.ID[:]))
			}
		}
		clients = append(clients, cl)
		evs = append(evs, fmt.Sprintf("L %s %s %s %s %s", hx([]byte(fmt.Sprintf("u%d", m))), hx([]byte(acctName(m))), acctAccessHex(m), hx([]byte(acctName(m))), hx(icon)))
		return cl
	}
	// barrier: the reply to a keep-alive fed after a request shows that the request was handled
	barrier := func(x *stallClient) bool {
		x.nreq++
		id := 1 + x.nreq
		x.wc.Conn.Feed(encTran(mkTran(hotline.TranKeepAlive, id)))
		return stallWait(func() bool {
			_, trans, _, _ := x.wc.Received()
			for i := range trans {
				if trans[i].IsReply == 1 && tranID(&trans[i]) == id {
					return true
				}
			}
			return false
		})
	}
	readers := func() []*stallClient {
		var l []*stallClient
		for _, x := range clients {
			if x.live && !x.stalled {
				l = append(l, x)
			}
		}
		return l
	}
	everyone := func() []*stallClient {
		var l []*stallClient
		for _, x := range clients {
			if x.live {
				l = append(l, x)
			}
		}
		return l
	}
	var stalledOnes []*stallClient
	parse := func(ans string) map[int][]string {
		want := map[int][]string{}
		for _, part := range strings.Split(ans, " | ") {
			kv := strings.SplitN(part, ">", 2)
			if len(kv) != 2 {
				continue
			}
			var k int
			if _, err := fmt.Sscan(kv[0], &k); err != nil {
				continue
			}
			if kv[1] != "." {
				want[k] = strings.Split(kv[1], ";")
			}
		}
		return want
	}

	// one event by `actor`; returns false when the server stopped answering a READING client
	event := func(actor *stallClient, phase2 bool) bool {
		req++
		lv := everyone()
		do := func(t hotline.Transaction, wantReply bool) (*hotline.Transaction, bool) {
			actor.wc.Conn.Feed(encTran(t))
			if wantReply && !actor.stalled {
				var rep *hotline.Transaction
				id := tranID(&t)
				ok := stallWait(func() bool {
					_, trans, _, _ := actor.wc.Received()
					for i := range trans {
						if trans[i].IsReply == 1 && tranID(&trans[i]) == id {
							rep = &trans[i]
							return true
						}
					}
					return false
				})
				return rep, ok
			}
			return nil, barrier(actor)
		}
		pickTarget := func() *stallClient {
			if phase2 && len(stalledOnes) > 0 && r.Chance(50) {
				return stalledOnes[r.Intn(len(stalledOnes))]
			}
			return lv[r.Intn(len(lv))]
		}
		_, canSend, open := acctFlags(actor.acct)
		op := r.Intn(100)
		if !phase2 {
			op = r.Pick(10, 10, 30, 30, 30, 60, 90) // build chats first: invite-new / join, a subject, a line
		}
		ok := true
		switch {
		case op < 18:
			target := pickTarget()
			rep, k := do(mkTran(hotline.TranInviteNewChat, req, fld(hotline.FieldUserID, be16(target.id))), true)
			ok = k
			var chat uint32
			if rep != nil && open {
				if d, has := fieldOf(rep, 114); has && len(d) == 4 {
					chat = binary.BigEndian.Uint32(d)
					chats = append(chats, chat)
				}
			}
			if !k {
				return false // the chat id the server drew is unknown: the event cannot be told to the model
			}
			evs = append(evs, fmt.Sprintf("N %d %d %d %d", actor.id, req, target.id, chat))
		case op < 26 && len(chats) > 0:
			chat := chats[r.Intn(len(chats))]
			target := pickTarget()
			_, ok = do(mkTran(hotline.TranInviteToChat, req, fld(hotline.FieldUserID, be16(target.id)), chatField(chat)), true)
			evs = append(evs, fmt.Sprintf("I %d %d %d %d", actor.id, req, target.id, chat))
		case op < 40 && len(chats) > 0:
			chat := chats[r.Intn(len(chats))]
			_, ok = do(mkTran(hotline.TranJoinChat, req, chatField(chat)), true)
			evs = append(evs, fmt.Sprintf("J %d %d %d", actor.id, req, chat))
		case op < 45 && len(chats) > 0 && phase2:
			chat := chats[r.Intn(len(chats))]
			_, ok = do(mkTran(hotline.TranLeaveChat, req, chatField(chat)), false)
			evs = append(evs, fmt.Sprintf("V %d %d %d", actor.id, req, chat))
		case op < 49 && len(chats) > 0 && phase2:
			chat := chats[r.Intn(len(chats))]
			_, ok = do(mkTran(hotline.TranRejectChatInvite, req, chatField(chat)), false)
			evs = append(evs, fmt.Sprintf("R %d %d %d", actor.id, req, chat))
		case op < 62 && len(chats) > 0:
			chat := chats[r.Intn(len(chats))]
			subj := textBytes(r, r.Pick(0, 5, 30, 60))
			_, ok = do(mkTran(hotline.TranSetChatSubject, req, chatField(chat), fld(hotline.FieldChatSubject, subj)), false)
			evs = append(evs, fmt.Sprintf("S %d %d %d %s", actor.id, req, chat, hx(subj)))
		default:
			msg := c12Msg(r, r.Chance(10))
			fields := []hotline.Field{fld(hotline.FieldData, msg)}
			optTok := "none"
			if r.Chance(30) {
				fields = append(fields, fld(hotline.FieldChatOptions, []byte{0, 1}))
				optTok = "0001"
			}
			chatTok := "-"
			if len(chats) > 0 && r.Chance(50) {
				chat := chats[r.Intn(len(chats))]
				fields = append(fields, chatField(chat))
				chatTok = fmt.Sprint(chat)
			}
			_, ok = do(mkTran(hotline.TranChatSend, req, fields...), !canSend)
			evs = append(evs, fmt.Sprintf("M %d %d %s %s %s", actor.id, req, chatTok, optTok, hx(msg)))
		}
		return ok
	}

	// ---- phase 1: everybody reads; chats are built with the future non-readers in them
	n := 4 + r.Intn(4)
	accts := []int{7, r.Pick(7, 8, 3)}
	for len(accts) < n {
		accts = append(accts, r.Pick(7, 7, 7, 8, 3, 5, 1, 6, 2))
	}
	for _, m := range accts {
		if login(m) == nil {
			c.Note("setup", "a valid login over an in-memory connection did not succeed")
			c.Disagree("stalled-setup-login", "a valid login over an in-memory connection did not succeed while everybody reads")
			return
		}
	}
	nStall := 1
	if n >= 5 && r.Chance(40) {
		nStall = 2
	}
	perm := make([]int, 0, n-2)
	for i := 2; i < n; i++ {
		perm = append(perm, i)
	}
	for i := len(perm) - 1; i > 0; i-- {
		j := r.Intn(i + 1)
		perm[i], perm[j] = perm[j], perm[i]
	}
	for _, i := range perm[:nStall] {
		stalledOnes = append(stalledOnes, clients[i])
	}
	p1 := 4 + r.Intn(6)
	for s := 0; s < p1 && !gaveUp; s++ {
		lv := everyone()
		actor := lv[r.Intn(len(lv))]
		if r.Chance(45) {
			actor = stalledOnes[r.Intn(len(stalledOnes))] // it joins / is invited while it still reads
		}
		if !event(actor, false) {
			c.Note("history", clip(strings.Join(evs, " ")))
			c.Violation("e2e-no-reply", "a request got no reply although every client reads")
			return
		}
	}
	phase1 := len(evs)

	// ---- the stall: from its (after+1)-th write on, every Write to these connections blocks
	for _, x := range stalledOnes {
		x.stalled = true
		x.after = int64(r.Pick(0, 0, 1, 3))
		xx := x
		x.wc.Conn.mu.Lock()
		x.wc.Conn.onWrite = func([]byte) {
			if xx.seen.Add(1) > xx.after {
				xx.blocked.Add(1)
				<-gate
			}
		}
		x.wc.Conn.mu.Unlock()
	}

	// ---- phase 2: the readers go on
	starvedAt := ""
	p2 := 10 + r.Intn(14)
	for s := 0; s < p2 && starvedAt == ""; s++ {
		rd := readers()
		if len(rd) < 2 {
			break
		}
		actor := rd[r.Intn(len(rd))]
		switch {
		case r.Chance(5) && len(clients) < 9:
			if login(r.Pick(7, 3, 1, 8)) == nil {
				starvedAt = "a newcomer's login got no reply"
			}
		case r.Chance(4) && len(rd) > 2 && actor.conn != 0:
			// a reader goes away (connection ends); the user-left notices go to everybody, stalled ones included.
			// It leaves only after it has been handed what is addressed to it so far: a transaction whose goroutine has
			// not looked the addressee up yet when the connection ends is dropped with the departing user, which the
			// property ("every CONNECTED user") allows and the sequential model does not describe.
			owed := parse(c.O.Ask("c12inbox " + strings.Join(evs, " ")))[actor.conn]
			if !stallWait(func() bool { got, _, _ := relevant(actor); return len(got) >= len(owed) }) {
				starvedAt = "a reading client about to leave was not handed what is addressed to it"
				break
			}
			actor.wc.Conn.EOF()
			actor.live = false
			ok := stallWait(func() bool { return ts.Srv.ClientMgr.Get(hotline.ClientID(be16(actor.id))) == nil })
			evs = append(evs, fmt.Sprintf("D %d", actor.id))
			if !ok {
				starvedAt = "a departing client was not taken off the client table"
			}
		default:
			before := len(evs)
			if !event(actor, true) {
				starvedAt = "no reply / keep-alive reply to a reading client"
				if len(evs) > before {
					starvedAt += " after event " + clip(evs[len(evs)-1])
				}
			}
		}
	}

	// ---- judgement 1: the READING clients, while the others are still blocked
	history := strings.Join(evs, " ")
	want := parse(c.O.Ask("c12inbox " + history))
	var sl []string
	for _, x := range stalledOnes {
		sl = append(sl, fmt.Sprint(x.conn))
	}
	sort.Strings(sl)
	sched := c.O.Ask(fmt.Sprintf("c12stall %s %d %d %s", strings.Join(sl, ","), phase1, r.Intn(1<<30), history))
	if !strings.HasSuffix(sched, "quiet=true") {
		c.Note("scheduler_model", clip(sched))
		c.Disagree("stalled-scheduler-model-not-quiet", "the scheduler model did not reach a state with nothing deliverable pending")
	}
	schedWant := parse(sched)
	wantP1 := parse(c.O.Ask("c12inbox " + strings.Join(evs[:phase1], " ")))
	c.Note("history", clip(history))
	c.Note("stalled_connections", strings.Join(sl, ","))
	c.Note("phase1_events", phase1)
	var blockedInfo []string
	for _, x := range stalledOnes {
		blockedInfo = append(blockedInfo, fmt.Sprintf("conn %d (user %d): %d writes let through after the stall, %d blocked", x.conn, x.id, x.after, x.blocked.Load()))
	}
	c.Note("stalled", blockedInfo)
	judge := func(x *stallClient, when string) {
		complete := stallWait(func() bool {
			got, _, _ := relevant(x)
			return len(got) >= len(want[x.conn])
		})
		if complete {
			time.Sleep(10 * time.Millisecond) // let a duplicate show up
		}
		got, ferr, rest := relevant(x)
		if ferr != nil || len(rest) != 0 {
			c.Note("frame_error", fmt.Sprint(ferr))
			c.Violation("e2e-stream-unframed", "the byte stream written to a client is not a sequence of whole transactions")
		}
		if !complete {
			// name the first thing of the audience's that did not arrive
			have := map[string]int{}
			for _, g := range got {
				have[g]++
			}
			missing := ""
			for _, w := range want[x.conn] {
				if have[w] == 0 {
					missing = w
					break
				}
				have[w]--
			}
			c.Note("user", x.id)
			c.Note("received", len(got))
			c.Note("owed", len(want[x.conn]))
			c.Note("first_missing", clip(missing))
			c.Note("starved_at", starvedAt)
			if dbg := os.Getenv("C12_STALL_DEBUG"); dbg != "" {
				os.WriteFile(dbg, []byte(fmt.Sprintf("user %d conn %d\nhistory: %s\n\nwant:\n%s\n\ngot:\n%s\n\nwrites: %d\n", x.id, x.conn, strings.Join(evs, "\n"), strings.Join(want[x.conn], "\n"), strings.Join(got, "\n"), len(x.wc.Conn.Writes()))), 0644)
			}
			c.Violation("audience-member-starved-by-stalled-recipient", fmt.Sprintf("%s: user %d (connection %d, connected and reading) was handed %d of the %d chat transactions addressed to it within the bound, while connection(s) %s do not read", when, x.id, x.conn, len(got), len(want[x.conn]), strings.Join(sl, ",")))
			return
		}
		c.Corr("stalled-e2e-inbox", sortedJoin(got), sortedJoin(want[x.conn]), true)
		if !x.stalled {
			c.Corr("stalled-e2e-inbox-vs-scheduler-model", sortedJoin(got), sortedJoin(schedWant[x.conn]), false)
		}
	}
	for _, x := range clients {
		if !x.stalled && !c.failed {
			judge(x, "while the non-readers are blocked")
		}
	}
	if starvedAt != "" && !c.failed {
		c.Note("starved_at", starvedAt)
		c.Violation("audience-member-starved-by-stalled-recipient", "a reading client got no answer within the bound while other connection(s) do not read: "+starvedAt)
	}

	// ---- judgement 2: let go; the former non-readers were handed everything addressed to them, once
	release()
	for _, x := range clients {
		if x.stalled && !c.failed {
			judge(x, "after the non-readers resumed reading")
		}
	}
	for _, x := range clients {
		x.wc.Conn.EOF()
	}
	for _, x := range clients {
		x.wc.WaitDone(30 * time.Second)
	}
	// non-trivial: during the stall something was addressed to a blocked connection AND to a reading one
	toStalled, toReaders := 0, 0
	for _, x := range clients {
		d := len(want[x.conn]) - len(wantP1[x.conn])
		if x.stalled {
			toStalled += d
		} else {
			toReaders += d
		}
	}
	var nb int64
	for _, x := range stalledOnes {
		nb += x.blocked.Load()
	}
	if toStalled > 0 && toReaders > 0 && nb > 0 {
		c.Nontrivial("stalled " + strings.Join(sl, ",") + " " + history)
	}
	c.Dist(fmt.Sprintf("stalled/non-readers=%d", len(stalledOnes)))
	c.Dist(fmt.Sprintf("stalled/blocked-writes>=%d", min(int(nb), 8)/4*4))
	c.Sample(map[string]any{"family": c.Fam, "clients": len(clients), "stalled_connections": sl, "events": len(evs), "chat_transactions_to_non_readers_during_stall": toStalled, "blocked_writes": nb})
}
