//go:build c04

package main

// C04 wave e — set-user-login: histories of SINGLE-account edits before the login attempts.
//
// An administrator sends 1..4 account edits one after the other — TranSetUser (353, the single-account editor of
// pre-1.5 clients) and single-record TranUpdateUser (349: password change, rename) — whose password fields are
// drawn from a pool chosen for the wire encoding (passwords travel as 255-b): clear texts beginning with 0xFF
// (first WIRE byte 0x00) of lengths 2, 8 and 20, the one-byte marker {0x00} ("leave the password as it is"),
// an absent field (password cleared), an empty field, one-byte passwords, high bytes, ordinary text.  Afterwards
// connections present, per edited account, the password the last acknowledged edit set, the one it had before,
// and the ones other edits carried.  Verdict (the property's own condition): logged in iff the account exists
// now and the presented password VERIFIES (bcrypt, computed by the harness itself) against what the last
// acknowledged edit set: marker = unchanged, absent / empty = the empty password, anything else = that value.
// The table after the history is compared with the Lean model (SetUserPw.applyEdits) and the real account manager.

import (
	"bytes"
	"fmt"
	"sort"
	"strings"
	"time"

	"github.com/jhalter/mobius/hotline"
	"golang.org/x/crypto/bcrypt"
)

// pwVerifies: does `presented` verify against an account whose password was set to `set`?  (bcrypt, independent of
// the server's stored hash.)
func pwVerifies(set, presented []byte) bool {
	h, err := bcrypt.GenerateFromPassword(set, bcrypt.MinCost)
	if err != nil {
		return bytes.Equal(set, presented)
	}
	return bcrypt.CompareHashAndPassword(h, presented) == nil
}

// poolPassword: a wire-level password field.  mode: 0 = a value, 1 = the marker {0}, 2 = field absent.
func poolPassword(r *RNG) (pw []byte, mode int, class string) {
	tailBytes := func(n int) []byte {
		b := make([]byte, n)
		for i := range b {
			b[i] = byte(1 + r.Intn(255))
		}
		return b
	}
	switch r.Intn(12) {
	case 0:
		return []byte{0}, 1, "marker"
	case 1:
		return nil, 2, "absent"
	case 2:
		return []byte{}, 0, "empty"
	case 3:
		return append([]byte{0}, tailBytes(1)...), 0, "wire0-len2"
	case 4:
		return append([]byte{0}, tailBytes(7)...), 0, "wire0-len8"
	case 5:
		return append([]byte{0}, tailBytes(19)...), 0, "wire0-len20"
	case 6:
		return tailBytes(1), 0, "one-byte"
	case 7:
		return []byte{0xff, byte(0x80 + r.Intn(0x7f)), 0xfe}, 0, "high-bytes"
	case 8:
		return append(tailBytes(3), 0, byte(1+r.Intn(255))), 0, "wire0-inside"
	case 9:
		return append([]byte{0}, tailBytes(r.Pick(2, 3, 11, 40))...), 0, "wire0-other"
	default:
		return hotline.EncodeString([]byte(pickStr(r, "secret", "hunter2", "pass word", "x"))), 0, "text"
	}
}

type suEdit struct {
	SetUser bool   // true: TranSetUser; false: a single-record TranUpdateUser
	Login   string // SetUser: the account named
	Pw      []byte
	Mode    int // 0 value, 1 marker, 2 absent
	Class   string
	Rec     editRec // single-record 349
}

func (e suEdit) describe() string {
	if e.SetUser {
		return fmt.Sprintf("set-user:%s/pw-%s", e.Login, e.Class)
	}
	s := "update-user:" + e.Rec.Kind + ":" + e.Rec.Target
	if e.Rec.Kind == "rename" {
		s += fmt.Sprintf(">%s/pwmode%d", e.Rec.NewLogin, e.Rec.PwMode)
	}
	return s + "/pw-" + e.Class
}

func (e suEdit) fields(r *RNG) []hotline.Field {
	if !e.SetUser {
		return e.Rec.subFields(r)
	}
	ga := guestAccess()
	fs := []hotline.Field{fld(hotline.FieldUserLogin, hotline.EncodeString([]byte(e.Login))), fld(hotline.FieldUserName, []byte("N-"+e.Login)), fld(hotline.FieldUserAccess, ga[:])}
	if e.Mode != 2 {
		fs = append(fs, fld(hotline.FieldUserPassword, e.Pw))
	}
	for i := len(fs) - 1; i > 0; i-- {
		j := r.Intn(i + 1)
		fs[i], fs[j] = fs[j], fs[i]
	}
	return fs
}

// applySpec: the property's reference for one edit on login -> password last set; false = not acknowledged, nothing changes.
func (e suEdit) applySpec(tab map[string][]byte) bool {
	if !e.SetUser {
		return e.Rec.applySpec(tab)
	}
	if _, ok := tab[e.Login]; !ok {
		return false
	}
	switch e.Mode {
	case 1: // unchanged
	case 2:
		tab[e.Login] = []byte{}
	default:
		tab[e.Login] = append([]byte{}, e.Pw...)
	}
	return true
}

func c04SetUserFamily(c *Case) {
	r := c.R
	if tooManyStalls(c) {
		c.Dist("skipped/after-repeated-stalls")
		return
	}
	subjects := []string{"alice", "bob", "carol"}
	pool := []string{"erin", "frank"}
	rootPw := wirePassword(r, 12)
	accts := []sessAcct{
		{Login: "root", Name: "Root", PwWire: rootPw, Access: allAccess()},
		{Login: "guest", Name: "Guest", PwWire: []byte{}, Access: guestAccess()},
	}
	tab := map[string][]byte{}
	for _, s := range subjects {
		pw := wirePassword(r, r.Pick(4, 12, 30))
		accts = append(accts, sessAcct{Login: s, Name: "N-" + s, PwWire: pw, Access: guestAccess()})
		tab[s] = pw
	}
	ts, err := newTS(TSOpt{Accounts: acctSpecs(accts), Board: "old news\r", Agreement: "agree"})
	if err != nil {
		c.Note("fixture", err.Error())
		c.Dist("skipped/fixture")
		return
	}
	defer ts.Close()
	// ---- the history of edits
	nEd := r.Pick(1, 1, 2, 2, 3, 4)
	var edits []suEdit
	var carried [][]byte                 // every password value some edit carried
	prev := map[string][]byte{}          // login -> password before the last acknowledged edit naming it
	lastOf := map[string]int{}           // login -> index of the last edit naming it
	wantAck := make([]bool, 0, nEd)
	for i := 0; i < nEd; i++ {
		var present, absent []string
		for _, l := range append(append([]string{}, subjects...), pool...) {
			if _, ok := tab[l]; ok {
				present = append(present, l)
			} else {
				absent = append(absent, l)
			}
		}
		pw, mode, class := poolPassword(r)
		var e suEdit
		k := r.Intn(100)
		switch {
		case k < 66:
			e = suEdit{SetUser: true, Login: present[r.Intn(len(present))], Pw: pw, Mode: mode, Class: class}
		case k < 72 && len(absent) > 0:
			e = suEdit{SetUser: true, Login: absent[r.Intn(len(absent))], Pw: pw, Mode: mode, Class: class} // no such account: refused
		case k < 86 && len(absent) > 0:
			pm := []int{1, 0, 2}[mode]
			e = suEdit{Class: class, Pw: pw, Mode: mode, Rec: editRec{Kind: "rename", Target: present[r.Intn(len(present))], NewLogin: absent[r.Intn(len(absent))], PwMode: pm, Pw: pw}}
		default:
			t := present[r.Intn(len(present))]
			switch mode {
			case 1:
				e = suEdit{Class: class, Pw: pw, Mode: mode, Rec: editRec{Kind: "keep", Target: t}}
			case 2:
				e = suEdit{Class: class, Mode: mode, Rec: editRec{Kind: "nopw", Target: t}}
			default:
				e = suEdit{Class: class, Pw: pw, Mode: mode, Rec: editRec{Kind: "pw", Target: t, Pw: pw}}
			}
		}
		if mode == 0 {
			carried = append(carried, pw)
		}
		named := e.Login
		if !e.SetUser {
			named = e.Rec.Target
		}
		before, had := tab[named]
		ok := e.applySpec(tab)
		wantAck = append(wantAck, ok)
		if ok {
			now := named
			if !e.SetUser && e.Rec.Kind == "rename" {
				now = e.Rec.NewLogin
				lastOf[named] = i
			}
			if had {
				prev[now] = before
			}
			lastOf[now] = i
		}
		edits = append(edits, e)
		c.Dist("edit/" + map[bool]string{true: "set-user", false: "update-user"}[e.SetUser] + "/pw-" + class)
	}
	var kinds []string
	for _, e := range edits {
		kinds = append(kinds, e.describe())
	}
	c.Note("edits", kinds)
	// ---- the administrator sends them over the wire, one request each
	rc, err := ts.LoginOK("10.0.0.9:5000", "root", string(hotline.EncodeString(rootPw)), nil, fld(hotline.FieldUserName, []byte("admin")), fld(hotline.FieldVersion, []byte{0, 0xbe}))
	if err != nil || !waitFor(8*time.Second, func() bool { return countTransactions(rc.Conn.Written()) >= 3 }) {
		rc.Conn.EOF()
		fixtureLoginFailed(c, "administrator login")
		return
	}
	var edFields [][]hotline.Field
	acked := make([]bool, len(edits))
	dropped := false
	for i, e := range edits {
		fs := e.fields(r)
		edFields = append(edFields, fs)
		id := uint32(70 + 2*i)
		if e.SetUser {
			rc.Conn.Feed(encTran(tranOf(353, id, fs...)))
		} else {
			body := be16(len(fs))
			for _, f := range fs {
				body = append(body, f.Type[:]...)
				body = append(body, be16(len(f.Data))...)
				body = append(body, f.Data...)
			}
			rc.Conn.Feed(encTran(tranOf(349, id, fld(hotline.FieldData, body))))
		}
		rc.Conn.Feed(encTran(tranOf(500, id+1))) // handled after the edit on the same connection: its reply marks the end of the edit
		okKA := waitFor(15*time.Second, func() bool {
			if _, ok := rc.ReplyTo(id+1, 0); ok {
				return true
			}
			if _, done := rc.WaitDone(time.Millisecond); done {
				dropped = true
				return true
			}
			return false
		})
		if !okKA {
			rc.Conn.EOF()
			fixtureLoginFailed(c, "administrator's edit did not complete")
			return
		}
		if dropped {
			break
		}
		if rep, got := rc.ReplyTo(id, 6*time.Second); got && u32(rep.ErrorCode) == 0 {
			acked[i] = true
		}
	}
	rc.Conn.EOF()
	rc.WaitDone(5 * time.Second)
	if !waitFor(5*time.Second, func() bool { return len(ts.Srv.ClientMgr.List()) == 0 }) {
		fixtureLoginFailed(c, "administrator's connection did not end")
		return
	}
	if dropped {
		c.Disagree("account-edit-dropped-the-connection", "a history of well-formed single-account edits ("+strings.Join(kinds, ", ")+") ended the administrator's connection")
		return
	}
	ackStr := func(a []bool) string {
		s := ""
		for _, b := range a {
			s += fmt.Sprint(b2i(b))
		}
		return s
	}
	c.Note("acknowledged", ackStr(acked))
	if !c.Corr("edit-acknowledgements", ackStr(acked), ackStr(wantAck), false) {
		return
	}
	// ---- the model's table, the reference table, the account manager's table
	universe := append(append([]string{}, subjects...), pool...)
	var sb strings.Builder
	fmt.Fprintf(&sb, "setuserhist %d", len(accts))
	for _, a := range accts {
		fmt.Fprintf(&sb, " %s %s", hx([]byte(a.Login)), hx(a.modelHash()))
	}
	fmt.Fprintf(&sb, " %d", len(edits))
	for i, e := range edits {
		fmt.Fprintf(&sb, " %s %d", map[bool]string{true: "S", false: "B"}[e.SetUser], len(edFields[i]))
		for _, f := range edFields[i] {
			fmt.Fprintf(&sb, " %d %s", u16(f.Type), hx(f.Data))
		}
	}
	for _, l := range universe {
		fmt.Fprintf(&sb, " %s", hx([]byte(l)))
	}
	mans := c.O.Ask(sb.String())
	genCanon := []string{"acks=" + ackStr(wantAck)}
	implCanon := []string{"acks=" + ackStr(acked)}
	for _, l := range universe {
		pw, ok := tab[l]
		if !ok {
			genCanon = append(genCanon, hx([]byte(l))+"=none")
		} else {
			genCanon = append(genCanon, hx([]byte(l))+"="+hx(append([]byte{1}, pw...)))
		}
		acc := ts.Srv.AccountManager.Get(l)
		switch {
		case acc == nil:
			implCanon = append(implCanon, hx([]byte(l))+"=none")
		case ok && bcrypt.CompareHashAndPassword([]byte(acc.Password), pw) == nil:
			implCanon = append(implCanon, hx([]byte(l))+"="+hx(append([]byte{1}, pw...)))
		default:
			implCanon = append(implCanon, hx([]byte(l))+"=other-password")
		}
	}
	c.Note("model", clip(mans))
	if !c.Corr("set-user-model-vs-reference", strings.Join(genCanon, " "), mans, false) {
		return
	}
	tableOK := strings.Join(implCanon, " ") == mans
	// ---- login attempts against the edited table (the direct verdict comes first: it needs no model)
	type probe struct {
		login string
		pw    []byte
		kind  string
	}
	var probes []probe
	var tl []string
	for l := range lastOf {
		tl = append(tl, l)
	}
	sort.Strings(tl)
	for _, l := range tl {
		if pw, ok := tab[l]; ok {
			probes = append(probes, probe{l, pw, "set-by-the-last-acknowledged-edit"})
		}
		if pw, ok := prev[l]; ok {
			probes = append(probes, probe{l, pw, "held-before-the-last-edit"})
		}
		if len(carried) > 0 {
			probes = append(probes, probe{l, carried[r.Intn(len(carried))], "carried-by-some-edit"})
		}
	}
	for _, l := range subjects {
		if _, named := lastOf[l]; !named {
			probes = append(probes, probe{l, tab[l], "untouched-current"})
			break
		}
	}
	for i := len(probes) - 1; i > 0; i-- {
		j := r.Intn(i + 1)
		probes[i], probes[j] = probes[j], probes[i]
	}
	if len(probes) > 6 {
		probes = probes[:6]
	}
	for i, p := range probes {
		addr := fmt.Sprintf("%d.%d.%d.%d:%d", 11+r.Intn(200), r.Intn(256), r.Intn(256), 1+r.Intn(254), 1024+r.Intn(60000))
		loginID := 1 + uint32(r.Intn(1<<30))
		cur, exists := tab[p.login]
		expectIn := exists && pwVerifies(cur, p.pw)
		res := probeLogin(ts, addr, p.login, p.pw, len(p.pw) == 0 && r.Bool(), loginID, 40*time.Second)
		c.Dist("probe/" + p.kind + fmt.Sprintf("/expect-in=%v", expectIn))
		what := fmt.Sprintf("probe %d: login %q with the password %s (wire bytes %x; account exists now=%v, password last set: wire bytes %x)", i, p.login, p.kind, p.pw, exists, cur)
		if !res.done {
			c.Note("probe", what)
			c.Violation("prelogin-hang", "handleNewConnection did not return on a finite stream")
			return
		}
		if res.loggedIn != expectIn {
			c.Note("probe", what)
			c.Note("written", short(res.written))
			c.Note("table_now", genCanon)
			if expectIn {
				c.Violation("login-refused-with-valid-credentials", "after the administrator's acknowledged account edits ("+strings.Join(kinds, ", ")+") the connection presenting the account's current password was not logged in: "+what)
			} else {
				c.Violation("login-without-valid-credentials", "after the administrator's acknowledged account edits ("+strings.Join(kinds, ", ")+") a connection was logged in with a password that is not the account's current one: "+what)
			}
			return
		}
		if !res.loggedIn {
			if why, _ := allowedUnauthOutput(res.written, loginID, true, false); why != "" {
				c.Note("probe", what)
				c.Violation("unauthenticated-peer-was-answered", why)
				return
			}
		}
		c.Evals(1)
	}
	if !tableOK {
		c.Corr("set-user-table", strings.Join(implCanon, " "), mans, false)
		return
	}
	c.Nontrivial(fmt.Sprintf("setuser|%s|%x", strings.Join(kinds, ","), fnv64([]byte(sb.String()))))
	c.Sample(map[string]any{"family": "set-user-login", "edits": kinds, "acknowledged": ackStr(acked), "probes": len(probes)})
}
