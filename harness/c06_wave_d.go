//go:build c06

package main

// C06, wave d: the DELAYED part of a disconnect request.
//
// HandleDisconnectUser answers at once and starts `go func(){ time.Sleep(1 s); clientConn.Disconnect() }()`.
// Disconnect() works BY USER ID (ClientMgr.Delete(cc.ID), "user left" notice for cc.ID) on whatever the
// client table holds under that id one second later, and the goroutine has no recover.  Two families:
//
//   * kick-grace      — schedules inside the grace second, on the real server with the real timer: the target
//                       hangs up by itself (the connection loop's deferred Disconnect()), other users — among
//                       them users whose account is marked cannot-be-disconnected — log in right then, the
//                       allocator being in different positions (fresh, after churn, just before the 16-bit
//                       counter comes round to the target's id again).  The client table is wrapped by a recorder
//                       so that the firing of the timer is an event, not a guess.  Judged directly: no protected
//                       user is removed from the table, closed, or announced as having left; it keeps being served.
//                       And the final table is compared with the Lean model (KickGrace.run).
//   * kick-unheld-id  — disconnect requests naming an id nobody holds (never issued / just left / 0 / short field)
//                       with and without ban option, in a CHILD PROCESS running the real server (a panic in the
//                       bare delayed goroutine kills the process, i.e. disconnects every user): the process must
//                       survive the grace period and the protected users must still be listed and served.

import (
	"bytes"
	"encoding/binary"
	"fmt"
	"os"
	"os/exec"
	"sort"
	"strings"
	"sync"
	"time"

	"github.com/jhalter/mobius/hotline"
)

// ---------------------------------------------------------------- recording client table

type recTable struct {
	inner   hotline.ClientManager
	mu      sync.Mutex
	deletes map[hotline.ClientID]int
	serial  map[*hotline.ClientConn]int // order of Add calls = the model's connection serial
	nAdds   int
}

func newRecTable(inner hotline.ClientManager) *recTable {
	return &recTable{inner: inner, deletes: map[hotline.ClientID]int{}, serial: map[*hotline.ClientConn]int{}}
}
func (m *recTable) List() []*hotline.ClientConn                 { return m.inner.List() }
func (m *recTable) Get(id hotline.ClientID) *hotline.ClientConn { return m.inner.Get(id) }
func (m *recTable) Add(cc *hotline.ClientConn) {
	m.mu.Lock()
	m.serial[cc] = m.nAdds
	m.nAdds++
	m.mu.Unlock()
	m.inner.Add(cc)
}
func (m *recTable) Delete(id hotline.ClientID) {
	m.inner.Delete(id)
	m.mu.Lock()
	m.deletes[id]++
	m.mu.Unlock()
}
func (m *recTable) deleted(id hotline.ClientID) int {
	m.mu.Lock()
	defer m.mu.Unlock()
	return m.deletes[id]
}
func (m *recTable) serialOf(cc *hotline.ClientConn) int {
	m.mu.Lock()
	defer m.mu.Unlock()
	if s, ok := m.serial[cc]; ok {
		return s
	}
	return -1
}

// churn: n users log in and leave again (table operations only; what a login / logout does to the allocator).
// The model counts them as connections too.
func (m *recTable) churn(n int) {
	for i := 0; i < n; i++ {
		d := &hotline.ClientConn{}
		m.mu.Lock()
		m.nAdds++
		m.mu.Unlock()
		m.inner.Add(d)
		m.inner.Delete(d.ID)
	}
}

// churnUntilNext: users log in and leave until the id handed out last is `last` (≤ 70 000 logins).  Returns the count.
func (m *recTable) churnUntilLast(last uint16) int {
	for n := 1; n <= 70000; n++ {
		d := &hotline.ClientConn{}
		m.mu.Lock()
		m.nAdds++
		m.mu.Unlock()
		m.inner.Add(d)
		id := binary.BigEndian.Uint16(d.ID[:])
		m.inner.Delete(d.ID)
		if id == last {
			return n
		}
	}
	return -1
}

// ---------------------------------------------------------------- kick-grace

type graceCase struct {
	pre       int    // logins + logouts before anybody of the cast logs in
	position  string // allocator position at the time of the kick: "fresh" | "churn" | "wrap" (the counter is about to come round to the target's id)
	churn     int    // position churn: how many
	wrapShort int    // position wrap: how many ids before the target's the counter stands (0 = the next id handed out is the target's, if free)
	opt       []byte // ban option of the request
	optName   string
	leave     string   // "target-first" (hangs up, then the newcomers log in) | "newcomers-first" | "stays" (the target waits for the timer)
	newcomers []string // accounts logging in inside the grace second: "prot" | "plain"
}

func (g graceCase) canon() string {
	return fmt.Sprintf("pre=%d pos=%s/%d/%d opt=%s leave=%s new=%s", g.pre, g.position, g.churn, g.wrapShort, g.optName, g.leave, strings.Join(g.newcomers, ","))
}

func genGrace(r *RNG, idx int) graceCase {
	g := graceCase{pre: r.Intn(4)}
	switch idx % 6 {
	case 0, 3:
		g.position = "fresh"
	case 1, 4, 5:
		g.position, g.churn = "churn", 1+r.Intn(300)
	default:
		g.position, g.wrapShort = "wrap", r.Intn(3)
	}
	switch r.Intn(3) {
	case 0:
		g.opt, g.optName = nil, "absent"
	case 1:
		g.opt, g.optName = []byte{0, 1}, "temporary"
	default:
		g.opt, g.optName = []byte{0, 2}, "permanent"
	}
	g.leave = []string{"target-first", "target-first", "newcomers-first", "stays"}[(idx/6)%4]
	for k := 1 + r.Intn(3); k > 0; k-- {
		if r.Intn(3) == 0 {
			g.newcomers = append(g.newcomers, "plain")
		} else {
			g.newcomers = append(g.newcomers, "prot")
		}
	}
	if idx%2 == 0 {
		g.newcomers[0] = "prot"
	}
	return g
}

type graceRun struct {
	g         graceCase
	ts        *TS
	tab       *recTable
	events    []string // the history in the model's vocabulary
	target    *hotline.ClientConn
	tgConn    *nopConn
	admin     *hotline.ClientConn
	news      []*hotline.ClientConn
	newsC     []*nopConn
	watcher   *hotline.ClientConn
	expectD   int // Delete calls for the target's id once the timer has fired
	err       string
	missed    bool
	kicked    time.Time
	lateUntil time.Time // one deadline for all sub-runs of a case: a timer that never fires must not cost 45 s per sub-run
	pan       any
	res       []hotline.Transaction
}

func startGrace(g graceCase) *graceRun {
	run := &graceRun{g: g}
	ts, err := newTS(TSOpt{Direct: true, Accounts: []AcctSpec{
		{Login: "admin", Name: "admin", Password: "", Access: bmOf(22)},
		{Login: "plain", Name: "plain", Password: "", Access: bmOf(9, 10)},
		{Login: "prot", Name: "prot", Password: "", Access: bmOf(9, 10, 23)},
	}})
	if err != nil {
		run.err = "test server could not be built"
		return run
	}
	run.ts = ts
	tab := newRecTable(ts.Srv.ClientMgr)
	ts.Srv.ClientMgr = tab
	run.tab = tab
	ev := func(s string) { run.events = append(run.events, s) }
	tab.churn(g.pre)
	if g.pre > 0 {
		ev(fmt.Sprintf("C%d", g.pre))
	}
	login := func(acct, ip string) (*hotline.ClientConn, *nopConn) {
		cc, nc := ts.DirectClient(acct, []byte(acct), ip+":1")
		if acct == "prot" {
			ev("Lp")
		} else {
			ev("Lu")
		}
		return cc, nc
	}
	// the target logs in first: the ids just below its own are free again (the churn above), the ones above are held
	run.target, run.tgConn = login("plain", "10.6.6.6")
	run.watcher, _ = login("plain", "10.0.0.8")
	run.admin, _ = login("admin", "10.0.0.2")
	switch g.position {
	case "churn":
		tab.churn(g.churn)
		ev(fmt.Sprintf("C%d", g.churn))
	case "wrap":
		// logins + logouts until the id handed out last is wrapShort+1 below the target's (id 0 is never handed out)
		want := binary.BigEndian.Uint16(run.target.ID[:]) - 1 - uint16(g.wrapShort)
		if want == 0 || want > 65000 {
			want = 65535
		}
		n := tab.churnUntilLast(want)
		if n < 0 {
			run.err = "the allocator never reached the wanted position"
			return run
		}
		ev(fmt.Sprintf("C%d", n))
	}
	ts.TakeOutbox()
	// the request
	fs := []hotline.Field{fld(hotline.FieldUserID, run.target.ID[:])}
	if g.opt != nil {
		fs = append(fs, fld(hotline.FieldOptions, g.opt))
	}
	run.res, _, run.pan = ts.Call(run.admin, mkTran(hotline.TranDisconnectUser, 9, fs...))
	run.kicked = time.Now()
	ev(fmt.Sprintf("K%d", tab.serialOf(run.target)))
	hang := func() {
		run.target.Disconnect() // what the connection loop's `defer c.Disconnect()` does when the client hangs up
		ev(fmt.Sprintf("H%d", tab.serialOf(run.target)))
	}
	join := func() {
		for i, a := range g.newcomers {
			cc, nc := login(a, fmt.Sprintf("10.9.0.%d", i+1))
			run.news = append(run.news, cc)
			run.newsC = append(run.newsC, nc)
		}
	}
	switch g.leave {
	case "target-first":
		hang()
		join()
		run.expectD = 2
	case "newcomers-first":
		join()
		hang()
		run.expectD = 2
	default:
		join()
		run.expectD = 1
	}
	// the whole schedule has to fit into the grace second: on a machine so slow that the timer fired before the last
	// step above, the history that happened is not the one meant (nothing is judged then)
	before := 0
	if g.leave != "stays" {
		before = 1
	}
	if tab.deleted(run.target.ID) > before {
		run.missed = true
	}
	ev("T0")
	return run
}

func tableCanon(tab *recTable) string {
	var l []string
	for _, cl := range tab.inner.List() {
		l = append(l, fmt.Sprintf("%d:%d", u16(cl.ID), tab.serialOf(cl)))
	}
	return strings.Join(l, ",")
}

func (run *graceRun) finish(c *Case) {
	g := run.g
	c.Note("case", g.canon())
	if run.ts != nil {
		defer run.ts.Close()
	}
	if run.err != "" {
		c.Disagree("fixture", run.err)
		return
	}
	c.Note("history", strings.Join(run.events, " "))
	ts, tab := run.ts, run.tab
	if run.missed {
		c.Dist("kick-grace/schedule-missed")
		return
	}
	if run.pan != nil {
		c.Note("panic", fmt.Sprint(run.pan))
		c.Violation("disconnect-panic", "the disconnect handler panicked on a connected, unprotected target")
		return
	}
	rep, _ := requesterReplies(run.res, run.admin)
	if len(rep) != 1 || isErrReply(rep[0]) {
		c.Violation("unprotected-refused", "a disconnect request by a holder of the privilege against an unprotected user was not accepted")
		return
	}
	// the timer: event-driven (the recorder sees its Delete); generous bound, and lateness is never a violation
	// (since fix d658b12 a second Disconnect() of the same connection is a no-op and cannot be seen: then the grace
	// second plus a margin is waited out; a timer firing later than that is not observed — that can hide, never invent)
	fired := waitFor(time.Until(run.kicked.Add(2200*time.Millisecond)), func() bool { return tab.deleted(run.target.ID) >= run.expectD })
	c.Note("timer_observed", fired)
	if !fired && run.expectD == 1 {
		// the target stayed and nobody removed it within 2.2 s: wait for the timer itself (slow machine)
		fired = waitFor(time.Until(run.lateUntil), func() bool { return tab.deleted(run.target.ID) >= 1 })
	} else {
		fired = true
	}
	time.Sleep(20 * time.Millisecond) // the notices and the Close follow the Delete
	out := ts.drainOutbox()
	leftNotice := map[hotline.ClientID]int{}
	for _, t := range out {
		if t.Type == hotline.TranNotifyDeleteUser {
			if d := t.GetField(hotline.FieldUserID).Data; len(d) == 2 {
				leftNotice[hotline.ClientID{d[0], d[1]}]++
			}
		}
	}
	for i, p := range run.news {
		if g.newcomers[i] != "prot" {
			continue
		}
		who := fmt.Sprintf("protected newcomer #%d (id %d%s)", i+1, u16(p.ID), map[bool]string{true: " = the kicked user's former id", false: ""}[p.ID == run.target.ID])
		key := ""
		if g.position == "wrap" {
			key = "-after-id-wrap"
		}
		violation := c.Violation
		if tab.inner.Get(p.ID) != p {
			c.Note("table", tableCanon(tab))
			violation("protected-disconnected"+key, who+" was removed from the client table by the delayed disconnect of another user's disconnect request aimed at somebody else")
		}
		if run.newsC[i].IsClosed() {
			violation("protected-closed"+key, who+": its connection was closed by another user's disconnect request")
		}
		if leftNotice[p.ID] > 0 && p.ID != run.target.ID {
			violation("protected-announced-left"+key, who+" was announced to the others as having left")
		}
		// keeps being served: a transaction addressed to it reaches its connection
		before := len(run.newsC[i].Bytes())
		_ = ts.Srv.VerifSendTransaction(hotline.NewTransaction(hotline.TranServerMsg, p.ID, hotline.NewField(hotline.FieldData, []byte("still here?"))))
		if len(run.newsC[i].Bytes()) == before && tab.inner.Get(p.ID) == p {
			violation("protected-not-served"+key, who+" no longer receives what is addressed to it")
		}
		if b, _ := ts.Bans.IsBanned(fmt.Sprintf("10.9.0.%d", i+1)); b {
			violation("protected-banned"+key, who+": its address was banned")
		}
	}
	// the target itself is gone, whoever else is not a newcomer stays
	if fired && tab.inner.Get(run.watcher.ID) != run.watcher {
		c.Violation("bystander-removed", "a bystander was removed from the client table by a disconnect request aimed at somebody else")
	}
	// correspondence with the model (final table: id:serial)
	if fired {
		model := c.AskS("kickrun", run.events...)
		c.Corr("kick-grace-table", tableCanon(tab), model, false)
	}
	c.Dist("kick-grace/" + g.position + "/" + g.leave)
	inherit := "no"
	for _, p := range run.news {
		if p.ID == run.target.ID {
			inherit = "yes"
		}
	}
	c.Dist("kick-grace/newcomer-inherits-id-" + inherit)
	c.Nontrivial("grace:" + g.canon())
}

// Bytes: what was written to a direct client's connection.
func (n *nopConn) Bytes() []byte {
	n.mu.Lock()
	defer n.mu.Unlock()
	return append([]byte{}, n.wrote...)
}

// ---------------------------------------------------------------- kick-unheld-id (child process)

const c06ChildEnv = "VERIF_C06_CHILD"

type unheldCase struct {
	which   string // "never-issued" | "just-left" | "zero" | "left-long-ago"
	opt     []byte
	optName string
	nProt   int
}

func (u unheldCase) canon() string { return fmt.Sprintf("%s/%s/prot=%d", u.which, u.optName, u.nProt) }

// c06Child runs inside the child process: the real server (direct mode), protected users, an administrator, ONE
// disconnect request naming an id nobody holds; then it waits out the grace period and reports.  If the process
// dies (a panic in a goroutine without recover), the parent sees the exit status and the runtime's message.
func c06Child(spec string) {
	parts := strings.Split(spec, "/")
	if len(parts) != 3 {
		fmt.Println("CHILD bad-spec")
		os.Exit(3)
	}
	var opt []byte
	switch parts[1] {
	case "temporary":
		opt = []byte{0, 1}
	case "permanent":
		opt = []byte{0, 2}
	case "other":
		opt = []byte{0, 3}
	}
	nProt := 1
	fmt.Sscanf(parts[2], "prot=%d", &nProt)
	ts, err := newTS(TSOpt{Direct: true, Accounts: []AcctSpec{
		{Login: "admin", Name: "admin", Password: "", Access: bmOf(22)},
		{Login: "plain", Name: "plain", Password: "", Access: bmOf(9, 10)},
		{Login: "prot", Name: "prot", Password: "", Access: bmOf(9, 10, 23)},
	}})
	if err != nil {
		fmt.Println("CHILD fixture-failed")
		os.Exit(3)
	}
	defer ts.Close()
	var prots []*hotline.ClientConn
	var protC []*nopConn
	for i := 0; i < nProt; i++ {
		p, pc := ts.DirectClient("prot", []byte("prot"), fmt.Sprintf("10.9.0.%d:1", i+1))
		prots, protC = append(prots, p), append(protC, pc)
	}
	admin, _ := ts.DirectClient("admin", []byte("admin"), "10.0.0.2:1")
	var id []byte
	switch parts[0] {
	case "never-issued":
		id = []byte{0x7a, 0x11}
	case "zero":
		id = []byte{0, 0}
	case "just-left", "left-long-ago":
		u, _ := ts.DirectClient("plain", []byte("plain"), "10.6.6.6:1")
		id = append([]byte{}, u.ID[:]...)
		u.Disconnect()
		if parts[0] == "left-long-ago" {
			for i := 0; i < 5; i++ {
				x, _ := ts.DirectClient("plain", []byte("plain"), "10.6.6.7:1")
				x.Disconnect()
			}
		}
	default:
		fmt.Println("CHILD bad-spec")
		os.Exit(3)
	}
	fs := []hotline.Field{fld(hotline.FieldUserID, id)}
	if opt != nil {
		fs = append(fs, fld(hotline.FieldOptions, opt))
	}
	// the connection goroutine of the requester recovers a panic of the handler (dontPanic): so does Call
	res, _, pan := ts.Call(admin, mkTran(hotline.TranDisconnectUser, 9, fs...))
	fmt.Printf("CHILD handler panicked=%v replies=%d\n", pan != nil, len(res))
	os.Stdout.Sync()
	time.Sleep(2500 * time.Millisecond) // the delayed goroutine sleeps 1 s; a later firing is not observed (never a false alarm)
	ok := true
	for i, p := range prots {
		if ts.Srv.ClientMgr.Get(p.ID) != p || protC[i].IsClosed() {
			ok = false
		}
	}
	fmt.Printf("CHILD alive protected_ok=%v\n", ok)
	ts.Close()
	os.Exit(0)
}

func init() {
	if spec := os.Getenv(c06ChildEnv); spec != "" {
		c06Child(spec)
		os.Exit(0)
	}
}

func runUnheld(c *Case, u unheldCase) {
	c.Note("case", u.canon())
	exe, err := os.Executable()
	if err != nil {
		c.Disagree("fixture", "cannot find the harness executable")
		return
	}
	cmd := exec.Command(exe)
	cmd.Env = append(os.Environ(), c06ChildEnv+"="+u.canon())
	var out, errb bytes.Buffer
	cmd.Stdout, cmd.Stderr = &out, &errb
	done := make(chan error, 1)
	if err := cmd.Start(); err != nil {
		c.Disagree("fixture", "cannot start the child process")
		return
	}
	go func() { done <- cmd.Wait() }()
	var werr error
	select {
	case werr = <-done:
	case <-time.After(3 * time.Minute):
		_ = cmd.Process.Kill()
		c.Disagree("fixture", "the child process did not finish")
		return
	}
	so, se := out.String(), errb.String()
	c.Note("child_stdout", strings.TrimSpace(so))
	if len(se) > 600 {
		se = se[:600]
	}
	alive := strings.Contains(so, "CHILD alive")
	switch {
	case strings.Contains(so, "CHILD fixture-failed") || strings.Contains(so, "CHILD bad-spec"):
		c.Disagree("fixture", "the child could not build its server")
		return
	case !alive && werr != nil && (strings.Contains(se, "panic:") || strings.Contains(se, "nil pointer") || strings.Contains(se, "SIGSEGV")):
		c.Note("child_stderr", se)
		c.Violation("server-died-by-disconnect-request", fmt.Sprintf("a disconnect request (option %s) naming a user id nobody holds (%s) killed the server process one second later: every user, including the %d whose account is marked cannot-be-disconnected, was disconnected by another user's disconnect request", u.optName, u.which, u.nProt))
	case !alive:
		c.Note("child_stderr", se)
		c.Note("child_err", fmt.Sprint(werr))
		c.Disagree("fixture", "the child process ended without reporting and without a Go panic")
		return
	case strings.Contains(so, "protected_ok=false"):
		c.Violation("protected-disconnected", "a protected user was removed / closed after a disconnect request naming an id nobody holds ("+u.which+")")
	}
	// model: a request naming an id nobody holds schedules nothing and changes nothing
	c.Corr("kick-unheld", fmt.Sprintf("alive=%v protected_ok=%v", alive, strings.Contains(so, "protected_ok=true")), c.AskS("kickunheld", u.which), false)
	c.Dist("kick-unheld/" + u.which + "/" + u.optName)
	c.Nontrivial("unheld:" + u.canon())
}

// ---------------------------------------------------------------- registration

func c06WaveD(x *Ctx) {
	x.rule += " wave d: kick-grace = schedules inside the grace second of an accepted disconnect (real timer, recorded client table): allocator position {fresh, after 1..300 logins+logouts, 0..2 ids before the 16-bit counter comes round to the target's id} × who acts first {target hangs up then newcomers log in, newcomers first, target stays} × 1..3 newcomers (protected / plain) × ban option; judged: no protected user removed / closed / announced as left / unserved / banned; final table compared with the Lean model KickGrace.run. kick-unheld-id = disconnect requests naming an id nobody holds (never issued, just left, left long ago, zero) × option {absent, temporary, permanent, other} × 1..3 protected users, the real server in a child process: it must survive the grace period with the protected users listed; distinct = distinct schedule / request"
	const per = 24
	x.Add(&Family{Name: "kick-grace", Quick: 3, Thor: 12, Run: func(c *Case) {
		base := tableIndex(c, 12) * per
		runs := make([]*graceRun, per)
		var wg sync.WaitGroup
		for i := 0; i < per; i++ {
			g := genGrace(c.R, base+i)
			wg.Add(1)
			go func(i int, g graceCase) {
				defer wg.Done()
				defer func() {
					if r := recover(); r != nil {
						runs[i] = &graceRun{g: g, err: fmt.Sprint("harness panic: ", r)}
					}
				}()
				runs[i] = startGrace(g)
			}(i, g)
		}
		wg.Wait()
		lateUntil := time.Now().Add(45 * time.Second)
		for i, r := range runs {
			r.lateUntil = lateUntil
			resetNotes(c)
			c.Note("sub", i)
			r.finish(c)
		}
	}})
	whiches := []string{"never-issued", "just-left", "left-long-ago", "zero"}
	opts := []struct {
		n string
		b []byte
	}{{"absent", nil}, {"temporary", []byte{0, 1}}, {"permanent", []byte{0, 2}}, {"other", []byte{0, 3}}}
	var cases []unheldCase
	for _, w := range whiches {
		for _, o := range opts {
			cases = append(cases, unheldCase{which: w, opt: o.b, optName: o.n})
		}
	}
	sort.SliceStable(cases, func(i, j int) bool { return cases[i].optName == "absent" && cases[j].optName != "absent" })
	x.Add(&Family{Name: "kick-unheld-id", Quick: len(cases), Thor: len(cases) * 3, Run: func(c *Case) {
		idx := tableIndex(c, len(cases)*3)
		u := cases[idx%len(cases)]
		u.nProt = 1 + idx/len(cases)%3
		runUnheld(c, u)
	}})
}
