//go:build c08

package main

// C08, wave e: names whose WIRE bytes can be read in two ways.
//
//   download-ambiguous-names  A file name travels as Mac Roman bytes.  The Mac Roman encoding of a representable name
//                             can itself be well-formed UTF-8 (every lead byte C2..DF / E0..EF / F0..F4 followed by the
//                             right number of bytes 80..BF: "√©" is C3 A9, "¬©" is C2 A9, "‚Äì" is E2 80 93 …).  The
//                             fixture stores such files — in the root and in folders whose names are of the same kind —
//                             next to DECOYS: files (and folders) whose on-disk name is the UTF-8 reading of the very
//                             same bytes, with other contents, sizes and side files; plus names that mix such runs with
//                             isolated high bytes.  The on-disk names are computed by the harness (charmap.Macintosh of
//                             x/text, not the server's ReadPath).  The real file list is run first and every download
//                             is requested with the name bytes exactly as the list handed them out; reply, header and
//                             data are judged by the monitors of checkDownload against the file the LISTED name denotes,
//                             and "which entry was announced / carried" is compared with the model (DownloadNames.lean).

import (
	"encoding/binary"
	"fmt"
	"path/filepath"
	"sort"
	"unicode/utf8"

	"github.com/jhalter/mobius/hotline"
	"golang.org/x/text/encoding/charmap"
)

func c08MacDec(b []byte) string {
	s, _ := charmap.Macintosh.NewDecoder().String(string(b))
	return s
}

func c08MacEnc(s string) ([]byte, bool) {
	e, err := charmap.Macintosh.NewEncoder().String(s)
	if err != nil {
		return nil, false
	}
	return []byte(e), true
}

// c08AmbigRun draws one well-formed UTF-8 sequence made of high bytes (2, 3 or 4 bytes), each of which is a Mac Roman
// character of its own.
func c08AmbigRun(r *RNG) []byte {
	if r.Bool() {
		// the UTF-8 bytes of a Mac Roman character ("é" = C3 A9, "–" = E2 80 93): the other reading is representable
		// too, so the decoy is a listed, downloadable file of its own
		return []byte(c08MacDec([]byte{byte(0x80 + r.Intn(0x80))}))
	}
	cont := func() byte { return byte(0x80 + r.Intn(0x40)) }
	for {
		var b []byte
		switch r.Intn(10) {
		case 0, 1, 2, 3, 4, 5:
			b = []byte{byte(0xC2 + r.Intn(0xDF-0xC2+1)), cont()}
		case 6, 7, 8:
			b = []byte{byte(0xE0 + r.Intn(16)), cont(), cont()}
		default:
			b = []byte{byte(0xF0 + r.Intn(5)), cont(), cont(), cont()}
		}
		if utf8.Valid(b) {
			return b
		}
	}
}

// c08AmbigName: wire bytes of a name; kind "utf8" = the whole name is well-formed UTF-8 and not pure ASCII,
// "mixed" = ambiguous runs next to an isolated high byte (not well-formed as a whole).
func c08AmbigName(r *RNG, maxLen int, withExt bool) (wire []byte, kind string) {
	const al = "abcdefghijklmnopqrstuvwxyzABCDEFGHIJKLMNOPQRSTUVWXYZ0123456789 _-"
	kind = "utf8"
	mixed := r.Chance(25)
	parts := 1 + r.Intn(3)
	for p := 0; p < parts; p++ {
		for n := r.Intn(4); n > 0; n-- {
			wire = append(wire, al[r.Intn(len(al))])
		}
		wire = append(wire, c08AmbigRun(r)...)
		if mixed && p == 0 {
			wire = append(wire, highBytes[r.Intn(len(highBytes))])
		}
	}
	if r.Bool() {
		wire = append(wire, al[r.Intn(len(al)-3)])
	}
	if len(wire) > maxLen {
		wire = wire[:maxLen]
	}
	if withExt {
		wire = append(wire, r.pickStr(".txt", ".jpg", "", "", ".zip", ".pdf", ".GIF")...)
	}
	for len(wire) > 0 && wire[0] == ' ' {
		wire = wire[1:]
	}
	for len(wire) > 0 && wire[len(wire)-1] == ' ' {
		wire = wire[:len(wire)-1]
	}
	if len(wire) == 0 {
		wire = []byte{0xC3, 0xA9}
	}
	if !utf8.Valid(wire) {
		kind = "mixed"
	}
	return wire, kind
}

type c08Listed struct {
	name []byte
	size int
	ty   string
}

// c08List runs the real Get File Name List transaction and returns the entries as handed out.
func c08List(ts *TS, cc *hotline.ClientConn, id uint32, pathField []byte) ([]c08Listed, bool) {
	var fields []hotline.Field
	if pathField != nil {
		fields = append(fields, fld(hotline.FieldFilePath, pathField))
	}
	res, _, pan := ts.Call(cc, mkTran(hotline.TranGetFileNameList, id, fields...))
	if pan != nil || len(res) != 1 || res[0].ErrorCode != [4]byte{} {
		return nil, false
	}
	var out []c08Listed
	for _, f := range res[0].Fields {
		if f.Type != hotline.FieldFileNameWithInfo || len(f.Data) < 20 {
			continue
		}
		n := int(binary.BigEndian.Uint16(f.Data[18:20]))
		if 20+n > len(f.Data) {
			continue
		}
		out = append(out, c08Listed{name: append([]byte{}, f.Data[20:20+n]...), size: int(binary.BigEndian.Uint32(f.Data[8:12])), ty: string(f.Data[0:4])})
	}
	return out, true
}

// c08DirSpec renders a folder for the model: `<n> {<on-disk name hex> <size>}*n`, sorted by name.
func c08DirSpec(files []*diskFile) string {
	fs := append([]*diskFile{}, files...)
	sort.Slice(fs, func(i, j int) bool { return fs[i].Name < fs[j].Name })
	s := fmt.Sprint(len(fs))
	for _, f := range fs {
		s += fmt.Sprintf(" %s %d", hx([]byte(f.Name)), len(f.Data))
	}
	return s
}

// c08WhichByData names the stored file (by on-disk name) whose data fork from offset k the byte string is / starts with.
func c08WhichByData(files []*diskFile, body []byte, k int) string {
	for _, f := range files {
		if k > len(f.Data) {
			continue
		}
		want := f.Data[k:]
		if len(body) >= len(want) && bytesEq(body[:len(want)], want) {
			rest := len(body) - len(want)
			if rest == 0 || rest == len(f.Rsrc) || rest == 16+len(f.Rsrc) {
				return hx([]byte(f.Name))
			}
		}
	}
	return "none"
}

func runC08Ambiguous(c *Case) {
	r := c.R
	ts, err := newTS(TSOpt{Direct: true, PreserveForks: r.Bool()})
	if err != nil {
		c.Note("setup", err.Error())
		return
	}
	defer ts.Close()
	set := &transferSet{ts: ts, x: c.X}
	var post []func()
	defer func() {
		if !set.waitAll() {
			c.Violation("transfer-handler-hangs", "a transfer handler did not return")
		}
		for _, f := range post {
			f()
		}
	}()
	cc, _ := ts.DirectClient("admin", []byte("admin"), "127.0.0.1:1234")

	// the folder: root, or one / two levels whose names are ambiguous themselves (or plain ASCII / ordinary Mac Roman)
	var items [][]byte
	for d := r.Pick(0, 1, 1, 2); d > 0; d-- {
		switch r.Intn(5) {
		case 0:
			items = append(items, []byte(r.pickStr("Docs", "in box", "a.b")))
		case 1:
			items = append(items, genReqName(r, 16))
		default:
			w, _ := c08AmbigName(r, 14, false)
			items = append(items, w)
		}
	}
	var pathField []byte
	trueDir, decoyDir := ts.Root, ts.Root
	for _, it := range items {
		trueDir = filepath.Join(trueDir, c08MacDec(it))
		if utf8.Valid(it) {
			decoyDir = filepath.Join(decoyDir, string(it)) // the same bytes read as UTF-8: another folder
		} else {
			decoyDir = filepath.Join(decoyDir, c08MacDec(it))
		}
	}
	if len(items) > 0 {
		pathField = encodePathItems(items)
	}
	c.Note("folder", trueDir)
	c.Note("folder_wire_items_hex", func() (s []string) {
		for _, it := range items {
			s = append(s, hx(it))
		}
		return
	}())

	sizes := map[int]bool{}
	newFile := func(dir, name string, wire []byte) *diskFile {
		size := 8 + c08Sizes(r, 48*1024)
		for sizes[size] {
			size++
		}
		sizes[size] = true
		f := &diskFile{Dir: dir, Name: name, ReqName: wire, Data: genData(r, size), ModTime: randModTime(r)}
		switch r.Intn(5) {
		case 0:
			in := randInfoSpec(r, wire)
			f.Info = &in
		case 1:
			f.HasRsrc, f.Rsrc = true, genData(r, r.Pick(0, 1, 300, r.Intn(3000)))
		case 2:
			in := randInfoSpec(r, wire)
			f.Info = &in
			f.HasRsrc, f.Rsrc = true, genData(r, r.Intn(2000))
		}
		return f
	}

	var inDir []*diskFile // everything stored in the true folder: files under test and their decoys
	taken := map[string]bool{}
	kinds := map[string]string{}
	for fi := 0; fi < 4; fi++ {
		wire, kind := c08AmbigName(r, 28, true)
		disk := c08MacDec(wire)
		if back, ok := c08MacEnc(disk); !ok || !bytesEq(back, wire) || taken[disk] || taken[string(wire)] {
			continue
		}
		f := newFile(trueDir, disk, wire)
		if f.write() != nil {
			c.Dist("skip/write-failed")
			continue
		}
		taken[disk] = true
		inDir = append(inDir, f)
		kinds[disk] = kind
		if kind == "utf8" && string(wire) != disk {
			// decoy 1: same folder, the UTF-8 reading of the same bytes as its on-disk name
			d := newFile(trueDir, string(wire), nil)
			if w2, ok := c08MacEnc(d.Name); ok {
				d.ReqName = w2 // it is a listable file of its own
			}
			if d.write() == nil {
				taken[d.Name] = true
				inDir = append(inDir, d)
				kinds[d.Name] = "decoy"
			}
		}
		if decoyDir != trueDir {
			// decoys 2, 3: the folder of the other reading holds files of both spellings
			for _, nm := range []string{disk, string(wire)} {
				if utf8.ValidString(nm) {
					newFile(decoyDir, nm, nil).write()
				}
			}
		}
	}
	if len(inDir) == 0 {
		c.Dist("skip/no-file")
		return
	}

	// the real file list of the folder, requested by the folder's wire path
	id := uint32(1)
	id++
	list, ok := c08List(ts, cc, id, pathField)
	if !ok {
		c.Dist("listing/failed")
	}
	dirSpec := c08DirSpec(inDir)
	for _, f := range inDir {
		if f.ReqName == nil {
			c.Dist("decoy/not-representable-not-listed")
			continue
		}
		own := f.ReqName
		found := false
		for _, e := range list {
			if bytesEq(e.name, own) {
				found = true
				f.ReqName = e.name // the request carries the name exactly as the list handed it out
				if e.size != len(f.Data) {
					c.Dist("listing/size-differs") // the list view is C11's
				}
			}
		}
		if found {
			c.Dist("listing/name-handed-out")
		} else {
			c.Dist("listing/lacks-entry") // C11's; the request then carries the harness's own encoding
		}
		kind := kinds[f.Name]
		c.Dist("name/" + kind + fmt.Sprintf("/wire-is-utf8=%v", utf8.Valid(f.ReqName)))
		reqs := c08Requests(r, len(f.Data))
		if len(reqs) > 3 {
			reqs = reqs[:3]
		}
		for _, rq := range reqs {
			if rq.k > len(f.Data) {
				continue
			}
			if !rq.resume {
				rq.k = 0
			}
			id++
			c.Note("name_kind", kind)
			c.Note("on_disk_name", f.Name)
			c.Note("wire_name_is_wellformed_utf8", utf8.Valid(f.ReqName))
			c.Note("name_came_from_the_file_list", found)
			c.Note("folder_holds", dirSpec)
			// (1) every clause, against the file the listed name denotes
			checkDownload(c, ts, set, &post, cc, id, f, pathField, rq)
			// (2) which entry of the folder did the reply announce, which did the transfer carry — against the model
			id++
			res, _, pan := ts.Call(cc, mkTran(hotline.TranDownloadFile, id, c08DownloadFields(f.ReqName, pathField, rq)...))
			if pan != nil || len(res) != 1 || res[0].ErrorCode != [4]byte{} {
				continue // reported by (1)
			}
			ref, _, fsize, ok := c08ReplySizes(&res[0])
			if !ok {
				continue
			}
			conn := newDlgConn(preambleBytes(ref, 0), randSegs(r), nil)
			x := set.start(ref, conn)
			if !x.waitBody() {
				c.Violation("transfer-handler-hangs", "the download transfer did not finish")
				return
			}
			stream := conn.Written()
			announced := "none"
			for _, g := range inDir {
				if len(g.Data)-rq.k == fsize {
					announced = hx([]byte(g.Name))
				}
			}
			carried := "unparseable"
			if rq.preview {
				carried = c08WhichByData(inDir, stream, rq.k)
			} else if sp := splitFlattened(stream, 0); sp.OK {
				carried = c08WhichByData(inDir, stream[len(sp.Hdr):], rq.k)
			}
			c.Note("reply_announces_entry", string(unhxOr(announced)))
			c.Note("stream_carries_entry", string(unhxOr(carried)))
			want := hx([]byte(f.Name))
			if announced != want || carried != want {
				c.Note("file", f.path())
				c.Note("request_name_hex", hx(f.ReqName))
				c.Note("offset", rq.k)
				c.Violation("download-of-listed-name-is-another-entry", fmt.Sprintf(
					"the download requested with the listed name of %q announces the size of %q and carries the data of %q",
					f.Name, string(unhxOr(announced)), string(unhxOr(carried))))
			}
			c.Corr("download-name-resolution",
				fmt.Sprintf("dec=%s utf8=%v reply=%s stream=%s", hx([]byte(c08MacDec(f.ReqName))), utf8.Valid(f.ReqName), announced, carried),
				c.AskS("dlnamed", kTok(rq), pvTok(rq), hx(f.ReqName), dirSpec), true)
			c.Nontrivial(fmt.Sprintf("named|%s|%s|%d|%d|%v|%v|%d", kind, hx(f.ReqName), len(items), len(f.Data), rq.resume, rq.preview, rq.k))
		}
	}
}
