//go:build c12

package main

// C12, wave e — bursts through the REAL dispatcher.
//
// `chat-e2e` runs real connections and the real processOutbox, but every request is followed by a barrier, so the
// dispatcher never holds more than one fan-out (3..8 transactions) at a time — and a login whose reply is lost ends the
// case before any chat.  Here 6..10 clients are registered (NewClientConn + account, as handleNewConnection does after a
// login, without the login's own fan-out) on in-memory connections, a private chat is set up, and then one or two senders hand 100..220 requests to
// ClientConn.handleTransaction BACK TO BACK (public lines, private-chat lines, subject changes — no barrier in between), followed by a
// leave and a join (notices).  Every outgoing transaction goes handler → Server.outbox → processOutbox → one goroutine
// per transaction → sendTransaction → the reader's connection.  At quiescence every connection's inbox is compared,
// as a multiset, with what the model's `chatInboxes` says it must hold: each line exactly once, nobody else anything.
// Every line carries its own serial number, so a line delivered twice to one reader and not at all to another shows.

import (
	"encoding/binary"
	"fmt"
	"strings"
	"time"

	"github.com/jhalter/mobius/hotline"
)

func runChatBurst(c *Case) {
	r := c.R
	ts, err := newTS(TSOpt{Accounts: c12Accounts()})
	if err != nil {
		panic(err)
	}
	defer ts.Close()
	var clients []*e2eClient
	var ccs []*hotline.ClientConn
	var evs []string
	req := uint32(1000)
	// Clients are registered the way handleNewConnection registers them after a login (NewClientConn + account), without
	// the login's own fan-out: the history's FIRST transactions through the dispatcher are then chat transactions, and
	// every request goes through ClientConn.handleTransaction -> Server.outbox -> the real processOutbox.
	login := func(m int) bool {
		icon := be16(r.Intn(500))
		conn := newSegConn(nil)
		cc := ts.Srv.NewClientConn(conn, fmt.Sprintf("10.2.0.%d:5000", len(clients)+1))
		cc.Account = ts.Srv.AccountManager.Get(fmt.Sprintf("u%d", m))
		if cc.Account == nil {
			c.Disagree("burst-setup", "account missing")
			return false
		}
		nm := []byte(acctName(m))
		cc.UserName = nm
		cc.Icon = icon
		cc.Logger = discardLogger
		if cc.Authorize(hotline.AccessDisconUser) {
			cc.Flags.Set(hotline.UserFlagAdmin, 1)
		}
		conn.Write(make([]byte, 8)) // the place of the handshake reply (Received skips 8 bytes)
		cl := &e2eClient{wc: &WireClient{ts: ts, Conn: conn}, acct: m, name: nm, live: true, conn: len(clients)}
		cl.id = int(binary.BigEndian.Uint16(cc.ID[:]))
		ccs = append(ccs, cc)
		clients = append(clients, cl)
		evs = append(evs, fmt.Sprintf("L %s %s %s %s %s", hx([]byte(fmt.Sprintf("u%d", m))), hx([]byte(acctName(m))), acctAccessHex(m), hx(nm), hx(icon)))
		return true
	}
	handle := func(x *e2eClient, t hotline.Transaction) {
		defer func() {
			if p := recover(); p != nil {
				c.Note("panic", fmt.Sprint(p))
				c.Violation("chat-request-panics", "handleTransaction panicked on a well-formed chat request")
			}
		}()
		ccs[x.conn].VerifHandleTransaction(throughWireParser(t))
	}
	// two senders who may do everything, then 4..8 more: mostly readers, one or two who may not read chat
	n := 6 + r.Intn(5)
	for i := 0; i < n; i++ {
		m := r.Pick(7, 8)
		if i >= 2 {
			m = r.Pick(7, 7, 3, 3, 5, 1, 8, 7, 6, 2)
		}
		if !login(m) {
			return
		}
	}
	a, b := clients[0], clients[1]
	// a private chat: a invites b (b is told, not a member), b and some others join
	req++
	handle(a, mkTran(hotline.TranInviteNewChat, req, fld(hotline.FieldUserID, be16(b.id))))
	// the chat id the server drew: in the reply to a or in the invitation to b, whichever has arrived
	var chat uint32
	waitFor(longWait, func() bool {
		for _, x := range []*e2eClient{a, b} {
			_, trans, _, _ := x.wc.Received()
			for i := range trans {
				if d, ok := fieldOf(&trans[i], 114); ok && len(d) == 4 {
					chat = binary.BigEndian.Uint32(d)
					return true
				}
			}
		}
		return false
	})
	if chat == 0 {
		c.Violation("e2e-no-reply", "neither the reply to an invitation nor the invitation itself arrived")
		return
	}
	evs = append(evs, fmt.Sprintf("N %d %d %d %d", a.id, req, b.id, chat))
	members := 1
	for i, x := range clients[1:] {
		if i == 0 || r.Chance(60) {
			req++
			handle(x, mkTran(hotline.TranJoinChat, req, chatField(chat)))
			evs = append(evs, fmt.Sprintf("J %d %d %d", x.id, req, chat))
			members++
		}
	}
	// the burst: back to back on the senders' connections
	burst := func(x *e2eClient, lines int, serial *int, subjects bool) ([]hotline.Transaction, []string) {
		var wire []hotline.Transaction
		var ev []string
		for k := 0; k < lines; k++ {
			req++
			*serial++
			op := r.Intn(100)
			switch {
			case op < 8 && subjects:
				subj := []byte(fmt.Sprintf("subject %d %s", *serial, textBytes(r, r.Intn(12))))
				wire = append(wire, mkTran(hotline.TranSetChatSubject, req, chatField(chat), fld(hotline.FieldChatSubject, subj)))
				ev = append(ev, fmt.Sprintf("S %d %d %d %s", x.id, req, chat, hx(subj)))
			default:
				msg := []byte(fmt.Sprintf("line %d %s", *serial, textBytes(r, r.Intn(20))))
				fields := []hotline.Field{fld(hotline.FieldData, msg)}
				optTok := "none"
				if r.Chance(15) {
					fields = append(fields, fld(hotline.FieldChatOptions, []byte{0, 1}))
					optTok = "0001"
				}
				chatTok := "-"
				if op < 35 {
					fields = append(fields, chatField(chat))
					chatTok = fmt.Sprint(chat)
				}
				wire = append(wire, mkTran(hotline.TranChatSend, req, fields...))
				ev = append(ev, fmt.Sprintf("M %d %d %s %s %s", x.id, req, chatTok, optTok, hx(msg)))
			}
		}
		return wire, ev
	}
	serial := 0
	linesA := 100 + r.Intn(121)
	wa, ea := burst(a, linesA, &serial, true)
	var wb []hotline.Transaction
	var eb []string
	if r.Chance(50) {
		wb, eb = burst(b, 30+r.Intn(80), &serial, false)
	}
	// (the two senders' requests are independent of each other: no membership or privilege changes during the burst and
	// only the first sender changes the subject — the last subject is what a later join reply carries —, so every
	// interleaving of the two connections yields the same inboxes as multisets)
	doneB := make(chan struct{})
	go func() {
		defer close(doneB)
		for _, t := range wb {
			handle(b, t)
		}
	}()
	for _, t := range wa {
		handle(a, t)
	}
	<-doneB
	evs = append(evs, ea...)
	evs = append(evs, eb...)
	// notices: b leaves, b joins again
	req++
	handle(b, mkTran(hotline.TranLeaveChat, req, chatField(chat)))
	evs = append(evs, fmt.Sprintf("V %d %d %d", b.id, req, chat))
	req++
	handle(b, mkTran(hotline.TranJoinChat, req, chatField(chat)))
	evs = append(evs, fmt.Sprintf("J %d %d %d", b.id, req, chat))

	// quiescence: what every connection must hold
	ans := c.O.Ask("c12inbox " + strings.Join(evs, " "))
	want := map[int][]string{}
	total := 0
	for _, part := range strings.Split(ans, " | ") {
		kv := strings.SplitN(part, ">", 2)
		if len(kv) != 2 {
			continue
		}
		var k int
		fmt.Sscan(kv[0], &k)
		if kv[1] != "." {
			want[k] = strings.Split(kv[1], ";")
			total += len(want[k])
		}
	}
	collect := func(x *e2eClient) ([]string, error, []byte) {
		_, trans, rest, err := x.wc.Received()
		var got []string
		for i := range trans {
			if c12Relevant(&trans[i]) {
				t := trans[i]
				binary.BigEndian.PutUint16(t.ClientID[:], uint16(x.id))
				got = append(got, outStr(t))
			}
		}
		return got, err, rest
	}
	// event-driven: first until as many transactions as the model expects have arrived IN TOTAL (long wait: slowness is
	// never a finding), then — only if some reader is still short although the total is there, i.e. something went to the
	// wrong place — a bounded wait for stragglers
	waitFor(longWait, func() bool {
		sum := 0
		for _, x := range clients {
			got, _, _ := collect(x)
			sum += len(got)
		}
		return sum >= total
	})
	waitFor(20*time.Second, func() bool {
		for _, x := range clients {
			got, _, _ := collect(x)
			if len(got) < len(want[x.conn]) {
				return false
			}
		}
		return true
	})
	time.Sleep(15 * time.Millisecond)
	c.Note("readers", len(clients))
	c.Note("members", members)
	c.Note("burst_requests", len(ea)+len(eb))
	c.Note("expected_deliveries", total)
	for _, x := range clients {
		got, err, rest := collect(x)
		if err != nil || len(rest) != 0 {
			c.Note("frame_error", fmt.Sprint(err))
			c.Violation("e2e-stream-unframed", "the byte stream written to a client is not a sequence of whole transactions")
		}
		// the property's predicate directly: each expected transaction exactly once, nothing else
		cnt := map[string]int{}
		for _, g := range got {
			cnt[g]++
		}
		wcnt := map[string]int{}
		for _, w := range want[x.conn] {
			wcnt[w]++
		}
		twice, missing, foreign := 0, 0, 0
		ex := ""
		for k, v := range wcnt {
			if cnt[k] > v {
				twice++
				ex = k
			}
			if cnt[k] < v {
				missing++
				if ex == "" {
					ex = k
				}
			}
		}
		for k := range cnt {
			if wcnt[k] == 0 {
				foreign++
			}
		}
		if twice+missing+foreign > 0 {
			c.Note("connection", x.conn)
			c.Note("account", fmt.Sprintf("u%d", x.acct))
			c.Note("example", clip(ex))
			c.Note("history", clip(strings.Join(evs, " ")))
			c.Violation("burst-not-exactly-once", fmt.Sprintf("after a burst of %d back-to-back requests, connection %d (of %d) holds %d transactions of the %d it must: %d delivered more often than sent, %d missing, %d not meant for it",
				len(ea)+len(eb), x.conn, len(clients), len(got), len(want[x.conn]), twice, missing, foreign))
			break
		}
		c.Corr("e2e-burst-inbox", sortedJoin(got), sortedJoin(want[x.conn]), true)
	}
	c.Nontrivial(fmt.Sprintf("burst %d %d %d %d %d", len(clients), members, len(ea), len(eb), total))
	c.Dist(fmt.Sprintf("burst/readers=%d", len(clients)))
}

func init() {
	c12ExtraFamilies = append(c12ExtraFamilies, &Family{Name: "chat-e2e-burst", Quick: 12, Thor: 200, Run: runChatBurst})
}
