//go:build c02

package main

// C02, folder uploads: the same client bytes of a folder upload (item headers, 4-byte transfer
// sizes, flattened files; fresh, or resumed after an earlier session that was cut in the middle of
// a file) through the real handleFileTransfer under the segmentation set.  Every partition must
// give the same server answers and the same final tree, the tree must hold exactly the bytes sent,
// and the Lean item-loop parser (FolderUpload.run) must read the same items from the stream.

import (
	"errors"
	"fmt"
	"os"
	"path/filepath"
	"strings"
	"sync"
	"time"

	"github.com/jhalter/mobius/hotline"
)

type fuItem struct {
	comps [][]byte
	isDir bool
	data  []byte
	rsrc  []byte
	forks int
	hdr   string // hex of the flattened-file header for the full data (reference layout from the oracle)
}

func (it *fuItem) rel() string {
	var p []string
	for _, c := range it.comps {
		p = append(p, string(c))
	}
	return filepath.Join(p...)
}

// fuPathBytes: item count(2), then per component 0,0,len,name.
func fuPathBytes(comps [][]byte) []byte {
	b := be16(len(comps))
	for _, c := range comps {
		b = append(b, 0, 0, byte(len(c)))
		b = append(b, c...)
	}
	return b
}

// fuItemHeader: size(2) = 2 + |path bytes|, type(2) (1 = folder), path bytes.
func fuItemHeader(it *fuItem) []byte {
	pb := fuPathBytes(it.comps)
	b := be16(len(pb) + 2)
	if it.isDir {
		b = append(b, 0, 1)
	} else {
		b = append(b, 0, 0)
	}
	return append(b, pb...)
}

// fuFileBody asks the oracle for the reference flattened-file header and appends the forks.
func fuFileBody(c *Case, it *fuItem, data []byte) ([]byte, bool) {
	info := hotline.NewFlatFileInformationFork(string(it.comps[len(it.comps)-1]), [8]byte{0, 0, 0, 0, 0, 0, 0, 2}, "BINA", "hDmp")
	hdr := c.O.Ask(fmt.Sprintf("ffo %d %s %d", it.forks, infoArgsC02(&info), len(data)))
	if strings.HasPrefix(hdr, "bad-op") || strings.HasPrefix(hdr, "ORACLE") {
		return nil, false
	}
	b := append(unhx(hdr), data...)
	if it.forks == 3 {
		b = append(b, unhx(c.O.Ask(fmt.Sprintf("forkhdr %s %d", hx([]byte("MACR")), len(it.rsrc))))...)
		b = append(b, it.rsrc...)
	}
	return b, true
}

// fuStream builds what the client sends after the preamble: per item the header and, depending
// on the server's answer for it (1 send / 2 resume from `from` / 3 skip), size + flattened file.
// bounds collects the structural offsets (relative to the start of the returned bytes).
func fuStream(c *Case, items []*fuItem, actions []int, resumeFrom int) (out []byte, bounds []int, ok bool) {
	fi := 0
	for _, it := range items {
		bounds = append(bounds, len(out))
		out = append(out, fuItemHeader(it)...)
		bounds = append(bounds, len(out))
		if it.isDir {
			continue
		}
		a := actions[fi]
		fi++
		if a == 3 {
			continue
		}
		data := it.data
		if a == 2 {
			data = it.data[resumeFrom:]
		}
		body, good := fuFileBody(c, it, data)
		if !good {
			return nil, nil, false
		}
		out = append(out, be32(len(body))...)
		bounds = append(bounds, len(out), len(out)+24, len(out)+40)
		out = append(out, body...)
		bounds = append(bounds, len(out)-len(it.rsrc)-map[bool]int{true: 16, false: 0}[it.forks == 3])
	}
	bounds = append(bounds, len(out))
	return out, bounds, true
}

type fuRun struct {
	Err   string
	Wrote string
	Tree  string
}

func folderUploadFamily(c *Case) {
	r := c.R
	if tooManyStalls(c) {
		c.Dist("folder-skipped/after-repeated-stalls")
		return
	}
	// ---- the folder
	folder := strings.ReplaceAll("fld-"+r.Name(6), " ", "_")
	var items []*fuItem
	n := 2 + r.Intn(5)
	sub := ""
	for i := 0; i < n; i++ {
		if sub == "" && i < n-1 && r.Chance(25) {
			sub = fmt.Sprintf("sub%d", i)
			items = append(items, &fuItem{comps: [][]byte{[]byte(sub)}, isDir: true})
			continue
		}
		name := []byte(fmt.Sprintf("f%d-%s.bin", i, strings.ReplaceAll(r.Name(5), " ", "_")))
		it := &fuItem{comps: [][]byte{name}, data: r.Bytes(r.Pick(0, 1, 2, 50, 700, 3000, 5000, 9000)), forks: 2}
		if sub != "" && r.Chance(60) {
			it.comps = [][]byte{[]byte(sub), name}
		}
		if r.Chance(20) {
			it.forks = 3
			it.rsrc = r.Bytes(r.Pick(1, 40, 600))
		}
		items = append(items, it)
	}
	if items[0].isDir && len(items[1].data) == 0 {
		items[1].data = r.Bytes(100)
	}
	preserve := r.Chance(40)
	var files []*fuItem
	for _, it := range items {
		if !it.isDir {
			files = append(files, it)
		}
	}
	// ---- fresh, or resumed after a first session cut in the middle of one file's data
	resumeK, cut := -1, 0
	if r.Chance(50) {
		var cand []int
		for i, f := range files {
			if len(f.data) >= 2 {
				cand = append(cand, i)
			}
		}
		if len(cand) > 0 {
			resumeK = cand[r.Intn(len(cand))]
			cut = 1 + r.Intn(len(files[resumeK].data)-1)
		}
	}
	fresh := make([]int, len(files))
	for i := range fresh {
		fresh[i] = 1
	}
	first, _, ok := fuStream(c, items, fresh, 0)
	if !ok {
		c.Disagree("oracle-ffo", "oracle could not build the flattened file header")
		return
	}
	actions := fresh
	stream2 := first
	var bounds []int
	firstCutAt := 0
	if resumeK >= 0 {
		// offset in `first` where file resumeK's data starts
		off, fi := 0, 0
		for _, it := range items {
			off += len(fuItemHeader(it))
			if it.isDir {
				continue
			}
			body, _ := fuFileBody(c, it, it.data)
			if fi == resumeK {
				off += 4 + (len(body) - len(it.data) - len(it.rsrc) - map[bool]int{true: 16, false: 0}[it.forks == 3])
				break
			}
			off += 4 + len(body)
			fi++
		}
		firstCutAt = off + cut
		actions = make([]int, len(files))
		for i := range actions {
			switch {
			case i < resumeK:
				actions[i] = 3
			case i == resumeK:
				actions[i] = 2
			default:
				actions[i] = 1
			}
		}
	}
	stream2, bounds, ok = fuStream(c, items, actions, cut)
	if !ok {
		c.Disagree("oracle-ffo", "oracle could not build the flattened file header")
		return
	}
	mode := "fresh"
	if resumeK >= 0 {
		mode = "resumed"
	}
	c.Dist("folder-mode/" + mode)
	c.Note("mode", mode)
	c.Note("folder", folder)
	c.Note("items", len(items))
	c.Note("resume_item", resumeK)
	c.Note("first_session_cut_after_data_bytes", cut)
	total := 16 + len(stream2)
	for i := range bounds {
		bounds[i] += 16
	}
	bounds = append(bounds, 4, 8, 12, 16)
	type seg struct {
		name string
		cuts []int
	}
	segs := []seg{
		{"all-at-once", nil},
		{"one-byte", cutsOnes(total)},
		{"random", cutsRandom(r, total)},
		{"boundaries", cutsBoundary(r, total, bounds)},
		{"random-2", cutsRandom(r, total)},
	}
	runs := make([]fuRun, len(segs))
	var wg sync.WaitGroup
	var fixErr error
	var mu sync.Mutex
	fail := func(e error) {
		mu.Lock()
		fixErr = e
		mu.Unlock()
	}
	for i := range segs {
		wg.Add(1)
		go func(i int) {
			defer wg.Done()
			ts, err := newTS(TSOpt{Accounts: []AcctSpec{{Login: "guest", Name: "g", Password: "", Access: allAccess()}}, PreserveForks: preserve})
			if err != nil {
				fail(err)
				return
			}
			defer ts.Close()
			cc, err := ts.LoginOK("10.9.8.6:1000", "", "", nil)
			if err != nil {
				fail(err)
				return
			}
			defer func() {
				cc.Conn.EOF()
				cc.WaitDone(5 * time.Second)
			}()
			session := func(id uint32, payload []byte, cuts []int) (string, string, bool) {
				cc.Conn.Feed(encTran(tranOf(213, id, fld(hotline.FieldFileName, []byte(folder)), fld(hotline.FieldTransferSize, be32(len(payload))),
					fld(hotline.FieldFolderItemCount, be16(len(items))))))
				rep, ok := cc.ReplyTo(id, 5*time.Second)
				if !ok || len(rep.GetField(hotline.FieldRefNum).Data) != 4 {
					fail(errors.New("no folder-upload reference number"))
					return "", "", false
				}
				pre := append([]byte("HTXF"), rep.GetField(hotline.FieldRefNum).Data...)
				pre = append(pre, be32(len(payload))...)
				pre = append(pre, 0, 0, 0, 0)
				conn := newScriptConn(append(pre, payload...), cuts)
				done := make(chan error, 1)
				go func() { done <- ts.Srv.VerifHandleFileTransfer(conn, "10.9.8.6:1001") }()
				select {
				case e := <-done:
					return errClassXfer(e), hx(conn.Written()), true
				case <-time.After(40 * time.Second):
					return "timeout", hx(conn.Written()), true
				}
			}
			if resumeK >= 0 {
				// first session: always delivered all at once and cut in the middle of a file (then EOF)
				if _, _, ok := session(70, first[:firstCutAt], nil); !ok {
					return
				}
			}
			e, w, ok := session(71, stream2, segs[i].cuts)
			if !ok {
				return
			}
			runs[i] = fuRun{Err: e, Wrote: w, Tree: strings.Join(snapshot(ts.Root), "\n")}
			if i == 0 {
				// direct content check on the first run's tree (the others must equal it)
				for _, it := range files {
					b, err := os.ReadFile(filepath.Join(ts.Root, folder, it.rel()))
					if err != nil || string(b) != string(it.data) {
						runs[i].Tree += "\nCONTENT-MISMATCH " + it.rel()
					}
				}
			}
		}(i)
	}
	wg.Wait()
	if fixErr != nil {
		fixtureLoginFailed(c, fixErr.Error())
		return
	}
	for i := 1; i < len(runs); i++ {
		a, b := runs[0], runs[i]
		a.Tree = strings.Split(a.Tree, "\nCONTENT-MISMATCH")[0]
		if a != b {
			c.Note("segmentation_a", segs[0].name)
			c.Note("result_a", clip(fmt.Sprint(runs[0].Err, " wrote=", runs[0].Wrote, "\n", runs[0].Tree)))
			c.Note("segmentation_b", segs[i].name)
			c.Note("cuts_b", clipInts(segs[i].cuts))
			c.Note("result_b", clip(fmt.Sprint(runs[i].Err, " wrote=", runs[i].Wrote, "\n", runs[i].Tree)))
			c.Violation("folder-upload-segmentation-dependent", fmt.Sprintf("the same folder-upload bytes (%s) give different answers / a different tree when delivered %s and %s", mode, segs[0].name, segs[i].name))
			return
		}
	}
	if strings.Contains(runs[0].Tree, "CONTENT-MISMATCH") || strings.Contains(runs[0].Tree, ".incomplete") || runs[0].Err != "nil" {
		c.Note("result", clip(fmt.Sprint(runs[0].Err, " wrote=", runs[0].Wrote, "\n", runs[0].Tree)))
		c.Violation("folder-upload-content", "after a complete folder upload ("+mode+") the tree does not hold exactly the files and bytes sent")
		return
	}
	// ---- the model: the item loop reads these items from the stream (any chunking)
	var as strings.Builder
	for _, a := range actions {
		fmt.Fprint(&as, a)
	}
	if as.Len() == 0 {
		as.WriteString("-")
	}
	var want strings.Builder
	fmt.Fprintf(&want, "ok %d", len(items))
	fi := 0
	for _, it := range items {
		p := hx(fuPathBytes(it.comps))
		if it.isDir {
			fmt.Fprintf(&want, " d:%s", p)
			continue
		}
		a := actions[fi]
		fi++
		switch a {
		case 3:
			fmt.Fprintf(&want, " k:%s", p)
		case 2:
			fmt.Fprintf(&want, " r:%s:%s:%s", p, hx(it.data[cut:]), hx(it.rsrc))
		default:
			fmt.Fprintf(&want, " s:%s:%s:%s", p, hx(it.data), hx(it.rsrc))
		}
	}
	want.WriteString(" rest=-")
	args := []string{fmt.Sprint(len(items)), as.String()}
	for _, ch := range chunksOf(stream2, cutsRandom(r, len(stream2)), 40) {
		args = append(args, hx(ch))
	}
	c.Corr("folder-item-loop", want.String(), c.AskS("folderup", args...), false)
	c.Nontrivial(fmt.Sprintf("%s|%x|%d|%d", mode, fnv64(stream2), resumeK, cut))
	c.Sample(map[string]any{"family": "folder-upload-segmentation", "mode": mode, "items": len(items), "files": len(files), "stream": len(stream2), "preserve_forks": preserve, "segmentations": len(segs)})
}
