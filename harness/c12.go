//go:build c12

package main

// C12 — chat reaches exactly its audience.
//
// Handler level (direct mode): generated histories over the real handlers, the real MemChatManager and
// the real MemClientMgr.  Every handler result is (a) compared, as a canonical (recipient, type, fields)
// list, with the Lean model's output for the same history, and (b) judged directly: the audience is
// computed here from the membership the history itself implies, the text by a reference formatter
// written against unicode/utf8.  Thorough tier adds end-to-end runs over real connections
// (handleNewConnection + processOutbox), comparing per-client inboxes at quiescence.

import (
	"encoding/binary"
	"fmt"
	"sort"
	"strings"
	"time"

	"github.com/jhalter/mobius/hotline"
)

func c12Accounts() []AcctSpec {
	var as []AcctSpec
	for m := 0; m < 8; m++ {
		var bits []int
		if m&1 != 0 {
			bits = append(bits, hotline.AccessReadChat)
		}
		if m&2 != 0 {
			bits = append(bits, hotline.AccessSendChat)
		}
		if m&4 != 0 {
			bits = append(bits, hotline.AccessOpenChat)
		}
		as = append(as, AcctSpec{Login: fmt.Sprintf("u%d", m), Name: fmt.Sprintf("Acct %d", m), Access: accessOf(bits...)})
	}
	// an administrator (user flag admin is set from AccessDisconUser) who may do everything about chat
	as = append(as, AcctSpec{Login: "u8", Name: "Admin", Access: accessOf(hotline.AccessReadChat, hotline.AccessSendChat, hotline.AccessOpenChat, hotline.AccessDisconUser, hotline.AccessModifyUser)})
	return as
}

type c12cl struct {
	cc               *hotline.ClientConn
	wc               *WireClient // end-to-end runs
	id               int
	acct             int
	read, send, open bool
	name             []byte
	icon             []byte
	live             bool
}

type c12run struct {
	c       *Case
	ts      *TS
	clients []*c12cl
	chats   []uint32
	spec    map[uint32]map[int]bool // membership implied by the history (client ids)
	outside map[uint32]map[int]bool // left / declined and not (re)joined since
	evs     []string
	impl    []string
	req     uint32
	mixed   bool
	ops     map[string]int
	// the ACCOUNTS' current access as the history edited it (the reference for every audience / privilege judgement)
	acct map[int]hotline.AccessBitmap
}

func (h *c12run) acctAccess(m int) hotline.AccessBitmap {
	if h.acct == nil {
		h.acct = map[int]hotline.AccessBitmap{}
		for i, a := range c12Accounts() {
			h.acct[i] = a.Access
		}
	}
	return h.acct[m]
}

func (cl *c12cl) follow(a hotline.AccessBitmap) {
	cl.read, cl.send, cl.open = a.IsSet(hotline.AccessReadChat), a.IsSet(hotline.AccessSendChat), a.IsSet(hotline.AccessOpenChat)
}

func (h *c12run) liveClients() []*c12cl {
	var l []*c12cl
	for _, c := range h.clients {
		if c.live {
			l = append(l, c)
		}
	}
	return l
}

func (h *c12run) byID(id int) *c12cl {
	for _, c := range h.clients {
		if c.live && c.id == id {
			return c
		}
	}
	return nil
}

func c12Name(r *RNG) []byte {
	n := r.Pick(0, 1, 3, 5, 8, 12, 13, 14, 15, 20, 31, 40)
	if r.Chance(3) {
		n = r.Pick(300, 8190, 9000)
	}
	return textBytes(r, n)
}

func c12Msg(r *RNG, big bool) []byte {
	n := r.Intn(60)
	if big {
		n = r.Pick(8150, 8170, 8175, 8176, 8177, 8178, 8180, 8185, 8191, 8192, 8193, 8200, 9000)
	} else if r.Chance(10) {
		n = r.Pick(0, 0, 255, 256, 700)
	}
	return textBytes(r, n)
}

func acctFlags(m int) (read, send, open bool) {
	if m == 8 {
		return true, true, true
	}
	return m&1 != 0, m&2 != 0, m&4 != 0
}

func acctAccessHex(m int) string {
	for _, a := range c12Accounts() {
		if a.Login == fmt.Sprintf("u%d", m) {
			return hx(a.Access[:])
		}
	}
	return "-"
}

func acctName(m int) string {
	if m == 8 {
		return "Admin"
	}
	return fmt.Sprintf("Acct %d", m)
}

// expectExactly judges "each of want exactly once and nobody else".
func (h *c12run) expectExactly(key, what string, got map[int]int, want map[int]bool) {
	for id := range want {
		if got[id] != 1 {
			h.c.Note("recipients", fmt.Sprint(got))
			h.c.Note("expected", fmt.Sprint(keysOf(want)))
			h.c.Violation(key, fmt.Sprintf("%s: user %d should receive it exactly once, received it %d times", what, id, got[id]))
			return
		}
	}
	for id, n := range got {
		if !want[id] {
			h.c.Note("recipients", fmt.Sprint(got))
			h.c.Note("expected", fmt.Sprint(keysOf(want)))
			h.c.Violation(key, fmt.Sprintf("%s: user %d is outside the audience but received it (%d times)", what, id, n))
			return
		}
	}
}

func keysOf(m map[int]bool) []int {
	var k []int
	for i := range m {
		k = append(k, i)
	}
	sort.Ints(k)
	return k
}

// route returns the live holder (by the real client table, as sendTransaction does) of each selected output.
func (h *c12run) route(outs []hotline.Transaction, sel func(t *hotline.Transaction) bool) map[int]int {
	got := map[int]int{}
	for i := range outs {
		t := &outs[i]
		if !sel(t) {
			continue
		}
		if cc := h.ts.Srv.ClientMgr.Get(t.ClientID); cc != nil {
			got[int(binary.BigEndian.Uint16(cc.ID[:]))]++
		}
	}
	return got
}

func (h *c12run) liveMembers(chat uint32) map[int]bool {
	w := map[int]bool{}
	for id := range h.spec[chat] {
		if h.byID(id) != nil {
			w[id] = true
		}
	}
	return w
}

// silentMonitor: no chat traffic of a chat is addressed to somebody who left it / declined it and has not joined since.
func (h *c12run) silentMonitor(outs []hotline.Transaction) {
	for i := range outs {
		t := &outs[i]
		ty := tranType(t)
		if t.IsReply == 1 || !(ty == 106 || ty == 117 || ty == 118 || ty == 119) {
			continue
		}
		cid, ok := fieldOf(t, 114)
		if !ok || len(cid) != 4 {
			continue
		}
		chat := binary.BigEndian.Uint32(cid)
		if h.outside[chat][tranTo(t)] && h.ts.Srv.ClientMgr.Get(t.ClientID) != nil {
			h.c.Note("transaction", outStr(*t))
			h.c.Violation("left-or-declined-still-addressed", fmt.Sprintf("user %d left chat %08x (or declined it) and has not joined since, yet a type-%d transaction of that chat is addressed to it", tranTo(t), chat, ty))
		}
	}
}

func (h *c12run) record(ev string, outs []hotline.Transaction) {
	h.evs = append(h.evs, ev)
	h.impl = append(h.impl, outsStr(outs))
	h.silentMonitor(outs)
}

func (h *c12run) login(r *RNG) {
	m := r.Intn(9)
	if r.Chance(35) {
		m = r.Pick(7, 7, 8, 3, 5, 6)
	}
	name := c12Name(r)
	icon := be16(r.Intn(3000))
	cc, _ := h.ts.DirectClient(fmt.Sprintf("u%d", m), name, fmt.Sprintf("10.0.0.%d:4000", len(h.clients)+1))
	cc.Icon = icon
	cl := &c12cl{cc: cc, id: int(binary.BigEndian.Uint16(cc.ID[:])), acct: m, name: name, icon: icon, live: true}
	cl.follow(h.acctAccess(m))
	h.clients = append(h.clients, cl)
	// the model is told what the account manager handed to the session; the judgements use the account as edited
	h.record(fmt.Sprintf("L %s %s %s %s %s", hx([]byte(cc.Account.Login)), hx([]byte(cc.Account.Name)), hx(cc.Account.Access[:]), hx(name), hx(icon)), nil)
	h.ops["login"]++
}

func (h *c12run) call(cl *c12cl, t hotline.Transaction) []hotline.Transaction {
	res, queued, p := callSync(h.ts, cl.cc, t)
	if p != nil {
		h.c.Note("panic", fmt.Sprint(p))
		h.c.Note("request", outStr(t))
		h.c.Violation("chat-handler-panic", "a chat handler panicked on a well-formed request of the history")
	}
	return append(queued, res...)
}

func chatField(chat uint32) hotline.Field { return fld(hotline.FieldChatID, be32(int(chat))) }

// step performs one random operation; returns false when nothing was applicable.
func (h *c12run) step(r *RNG, allowBig *int) {
	live := h.liveClients()
	if len(live) == 0 {
		h.login(r)
		return
	}
	actor := live[r.Intn(len(live))]
	h.req++
	req := h.req
	pickChat := func() (uint32, bool) {
		if len(h.chats) == 0 {
			return 0, false
		}
		return h.chats[r.Intn(len(h.chats))], true
	}
	if r.Chance(7) && h.accountEdit(r) {
		return
	}
	op := r.Intn(100)
	switch {
	case op < 6 && len(h.clients) < 8:
		h.login(r)
	case op < 10 && len(live) > 2:
		// disconnect
		outs := disconnectSync(h.ts, actor.cc)
		actor.live = false
		h.record(fmt.Sprintf("D %d", actor.id), outs)
		want := map[int]bool{}
		for _, c := range h.liveClients() {
			want[c.id] = true
		}
		h.expectExactly("user-left-audience", "user-left notice", h.route(outs, func(t *hotline.Transaction) bool { return tranType(t) == 302 }), want)
		h.ops["disconnect"]++
	case op < 22:
		// invite to a new chat
		target := live[r.Intn(len(live))]
		outs := h.call(actor, mkTran(hotline.TranInviteNewChat, req, fld(hotline.FieldUserID, be16(target.id))))
		var chat uint32
		created := false
		for i := range outs {
			if outs[i].IsReply == 1 && outs[i].ErrorCode == [4]byte{} {
				if d, ok := fieldOf(&outs[i], 114); ok && len(d) == 4 {
					chat = binary.BigEndian.Uint32(d)
					created = true
				}
			}
		}
		if created != actor.open {
			h.c.Violation("invite-new-privilege", fmt.Sprintf("invite-to-new-chat by a user with open-chat=%v: chat created=%v", actor.open, created))
		}
		if created {
			h.chats = append(h.chats, chat)
			h.spec[chat] = map[int]bool{actor.id: true}
			h.outside[chat] = map[int]bool{}
			inv := h.route(outs, func(t *hotline.Transaction) bool { return tranType(t) == 113 })
			h.expectExactly("invitation-audience", "invitation", inv, map[int]bool{target.id: true})
		}
		h.record(fmt.Sprintf("N %d %d %d %d", actor.id, req, target.id, chat), outs)
		h.replyCheck(actor, req, outs, true)
		h.ops["invite-new"]++
	case op < 30:
		chat, ok := pickChat()
		if !ok {
			return
		}
		target := live[r.Intn(len(live))]
		outs := h.call(actor, mkTran(hotline.TranInviteToChat, req, fld(hotline.FieldUserID, be16(target.id)), chatField(chat)))
		h.record(fmt.Sprintf("I %d %d %d %d", actor.id, req, target.id, chat), outs)
		if actor.open {
			h.expectExactly("invitation-audience", "invitation", h.route(outs, func(t *hotline.Transaction) bool { return tranType(t) == 113 }), map[int]bool{target.id: true})
		}
		h.replyCheck(actor, req, outs, true)
		h.ops["invite"]++
	case op < 44:
		chat, ok := pickChat()
		if !ok {
			return
		}
		want := h.liveMembers(chat)
		outs := h.call(actor, mkTran(hotline.TranJoinChat, req, chatField(chat)))
		h.record(fmt.Sprintf("J %d %d %d", actor.id, req, chat), outs)
		h.expectExactly("join-notice-audience", "join notice", h.route(outs, func(t *hotline.Transaction) bool { return tranType(t) == 117 }), want)
		h.spec[chat][actor.id] = true
		delete(h.outside[chat], actor.id)
		h.replyCheck(actor, req, outs, true)
		h.ops["join"]++
	case op < 52:
		chat, ok := pickChat()
		if !ok {
			return
		}
		outs := h.call(actor, mkTran(hotline.TranLeaveChat, req, chatField(chat)))
		delete(h.spec[chat], actor.id)
		h.outside[chat][actor.id] = true
		h.record(fmt.Sprintf("V %d %d %d", actor.id, req, chat), outs)
		h.expectExactly("leave-notice-audience", "leave notice", h.route(outs, func(t *hotline.Transaction) bool { return tranType(t) == 118 }), h.liveMembers(chat))
		h.replyCheck(actor, req, outs, false)
		h.ops["leave"]++
	case op < 58:
		chat, ok := pickChat()
		if !ok {
			return
		}
		outs := h.call(actor, mkTran(hotline.TranRejectChatInvite, req, chatField(chat)))
		if !h.spec[chat][actor.id] {
			h.outside[chat][actor.id] = true
		}
		h.record(fmt.Sprintf("R %d %d %d", actor.id, req, chat), outs)
		h.expectExactly("decline-notice-audience", "decline notice", h.route(outs, func(t *hotline.Transaction) bool { return tranType(t) == 106 }), h.liveMembers(chat))
		want := append(append([]byte{}, actor.name...), " declined invitation to chat"...)
		for i := range outs {
			if d, _ := fieldOf(&outs[i], 101); string(d) != string(want) {
				h.c.Violation("decline-text", "decline notice text differs from '<name> declined invitation to chat'")
			}
		}
		h.replyCheck(actor, req, outs, false)
		h.ops["decline"]++
	case op < 64:
		chat, ok := pickChat()
		if !ok {
			return
		}
		subj := textBytes(r, r.Pick(0, 1, 10, 40, 41, 200))
		outs := h.call(actor, mkTran(hotline.TranSetChatSubject, req, chatField(chat), fld(hotline.FieldChatSubject, subj)))
		h.record(fmt.Sprintf("S %d %d %d %s", actor.id, req, chat, hx(subj)), outs)
		h.expectExactly("subject-audience", "subject change", h.route(outs, func(t *hotline.Transaction) bool { return tranType(t) == 119 }), h.liveMembers(chat))
		for i := range outs {
			if d, _ := fieldOf(&outs[i], 115); string(d) != string(subj) {
				h.c.Violation("subject-text", "subject notice does not carry the new subject")
			}
		}
		h.replyCheck(actor, req, outs, false)
		h.ops["subject"]++
	default:
		// send: public / private, plain / emote
		big := false
		if *allowBig > 0 && r.Chance(12) {
			big = true
			*allowBig--
		}
		msg := c12Msg(r, big)
		fields := []hotline.Field{fld(hotline.FieldData, msg)}
		optTok := "none"
		emote := false
		switch r.Intn(6) {
		case 0, 1:
			fields = append(fields, fld(hotline.FieldChatOptions, []byte{0, 1}))
			optTok = "0001"
			emote = true
		case 2:
			o := [][]byte{{0, 0}, {1}, {0, 2}, {0, 1, 0}}[r.Intn(4)]
			fields = append(fields, fld(hotline.FieldChatOptions, o))
			optTok = hx(o)
		}
		chatTok := "-"
		var chat uint32
		private := false
		if c, ok := pickChat(); ok && r.Chance(55) {
			chat, private = c, true
			fields = append(fields, chatField(chat))
			chatTok = fmt.Sprint(chat)
		} else if r.Chance(20) {
			fields = append(fields, fld(hotline.FieldChatID, []byte{0, 0, 0, 0})) // Frogblast style public chat
		}
		outs := h.call(actor, mkTran(hotline.TranChatSend, req, fields...))
		h.record(fmt.Sprintf("M %d %d %s %s %s", actor.id, req, chatTok, optTok, hx(msg)), outs)
		if !actor.send {
			h.replyCheck(actor, req, outs, true)
			if len(outs) != 1 || outs[0].ErrorCode != [4]byte{0, 0, 0, 1} {
				h.c.Violation("send-without-privilege", "a chat line from a user without send-chat produced something else than one error reply")
			}
			h.ops["send-denied"]++
			return
		}
		h.replyCheck(actor, req, outs, false)
		want := chatTextRef(actor.name, emote, msg)
		for i := range outs {
			d, _ := fieldOf(&outs[i], 101)
			if string(d) != string(want) {
				h.c.Note("name", hx(actor.name))
				h.c.Note("msg_len", len(msg))
				h.c.Note("got_len", len(d))
				h.c.Note("want_len", len(want))
				h.c.Note("got_head", short(d))
				h.c.Note("want_head", short(want))
				h.c.Violation("chat-text-format", fmt.Sprintf("delivered chat text is not the protocol's format of the sender's name and message cut to 8192 bytes (emote=%v, %d-byte name, %d-byte message: got %d bytes, want %d)", emote, len(actor.name), len(msg), len(d), len(want)))
				break
			}
			if tranType(&outs[i]) != 106 {
				h.c.Violation("chat-line-type", "chat line delivered with a transaction type other than 106")
			}
		}
		if private {
			aud := h.liveMembers(chat)
			h.expectExactly("private-line-audience", "private chat line", h.route(outs, func(t *hotline.Transaction) bool { return true }), aud)
			for i := range outs {
				if d, _ := fieldOf(&outs[i], 114); len(d) != 4 || binary.BigEndian.Uint32(d) != chat {
					h.c.Violation("private-line-chat-id", "private chat line does not carry its chat id")
				}
			}
			nonMember := false
			for _, c := range h.liveClients() {
				if !aud[c.id] {
					nonMember = true
				}
			}
			if nonMember && len(aud) > 0 {
				h.mixed = true
			}
			h.ops["send-private"]++
		} else {
			aud := map[int]bool{}
			non := false
			for _, c := range h.liveClients() {
				if c.read {
					aud[c.id] = true
				} else {
					non = true
				}
			}
			h.expectExactly("public-line-audience", "public chat line", h.route(outs, func(t *hotline.Transaction) bool { return true }), aud)
			for i := range outs {
				if _, has := fieldOf(&outs[i], 114); has {
					h.c.Violation("public-line-chat-id", "public chat line carries a chat id")
				}
			}
			if non && len(aud) > 0 {
				h.mixed = true
			}
			h.ops["send-public"]++
		}
		if big {
			h.c.Dist("text/long")
		}
	}
}

// accountEdit: a connected administrator changes an account's chat privileges with TranSetUser (read / send / open
// chat; the disconnect-user bit is left alone except in 15 % of the edits).  From then on every connected user of that
// account, and everybody who logs in with it, is judged by the account's new access.
func (h *c12run) accountEdit(r *RNG) bool {
	var admin *c12cl
	for _, c := range h.liveClients() {
		if c.acct == 8 {
			admin = c
		}
	}
	if admin == nil {
		return false
	}
	m := r.Intn(8)
	acc := h.acctAccess(m)
	flip := func(bit int) {
		if acc.IsSet(bit) {
			acc[bit/8] &^= 1 << uint(7-bit%8)
		} else {
			acc.Set(bit)
		}
	}
	flip(r.Pick(hotline.AccessReadChat, hotline.AccessReadChat, hotline.AccessSendChat, hotline.AccessOpenChat))
	if r.Chance(30) {
		flip(r.Pick(hotline.AccessReadChat, hotline.AccessSendChat))
	}
	if r.Chance(15) {
		flip(hotline.AccessDisconUser)
	}
	h.req++
	login := fmt.Sprintf("u%d", m)
	outs := h.call(admin, mkTran(hotline.TranSetUser, h.req,
		fld(hotline.FieldUserLogin, hotline.EncodeString([]byte(login))), fld(hotline.FieldUserName, []byte(acctName(m))),
		fld(hotline.FieldUserAccess, acc[:]), fld(hotline.FieldUserPassword, []byte{0})))
	h.replyCheck(admin, h.req, outs, true)
	for i := range outs {
		if outs[i].IsReply == 1 && outs[i].ErrorCode != [4]byte{} {
			h.c.Violation("account-edit-refused", "an administrator's account edit was refused")
		}
	}
	h.acct[m] = acc
	for _, c := range h.liveClients() {
		if c.acct == m {
			c.follow(acc)
		}
	}
	// the handler's own outputs (354 / 301 / reply) are presence traffic, modelled and judged in C13
	h.evs = append(h.evs, fmt.Sprintf("E %s %s", hx([]byte(login)), hx(acc[:])))
	h.impl = append(h.impl, ".")
	h.ops["account-edit"]++
	return true
}

// replyCheck: at most one reply-flagged transaction, to the requester, with the request's id; exactly one when expected.
func (h *c12run) replyCheck(actor *c12cl, req uint32, outs []hotline.Transaction, expect bool) {
	n := 0
	for i := range outs {
		if outs[i].IsReply == 1 {
			n++
			if tranTo(&outs[i]) != actor.id || tranID(&outs[i]) != req {
				h.c.Note("reply", outStr(outs[i]))
				h.c.Violation("reply-misdirected", "a reply is not addressed to the requester with the request's id")
			}
		}
	}
	if n > 1 || (expect && n != 1) || (!expect && n != 0) {
		h.c.Note("replies", n)
		h.c.Violation("reply-count", fmt.Sprintf("request %d produced %d replies (expected %v)", req, n, expect))
	}
}

func (h *c12run) implState() string {
	var ids []string
	for _, cc := range h.ts.Srv.ClientMgr.List() {
		ids = append(ids, fmt.Sprint(binary.BigEndian.Uint16(cc.ID[:])))
	}
	cids := append([]uint32{}, h.chats...)
	sort.Slice(cids, func(i, j int) bool { return cids[i] < cids[j] })
	var cs []string
	for i, cid := range cids {
		if i > 0 && cids[i-1] == cid {
			continue
		}
		var ms []string
		for _, m := range h.ts.Srv.ChatMgr.Members(hotline.ChatID(be32(int(cid)))) {
			ms = append(ms, fmt.Sprint(binary.BigEndian.Uint16(m.ID[:])))
		}
		cs = append(cs, fmt.Sprintf("%d/%s/%s", cid, hx([]byte(h.ts.Srv.ChatMgr.GetSubject(hotline.ChatID(be32(int(cid)))))), strings.Join(ms, ",")))
	}
	return "ids=" + strings.Join(ids, ",") + " chats=" + strings.Join(cs, ";")
}

func runChatHistory(c *Case) {
	r := c.R
	ts, err := newTS(TSOpt{Direct: true, Accounts: c12Accounts()})
	if err != nil {
		panic(err)
	}
	defer ts.Close()
	h := &c12run{c: c, ts: ts, spec: map[uint32]map[int]bool{}, outside: map[uint32]map[int]bool{}, req: 1000, ops: map[string]int{}}
	n := 2 + r.Intn(5)
	for i := 0; i < n; i++ {
		h.login(r)
	}
	steps := 20 + r.Intn(25)
	allowBig := 2
	for i := 0; i < steps && !c.failed; i++ {
		h.step(r, &allowBig)
	}
	line := "c12run " + strings.Join(h.evs, " ")
	c.Note("history", clip(strings.Join(h.evs, " ")))
	c.Note("history_file_hint", "re-run the case seed to regenerate the full history")
	ans := c.O.Ask(line)
	implLine := fmt.Sprintf("%d ", len(h.evs)) + strings.Join(h.impl, " | ") + " || " + h.implState()
	if ans != implLine {
		// locate the first differing event for the replay file
		a := strings.Split(ans, " | ")
		b := strings.Split(implLine, " | ")
		for i := 0; i < len(a) && i < len(b); i++ {
			if a[i] != b[i] {
				c.Note("first_diff_event", i)
				if i < len(h.evs) {
					c.Note("event", clip(h.evs[i]))
				}
				c.Note("model_event_out", clip(a[i]))
				c.Note("impl_event_out", clip(b[i]))
				break
			}
		}
	}
	c.Corr("chat-history", implLine, ans, false)
	for k, v := range h.ops {
		for i := 0; i < v; i++ {
			c.Dist("op/" + k)
		}
	}
	if h.mixed {
		c.Nontrivial(line)
	}
	c.Sample(map[string]any{"family": "chat-history", "clients": len(h.clients), "events": len(h.evs), "chats": len(h.chats), "ops": h.ops})
}

// ---------------------------------------------------------------- end to end

type e2eClient struct {
	wc   *WireClient
	id   int
	acct int
	name []byte
	live bool
	conn int // model connection serial = login order
	nreq uint32
}

func c12Relevant(t *hotline.Transaction) bool {
	if t.IsReply == 1 {
		return tranID(t) >= 1000
	}
	switch tranType(t) {
	case 104, 106, 113, 117, 118, 119:
		return true
	}
	return false
}

// runChatE2E drives the same kind of history through real connections: handleNewConnection, the
// connection's own transaction loop and processOutbox (one goroutine per outgoing transaction).
func runChatE2E(c *Case) {
	r := c.R
	ts, err := newTS(TSOpt{Accounts: c12Accounts()})
	if err != nil {
		panic(err)
	}
	defer ts.Close()
	var clients []*e2eClient
	var evs []string
	var chats []uint32
	req := uint32(1000)
	live := func() []*e2eClient {
		var l []*e2eClient
		for _, x := range clients {
			if x.live {
				l = append(l, x)
			}
		}
		return l
	}
	fail := func(key, what string) { c.Violation(key, what) }
	login := func() bool {
		m := r.Pick(1, 3, 5, 7, 7, 7, 8, 6, 2, 0)
		name := textBytes(r, r.Pick(1, 4, 9, 13, 14, 20))
		icon := be16(r.Intn(500))
		wc, err := loginWire(ts, fmt.Sprintf("10.1.0.%d:5000", len(clients)+1), fmt.Sprintf("u%d", m), "",
			fld(hotline.FieldUserName, name), fld(hotline.FieldUserIconID, icon))
		if err != nil {
			c.Note("login_error", err.Error())
			c.Disagree("e2e-login", "a valid login over an in-memory connection did not succeed")
			return false
		}
		// the account name replaces the requested one unless the account may use any name: none of ours may
		nm := []byte(acctName(m))
		cl := &e2eClient{wc: wc, acct: m, name: nm, live: true, conn: len(clients)}
		// id = what the server registered (the newest entry of the client table)
		l := ts.Srv.ClientMgr.List()
		maxID := 0
		for _, cc := range l {
			if cc.Connection == wc.Conn {
				maxID = int(binary.BigEndian.Uint16(cc.ID[:]))
			}
		}
		cl.id = maxID
		clients = append(clients, cl)
		evs = append(evs, fmt.Sprintf("L %s %s %s %s %s", hx([]byte(fmt.Sprintf("u%d", m))), hx([]byte(acctName(m))), acctAccessHex(m), hx(nm), hx(icon)))
		return true
	}
	// barrier: a keep-alive on the same connection is handled after everything fed before it
	barrier := func(x *e2eClient) bool {
		x.nreq++
		id := 1 + x.nreq // ids below 1000 are the harness's own (login = 1, barriers); requests of the history start at 1001
		x.wc.Conn.Feed(encTran(mkTran(hotline.TranKeepAlive, id)))
		_, ok := x.wc.ReplyTo(id, longWait)
		return ok
	}
	n := 3 + r.Intn(4)
	for i := 0; i < n; i++ {
		if !login() {
			return
		}
	}
	steps := 12 + r.Intn(14)
	for s := 0; s < steps && !c.failed; s++ {
		lv := live()
		if len(lv) < 2 {
			break
		}
		actor := lv[r.Intn(len(lv))]
		req++
		send := func(t hotline.Transaction, wantReply bool) *hotline.Transaction {
			actor.wc.Conn.Feed(encTran(t))
			if wantReply {
				rep, ok := actor.wc.ReplyTo(tranID(&t), longWait)
				if !ok {
					fail("e2e-no-reply", fmt.Sprintf("request type %d got no reply in time", tranType(&t)))
					return nil
				}
				return rep
			}
			if !barrier(actor) {
				fail("e2e-no-reply", "keep-alive after a request got no reply in time")
			}
			return nil
		}
		_, _, open := acctFlags(actor.acct)
		_, canSend, _ := acctFlags(actor.acct)
		op := r.Intn(100)
		switch {
		case op < 8 && len(clients) < 8:
			login()
		case op < 20:
			target := lv[r.Intn(len(lv))]
			rep := send(mkTran(hotline.TranInviteNewChat, req, fld(hotline.FieldUserID, be16(target.id))), true)
			var chat uint32
			if rep != nil && open {
				if d, ok := fieldOf(rep, 114); ok && len(d) == 4 {
					chat = binary.BigEndian.Uint32(d)
					chats = append(chats, chat)
				}
			}
			evs = append(evs, fmt.Sprintf("N %d %d %d %d", actor.id, req, target.id, chat))
		case op < 28 && len(chats) > 0:
			chat := chats[r.Intn(len(chats))]
			target := lv[r.Intn(len(lv))]
			send(mkTran(hotline.TranInviteToChat, req, fld(hotline.FieldUserID, be16(target.id)), chatField(chat)), true)
			evs = append(evs, fmt.Sprintf("I %d %d %d %d", actor.id, req, target.id, chat))
		case op < 45 && len(chats) > 0:
			chat := chats[r.Intn(len(chats))]
			send(mkTran(hotline.TranJoinChat, req, chatField(chat)), true)
			evs = append(evs, fmt.Sprintf("J %d %d %d", actor.id, req, chat))
		case op < 53 && len(chats) > 0:
			chat := chats[r.Intn(len(chats))]
			send(mkTran(hotline.TranLeaveChat, req, chatField(chat)), false)
			evs = append(evs, fmt.Sprintf("V %d %d %d", actor.id, req, chat))
		case op < 58 && len(chats) > 0:
			chat := chats[r.Intn(len(chats))]
			send(mkTran(hotline.TranRejectChatInvite, req, chatField(chat)), false)
			evs = append(evs, fmt.Sprintf("R %d %d %d", actor.id, req, chat))
		case op < 64 && len(chats) > 0:
			chat := chats[r.Intn(len(chats))]
			subj := textBytes(r, r.Pick(0, 5, 30, 60))
			send(mkTran(hotline.TranSetChatSubject, req, chatField(chat), fld(hotline.FieldChatSubject, subj)), false)
			evs = append(evs, fmt.Sprintf("S %d %d %d %s", actor.id, req, chat, hx(subj)))
		default:
			msg := c12Msg(r, r.Chance(8))
			fields := []hotline.Field{fld(hotline.FieldData, msg)}
			optTok := "none"
			if r.Chance(30) {
				fields = append(fields, fld(hotline.FieldChatOptions, []byte{0, 1}))
				optTok = "0001"
			}
			chatTok := "-"
			if len(chats) > 0 && r.Chance(55) {
				chat := chats[r.Intn(len(chats))]
				fields = append(fields, chatField(chat))
				chatTok = fmt.Sprint(chat)
			}
			send(mkTran(hotline.TranChatSend, req, fields...), !canSend)
			evs = append(evs, fmt.Sprintf("M %d %d %s %s %s", actor.id, req, chatTok, optTok, hx(msg)))
		}
	}
	// quiescence: ask the model what every connection must have received, wait for it, then look for extras
	ans := c.O.Ask("c12inbox " + strings.Join(evs, " "))
	want := map[int][]string{}
	if ans != "" {
		for _, part := range strings.Split(ans, " | ") {
			kv := strings.SplitN(part, ">", 2)
			if len(kv) != 2 {
				continue
			}
			var k int
			fmt.Sscan(kv[0], &k)
			if kv[1] != "." {
				want[k] = strings.Split(kv[1], ";")
			}
		}
	}
	collect := func(x *e2eClient) ([]string, error, []byte) {
		_, trans, rest, err := x.wc.Received()
		var got []string
		for i := range trans {
			if c12Relevant(&trans[i]) {
				t := trans[i]
				binary.BigEndian.PutUint16(t.ClientID[:], uint16(x.id))
				got = append(got, outStr(t))
			}
		}
		return got, err, rest
	}
	waitFor(longWait, func() bool {
		for _, x := range clients {
			got, _, _ := collect(x)
			if len(got) < len(want[x.conn]) {
				return false
			}
		}
		return true
	})
	time.Sleep(15 * time.Millisecond)
	for _, x := range clients {
		got, err, rest := collect(x)
		if err != nil || len(rest) != 0 {
			c.Note("frame_error", fmt.Sprint(err))
			fail("e2e-stream-unframed", "the byte stream written to a client is not a sequence of whole transactions")
		}
		c.Note("history", clip(strings.Join(evs, " ")))
		c.Corr(fmt.Sprintf("e2e-inbox"), sortedJoin(got), sortedJoin(want[x.conn]), true)
	}
	for _, x := range clients {
		x.wc.Conn.EOF()
	}
	for _, x := range clients {
		x.wc.WaitDone(longWait)
	}
	if len(chats) > 0 {
		c.Nontrivial("e2e " + strings.Join(evs, " "))
	}
	c.Dist("e2e/run")
}

// runStaleMember judges what fix 7d7f993 repaired: a member disconnects (its entry stays in the member map), the
// 16-bit id space wraps and its id is handed to a newcomer who never joined.  The newcomer must receive nothing of that
// chat (lines, subject changes, join / leave / decline notices); the remaining members still receive everything, each
// exactly once; after a join the newcomer is a member like anybody else.
func runStaleMember(c *Case) {
	r := c.R
	ts, err := newTS(TSOpt{Direct: true, Accounts: c12Accounts()})
	if err != nil {
		panic(err)
	}
	defer ts.Close()
	mgr := ts.Srv.ClientMgr.(*hotline.MemClientMgr)
	idOf := func(cc *hotline.ClientConn) int { return int(binary.BigEndian.Uint16(cc.ID[:])) }
	call := func(cc *hotline.ClientConn, t hotline.Transaction) []hotline.Transaction {
		res, queued, p := callSync(ts, cc, t)
		if p != nil {
			c.Note("panic", fmt.Sprint(p))
			c.Violation("chat-handler-panic", "a chat handler panicked on a well-formed request")
		}
		return append(queued, res...)
	}
	// members: alice (creator), bob (will leave the server), carol (stays)
	alice, _ := ts.DirectClient("u7", []byte("alice"), "10.0.9.1:1")
	bob, _ := ts.DirectClient("u7", []byte("bob"), "10.0.9.2:1")
	carol, _ := ts.DirectClient("u7", []byte("carol"), "10.0.9.3:1")
	var chat []byte
	for _, t := range call(alice, mkTran(hotline.TranInviteNewChat, 1001, fld(hotline.FieldUserID, bob.ID[:]))) {
		if t.IsReply == 1 {
			chat, _ = fieldOf(&t, 114)
		}
	}
	if len(chat) != 4 {
		c.Disagree("stale-member-setup", "could not create a chat")
		return
	}
	call(bob, mkTran(hotline.TranJoinChat, 1002, fld(hotline.FieldChatID, chat)))
	call(carol, mkTran(hotline.TranJoinChat, 1003, fld(hotline.FieldChatID, chat)))
	bobID := idOf(bob)
	disconnectSync(ts, bob)
	// "65 534 connections later": the counter comes round and bob's id is the first free one
	mgr.VerifSetNextClientID(uint32(65535 + 65536*r.Intn(3)))
	newcomer, _ := ts.DirectClient(fmt.Sprintf("u%d", r.Pick(1, 3, 7)), []byte("newcomer"), "10.0.9.4:1")
	reissued := idOf(newcomer) == bobID
	c.Note("departed_member_id", bobID)
	c.Note("newcomer_id", idOf(newcomer))
	members := map[*hotline.ClientConn]bool{alice: true, carol: true}
	req := uint32(1100)
	// judge one request: every output of the chat reaches exactly the current members, once; the newcomer nothing
	judge := func(what string, outs []hotline.Transaction, ty int, exclude *hotline.ClientConn) {
		got := map[*hotline.ClientConn]int{}
		for i := range outs {
			t := &outs[i]
			if t.IsReply == 1 || tranType(t) != ty {
				continue
			}
			if cc := ts.Srv.ClientMgr.Get(t.ClientID); cc != nil {
				got[cc]++
			}
		}
		for cc, n := range got {
			if !members[cc] {
				c.Note("request", what)
				c.Note("outputs", clip(outsStr(outs)))
				c.Violation("stale-member-receives-chat-traffic", fmt.Sprintf("%s of a private chat was delivered (%d×) to user %q (id %d), who never joined it: the id was held earlier by a member who has disconnected", what, n, cc.UserName, idOf(cc)))
				return
			}
		}
		for cc := range members {
			want := 1
			if cc == exclude {
				want = 0
			}
			if got[cc] != want {
				c.Note("request", what)
				c.Note("outputs", clip(outsStr(outs)))
				c.Violation("member-misses-chat-traffic", fmt.Sprintf("%s: member %q received it %d times, expected %d", what, cc.UserName, got[cc], want))
				return
			}
		}
	}
	steps := 4 + r.Intn(6)
	for i := 0; i < steps && !c.failed; i++ {
		req++
		switch r.Intn(6) {
		case 0, 1:
			sender := []*hotline.ClientConn{alice, carol, newcomer}[r.Intn(3)]
			if !sender.Authorize(hotline.AccessSendChat) {
				continue
			}
			judge("a chat line", call(sender, mkTran(hotline.TranChatSend, req, fld(hotline.FieldData, textBytes(r, r.Intn(30))), fld(hotline.FieldChatID, chat))), 106, nil)
		case 2:
			judge("a subject change", call(carol, mkTran(hotline.TranSetChatSubject, req, fld(hotline.FieldChatID, chat), fld(hotline.FieldChatSubject, textBytes(r, 8)))), 119, nil)
		case 3:
			judge("a decline notice", call(newcomer, mkTran(hotline.TranRejectChatInvite, req, fld(hotline.FieldChatID, chat))), 106, nil)
		case 4:
			// somebody else joins: the notice goes to the members only
			d, _ := ts.DirectClient("u7", []byte("dave"), fmt.Sprintf("10.0.9.%d:1", 10+i))
			judge("a join notice", call(d, mkTran(hotline.TranJoinChat, req, fld(hotline.FieldChatID, chat))), 117, nil)
			members[d] = true
		default:
			// a member leaves the chat: notice to the remaining members
			if len(members) > 1 && members[carol] {
				delete(members, carol)
				judge("a leave notice", call(carol, mkTran(hotline.TranLeaveChat, req, fld(hotline.FieldChatID, chat))), 118, nil)
			}
		}
	}
	if !c.failed && r.Chance(60) {
		// the newcomer joins after all: from now on it is a member
		req++
		judge("a join notice", call(newcomer, mkTran(hotline.TranJoinChat, req, fld(hotline.FieldChatID, chat))), 117, nil)
		members[newcomer] = true
		req++
		judge("a chat line", call(alice, mkTran(hotline.TranChatSend, req, fld(hotline.FieldData, []byte("welcome")), fld(hotline.FieldChatID, chat))), 106, nil)
	}
	c.Dist(fmt.Sprintf("stale-member/id-reissued=%v", reissued))
	c.Nontrivial(fmt.Sprintf("stale %d %d %d", bobID, idOf(newcomer), r.Intn(1<<30)))
}

// c12ExtraFamilies: families registered by the other c12_*.go files.
var c12ExtraFamilies []*Family

func init() {
	props["C12"] = func(x *Ctx) {
		x.rule = "histories of login / disconnect / invite-to-new-chat / invite / join / leave / decline / set-subject / send (public, private, emote, odd option values) and account edits (an administrator's TranSetUser flipping read-chat / send-chat / open-chat of an account, the disconnect-user bit untouched in 85 % of them; audiences are then judged by the account's current access) by 2-8 clients drawn from 9 accounts covering every combination of read-chat, send-chat and open-chat (plus an administrator); names and messages are arbitrary byte strings (ASCII, Mac-Roman, valid UTF-8 of width 2-4, truncated / overlong / surrogate sequences, NUL, CR) with lengths biased to 0,1,12..15 and 8150..9000; chat ids are the ones the server drew. Every handler result is compared with the Lean model's output for the same history and judged directly (audience computed from the membership implied by the history; text by a reference formatter). stale-member: a member disconnects, the id counter is moved past the wrap so that a newcomer is handed its id, then lines / subject / decline / join / leave traffic of that chat is judged (members exactly once, newcomer nothing, until it joins). chat-stalled-reader: 4-7 clients over real connections and the real processOutbox; after 4-9 events in which everybody reads (chats are built with the future non-readers in them) one or two clients stop reading — every Write to their connection blocks from the 1st, 2nd or 4th write on — while the others go on for 10-23 events (lines, subjects, joins, leaves, declines, invitations also to the non-readers, logins, departures); the reading clients' inboxes are judged while the others are blocked, the non-readers' after they were released. chat-e2e-burst: 6-10 clients registered on in-memory connections as handleNewConnection registers them after a login (two senders who may do everything, the rest drawn from readers, members-to-be and accounts that may not read chat), a private chat some of them join, then one or (50 %) two senders put 100-220 (+30-110) requests BACK TO BACK into ClientConn.handleTransaction without waiting — public lines 65 %, private-chat lines 27 %, subject changes 8 %, every line carrying its own serial number — followed by a leave and a join; all of it through handler -> Server.outbox -> the real processOutbox (one goroutine per transaction) -> sendTransaction; at quiescence (waited for by the total number of deliveries, never by time) every connection's inbox must be, as a multiset, exactly what the model's chatInboxes says (each transaction once, nothing foreign). non-trivial = the history contains a public line with both a reader and a non-reader connected, or a private line / notice with both a connected member and a connected non-member; (chat-stalled-reader: during the stall at least one chat transaction was addressed to a blocked connection and one to a reading connection, and at least one write blocked); distinct = distinct event lists"
		x.assume = []string{
			"a single net.Conn.Write is atomic (end-to-end runs use an in-memory connection with that behaviour)",
			"histories are sequential (one request is handled at a time); concurrent schedules are C14's subject",
			"id reuse after the 16-bit id space wraps is emulated by moving the id counter (test hook) instead of making 65 535 connections",
		}
		x.Add(&Family{Name: "gofmt", Quick: 4000, Thor: 100000, Run: func(c *Case) {
			r := c.R
			name := c12Name(r)
			if len(name) > 200 {
				name = name[:200]
			}
			got := []byte(fmt.Sprintf("%13.13s", name))
			ref := pad13Ref(name)
			model := c.Ask("pad13", name)
			c.Note("name", hx(name))
			c.Corr("fmt-%13.13s-vs-model", hx(got), model, false)
			if string(got) != string(ref) {
				c.Disagree("fmt-%13.13s-vs-reference", "the harness's reference formatter differs from fmt.Sprintf")
			}
			msg := c12Msg(r, r.Chance(5))
			emote := r.Bool()
			var goText string
			if emote {
				goText = fmt.Sprintf("\r*** %s %s", name, msg)
			} else {
				goText = fmt.Sprintf("\r%13.13s:  %s", name, msg)
			}
			if len(goText) > 8192 {
				goText = goText[:8192]
			}
			em := "0"
			if emote {
				em = "1"
			}
			c.Corr("chat-text-vs-model", hx([]byte(goText)), c.AskS("chattext", hx(name), em, hx(msg)), false)
			if len(name) > 0 {
				c.Nontrivial(string(name) + "|" + string(msg))
			}
			c.Dist(fmt.Sprintf("gofmt/runes<=13:%v", len(got) == len(ref) && len(name) <= 13))
		}})
		x.Add(&Family{Name: "chat-history", Quick: 3000, Thor: 40000, Run: runChatHistory})
		x.Add(&Family{Name: "chat-e2e", Quick: 16, Thor: 400, Run: runChatE2E})
		x.Add(&Family{Name: "stale-member", Quick: 60, Thor: 1500, Run: runStaleMember})
		// wave d: one or two members of the audience stop reading (every Write to them blocks) — c12_stall.go
		x.Add(&Family{Name: "chat-stalled-reader", Quick: 40, Thor: 600, Run: runChatStalled})
		// wave e: bursts of 100+ back-to-back requests through the real dispatcher to 6..10 connections — c12_burst.go
		for _, f := range c12ExtraFamilies {
			x.Add(f)
		}
	}
}
