//go:build c01

package main

// Single-file downloads as the server really frames them, for plain files AND for aliases (made by the real
// Make-Alias handler; also aliases of aliases): control request → reply (transfer size, file size) → the real
// handleFileTransfer → flattened file object, data fork, resource fork part.  Judge: every size that announces
// bytes agrees with the bytes that really follow on the stream —
//   * the INFO size field leads to the DATA fork header,
//   * (whole-file download) the DATA fork size = the number of data bytes that follow = the length of the file
//     that is streamed, and those bytes are the file,
//   * reply field 207 (file size) = the data bytes that follow the header, field 108 (transfer size) = header +
//     data + stored resource fork bytes,
//   * the MACR fork header announces exactly the resource fork bytes that end the stream.
// Correspondence: reply sizes and the whole stream with AliasNS.download (Lean), which resolves the alias chain.

import (
	"bytes"
	"encoding/binary"
	"fmt"
	"io"
	"os"
	"path/filepath"
	"strings"
	"sync"
	"time"

	"github.com/jhalter/mobius/hotline"
)

// c01PathField encodes a slash-separated directory as the wire file path (count, then 0 0 len name per item).
func c01PathField(dir string) []byte {
	if dir == "" {
		return nil
	}
	items := strings.Split(dir, "/")
	b := be16(len(items))
	for _, it := range items {
		b = append(b, 0, 0, byte(len(it)))
		b = append(b, it...)
	}
	return b
}

// recConn: the transfer connection of a download — the preamble to read, every byte written recorded.
type recConn struct {
	mu sync.Mutex
	in *bytes.Reader
	w  []byte
}

func (c *recConn) Read(p []byte) (int, error) {
	c.mu.Lock()
	defer c.mu.Unlock()
	return c.in.Read(p)
}
func (c *recConn) Write(p []byte) (int, error) {
	c.mu.Lock()
	defer c.mu.Unlock()
	c.w = append(c.w, p...)
	return len(p), nil
}
func (c *recConn) Written() []byte {
	c.mu.Lock()
	defer c.mu.Unlock()
	return append([]byte{}, c.w...)
}

type c01Entry struct {
	dir, name string
	data      []byte // the bytes a download of this entry must deliver (the resolved file's)
	rsrc      []byte // stored resource fork NEXT TO THIS ENTRY
	depth     int    // 0 = plain file, n = alias chain of length n
}

// c01MakeAlias asks the real handler for an alias of dir/name in newDir.
func c01MakeAlias(ts *TS, cc *hotline.ClientConn, dir, name, newDir string) bool {
	fs := []hotline.Field{fld(hotline.FieldFileName, []byte(name))}
	if dir != "" {
		fs = append(fs, fld(hotline.FieldFilePath, c01PathField(dir)))
	}
	if newDir != "" {
		fs = append(fs, fld(hotline.FieldFileNewPath, c01PathField(newDir)))
	}
	res, _, pan := ts.Call(cc, mkTran(hotline.TranMakeFileAlias, 9, fs...))
	return pan == nil && len(res) == 1 && res[0].ErrorCode == [4]byte{}
}

func init() {
	c01Extra = append(c01Extra, func(x *Ctx) {
		x.Add(&Family{Name: "download-framing", Quick: 40, Thor: 1200, Run: downloadFramingFamily})
	})
}

func downloadFramingFamily(c *Case) {
	r := c.R
	ts, err := newTS(TSOpt{Direct: true})
	if err != nil {
		c.Disagree("fixture", err.Error())
		return
	}
	defer ts.Close()
	dirs := []string{"", "a", "b", "a/deep"}
	for _, d := range dirs {
		os.MkdirAll(filepath.Join(ts.Root, d), 0755)
	}
	var entries []c01Entry
	nFiles := 2 + r.Intn(3)
	for i := 0; i < nFiles; i++ {
		e := c01Entry{dir: dirs[r.Intn(len(dirs))], name: fmt.Sprintf("f%d%s", i, pickStrC01(r, ".txt", ".zip", "", ".jpg", ".dat"))}
		e.data = r.Bytes(r.Pick(0, 1, 16, 100, 1000, 5000, 40000))
		os.WriteFile(filepath.Join(ts.Root, e.dir, e.name), e.data, 0644)
		if r.Chance(25) {
			e.rsrc = r.Bytes(1 + r.Intn(300))
			os.WriteFile(filepath.Join(ts.Root, e.dir, ".rsrc_"+e.name), e.rsrc, 0644)
		}
		entries = append(entries, e)
	}
	cc, _ := ts.DirectClient("admin", []byte("a"), "10.0.0.9:1234")
	// aliases through the real handler (an alias keeps the name: it must go to another folder)
	nAlias := r.Pick(0, 1, 2, 2, 3)
	for k := 0; k < nAlias; k++ {
		src := entries[r.Intn(len(entries))]
		if len(entries) > nFiles && r.Chance(50) {
			src = entries[nFiles+r.Intn(len(entries)-nFiles)] // an alias of an alias
		}
		dst := dirs[r.Intn(len(dirs))]
		taken := false
		for _, e := range entries {
			if e.dir == dst && e.name == src.name {
				taken = true
			}
		}
		if taken {
			continue
		}
		if !c01MakeAlias(ts, cc, src.dir, src.name, dst) {
			c.Disagree("make-alias", "the make-alias request was refused")
			return
		}
		entries = append(entries, c01Entry{dir: dst, name: src.name, data: src.data, depth: src.depth + 1})
	}
	type dl struct {
		e        c01Entry
		off      int // -1 = whole file
		ref      [4]byte
		xfer, fs int
		conn     *recConn
	}
	var dls []*dl
	order := r.Intn(len(entries))
	for k := 0; k < len(entries) && k < 6; k++ {
		e := entries[(order+k)%len(entries)]
		d := &dl{e: e, off: -1}
		fs := []hotline.Field{fld(hotline.FieldFileName, []byte(e.name))}
		if e.dir != "" {
			fs = append(fs, fld(hotline.FieldFilePath, c01PathField(e.dir)))
		}
		if r.Chance(30) {
			d.off = r.Intn(len(e.data) + 1)
			frd := hotline.NewFileResumeData([]hotline.ForkInfoList{*hotline.NewForkInfoList(be32(d.off))})
			b, _ := frd.BinaryMarshal()
			fs = append(fs, fld(hotline.FieldFileResumeData, b))
		}
		res, _, pan := ts.Call(cc, mkTran(hotline.TranDownloadFile, uint32(100+k), fs...))
		if pan != nil || len(res) != 1 || res[0].ErrorCode != [4]byte{} {
			c.Note("entry", e.dir+"/"+e.name)
			c.Note("alias_depth", e.depth)
			c.Disagree("download-request", fmt.Sprint("download request refused / panic: ", pan))
			return
		}
		rf := res[0].GetField(hotline.FieldRefNum).Data
		xs := res[0].GetField(hotline.FieldTransferSize).Data
		fsz := res[0].GetField(hotline.FieldFileSize).Data
		if len(rf) != 4 || len(xs) != 4 || len(fsz) != 4 {
			c.Violation("download-reply-fields", "download reply lacks the 4-byte reference number / transfer size / file size")
			return
		}
		copy(d.ref[:], rf)
		d.xfer = int(binary.BigEndian.Uint32(xs))
		d.fs = int(binary.BigEndian.Uint32(fsz))
		pre := append(append([]byte("HTXF"), rf...), 0, 0, 0, 0, 0, 0, 0, 0)
		d.conn = &recConn{in: bytes.NewReader(pre)}
		dls = append(dls, d)
	}
	// the transfers run concurrently (the handler sleeps 3 s after each); finished = the transfer is deregistered
	for _, d := range dls {
		d := d
		go func() {
			defer func() { recover() }()
			_ = ts.Srv.VerifHandleFileTransfer(d.conn, "10.0.0.9:1235")
		}()
	}
	for _, d := range dls {
		d := d
		if !waitFor(90*time.Second, func() bool { return ts.Srv.FileTransferMgr.Get(d.ref) == nil }) {
			c.Dist("download-framing/stalled")
			return
		}
	}
	for _, d := range dls {
		s := d.conn.Written()
		e := d.e
		kind := "file"
		if e.depth > 0 {
			kind = fmt.Sprintf("alias-depth-%d", min(e.depth, 3))
		}
		if d.off >= 0 {
			kind += "/resume"
		}
		c.Dist("download-framing/" + kind)
		note := func() {
			c.Note("entry", e.dir+"/"+e.name)
			c.Note("alias_depth", e.depth)
			c.Note("resume_offset", d.off)
			c.Note("file_bytes", len(e.data))
			c.Note("stored_rsrc_bytes", len(e.rsrc))
			c.Note("reply_transfer_size", d.xfer)
			c.Note("reply_file_size", d.fs)
			c.Note("stream_bytes", len(s))
			c.Note("stream_head", short(s))
		}
		if len(s) < 56 || string(s[:4]) != "FILP" || string(s[24:28]) != "INFO" {
			note()
			c.Violation("download-header", "the download stream does not start with a flattened file header")
			return
		}
		infoLen := int(binary.BigEndian.Uint32(s[36:40]))
		if len(s) < 56+infoLen || string(s[40+infoLen:44+infoLen]) != "DATA" {
			note()
			c.Violation("download-header", "the INFO size field does not lead to the DATA fork header")
			return
		}
		dsz := int(binary.BigEndian.Uint32(s[52+infoLen : 56+infoLen]))
		body := s[56+infoLen:]
		off := max(d.off, 0)
		want := e.data[off:]
		var trail []byte
		if d.off < 0 {
			trail = append(append([]byte("MACR"), 0, 0, 0, 0, 0, 0, 0, 0), be32(len(e.rsrc))...)
		}
		trail = append(trail, e.rsrc...)
		c.Note("data_fork_size_field", dsz)
		switch {
		case d.off < 0 && dsz != len(want):
			note()
			c.Violation("download-size-prefix", "the DATA fork size in the flattened file header is not the number of data bytes that follow it")
			return
		case d.fs != len(want):
			note()
			c.Violation("download-size-prefix", "the file size announced in the download reply is not the number of data bytes that follow the header")
			return
		case d.xfer != 56+infoLen+len(want)+len(e.rsrc):
			note()
			c.Violation("download-size-prefix", "the transfer size announced in the download reply is not header + data + stored resource fork")
			return
		case !bytes.Equal(body, append(append([]byte{}, want...), trail...)):
			note()
			c.Note("bytes_after_header", len(body))
			c.Note("expected_after_header", len(want)+len(trail))
			c.Violation("download-size-prefix", "the bytes after the flattened file header are not the announced data fork followed by the resource fork part")
			return
		}
		// correspondence with the model: the namespace with its alias chain, name / type / creator / dates as the header shows them
		info := s[40 : 40+infoLen]
		if infoLen >= 72 {
			rs := "none"
			if e.rsrc != nil {
				rs = hx(e.rsrc)
			}
			m := c.O.Ask(fmt.Sprintf("aliasdl %d %d %s %s %s %s %s %s", e.depth, d.off, hx([]byte(e.name)), hx(info[4:8]), hx(info[8:12]), hx(info[52:60]), hx(e.data), rs))
			impl := fmt.Sprintf("ok %d %d %s", d.xfer, d.fs, hx(s))
			c.Corr("AliasNS.download", impl, m, false)
		}
		if e.depth > 0 {
			c.Nontrivial(fmt.Sprintf("%s|%d|%d|%x", e.name, e.depth, d.off, fnv64(e.data)))
		}
	}
	c.Sample(map[string]any{"family": "download-framing", "entries": len(entries), "downloads": len(dls)})
}

func pickStrC01(r *RNG, xs ...string) string { return xs[r.Intn(len(xs))] }

var _ = io.EOF
