//go:build c01

package main

// The send path: the real Server.sendTransaction (called directly, and through the real processOutbox) against
// connections that record every Write call and make scripted ones FAIL (error after 0 bytes, error after a few
// bytes = short write / broken pipe), followed by further transactions to the same and to other clients.
//
// Judge (C01: every serialised transaction is emitted in exactly the Hotline layout, every prefix equal to the
// bytes that follow — no matter what was sent, or failed to be sent, before):
//   * the bytes offered to the addressee's connection for one send are exactly the reference layout of THAT
//     transaction (Lean `Transaction.encode`), a failed write offers no more than that layout, and nothing is
//     written to any other connection;
//   * the stream accepted by a client none of whose writes failed re-frames (independent parser) into exactly the
//     transactions addressed to it, in order.
// Correspondence: the whole list of Write calls with SendPath.run, the received stream with SendPath.received.

import (
	"bytes"
	"encoding/binary"
	"errors"
	"fmt"
	"strings"
	"sync"
	"time"

	"github.com/jhalter/mobius/hotline"
)

type sendCall struct {
	client  int
	bytes   []byte
	outcome int // -1 ok, k = failed after k bytes
}

type sendLog struct {
	mu    sync.Mutex
	cond  *sync.Cond
	calls []sendCall
}

// faultConn is a client's connection on the server side: Write calls follow a script.
type faultConn struct {
	log    *sendLog
	client int
	script []int // per Write call on this connection: -1 ok, k >= 0 fail after min(k, len-1) bytes
	n      int
}

func (f *faultConn) Read(p []byte) (int, error) { select {} }
func (f *faultConn) Close() error               { return nil }
func (f *faultConn) Write(p []byte) (int, error) {
	f.log.mu.Lock()
	defer f.log.mu.Unlock()
	o := -1
	if f.n < len(f.script) {
		o = f.script[f.n]
	}
	f.n++
	f.log.calls = append(f.log.calls, sendCall{client: f.client, bytes: append([]byte{}, p...), outcome: o})
	f.log.cond.Broadcast()
	if o < 0 {
		return len(p), nil
	}
	k := o
	if k > len(p)-1 {
		k = len(p) - 1
	}
	if k < 0 {
		k = 0
	}
	return k, errors.New("write: broken pipe")
}

type sendStep struct {
	client     int // index into the clients of the case (the last index is a client that is not registered)
	registered bool
	outcome    int
	t          hotline.Transaction
	ref        []byte // reference layout (Lean)
}

func stepArgs(s sendStep) string {
	reg := 0
	if s.registered {
		reg = 1
	}
	return fmt.Sprintf("%d %d %d %d %d %d %d %d %d%s", s.client, reg, s.outcome, s.t.Flags, s.t.IsReply, binary.BigEndian.Uint16(s.t.Type[:]),
		binary.BigEndian.Uint32(s.t.ID[:]), binary.BigEndian.Uint32(s.t.ErrorCode[:]), len(s.t.Fields), fieldArgs(s.t.Fields))
}

func callsCanon(cs []sendCall) string {
	var sb strings.Builder
	fmt.Fprintf(&sb, "%d", len(cs))
	for _, c := range cs {
		o := "ok"
		if c.outcome >= 0 {
			o = fmt.Sprintf("fail%d", c.outcome)
		}
		fmt.Fprintf(&sb, " %d/%s/%s", c.client, o, hx(c.bytes))
	}
	return sb.String()
}

func init() {
	c01Extra = append(c01Extra, func(x *Ctx) {
		x.Add(&Family{Name: "send-path-faults", Quick: 260, Thor: 6000, Run: sendPathFamily})
	})
}

func sendPathFamily(c *Case) {
	r := c.R
	nClients := 2 + r.Intn(3)
	nSteps := 4 + r.Intn(20)
	// which clients have a faulty connection (client 0 never fails)
	faulty := make([]bool, nClients)
	for i := 1; i < nClients; i++ {
		faulty[i] = r.Chance(60)
	}
	var steps []sendStep
	for i := 0; i < nSteps; i++ {
		var s sendStep
		s.client = r.Intn(nClients + 1)
		if r.Chance(12) {
			s.client = nClients // not registered
		}
		s.registered = s.client < nClients
		s.outcome = -1
		if s.registered && faulty[s.client] && r.Chance(45) {
			s.outcome = r.Pick(0, 0, 1, 7, 19, 20, 21, 22, 23, 40, r.Intn(300), 100000)
		}
		fs := genFields(r, r.Pick(0, 40, 400, 3000, 40000))
		s.t = hotline.Transaction{Flags: byte(r.Pick(0, 0, 0, r.Intn(256))), IsReply: byte(r.Pick(0, 1)), Fields: fs}
		binary.BigEndian.PutUint16(s.t.Type[:], uint16(r.Pick(106, 104, 301, 302, 355, 0, r.Intn(65536))))
		binary.BigEndian.PutUint32(s.t.ID[:], uint32(r.U64()))
		binary.BigEndian.PutUint32(s.t.ErrorCode[:], uint32(r.Pick(0, 0, 1)))
		line := fmt.Sprintf("tran %d %d %d %d %d%s", s.t.Flags, s.t.IsReply, binary.BigEndian.Uint16(s.t.Type[:]),
			binary.BigEndian.Uint32(s.t.ID[:]), binary.BigEndian.Uint32(s.t.ErrorCode[:]), fieldArgs(fs))
		s.ref = unhx(c.O.Ask(line))
		steps = append(steps, s)
	}
	// every history has a failed write that is followed by a send to a registered client (the send path keeps
	// process-wide state in some implementations: a case must show the effect of its OWN fault to be replayable)
	k := r.Intn(nSteps / 2)
	steps[k].client, steps[k].registered = 1, true
	steps[k].outcome = r.Pick(0, 1, 7, 20, 22, 40, 100000)
	last := &steps[nSteps-1]
	last.client, last.registered, last.outcome = r.Intn(nClients), true, -1
	if r.Chance(50) {
		last.client = 1
	}
	var hist strings.Builder
	failsBeforeLaterSend := false
	seenFail := false
	for i, s := range steps {
		if i > 0 {
			hist.WriteByte(' ')
		}
		hist.WriteString(stepArgs(s))
		if seenFail && s.registered {
			failsBeforeLaterSend = true
		}
		if s.registered && s.outcome >= 0 {
			seenFail = true
		}
	}
	c.Note("clients", nClients)
	c.Note("steps", len(steps))
	var shape []string
	for _, s := range steps {
		shape = append(shape, fmt.Sprintf("%d:%d:%d", s.client, s.outcome, len(s.ref)))
	}
	c.Note("history(client:outcome:layout-bytes)", strings.Join(shape, " "))
	modelCalls := c.O.Ask("sendrun " + hist.String())

	for _, mode := range []string{"direct", "outbox"} {
		srv, err := hotline.NewServer(hotline.WithLogger(discardLogger))
		if err != nil {
			c.Disagree("fixture", err.Error())
			return
		}
		lg := &sendLog{}
		lg.cond = sync.NewCond(&lg.mu)
		conns := make([]*faultConn, nClients)
		ids := make([]hotline.ClientID, nClients+1)
		for i := 0; i < nClients; i++ {
			conns[i] = &faultConn{log: lg, client: i}
			for _, s := range steps {
				if s.client == i {
					conns[i].script = append(conns[i].script, s.outcome)
				}
			}
			cc := srv.NewClientConn(conns[i], fmt.Sprintf("10.0.0.%d:1000", i+1))
			ids[i] = cc.ID
		}
		ids[nClients] = hotline.ClientID{0xEE, 0xEE} // nobody
		if mode == "outbox" {
			go srv.VerifProcessOutbox()
		}
		stalled := false
		for i, s := range steps {
			t := s.t
			t.ClientID = ids[s.client]
			t.Fields = append([]hotline.Field{}, s.t.Fields...)
			lg.mu.Lock()
			before := len(lg.calls)
			lg.mu.Unlock()
			if mode == "direct" {
				func() {
					defer func() {
						if p := recover(); p != nil {
							c.Note("step", i)
							c.Note("panic", fmt.Sprint(p))
							c.Violation("send-path-panic", "sendTransaction panicked")
						}
					}()
					_ = srv.VerifSendTransaction(t)
				}()
			} else {
				select {
				case srv.VerifOutbox() <- t:
				case <-time.After(60 * time.Second):
					stalled = true
				}
				if !stalled && s.registered {
					// event-driven: wait until the addressee's connection has been offered something for this send
					done := make(chan struct{})
					go func() {
						lg.mu.Lock()
						for len(lg.calls) == before {
							lg.cond.Wait()
						}
						lg.mu.Unlock()
						close(done)
					}()
					select {
					case <-done:
					case <-time.After(60 * time.Second):
						stalled = true
						lg.mu.Lock()
						lg.calls = append(lg.calls, sendCall{client: -1})
						lg.cond.Broadcast()
						lg.mu.Unlock()
					}
				}
			}
			if stalled {
				c.Dist("send-path/" + mode + "-stalled")
				break
			}
			if c.failed {
				return
			}
			lg.mu.Lock()
			made := append([]sendCall{}, lg.calls[before:]...)
			lg.mu.Unlock()
			var offered []byte
			allOK := true
			for _, m := range made {
				if m.client != s.client {
					c.Note("mode", mode)
					c.Note("step", i)
					c.Note("addressee", s.client)
					c.Note("written_to", m.client)
					c.Violation("send-path-misrouted", "sending a transaction to one client wrote bytes to another client's connection")
					return
				}
				offered = append(offered, m.bytes...)
				if m.outcome >= 0 {
					allOK = false
				}
			}
			if !s.registered {
				continue
			}
			bad := ""
			switch {
			case allOK && !bytes.Equal(offered, s.ref):
				bad = "the bytes written for a transaction are not its wire layout"
			case !allOK && (len(offered) > len(s.ref) || !bytes.Equal(offered, s.ref[:len(offered)])):
				bad = "the bytes offered for a transaction (write failed) are not its wire layout"
			}
			if bad != "" {
				c.Note("mode", mode)
				c.Note("step", i)
				c.Note("addressee", s.client)
				c.Note("write_calls_for_this_send", len(made))
				c.Note("layout_bytes", len(s.ref))
				c.Note("offered_bytes", len(offered))
				c.Note("layout", short(s.ref))
				c.Note("offered", short(offered))
				if seenFailBefore(steps, i) {
					c.Note("earlier_failed_write", true)
					c.Violation("send-path-residue", bad+" after an earlier write had failed")
				} else {
					c.Violation("send-path-layout", bad)
				}
				return
			}
		}
		if stalled {
			continue
		}
		lg.mu.Lock()
		all := append([]sendCall{}, lg.calls...)
		lg.mu.Unlock()
		c.Corr("SendPath.run/"+mode, callsCanon(all), modelCalls, false)
		// healthy clients: the accepted stream re-frames into exactly the transactions addressed to them
		for cl := 0; cl < nClients; cl++ {
			healthy := true
			var want []string
			for _, s := range steps {
				if s.client == cl {
					if s.outcome >= 0 {
						healthy = false
					}
					tt := s.t
					want = append(want, tranCanon(&tt))
				}
			}
			if !healthy {
				continue
			}
			var stream []byte
			for _, m := range all {
				if m.client == cl {
					stream = append(stream, m.bytes...)
				}
			}
			ts, rest, err := splitTransactions(stream)
			var got []string
			for i := range ts {
				got = append(got, tranCanon(&ts[i]))
			}
			if err != nil || len(rest) != 0 || strings.Join(got, "\n") != strings.Join(want, "\n") {
				c.Note("mode", mode)
				c.Note("client", cl)
				c.Note("reframe_error", fmt.Sprint(err))
				c.Note("stream", short(stream))
				c.Violation("send-path-stream", "the stream a healthy client received does not re-frame into the transactions sent to it")
				return
			}
			if mode == "direct" && cl == 0 {
				m := c.O.Ask(fmt.Sprintf("sendrecv %d %s", cl, hist.String()))
				impl := hx(stream) + " ok " + fmt.Sprint(len(ts))
				if !strings.HasPrefix(m, impl) {
					c.Note("impl", clip(impl))
					c.Note("model", clip(m))
					c.Disagree("SendPath.received", "model and implementation differ on what a healthy client received")
				}
			}
		}
	}
	if failsBeforeLaterSend {
		c.Nontrivial(hist.String())
		c.Dist("send-path/fault-then-later-send")
	} else {
		c.Dist("send-path/no-fault-before-a-send")
	}
	c.Sample(map[string]any{"family": "send-path-faults", "clients": nClients, "sends": len(steps), "failed_writes": countFails(steps)})
}

func seenFailBefore(steps []sendStep, i int) bool {
	for _, s := range steps[:i] {
		if s.registered && s.outcome >= 0 {
			return true
		}
	}
	return false
}

func countFails(steps []sendStep) int {
	n := 0
	for _, s := range steps {
		if s.registered && s.outcome >= 0 {
			n++
		}
	}
	return n
}
