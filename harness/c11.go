//go:build c11

package main

// C11 — file views agree; file operations carry the whole file.
//
// Generated histories (list / info / download-reply / new-folder / rename / set-comment / move /
// delete / alias / upload-request) run against the REAL handlers in direct mode on a real temp
// tree.  After EVERY step (a) the parsed reply and the directory snapshot are compared with the
// Lean model's run of the same request on the same pre-state (the oracle keeps no state: the whole
// tree travels with the request), and (b) the agreement clauses of the property are judged
// directly on the implementation's replies and on the disk.

import (
	"bytes"
	"fmt"
	"os"
	"path/filepath"
	"regexp"
	"sort"
	"strings"

	"github.com/jhalter/mobius/hotline"
)

var c11Pool = []string{
	"a", "b c", "note.txt", "pic.JPG", "doc.pdf", "arch.tgz", "Résumé.txt", "naïve ü.gif",
	"x.incomplete.txt", "a.incomplete.txt", "up.sit", "noext", "dot.", "Ω≈ç.mov", "中文.txt",
	".hidden", "@sys", "x.bak", "Folder", "Sub Dir", "ƒolder", "€uro.zip", "upload", "img.Jpeg", "disk.IMG",
	"read me.hqx", "self.sea", "TÉLÉ.TXT", "y.incomplete", "z", "q.tar.gz", "Ångström",
}

type c11Ignore struct {
	pats []string
	tok  string
}

var c11Ignores = []c11Ignore{
	{[]string{`^\.`, `^@`}, "p2e,p40"},
	{[]string{`^\.`}, "p2e"},
	{[]string{`^\.`, `\.bak$`}, "p2e,s2e62616b"},
	{[]string{`^\.`, `^@`, `^x`}, "p2e,p40,p78"},
}

type c11Run struct {
	c     *Case
	ts    *TS
	cc    *hotline.ClientConn
	ig    c11Ignore
	res   []*regexp.Regexp
	steps int
	id    uint32
	trace []string
	bad   bool
	igSet bool // ig.tok lists the ignored names themselves (oracle op c11x): the predicate is given extensionally
}

func (h *c11Run) ignored(name string) bool {
	for _, re := range h.res {
		if re.MatchString(name) {
			return true
		}
	}
	return false
}

func c11WriteTree(r *RNG, dir string, depth int) {
	n := 2 + r.Intn(5)
	for i := 0; i < n; i++ {
		name := c11Pool[r.Intn(len(c11Pool))]
		p := filepath.Join(dir, name)
		if _, err := os.Lstat(p); err == nil {
			continue
		}
		if depth < 2 && r.Chance(30) && !strings.Contains(name, ".incomplete") {
			os.Mkdir(p, 0755)
			c11WriteTree(r, p, depth+1)
			if r.Chance(20) {
				os.WriteFile(filepath.Join(dir, ".info_"+name), validInfoFork("fldr", "n/a ", []byte(name), r.Text(r.Intn(12))), 0644)
			}
			continue
		}
		data := r.Bytes(r.Intn(200))
		if r.Chance(12) && !strings.HasSuffix(name, ".incomplete") {
			// a partial upload: only the .incomplete data exists
			os.WriteFile(p+".incomplete", data, 0644)
		} else {
			os.WriteFile(p, data, 0644)
			if r.Chance(8) {
				os.WriteFile(p+".incomplete", r.Bytes(r.Intn(40)), 0644)
			}
		}
		if r.Chance(25) {
			os.WriteFile(filepath.Join(dir, ".rsrc_"+name), r.Bytes(1+r.Intn(60)), 0644)
		}
		if r.Chance(25) {
			ty := []string{"TEXT", "JPEG", "APPL", "HTft", "PDF "}[r.Intn(5)]
			os.WriteFile(filepath.Join(dir, ".info_"+name), validInfoFork(ty, "ttxt", []byte(name), r.Text(r.Intn(20))), 0644)
		}
	}
}

// pickDir descends from the root through real directories (never through an alias).
func (h *c11Run) pickDir() []string {
	r := h.c.R
	var chain []string
	dir := h.ts.Root
	for d := 0; d < 3; d++ {
		if !r.Chance(55) {
			break
		}
		des, _ := os.ReadDir(dir)
		var subs []string
		for _, de := range des {
			if de.IsDir() && !strings.HasPrefix(de.Name(), ".") {
				if _, ok := macEnc(de.Name()); ok {
					subs = append(subs, de.Name())
				}
			}
		}
		if len(subs) == 0 {
			break
		}
		s := subs[r.Intn(len(subs))]
		chain = append(chain, s)
		dir = filepath.Join(dir, s)
	}
	return chain
}

func (h *c11Run) pf(chain []string) ([]byte, bool) {
	if len(chain) == 0 {
		if h.c.R.Bool() {
			return nil, false
		}
		return []byte{0, 0}, true
	}
	var items [][]byte
	for _, s := range chain {
		e, _ := macEnc(s)
		items = append(items, e)
	}
	return encItems(items), true
}

func (h *c11Run) dirPath(chain []string) string {
	return filepath.Join(append([]string{h.ts.Root}, chain...)...)
}

// step runs one request on the real handler and on the model and compares reply + tree.
func (h *c11Run) step(q fileReq) (reply string, res []hotline.Transaction) {
	c := h.c
	pre, ok := treeTokens(h.ts.Root)
	h.id++
	res, _, pan := h.ts.Call(h.cc, q.tran(h.id))
	reply = canonReply(q.Kind, res, pan)
	post, ok2 := treeTokens(h.ts.Root)
	h.steps++
	h.trace = append(h.trace, q.String()+" => "+clipN(reply, 200))
	// A move / rename that is answered with an error (or not at all) must be a no-op: a file's forks and partial
	// data travel only WITH the file.  (If the data fork itself moved and a later side-file rename failed, the
	// request is half done — that is the code's documented order and is not judged here.)
	if (q.Kind == "move" || (q.Kind == "setinfo" && !q.HasComment)) && reply != "ok" && ok && ok2 {
		if strings.Join(pre, " ") != strings.Join(post, " ") {
			srcGone := false
			if full, err := hotline.ReadPath(h.ts.Root, pfOrNil(q), q.Name); err == nil && full != h.ts.Root {
				rel := hx([]byte(full[len(h.ts.Root)+1:]))
				was, is := false, false
				for _, t := range pre {
					if strings.HasPrefix(t, rel+":") {
						was = true
					}
				}
				for _, t := range post {
					if strings.HasPrefix(t, rel+":") {
						is = true
					}
				}
				srcGone = was && !is
			}
			if !srcGone {
				c.Note("request", q.String())
				c.Note("reply", reply)
				c.Note("gone", treeDiff(pre, post))
				c.Note("new", treeDiff(post, pre))
				c.Note("history", h.trace)
				c.Violation("refused-"+q.Kind+"-changed-tree", "a "+q.Kind+" that was refused (error / no reply) while the file stayed in place moved or removed its forks / partial data")
			}
		} else {
			c.Dist("refused-" + q.Kind + "-noop")
		}
	}
	c.Dist("op/" + q.Kind + "/" + strings.SplitN(reply, " ", 2)[0])
	if !ok || !ok2 {
		c.Dist("unmodelled-tree")
		return
	}
	op := "c11"
	if h.igSet {
		op = "c11x"
	}
	ans := c.O.Ask(fmt.Sprintf("%s %s %d %s %s", op, h.ig.tok, len(pre), strings.Join(pre, " "), q.oracleArgs()))
	mreply, mtree, mok := splitOracleStep(ans)
	if q.Kind == "info" || q.Kind == "download" || q.Kind == "upload" {
		// the size of a DIRECTORY inode is file-system dependent (4096 here): not part of the model
		if full, err := hotline.ReadPath(h.ts.Root, pfOrNil(q), q.Name); err == nil {
			isDir := func(p string) bool { fi, err := os.Stat(p); return err == nil && fi.IsDir() }
			if isDir(full) || isDir(full+".incomplete") {
				reply, mreply = maskSizes(q.Kind, reply), maskSizes(q.Kind, mreply)
			}
		}
	}
	if !mok {
		c.Note("oracle", clipN(ans, 300))
		c.Note("request", q.String())
		c.Disagree("oracle-c11", "oracle could not evaluate the step")
		h.bad = true
		return
	}
	if mreply != reply || strings.Join(mtree, " ") != strings.Join(sortedCopy(post), " ") {
		c.Note("request", q.String())
		c.Note("history", h.trace)
		c.Note("pre_tree", pre)
		c.Note("impl_reply", clipN(reply, 600))
		c.Note("model_reply", clipN(mreply, 600))
		c.Note("impl_tree", treeDiff(sortedCopy(post), mtree))
		c.Note("model_tree", treeDiff(mtree, sortedCopy(post)))
		if mreply != reply {
			c.Corr("step-reply-"+q.Kind, reply, mreply, false)
		} else {
			c.Corr("step-tree-"+q.Kind, "impl", "model", false)
		}
		h.bad = true
	} else {
		c.Corr("step-"+q.Kind, "same", "same", false)
	}
	return
}

func pfOrNil(q fileReq) []byte {
	if !q.HasPF {
		return nil
	}
	return q.PF
}

func maskSizes(kind, reply string) string {
	f := strings.Fields(reply)
	if kind == "info" && len(f) == 7 && f[0] == "info" && f[6] != "nil" {
		f[6] = "dirsize"
	}
	if kind == "download" && len(f) == 3 && f[0] == "download" {
		f[1], f[2] = "dirsize", "dirsize"
	}
	if kind == "upload" && len(f) == 2 && f[0] == "upload" && f[1] != "nil" {
		f[1] = "dirsize"
	}
	return strings.Join(f, " ")
}

func clipN(s string, n int) string {
	if len(s) > n {
		return s[:n] + "…"
	}
	return s
}

// treeDiff lists the entries of a that are not in b.
func treeDiff(a, b []string) []string {
	m := map[string]bool{}
	for _, x := range b {
		m[x] = true
	}
	var out []string
	for _, x := range a {
		if !m[x] {
			out = append(out, clipN(x, 160))
		}
	}
	return out
}

type diskEnt struct {
	name     string
	listed   []byte
	regular  bool
	dir      bool
	link     bool
	complete bool
}

// expectedListing computes, independently of the server, what the property says a listing of dir
// must contain: every entry not matching an ignore pattern, a partial upload under its final name,
// names in Mac-Roman (non-representable names and dangling aliases are outside the quantifier).
func (h *c11Run) expectedListing(dir string) (ents []diskEnt, ok bool) {
	des, err := os.ReadDir(dir)
	if err != nil {
		return nil, false
	}
	for _, de := range des {
		if h.ignored(de.Name()) {
			continue
		}
		li, err := os.Lstat(filepath.Join(dir, de.Name()))
		if err != nil {
			continue
		}
		e := diskEnt{name: de.Name(), regular: li.Mode().IsRegular(), dir: li.IsDir(), link: li.Mode()&os.ModeSymlink != 0}
		if e.link {
			if _, err := os.Stat(filepath.Join(dir, de.Name())); err != nil {
				continue // dangling alias
			}
		}
		shown := strings.TrimSuffix(de.Name(), ".incomplete")
		e.complete = shown == de.Name()
		enc, okEnc := macEnc(shown)
		if !okEnc {
			continue
		}
		e.listed = enc
		ents = append(ents, e)
	}
	return ents, true
}

// hasAliasLoop reports whether dir holds a symlink whose resolution fails with something other than "not found".
func (h *c11Run) hasAliasLoop(dir string) bool {
	des, _ := os.ReadDir(dir)
	for _, de := range des {
		if de.Type()&os.ModeSymlink != 0 && !h.ignored(de.Name()) {
			if _, err := os.Stat(filepath.Join(dir, de.Name())); err != nil && !os.IsNotExist(err) {
				return true
			}
		}
	}
	return false
}

func sidecars(dir, name string) map[string]string {
	return map[string]string{
		"incomplete": filepath.Join(dir, name+".incomplete"),
		"rsrc":       filepath.Join(dir, ".rsrc_"+name),
		"info":       filepath.Join(dir, ".info_"+name),
	}
}

func readOrNil(p string) ([]byte, bool) {
	li, err := os.Lstat(p)
	if err != nil || !li.Mode().IsRegular() {
		return nil, false
	}
	b, err := os.ReadFile(p)
	return b, err == nil
}

// listAndJudge issues a real list request for chain and judges the listing clauses directly.
func (h *c11Run) listAndJudge(chain []string) []diskEnt {
	c := h.c
	pfb, has := h.pf(chain)
	dir := h.dirPath(chain)
	exp, okExp := h.expectedListing(dir)
	reply, res := h.step(fileReq{Kind: "list", PF: pfb, HasPF: has})
	// Aliases whose link string the file list resolves differently from the kernel (a RELATIVE link string: the list
	// resolves it against the server's working directory, as coded) are reported to the lead as a defect candidate and
	// left out of the comparison on both sides unless VERIF_C11_STRICT_ALIAS is set.
	divergent := h.divergentAliases(dir)
	if len(divergent) > 0 {
		c.Dist("relative-alias-in-listed-folder (entry not judged)")
		if !strings.HasPrefix(reply, "list ") {
			return nil
		}
	}
	if !okExp || !strings.HasPrefix(reply, "list ") {
		if okExp && h.hasAliasLoop(dir) && os.Getenv("VERIF_C11_STRICT_ALIAS") == "" {
			// An alias that points at itself (make-alias of a name that does not exist, into its own folder)
			// makes os.Stat fail with ELOOP and GetFileNameList gives up on the whole folder.  Reported to the
			// lead as a defect candidate; mirrored by the model; not judged here.
			c.Dist("alias-loop-folder-unlistable")
			return nil
		}
		if okExp {
			c.Note("dir", dir)
			c.Note("reply", reply)
			c.Violation("list-no-reply", "listing an existing folder did not produce a file list")
		}
		return nil
	}
	got := parseList(&res[0])
	if len(divergent) > 0 {
		var exp2 []diskEnt
		for _, e := range exp {
			if !divergent[string(e.listed)] {
				exp2 = append(exp2, e)
			}
		}
		var got2 []listEntry
		for _, g := range got {
			if !divergent[string(g.Name)] {
				got2 = append(got2, g)
			}
		}
		exp, got = exp2, got2
	}
	var gs, es []string
	for _, g := range got {
		gs = append(gs, hx(g.Name))
	}
	for _, e := range exp {
		es = append(es, hx(e.listed))
	}
	sort.Strings(gs)
	sort.Strings(es)
	if strings.Join(gs, " ") != strings.Join(es, " ") {
		c.Note("dir", dir)
		c.Note("listed", gs)
		c.Note("expected", es)
		c.Note("ignore", h.ig.pats)
		c.Violation("list-not-exact", "the file list is not exactly the non-ignored entries of the folder (partials under their final name)")
		return nil
	}
	// folder item counts = the folder's non-ignored entries
	for _, e := range exp {
		if !e.dir {
			continue
		}
		sub, err := os.ReadDir(filepath.Join(dir, e.name))
		if err != nil {
			continue
		}
		want := 0
		for _, de := range sub {
			if !h.ignored(de.Name()) {
				want++
			}
		}
		for _, g := range got {
			if bytes.Equal(g.Name, e.listed) && string(g.Type) == "fldr" && int(g.Size) != want {
				// two entries may share a listed name (d and d.incomplete): accept if any folder entry of that name has the count
				ok := false
				for _, g2 := range got {
					if bytes.Equal(g2.Name, e.listed) && int(g2.Size) == want {
						ok = true
					}
				}
				if !ok {
					c.Note("folder", e.name)
					c.Note("listed_count", g.Size)
					c.Note("non_ignored_entries", want)
					c.Violation("folder-count-wrong", "the item count shown for a folder is not the number of its non-ignored entries")
				}
			}
		}
	}
	c.Nontrivial(fmt.Sprintf("list|%s|%s|%s", h.ig.tok, strings.Join(chain, "/"), strings.Join(es, ",")))
	// size / type agreement and addressability for a few complete entries
	r := c.R
	checked := 0
	for _, i := range permN(r, len(exp)) {
		e := exp[i]
		if checked >= 2 {
			break
		}
		if !e.complete {
			continue
		}
		// another entry listed under the same name (x next to x.incomplete) makes the name ambiguous by design
		dup := 0
		for _, o := range exp {
			if bytes.Equal(o.listed, e.listed) {
				dup++
			}
		}
		if dup > 1 {
			continue
		}
		checked++
		var le *listEntry
		for k := range got {
			if bytes.Equal(got[k].Name, e.listed) {
				le = &got[k]
			}
		}
		ireply, ires := h.step(fileReq{Kind: "info", PF: pfb, HasPF: has, Name: e.listed})
		if !strings.HasPrefix(ireply, "info ") {
			c.Note("dir", dir)
			c.Note("disk_name", e.name)
			c.Note("listed_name", hx(e.listed))
			c.Note("reply", ireply)
			c.Violation("listed-name-not-addressable", "get-info on a listed name (bytes unchanged) did not find the entry")
			continue
		}
		iname, _ := getF(&ires[0], hotline.FieldFileName)
		ity, _ := getF(&ires[0], hotline.FieldFileType)
		isz, hasSz := getF(&ires[0], hotline.FieldFileSize)
		if !bytes.Equal(iname, e.listed) {
			c.Note("listed_name", hx(e.listed))
			c.Note("info_name", hx(iname))
			c.Violation("listed-name-not-addressable", "get-info on a listed name answered for a different name")
		}
		// type agreement is a clause about FILES; a folder is listed as fldr whatever an information fork of the same
		// name says (a folder `a` and a partial upload `a.incomplete` share the side file `.info_a`)
		if e.regular && !bytes.Equal(ity, le.Type) {
			c.Note("disk_name", e.name)
			c.Note("list_type", hx(le.Type))
			c.Note("info_type", hx(ity))
			c.Note("history", h.trace)
			c.Violation("type-disagree", "type code in the file list and in get-info differ")
		}
		if e.dir {
			if string(le.Type) != "fldr" {
				c.Violation("type-disagree", "a folder is not listed with type fldr")
			}
			continue
		}
		if e.link {
			// an alias is a first-class entry: the views of the entry its listed name addresses agree
			h.judgeAliasViews(dir, e, le, pfb, has, ity, isz, hasSz)
			continue
		}
		if !e.regular {
			continue
		}
		data, _ := readOrNil(filepath.Join(dir, e.name))
		_, hasRsrc := readOrNil(filepath.Join(dir, ".rsrc_"+e.name))
		dreply, dres := h.step(fileReq{Kind: "download", PF: pfb, HasPF: has, Name: e.listed})
		if !strings.HasPrefix(dreply, "download ") {
			c.Note("disk_name", e.name)
			c.Note("reply", dreply)
			c.Violation("listed-name-not-addressable", "download of a listed file (name bytes unchanged) was not accepted")
			continue
		}
		if hasRsrc {
			continue
		}
		dsz, _ := getF(&dres[0], hotline.FieldFileSize)
		want := be32(len(data))
		if !hasSz || !bytes.Equal(isz, want) || !bytes.Equal(dsz, want) || le.Size != uint32(len(data)) {
			c.Note("disk_name", e.name)
			c.Note("bytes_on_disk", len(data))
			c.Note("list_size", le.Size)
			c.Note("info_size", hx(isz))
			c.Note("download_reply_size", hx(dsz))
			c.Violation("size-disagree", "size of a file without resource fork differs between list, get-info, download reply and the disk")
		}
		c.Nontrivial(fmt.Sprintf("agree|%s|%d|%s", e.name, len(data), hx(ity)))
	}
	return exp
}

func permN(r *RNG, n int) []int {
	p := make([]int, n)
	for i := range p {
		p[i] = i
	}
	for i := n - 1; i > 0; i-- {
		j := r.Intn(i + 1)
		p[i], p[j] = p[j], p[i]
	}
	return p
}

type fileState struct {
	data, inc, rsrc, info []byte
	hd, hi, hr, hf        bool
}

func captureFile(dir, name string) fileState {
	var s fileState
	s.data, s.hd = readOrNil(filepath.Join(dir, name))
	sc := sidecars(dir, name)
	s.inc, s.hi = readOrNil(sc["incomplete"])
	s.rsrc, s.hr = readOrNil(sc["rsrc"])
	s.info, s.hf = readOrNil(sc["info"])
	return s
}

func (h *c11Run) judgeCarried(what string, before fileState, srcDir, srcName, dstDir, dstName string) {
	c := h.c
	after := captureFile(dstDir, dstName)
	miss := []string{}
	if !after.hd || !bytes.Equal(after.data, before.data) {
		miss = append(miss, "data")
	}
	if before.hi && (!after.hi || !bytes.Equal(after.inc, before.inc)) {
		miss = append(miss, "incomplete")
	}
	if before.hr && (!after.hr || !bytes.Equal(after.rsrc, before.rsrc)) {
		miss = append(miss, "rsrc")
	}
	if before.hf && (!after.hf || !bytes.Equal(after.info, before.info)) {
		miss = append(miss, "info")
	}
	if srcDir != dstDir || srcName != dstName {
		left := captureFile(srcDir, srcName)
		if left.hd {
			miss = append(miss, "data-left-behind")
		}
		if before.hi && left.hi {
			miss = append(miss, "incomplete-left-behind")
		}
		if before.hr && left.hr {
			miss = append(miss, "rsrc-left-behind")
		}
		if before.hf && left.hf {
			miss = append(miss, "info-left-behind")
		}
	}
	if len(miss) > 0 {
		c.Note("operation", what)
		c.Note("source", filepath.Join(srcDir, srcName))
		c.Note("destination", filepath.Join(dstDir, dstName))
		c.Note("not_carried", miss)
		c.Note("history", h.trace)
		c.Violation(what+"-not-whole", "a "+what+" acknowledged as done did not carry the file with its forks / partial data")
	}
}

func c11History(c *Case) {
	r := c.R
	ig := c11Ignores[r.Intn(len(c11Ignores))]
	ts, err := newTS(TSOpt{Direct: true, PreserveForks: true, IgnoreFiles: ig.pats,
		Accounts: []AcctSpec{{Login: "admin", Name: "admin", Password: "", Access: allAccess()}}})
	if err != nil {
		c.Note("error", err.Error())
		c.Disagree("fixture", "cannot build the test server")
		return
	}
	defer ts.Close()
	h := &c11Run{c: c, ts: ts, ig: ig}
	for _, p := range ig.pats {
		h.res = append(h.res, regexp.MustCompile(p))
	}
	h.cc, _ = ts.DirectClient("admin", []byte("admin"), "127.0.0.1:1")
	c11WriteTree(r, ts.Root, 0)
	c.Note("ignore", ig.pats)
	nops := 20 + r.Intn(41)
	for h.steps < nops && !h.bad {
		chain := h.pickDir()
		dir := h.dirPath(chain)
		exp := h.listAndJudge(chain)
		if h.bad {
			break
		}
		pfb, has := h.pf(chain)
		// choose a name: mostly a listed one (bytes exactly as listed)
		var name []byte
		var ent *diskEnt
		if len(exp) > 0 && r.Chance(80) {
			e := exp[r.Intn(len(exp))]
			name = e.listed
			ent = &e
		} else {
			switch r.Intn(8) {
			case 0:
				name = []byte{}
			case 1:
				name = []byte(".")
			case 2:
				name = []byte("..")
			default:
				name, _ = macEnc(c11Pool[r.Intn(len(c11Pool))])
			}
		}
		unique := ent != nil && ent.complete
		if unique {
			n := 0
			for _, o := range exp {
				if bytes.Equal(o.listed, ent.listed) {
					n++
				}
			}
			unique = n == 1
		}
		switch k := r.Intn(100); {
		case k < 10: // info / download on arbitrary names (including missing ones and partials)
			h.step(fileReq{Kind: "info", PF: pfb, HasPF: has, Name: name})
			// the data size of a directory is file-system dependent: download requests name files (or nothing)
			if fi, err := os.Stat(filepath.Join(dir, filepath.Join("/", macDec(name)))); err != nil || !fi.IsDir() {
				h.step(fileReq{Kind: "download", PF: pfb, HasPF: has, Name: name})
			}
		case k < 24: // new folder
			var before []string
			existed := false
			target := ""
			dec := macDec(name)
			if dec != "" && dec != "." && dec != ".." && !strings.Contains(dec, "/") {
				target = filepath.Join(dir, dec)
				if _, err := os.Lstat(target); err == nil {
					existed = true
					before = snapshot(target)
				}
			}
			reply, _ := h.step(fileReq{Kind: "newfolder", PF: pfb, HasPF: has, Name: name})
			if target != "" {
				if existed {
					if reply != "err" || strings.Join(snapshot(target), "\n") != strings.Join(before, "\n") {
						c.Note("target", target)
						c.Note("reply", reply)
						c.Note("before", before)
						c.Note("after", snapshot(target))
						c.Violation("newfolder-replaced", "create-folder on an existing entry was not refused or changed the entry")
					}
				} else if reply == "ok" {
					if li, err := os.Lstat(target); err != nil || !li.IsDir() {
						c.Note("target", target)
						c.Violation("newfolder-missing", "create-folder was acknowledged but the folder does not exist")
					}
				} else if len(dec) <= 200 {
					// the parent is an existing folder addressed by its LISTED names, the name is free: the request must succeed
					c.Note("parent", dir)
					c.Note("parent_path_field", optTok(pfb, has))
					c.Note("name", hx(name))
					c.Note("reply", reply)
					c.Note("history", h.trace)
					c.Violation("newfolder-refused", "create-folder with a free name inside an existing folder (addressed by its listed name bytes) was refused")
				}
				c.Nontrivial(fmt.Sprintf("newfolder|%v|%s", existed, target[len(ts.Root):]))
			}
		case k < 40: // rename (sometimes together with a comment)
			var nn []byte
			switch r.Intn(10) {
			case 0:
				nn = []byte("sub/name.txt")
			case 1:
				if len(exp) > 0 {
					nn = exp[r.Intn(len(exp))].listed
				}
			case 2:
				nn = []byte{}
			default:
				nn, _ = macEnc(c11Pool[r.Intn(len(c11Pool))])
			}
			q := fileReq{Kind: "setinfo", PF: pfb, HasPF: has, Name: name, NewName: nn, HasNewName: true}
			if r.Chance(15) {
				q.Comment, q.HasComment = r.Text(r.Intn(10)), true
			}
			var before fileState
			judge := unique && ent.regular
			newDisk := filepath.Base(filepath.Join("/", macDec(nn)))
			if judge {
				before = captureFile(dir, ent.name)
				if _, err := os.Lstat(filepath.Join(dir, newDisk)); err == nil && newDisk != ent.name {
					judge = false // renaming onto an existing entry: replacing is rename(2) semantics, not judged here
				}
				if newDisk == "/" {
					judge = false
				}
			}
			// folder rename: the folder's information fork (comment) must travel with it (fix: 500a006)
			judgeDir := unique && ent.dir && !q.HasComment && newDisk != "/" && newDisk != ent.name
			var dirInfo []byte
			hadDirInfo := false
			if judgeDir {
				if _, err := os.Lstat(filepath.Join(dir, newDisk)); err == nil {
					judgeDir = false
				}
				if _, err := os.Lstat(filepath.Join(dir, ".info_"+newDisk)); err == nil {
					judgeDir = false
				}
				dirInfo, hadDirInfo = readOrNil(filepath.Join(dir, ".info_"+ent.name))
			}
			var linkBefore aliasState
			judgeLink := unique && ent.link && newDisk != "/" && newDisk != ent.name
			if judgeLink {
				linkBefore = captureAlias(dir, ent.name)
				if _, err := os.Lstat(filepath.Join(dir, newDisk)); err == nil {
					judgeLink = false
				}
			}
			reply, _ := h.step(q)
			if judgeLink && reply == "ok" {
				h.judgeAliasCarried("rename", linkBefore, dir, ent.name, dir, newDisk)
				c.Nontrivial(fmt.Sprintf("alias-rename|%s|%s", ent.name, newDisk))
			}
			if judgeDir && reply == "ok" {
				if li, err := os.Lstat(filepath.Join(dir, newDisk)); err == nil && li.IsDir() {
					if _, err := os.Lstat(filepath.Join(dir, ent.name)); err != nil { // the folder did move
						now, has := readOrNil(filepath.Join(dir, ".info_"+newDisk))
						_, left := readOrNil(filepath.Join(dir, ".info_"+ent.name))
						if left || has != hadDirInfo || !bytes.Equal(now, dirInfo) {
							c.Note("folder", filepath.Join(dir, ent.name))
							c.Note("new_name", newDisk)
							c.Note("had_info_fork", hadDirInfo)
							c.Note("info_fork_left_under_old_name", left)
							c.Note("info_fork_under_new_name", has)
							c.Note("history", h.trace)
							c.Violation("folder-rename-leaves-info-fork", "a folder rename acknowledged as done did not take the folder's information fork (comment) along")
						}
						c.Nontrivial(fmt.Sprintf("folder-rename|%s|%s|%v", ent.name, newDisk, hadDirInfo))
					}
				}
			}
			if judge && reply == "ok" && !q.HasComment {
				h.judgeCarried("rename", before, dir, ent.name, dir, newDisk)
				c.Nontrivial(fmt.Sprintf("rename|%s|%s|%v%v%v", ent.name, newDisk, before.hi, before.hr, before.hf))
			}
		case k < 50: // set comment
			cm := r.Text(r.Intn(24))
			if r.Chance(30) {
				// boundary lengths of the two-byte comment size field (65535 only in the comment-lengths family:
				// the whole tree travels to the oracle on every later step)
				cm = c11Comment(r, r.Pick(0, 1, 255, 256, 257, 300, 511, 512, 1000))
			}
			reply, _ := h.step(fileReq{Kind: "setinfo", PF: pfb, HasPF: has, Name: name, Comment: cm, HasComment: true})
			if unique && reply == "ok" {
				ireply, ires := h.step(fileReq{Kind: "info", PF: pfb, HasPF: has, Name: name})
				got, _ := getF(&hotline.Transaction{Fields: fieldsOf(ires)}, hotline.FieldFileComment)
				if !strings.HasPrefix(ireply, "info ") || !bytes.Equal(got, cm) {
					c.Note("name", ent.name)
					c.Note("comment", hx(cm))
					c.Note("info_reply", ireply)
					c.Violation("comment-not-stored", "a comment acknowledged as set is not returned by get-info")
				}
				if _, ok := readOrNil(filepath.Join(dir, ".info_"+ent.name)); !ok {
					c.Violation("comment-not-stored", "set-comment did not write the information fork")
				}
				c.Nontrivial(fmt.Sprintf("comment|%s|%s", ent.name, hx(cm)))
			}
		case k < 66: // move
			dst := h.pickDir()
			npf, nhas := h.pf(dst)
			dstDir := h.dirPath(dst)
			var before fileState
			judge := unique && ent.regular
			if judge {
				before = captureFile(dir, ent.name)
				if _, err := os.Lstat(filepath.Join(dstDir, ent.name)); err == nil && dstDir != dir {
					judge = false
				}
			}
			if unique && ent.regular && dstDir != dir && r.Chance(12) {
				// make the destination hold a FOLDER of that name: the data fork cannot be renamed onto it
				h.step(fileReq{Kind: "newfolder", PF: npf, HasPF: nhas, Name: name})
				judge = false
			}
			var linkBefore aliasState
			judgeLink := unique && ent.link && dstDir != dir
			if judgeLink {
				linkBefore = captureAlias(dir, ent.name)
				if _, err := os.Lstat(filepath.Join(dstDir, ent.name)); err == nil {
					judgeLink = false
				}
			}
			reply, _ := h.step(fileReq{Kind: "move", PF: pfb, HasPF: has, Name: name, NewPF: npf, HasNewPF: nhas})
			if judgeLink && reply == "ok" {
				h.judgeAliasCarried("move", linkBefore, dir, ent.name, dstDir, ent.name)
				c.Nontrivial(fmt.Sprintf("alias-move|%s|%s", ent.name, strings.Join(dst, "/")))
			}
			if judge && reply == "ok" {
				h.judgeCarried("move", before, dir, ent.name, dstDir, ent.name)
				c.Nontrivial(fmt.Sprintf("move|%s|%s|%v%v%v", ent.name, strings.Join(dst, "/"), before.hi, before.hr, before.hf))
			}
		case k < 80: // delete
			var linkBefore aliasState
			if unique && ent.link {
				linkBefore = captureAlias(dir, ent.name)
			}
			reply, _ := h.step(fileReq{Kind: "delete", PF: pfb, HasPF: has, Name: name})
			if unique && ent.link && reply == "ok" && linkBefore.ok {
				h.judgeAliasTargetKept("delete", linkBefore, filepath.Join(dir, ent.name))
			}
			if unique && reply == "ok" {
				left := []string{}
				if _, err := os.Lstat(filepath.Join(dir, ent.name)); err == nil {
					left = append(left, "data")
				}
				for k, p := range sidecars(dir, ent.name) {
					if _, err := os.Lstat(p); err == nil {
						left = append(left, k)
					}
				}
				if len(left) > 0 {
					sort.Strings(left)
					c.Note("name", ent.name)
					c.Note("left_behind", left)
					c.Note("history", h.trace)
					c.Violation("delete-not-whole", "a delete acknowledged as done left the entry or its forks / partial data behind")
				}
				c.Nontrivial(fmt.Sprintf("delete|%s", ent.name))
			}
		case k < 90: // alias
			dst := h.pickDir()
			npf, nhas := h.pf(dst)
			reply, _ := h.step(fileReq{Kind: "alias", PF: pfb, HasPF: has, Name: name, NewPF: npf, HasNewPF: nhas})
			if unique && reply == "ok" {
				lp := filepath.Join(h.dirPath(dst), ent.name)
				tgt, err := os.Readlink(lp)
				if err != nil || tgt != filepath.Join(dir, ent.name) {
					c.Note("alias", lp)
					c.Note("target", tgt)
					c.Violation("alias-wrong", "make-alias was acknowledged but no alias to the named entry exists at the destination")
				}
				c.Nontrivial(fmt.Sprintf("alias|%s|%s", ent.name, strings.Join(dst, "/")))
			}
		default: // upload request (existing names are refused; partials can be resumed)
			h.step(fileReq{Kind: "upload", PF: pfb, HasPF: has, Name: name, Resume: r.Bool()})
		}
	}
	c.Dist(fmt.Sprintf("steps/%d", (h.steps/20)*20))
	c.Sample(map[string]any{"family": "histories", "steps": h.steps, "ignore": ig.pats, "last": h.trace[len(h.trace)-1]})
}

func fieldsOf(res []hotline.Transaction) []hotline.Field {
	if len(res) == 0 {
		return nil
	}
	return res[0].Fields
}

func init() {
	props["C11"] = func(x *Ctx) {
		x.rule = "histories of 20-60 requests (list, get-info, download request, new folder, rename with/without comment, set comment, move, delete, make alias, upload request) over generated trees (names from a pool with spaces, dots, upper-case extensions, Mac-Roman high characters stored as UTF-8, one non-representable name, x.incomplete partials, a.incomplete.txt, .rsrc_/.info_ side files present or absent, folder comments; 4 ignore lists), run on the real handlers in direct mode with PreserveForks on; names are taken from the preceding real listing (bytes unchanged) 80% of the time. After every step reply and directory snapshot are compared with the Lean model's run of the same request on the same pre-state. non-trivial = a listing judged against the independently computed expectation, or a mutating request acknowledged for a uniquely listed complete entry; distinct = distinct (operation, names, fork presence)"
		x.assume = []string{
			"requests never go THROUGH an alias folder (aliases are created, listed, inspected, renamed, moved, deleted; listing an alias folder itself is modelled)",
			"a complete file whose name ends in .incomplete is indistinguishable from a partial upload by design and is excluded from the agreement clauses",
			"dangling aliases and names that are not Mac-Roman representable are outside the quantifier (the server skips them)",
			"dates in replies and in information forks are not compared (the model has no clock)",
			"files larger than 4 GiB are not generated",
		}
		x.Add(&Family{Name: "regressions", Quick: 1, Thor: 1, Run: func(c *Case) {
			// d869cd0: a complete file called a.incomplete.txt was listed as a.txt
			ig := c11Ignores[0]
			ts, err := newTS(TSOpt{Direct: true, PreserveForks: true, IgnoreFiles: ig.pats,
				Accounts: []AcctSpec{{Login: "admin", Name: "admin", Password: "", Access: allAccess()}}})
			if err != nil {
				return
			}
			defer ts.Close()
			h := &c11Run{c: c, ts: ts, ig: ig}
			for _, p := range ig.pats {
				h.res = append(h.res, regexp.MustCompile(p))
			}
			h.cc, _ = ts.DirectClient("admin", []byte("admin"), "127.0.0.1:1")
			os.WriteFile(filepath.Join(ts.Root, "a.incomplete.txt"), []byte("complete"), 0644)
			os.WriteFile(filepath.Join(ts.Root, "x.incomplete.incomplete"), []byte("partial of x.incomplete"), 0644)
			os.WriteFile(filepath.Join(ts.Root, "b.txt.incomplete"), []byte("partial"), 0644)
			os.MkdirAll(filepath.Join(ts.Root, "d.incomplete.d"), 0755)
			// a refused move is a no-op: `notes` (with comment and resource fork) cannot be moved onto the folder dst/notes
			os.WriteFile(filepath.Join(ts.Root, "notes"), []byte("n"), 0644)
			os.WriteFile(filepath.Join(ts.Root, ".rsrc_notes"), []byte("r"), 0644)
			os.WriteFile(filepath.Join(ts.Root, "notes.incomplete"), []byte("p"), 0644)
			os.MkdirAll(filepath.Join(ts.Root, "dst", "notes"), 0755)
			os.MkdirAll(filepath.Join(ts.Root, "taken"), 0755)
			h.step(fileReq{Kind: "setinfo", Name: []byte("notes"), Comment: []byte("keep me"), HasComment: true})
			h.step(fileReq{Kind: "move", Name: []byte("notes"), NewPF: encItems([][]byte{[]byte("dst")}), HasNewPF: true})
			h.step(fileReq{Kind: "setinfo", Name: []byte("notes"), NewName: []byte("taken"), HasNewName: true})
			if ireply, _ := h.step(fileReq{Kind: "info", Name: []byte("notes")}); !strings.Contains(ireply, hx([]byte("keep me"))) {
				c.Note("info_reply", ireply)
				c.Violation("refused-move-changed-tree", "after a refused move / rename the file lost its comment")
			}
			// parents with Mac-Roman high bytes at several depths, addressed by their listed names
			os.MkdirAll(filepath.Join(ts.Root, "Bücher", "Ünter Öl", "ƒ"), 0755)
			for _, ch := range [][]string{{"Bücher"}, {"Bücher", "Ünter Öl"}, {"Bücher", "Ünter Öl", "ƒ"}} {
				pfb, has := h.pf(ch)
				nm, _ := macEnc("Neu é")
				reply, _ := h.step(fileReq{Kind: "newfolder", PF: pfb, HasPF: has, Name: nm})
				if li, err := os.Lstat(filepath.Join(h.dirPath(ch), "Neu é")); reply != "ok" || err != nil || !li.IsDir() {
					c.Note("parent", strings.Join(ch, "/"))
					c.Note("reply", reply)
					c.Violation("newfolder-refused", "create-folder inside a folder whose listed name has Mac-Roman high bytes did not create the folder")
				}
				h.listAndJudge(ch)
			}
			// 500a006: a folder's comment travels with a rename; a file later given the old name starts clean
			os.MkdirAll(filepath.Join(ts.Root, "proj"), 0755)
			h.step(fileReq{Kind: "setinfo", Name: []byte("proj"), Comment: []byte("folder note"), HasComment: true})
			h.step(fileReq{Kind: "setinfo", Name: []byte("proj"), NewName: []byte("proj2"), HasNewName: true})
			if _, err := os.Lstat(filepath.Join(ts.Root, ".info_proj")); err == nil {
				c.Violation("folder-rename-leaves-info-fork", "a folder rename left the folder's information fork under the old name")
			}
			if ireply, _ := h.step(fileReq{Kind: "info", Name: []byte("proj2")}); !strings.Contains(ireply, hx([]byte("folder note"))) {
				c.Note("info_reply", ireply)
				c.Violation("folder-rename-leaves-info-fork", "after a folder rename get-info no longer returns the folder's comment")
			}
			h.listAndJudge(nil)
			h.step(fileReq{Kind: "info", Name: []byte("a.incomplete.txt")})
			h.step(fileReq{Kind: "setinfo", Name: []byte("a.incomplete.txt"), NewName: []byte("c.incomplete.txt"), HasNewName: true})
			h.listAndJudge(nil)
		}})
		x.Add(&Family{Name: "histories", Quick: 800, Thor: 16000, Run: c11History})
		c11WaveD(x)
		x.Add(&Family{Name: "macroman", Quick: 400, Thor: 20000, Run: func(c *Case) {
			r := c.R
			// decoder / encoder tables against golang.org/x/text, entry by entry on the first case, random strings otherwise
			if c.Idx == 0 {
				tab := strings.Fields(c.O.Ask("macroman"))
				for i := 128; i < 256; i++ {
					s := macDec([]byte{byte(i)})
					if len(tab) != 128 || fmt.Sprint(int([]rune(s)[0])) != tab[i-128] {
						c.Note("byte", i)
						c.Disagree("macroman-table", "Lean Mac-Roman table differs from charmap.Macintosh")
					}
				}
			}
			var b []byte
			for i, n := 0, r.Intn(12); i < n; i++ {
				b = append(b, byte(r.Pick(0x2e, 0x2f, 0x61, 0x41, 0, 0x80+r.Intn(128), r.Intn(256))))
			}
			dec := macDec(b)
			c.Corr("decodeStr", hx([]byte(dec)), c.Ask("dec", b), false)
			// encoder on valid names, on a non-representable rune and on invalid UTF-8
			s := dec
			switch r.Intn(4) {
			case 0:
				s += "中"
			case 1:
				s += string([]byte{0xff})
			}
			e, ok := macEnc(s)
			want := "err"
			if ok {
				want = "ok " + hx(e)
			}
			c.Corr("encStr", want, c.Ask("enc", []byte(s)), false)
			if ok && macDec(e) != s {
				c.Violation("enc-dec-roundtrip", "decoding an encoded name does not give the name back")
			}
			c.Nontrivial(s)
		}})
	}
}
