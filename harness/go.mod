module github.com/jhalter/mobius/verifharness

go 1.23

require (
	github.com/jhalter/mobius v0.0.0
	golang.org/x/crypto v0.29.0
	golang.org/x/text v0.20.0
	gopkg.in/yaml.v3 v3.0.1
)

require (
	github.com/davecgh/go-spew v1.1.1 // indirect
	github.com/gabriel-vasile/mimetype v1.4.7 // indirect
	github.com/go-playground/locales v0.14.1 // indirect
	github.com/go-playground/universal-translator v0.18.1 // indirect
	github.com/go-playground/validator/v10 v10.23.0 // indirect
	github.com/leodido/go-urn v1.4.0 // indirect
	github.com/pmezard/go-difflib v1.0.0 // indirect
	github.com/stretchr/objx v0.5.2 // indirect
	github.com/stretchr/testify v1.10.0 // indirect
	golang.org/x/net v0.31.0 // indirect
	golang.org/x/sys v0.27.0 // indirect
	golang.org/x/time v0.8.0 // indirect
	gopkg.in/natefinch/lumberjack.v2 v2.2.1 // indirect
)

replace github.com/jhalter/mobius => /repo
