//go:build c03

package main

// C03 — hostile input is contained to the offending connection.
//
// The real server (ListenAndServe: accept loops, per-address limiter, outbox, both ports) runs in a
// CHILD PROCESS so that an unrecovered panic or a Go runtime fatal error terminates the child and
// is observed by the parent as a process exit.  The parent keeps a well-behaved sentinel client
// logged in, throws batches of hostile control and transfer connections from distinct loopback
// source addresses at the server, then checks: the process is alive, the sentinel still gets
// replies, and the user list and the stats counters are what the sentinel alone accounts for
// (the prediction of the Lean containment model: hostile sessions are balanced).

import (
	"bufio"
	"bytes"
	"context"
	"encoding/binary"
	"encoding/json"
	"fmt"
	"io"
	"net"
	"os"
	"os/exec"
	"path/filepath"
	"strings"
	"sync"
	"sync/atomic"
	"syscall"
	"time"

	"github.com/jhalter/mobius/hotline"
)

// ---------------------------------------------------------------- child

func c03Child() {
	port := 0
	fmt.Sscan(os.Getenv("C03_CHILD"), &port)
	power := accessOf()
	for i := 0; i < 41; i++ {
		switch i {
		case hotline.AccessDisconUser, hotline.AccessDeleteUser, hotline.AccessModifyUser, hotline.AccessCannotBeDiscon:
		default:
			power.Set(i)
		}
	}
	ts, err := newTS(TSOpt{NoOutbox: true, PreserveForks: true, BannerFile: true, Board: strings.Repeat("old news ", 4400) + "\r", Agreement: "be nice\r",
		News: "Categories:\n  General:\n    Type: [0, 3]\n    Name: General\n    Articles: {}\n    SubCats: {}\n",
		Accounts: []AcctSpec{
			{Login: "guest", Name: "guest", Password: "", Access: guestAccess()},
			{Login: "admin", Name: "admin", Password: "secret", Access: allAccess()},
			{Login: "power", Name: "power", Password: "pw", Access: power},
			{Login: "kicker", Name: "kicker", Password: "kk", Access: accessOf(hotline.AccessDisconUser, hotline.AccessGetClientInfo, hotline.AccessSendPrivMsg, hotline.AccessOpenChat, hotline.AccessReadChat, hotline.AccessSendChat)},
		}})
	if err != nil {
		fmt.Println("CHILD-ERROR", err)
		os.Exit(3)
	}
	os.WriteFile(filepath.Join(ts.Root, "hello.txt"), bytes.Repeat([]byte("hello "), 500), 0644)
	os.MkdirAll(filepath.Join(ts.Root, "Uploads"), 0755)
	os.MkdirAll(filepath.Join(ts.Root, "dir", "sub"), 0755)
	os.WriteFile(filepath.Join(ts.Root, "dir", "a.txt"), []byte("aaaa"), 0644)
	os.WriteFile(filepath.Join(ts.Root, "dir", "sub", "b.txt"), []byte("bbbbbbbb"), 0644)
	os.WriteFile(filepath.Join(ts.Cfg, "banner.jpg"), []byte("JPEG"), 0644)
	ts.Srv.Port = port
	ts.Srv.NetInterface = "127.0.0.1"
	go func() {
		_ = ts.Srv.ListenAndServe(context.Background())
	}()
	// wait until both ports accept
	ok := waitFor(5*time.Second, func() bool {
		for _, p := range []int{port, port + 1} {
			c, err := net.DialTimeout("tcp", fmt.Sprintf("127.0.0.1:%d", p), 200*time.Millisecond)
			if err != nil {
				return false
			}
			c.Close()
		}
		return true
	})
	if !ok {
		fmt.Println("CHILD-ERROR listen")
		os.Exit(4)
	}
	fmt.Println("READY", port)
	// A monitoring reader, as an operator's dashboard polling the admin API does (GET /api/v1/stats is
	// json.Marshal(Server.CurrentStats())) plus the user registry: it reads the shared server state in short
	// bursts for as long as the server runs, concurrently with every login, logout and transfer.  A reader must
	// never be able to wedge the state the connections update (and vice versa).
	var monPolls atomic.Int64
	go func() {
		for {
			for i := 0; i < 40; i++ {
				st := ts.Srv.CurrentStats()
				if i == 0 {
					_, _ = json.Marshal(st)
				}
				_ = ts.Srv.Stats.Get(hotline.StatCurrentlyConnected)
				_ = ts.Srv.ClientMgr.List()
				monPolls.Add(1)
			}
			time.Sleep(400 * time.Microsecond)
		}
	}()
	in := bufio.NewScanner(os.Stdin)
	for in.Scan() {
		switch strings.TrimSpace(in.Text()) {
		case "stats":
			// computed on its own goroutine with bounded patience: a reader that never returns is reported, not waited for
			ans := make(chan string, 1)
			go func() {
				st := ts.Srv.CurrentStats()
				users := []int{}
				for _, c := range ts.Srv.ClientMgr.List() {
					users = append(users, int(binary.BigEndian.Uint16(c.ID[:])))
				}
				b, _ := json.Marshal(map[string]any{"connected": st["CurrentlyConnected"], "dl": st["DownloadsInProgress"], "ul": st["UploadsInProgress"], "users": users, "monitor_polls": monPolls.Load()})
				ans <- string(b)
			}()
			select {
			case a := <-ans:
				fmt.Println("STATS", a)
			case <-time.After(20 * time.Second):
				fmt.Println("STATS", `{"wedged":true}`)
			}
		case "quit":
			ts.Close()
			os.Exit(0)
		}
	}
	ts.Close()
}

func init() {
	if os.Getenv("C03_CHILD") != "" {
		c03Child()
		os.Exit(0)
	}
}

// ---------------------------------------------------------------- parent side

type childSrv struct {
	cmd     *exec.Cmd
	stdin   io.WriteCloser
	stderr  *bytes.Buffer
	port    int
	exited  chan struct{}
	exitErr error
	mu      sync.Mutex
	lines   chan string // READY / STATS lines
	logMu   sync.Mutex
	log     bytes.Buffer // everything else the child printed (panic stack traces of recovered panics, …)
}

func startChild(port int) (*childSrv, error) {
	self, _ := os.Executable()
	cmd := exec.Command(self)
	cmd.Env = append(os.Environ(), fmt.Sprintf("C03_CHILD=%d", port), "GOTRACEBACK=single")
	stdin, _ := cmd.StdinPipe()
	stdout, _ := cmd.StdoutPipe()
	cs := &childSrv{cmd: cmd, stdin: stdin, stderr: &bytes.Buffer{}, port: port, exited: make(chan struct{}), lines: make(chan string, 16)}
	cmd.Stderr = cs.stderr
	if err := cmd.Start(); err != nil {
		return nil, err
	}
	go func() {
		rd := bufio.NewReaderSize(stdout, 1<<16)
		for {
			l, err := rd.ReadString('\n')
			if strings.HasPrefix(l, "READY") || strings.HasPrefix(l, "STATS ") || strings.HasPrefix(l, "CHILD-ERROR") {
				cs.lines <- l
			} else if l != "" {
				cs.logMu.Lock()
				if cs.log.Len() < 1<<20 {
					cs.log.WriteString(l)
				}
				cs.logMu.Unlock()
			}
			if err != nil {
				break
			}
		}
		cs.exitErr = cmd.Wait()
		close(cs.exited)
	}()
	select {
	case l := <-cs.lines:
		if !strings.HasPrefix(l, "READY") {
			cmd.Process.Kill()
			return nil, fmt.Errorf("child did not start: %q %s", l, tail(cs.stderr.String(), 300))
		}
	case <-cs.exited:
		return nil, fmt.Errorf("child exited at start: %s", tail(cs.stderr.String(), 300))
	case <-time.After(15 * time.Second):
		cmd.Process.Kill()
		return nil, fmt.Errorf("child start timeout")
	}
	return cs, nil
}

func (cs *childSrv) childLog() string {
	cs.logMu.Lock()
	defer cs.logMu.Unlock()
	return cs.log.String()
}

func tail(s string, n int) string {
	if len(s) > n {
		return s[len(s)-n:]
	}
	return s
}

func (cs *childSrv) alive() bool {
	select {
	case <-cs.exited:
		return false
	default:
		return true
	}
}

func (cs *childSrv) stats() (map[string]any, error) {
	cs.mu.Lock()
	defer cs.mu.Unlock()
	if _, err := io.WriteString(cs.stdin, "stats\n"); err != nil {
		return nil, err
	}
	select {
	case l := <-cs.lines:
		if !strings.HasPrefix(l, "STATS ") {
			return nil, fmt.Errorf("bad stats line %q", l)
		}
		var m map[string]any
		err := json.Unmarshal([]byte(strings.TrimPrefix(strings.TrimSpace(l), "STATS ")), &m)
		return m, err
	case <-time.After(40 * time.Second):
		return nil, fmt.Errorf("stats timeout (server state locked?)")
	case <-cs.exited:
		return nil, fmt.Errorf("child exited")
	}
}

func (cs *childSrv) stop() {
	io.WriteString(cs.stdin, "quit\n")
	select {
	case <-cs.exited:
	case <-time.After(3 * time.Second):
		cs.cmd.Process.Kill()
		<-cs.exited
	}
}

func dialFrom(src string, port int) (net.Conn, error) {
	d := net.Dialer{Timeout: 3 * time.Second}
	if src != "" {
		d.LocalAddr = &net.TCPAddr{IP: net.ParseIP(src)}
	}
	return d.Dial("tcp", fmt.Sprintf("127.0.0.1:%d", port))
}

// tcpClient is a minimal well-behaved client over a real socket.
type tcpClient struct {
	c     net.Conn
	mu    sync.Mutex
	buf   []byte
	trans []hotline.Transaction
	dead  bool
	deadErr string
}

func newTCPClient(src string, port int, login, pw string) (*tcpClient, error) {
	c, err := dialFrom(src, port)
	if err != nil {
		return nil, err
	}
	tc := &tcpClient{c: c}
	c.Write(clientHandshake)
	hs := make([]byte, 8)
	c.SetReadDeadline(time.Now().Add(5 * time.Second))
	if _, err := io.ReadFull(c, hs); err != nil {
		c.Close()
		return nil, fmt.Errorf("no handshake reply: %v", err)
	}
	c.SetReadDeadline(time.Time{})
	go tc.reader()
	c.Write(encTran(loginTran(1, login, pw, fld(hotline.FieldUserName, []byte("sentinel")), fld(hotline.FieldUserIconID, []byte{0, 1}))))
	if rep, ok := tc.reply(1, 5*time.Second); !ok || rep.ErrorCode != [4]byte{} {
		c.Close()
		return nil, fmt.Errorf("no login reply / login refused")
	}
	return tc, nil
}

func (tc *tcpClient) reader() {
	b := make([]byte, 65536)
	for {
		n, err := tc.c.Read(b)
		tc.mu.Lock()
		tc.buf = append(tc.buf, b[:n]...)
		for {
			if len(tc.buf) < 20 {
				break
			}
			total := int(binary.BigEndian.Uint32(tc.buf[12:16]))
			if len(tc.buf) < 20+total {
				break
			}
			ts, _, perr := splitTransactions(tc.buf[:20+total])
			if perr == nil {
				tc.trans = append(tc.trans, ts...)
			}
			tc.buf = tc.buf[20+total:]
		}
		if err != nil {
			tc.dead = true
			tc.deadErr = err.Error()
			tc.mu.Unlock()
			return
		}
		tc.mu.Unlock()
	}
}

func (tc *tcpClient) isDead() string {
	tc.mu.Lock()
	defer tc.mu.Unlock()
	s := fmt.Sprintf("dead=%v err=%s received:", tc.dead, tc.deadErr)
	for _, t := range tc.trans {
		s += fmt.Sprintf(" [%d r=%d %s]", binary.BigEndian.Uint16(t.Type[:]), t.IsReply, clip(fieldsCanon(t.Fields))[:min(80, len(clip(fieldsCanon(t.Fields))))])
	}
	return s
}

func (tc *tcpClient) reply(id uint32, d time.Duration) (*hotline.Transaction, bool) {
	var found *hotline.Transaction
	ok := waitFor(d, func() bool {
		tc.mu.Lock()
		defer tc.mu.Unlock()
		for i := range tc.trans {
			if tc.trans[i].IsReply == 1 && binary.BigEndian.Uint32(tc.trans[i].ID[:]) == id {
				found = &tc.trans[i]
				return true
			}
		}
		return tc.dead // no reply will come any more
	})
	return found, ok && found != nil
}

func (tc *tcpClient) request(id uint32, ty hotline.TranType, d time.Duration, fields ...hotline.Field) (*hotline.Transaction, bool) {
	tc.c.Write(encTran(mkTran(ty, id, fields...)))
	return tc.reply(id, d)
}

// ---------------------------------------------------------------- hostile streams

var allTypes = []int{101, 103, 105, 108, 110, 112, 113, 114, 115, 116, 120, 121, 200, 202, 203, 204, 205, 206, 207, 208, 209, 210, 212, 213,
	300, 303, 304, 348, 349, 350, 351, 352, 353, 355, 370, 371, 380, 381, 382, 400, 410, 411, 500, 107, 0, 9999}

var fieldPool = []int{100, 101, 102, 103, 104, 105, 106, 107, 108, 109, 110, 112, 113, 114, 115, 152, 160, 200, 201, 202, 203, 204, 207, 210, 211, 212, 213, 214, 215, 220, 300, 321, 322, 325, 326, 328, 333, 337}

func encPath(items ...string) []byte {
	var b bytes.Buffer
	b.Write(be16(len(items)))
	for _, it := range items {
		b.Write([]byte{0, 0, byte(len(it))})
		b.WriteString(it)
	}
	return b.Bytes()
}

func hostileTransaction(r *RNG) []byte {
	ty := allTypes[r.Intn(len(allTypes))]
	n := r.Pick(0, 1, 2, 3, 4, 6)
	var fs []hotline.Field
	for i := 0; i < n; i++ {
		id := fieldPool[r.Intn(len(fieldPool))]
		var fid [2]byte
		binary.BigEndian.PutUint16(fid[:], uint16(id))
		var data []byte
		if r.Chance(40) {
			data = plausibleField(r, id)
		} else {
			data = hostileFieldBytes(r, id)
		}
		fs = append(fs, fld(fid, data))
	}
	var tt hotline.TranType
	binary.BigEndian.PutUint16(tt[:], uint16(ty))
	t := mkTran(tt, uint32(2+r.Intn(1000)), fs...)
	b := encTran(t)
	if r.Chance(25) {
		b = mutate(r, b)
	}
	return b
}

func hostileFieldBytes(r *RNG, id int) []byte {
	switch r.Intn(7) {
	case 0:
		return []byte{}
	case 1:
		return r.Bytes(1)
	case 2:
		return r.Bytes(2)
	case 3:
		return r.Bytes(4)
	case 4:
		switch r.Intn(4) {
		case 0:
			return encPath("dir", "sub")
		case 1:
			return append(be16(r.Pick(1, 2, 5, 0xffff)), r.Bytes(r.Intn(6))...)
		case 2:
			return encPath(strings.Repeat("x", r.Pick(252, 253, 254, 255)))
		default:
			return encPath("..", "..", "etc")
		}
	case 5:
		return r.Bytes(r.Pick(3, 7, 16, 41, 42, 43, 58, 71, 72, 73, 74))
	default:
		return r.Text(r.Intn(40))
	}
}

// plausibleField gives a well-formed value for the field so that handlers get past decoding.
func plausibleField(r *RNG, id int) []byte {
	switch id {
	case 201, 211:
		return []byte([]string{"hello.txt", "dir", "a.txt", "nope", "", "Uploads", "new" + fmt.Sprint(r.Intn(5))}[r.Intn(7)])
	case 202, 212:
		return [][]byte{nil, encPath("dir"), encPath("dir", "sub"), encPath("Uploads"), encPath("nope")}[r.Intn(5)]
	case 103:
		return be16(r.Pick(0, 1, 2, 3, 999))
	case 114:
		return r.Bytes(4)
	case 325:
		return [][]byte{encPath("General"), encPath("Nope"), encPath("General", "x"), {}}[r.Intn(4)]
	case 326:
		return be16(r.Pick(0, 1, 2, 77))
	case 113, 109:
		return [][]byte{{0, 1}, {0, 2}, {0, 0}, {0, 4}, {1}}[r.Intn(5)]
	case 105, 106:
		return hotline.EncodeString([]byte([]string{"guest", "nobody", "admin", "x" + fmt.Sprint(r.Intn(9))}[r.Intn(4)]))
	case 110:
		return r.Bytes(8)
	case 203:
		frd := hotline.NewFileResumeData([]hotline.ForkInfoList{*hotline.NewForkInfoList(be32(r.Intn(3000)))})
		b, _ := frd.BinaryMarshal()
		return b
	case 108, 220:
		return be32(r.Intn(100000))[r.Pick(0, 2):]
	default:
		return r.Text(r.Intn(30))
	}
}

// hostileControl plays one hostile control connection; returns a canonical description and whether the handshake was answered.
func hostileControl(r *RNG, src string, port int) (string, bool) {
	c, err := dialFrom(src, port)
	if err != nil {
		return "dial-fail", false
	}
	defer c.Close()
	var script bytes.Buffer
	kind := r.Intn(8)
	linger := time.Duration(0)
	switch kind {
	case 7: // a logged-in client that sets its own shared state (name, icon, options, automatic reply) to odd values and stays a while
		script.Write(clientHandshake)
		odd := func() []hotline.Field {
			var fs []hotline.Field
			if r.Chance(60) {
				fs = append(fs, fld(hotline.FieldUserName, r.Text(r.Pick(0, 0, 1, 31, 255, 1000))))
			}
			if r.Chance(60) {
				fs = append(fs, fld(hotline.FieldUserIconID, r.Bytes(r.Pick(0, 1, 2, 3, 4, 5))))
			}
			if r.Chance(50) {
				fs = append(fs, fld(hotline.FieldOptions, r.Bytes(r.Pick(0, 1, 2, 2, 3))))
			}
			if r.Chance(30) {
				fs = append(fs, fld(hotline.FieldAutomaticResponse, r.Text(r.Pick(0, 1, 40, 3000))))
			}
			return fs
		}
		script.Write(encTran(loginTran(1, "guest", "", odd()...)))
		if r.Chance(70) {
			script.Write(encTran(mkTran(hotline.TranAgreed, 2, odd()...)))
		}
		for i, n := 0, r.Intn(3); i < n; i++ {
			script.Write(encTran(mkTran(hotline.TranSetClientUserInfo, uint32(3+i), odd()...)))
		}
		linger = time.Duration(500+r.Intn(900)) * time.Millisecond
	case 6: // a client allowed to disconnect users names targets nobody holds (ids >= 0x4000, odd lengths), with and without ban options
		script.Write(clientHandshake)
		script.Write(encTran(loginTran(1, "kicker", "kk", fld(hotline.FieldUserName, []byte("k")))))
		n := 1 + r.Intn(4)
		for i := 0; i < n; i++ {
			id := be16(0x4000 + r.Intn(0x8000))
			switch r.Intn(6) {
			case 0:
				id = id[:1]
			case 1:
				id = append(id, 0, byte(r.Intn(256)))
			}
			fs := []hotline.Field{fld(hotline.FieldUserID, id)}
			switch r.Intn(5) {
			case 0:
				fs = append(fs, fld(hotline.FieldOptions, []byte{0, 1}))
			case 1:
				fs = append(fs, fld(hotline.FieldOptions, []byte{0, 2}))
			case 2:
				fs = append(fs, fld(hotline.FieldOptions, r.Bytes(r.Intn(3))))
			}
			ty := []hotline.TranType{hotline.TranDisconnectUser, hotline.TranDisconnectUser, hotline.TranGetClientInfoText, hotline.TranSendInstantMsg, hotline.TranInviteNewChat}[r.Intn(5)]
			if ty == hotline.TranSendInstantMsg {
				fs = append(fs, fld(hotline.FieldData, r.Text(r.Intn(20))))
			}
			script.Write(encTran(mkTran(ty, uint32(2+i), fs...)))
			if r.Chance(40) { // the connection may be dropped by a contained panic: log in again on the same stream is impossible, so just go on
				script.Write(hostileTransaction(r))
			}
		}
	case 0: // pure garbage
		script.Write(r.Bytes(1 + r.Intn(200)))
	case 1: // handshake then garbage
		script.Write(clientHandshake)
		script.Write(r.Bytes(r.Intn(300)))
	case 2: // mutated handshake
		script.Write(mutate(r, clientHandshake))
		script.Write(encTran(loginTran(1, "guest", "")))
	case 3: // bad login + requests
		script.Write(clientHandshake)
		script.Write(encTran(loginTran(1, "nobody", "x")))
		script.Write(hostileTransaction(r))
	default: // logged in (guest or power), then hostile requests, possibly cut mid-transaction
		script.Write(clientHandshake)
		if r.Bool() {
			script.Write(encTran(loginTran(1, "guest", "", fld(hotline.FieldUserName, r.Text(r.Intn(20))))))
		} else {
			script.Write(encTran(loginTran(1, "power", "pw", fld(hotline.FieldUserName, []byte("p")))))
		}
		n := 1 + r.Intn(12)
		for i := 0; i < n; i++ {
			script.Write(hostileTransaction(r))
		}
		if r.Chance(30) {
			b := script.Bytes()
			script.Truncate(len(b) - r.Intn(10))
		}
	}
	data := script.Bytes()
	c.SetDeadline(time.Now().Add(6 * time.Second))
	// write in a few pieces
	for len(data) > 0 {
		n := 1 + r.Intn(len(data))
		if _, err := c.Write(data[:n]); err != nil {
			break
		}
		data = data[n:]
	}
	// read whatever comes for a short while
	got := make([]byte, 0, 256)
	buf := make([]byte, 4096)
	c.SetReadDeadline(time.Now().Add(time.Duration(150+r.Intn(250))*time.Millisecond + linger))
	for {
		n, err := c.Read(buf)
		got = append(got, buf[:n]...)
		if err != nil || len(got) > 1<<20 {
			break
		}
	}
	return fmt.Sprintf("ctl/%d/%x", kind, fnv64(script.Bytes())), len(got) >= 8 && bytes.Equal(got[:4], []byte("TRTP"))
}

// hostileTransfer obtains a genuine reference number through a logged-in control client and then abuses the transfer port.
func hostileTransfer(r *RNG, src string, port int) (string, bool) {
	kind := r.Intn(7)
	if kind == 0 { // unknown reference / garbage preamble
		c, err := dialFrom(src, port+1)
		if err != nil {
			return "dial-fail", false
		}
		defer c.Close()
		c.SetDeadline(time.Now().Add(5 * time.Second))
		switch r.Intn(3) {
		case 0:
			c.Write(r.Bytes(r.Intn(40)))
		case 1:
			c.Write(append([]byte("HTXF"), r.Bytes(12)...))
		default:
			c.Write([]byte("HTXF")[:r.Intn(4)])
		}
		time.Sleep(50 * time.Millisecond)
		return fmt.Sprintf("xfer/%d", kind), false
	}
	ctl, err := newTCPClient(src, port, "power", "pw")
	if err != nil {
		return "login-fail", false
	}
	defer ctl.c.Close()
	var rep *hotline.Transaction
	var ok bool
	name := fmt.Sprintf("up%d.bin", r.Intn(1000000))
	switch kind {
	case 1, 2: // upload
		rep, ok = ctl.request(10, hotline.TranUploadFile, 5*time.Second, fld(hotline.FieldFileName, []byte(name)), fld(hotline.FieldFilePath, encPath("Uploads")), fld(hotline.FieldTransferSize, be32(r.Intn(1<<20))))
	case 3: // download
		rep, ok = ctl.request(10, hotline.TranDownloadFile, 5*time.Second, fld(hotline.FieldFileName, []byte("hello.txt")))
	case 4: // folder download
		rep, ok = ctl.request(10, hotline.TranDownloadFldr, 5*time.Second, fld(hotline.FieldFileName, []byte("dir")))
	case 5, 6: // folder upload
		rep, ok = ctl.request(10, hotline.TranUploadFldr, 5*time.Second, fld(hotline.FieldFileName, []byte("fu"+name)), fld(hotline.FieldFilePath, encPath("Uploads")),
			fld(hotline.FieldTransferSize, be32(1000)), fld(hotline.FieldFolderItemCount, be16(1)))
	}
	if !ok || rep == nil || rep.ErrorCode != [4]byte{} {
		return fmt.Sprintf("xfer/%d/no-ref", kind), false
	}
	ref := rep.GetField(hotline.FieldRefNum).Data
	if len(ref) != 4 {
		return fmt.Sprintf("xfer/%d/no-ref", kind), false
	}
	c, err := dialFrom(src, port+1)
	if err != nil {
		return "dial-fail", false
	}
	defer c.Close()
	c.SetDeadline(time.Now().Add(6 * time.Second))
	pre := append(append([]byte("HTXF"), ref...), append(be32(r.Intn(1<<20)), 0, 0, 0, 0)...)
	var payload bytes.Buffer
	switch kind {
	case 1: // truncated / corrupt flattened file object
		var ffo bytes.Buffer
		ffo.WriteString("FILP")
		ffo.Write([]byte{0, 1})
		ffo.Write(make([]byte, 16))
		ffo.Write([]byte{0, byte(r.Pick(2, 3))})
		ffo.WriteString("INFO")
		ffo.Write(make([]byte, 8))
		infoLen := r.Pick(0, 1, 10, 71, 72, 73, 74, 80, 200)
		ffo.Write(be32(infoLen))
		info := make([]byte, infoLen)
		if infoLen >= 72 {
			binary.BigEndian.PutUint16(info[70:72], uint16(r.Pick(0, 1, 2, infoLen-72, infoLen-71, 5000, 65535)))
		}
		ffo.Write(info)
		ffo.WriteString("DATA")
		ffo.Write(make([]byte, 8))
		ffo.Write(be32(r.Pick(0, 10, 1000, 1<<20, 0x7fffffff)))
		ffo.Write(r.Bytes(r.Intn(2000)))
		b := ffo.Bytes()
		payload.Write(b[:r.Intn(len(b)+1)])
	case 2:
		g := r.Bytes(r.Intn(400))
		if len(g) >= 40 {
			// keep the declared information-fork size within the property's bound (declared sizes ≤ 1 MiB):
			// the handler allocates that many bytes up front
			binary.BigEndian.PutUint32(g[36:40], uint32(r.Intn(1<<20)))
		}
		payload.Write(g)
	case 3:
		payload.Write(r.Bytes(r.Intn(20))) // a download expects nothing; send junk
	case 4: // folder download: actions
		payload.Write([]byte{0, byte(r.Pick(1, 2, 3, 9))})
		for i := 0; i < 4; i++ {
			a := r.Pick(1, 2, 3, 3, 0, 7)
			payload.Write([]byte{0, byte(a)})
			if a == 2 {
				l := r.Pick(0, 1, 16, 41, 42, 58, 74)
				payload.Write(be16(l))
				payload.Write(r.Bytes(l))
			}
		}
	default: // folder upload: one item (a second one would be read at an unknown alignment, where any 4 bytes may be taken as a declared size)
		for i := 0; i < 1; i++ {
			pathItems := r.Pick(0, 1, 2, 3, 200)
			var p bytes.Buffer
			for j := 0; j < min(pathItems, 3); j++ {
				seg := []string{"a", "..", "x/y", strings.Repeat("n", 255), ""}[r.Intn(5)]
				p.Write([]byte{0, 0, byte(len(seg))})
				p.WriteString(seg)
			}
			ds := p.Len() + 4
			malformed := r.Chance(30)
			if malformed {
				ds = r.Pick(0, 1, 3, 4, 5, 65535)
			}
			payload.Write(be16(ds))
			payload.Write([]byte{0, byte(r.Pick(0, 1, 1, 2))})
			payload.Write(be16(pathItems))
			payload.Write(p.Bytes())
			if r.Bool() {
				// What follows a file item is read as: size(4) + flattened file object.  Declared sizes stay within the
				// property's 1 MiB bound: after a well-formed item header the information-fork size field (bytes 40..43
				// of the tail) is bounded; after a malformed one (alignment unknown) only zero bytes follow.
				g := r.Bytes(r.Intn(200))
				if malformed {
					g = make([]byte, len(g))
				} else if len(g) >= 44 {
					binary.BigEndian.PutUint32(g[40:44], uint32(r.Intn(1<<20)))
				} else {
					g = make([]byte, len(g))
				}
				payload.Write(g)
			}
		}
	}
	// sometimes present the same genuine reference number on a second connection at the same time
	if r.Chance(30) {
		if c2, err := dialFrom(src, port+1); err == nil {
			defer c2.Close()
			c2.SetDeadline(time.Now().Add(6 * time.Second))
			c2.Write(pre)
		}
	}
	c.Write(pre)
	c.Write(payload.Bytes())
	// drain briefly
	buf := make([]byte, 65536)
	c.SetReadDeadline(time.Now().Add(time.Duration(100+r.Intn(200)) * time.Millisecond))
	for {
		if _, err := c.Read(buf); err != nil {
			break
		}
	}
	return fmt.Sprintf("xfer/%d/%x", kind, fnv64(payload.Bytes())), true
}

func init() {
	props["C03"] = func(x *Ctx) {
		x.rule = "one case = one child-process server + sentinel client + a batch of hostile connections (control: garbage, mutated handshakes, bad logins, logged-in guest/power clients sending 46 transaction types, a client holding the disconnect-users privilege naming user ids nobody holds (with/without ban options, odd id lengths) in disconnect / client-info / instant-message / invite requests, with hostile/plausible field mixes incl. the known panic triggers, cuts mid-transaction, logged-in clients that set their own name / icon / options / automatic reply to odd lengths and linger while the well-behaved client polls the user list every 120 ms; transfer port: garbage preambles, genuine reference numbers followed by corrupt flattened-file objects, short info forks, folder-download resume data of odd lengths, folder-upload item headers with bad sizes), each from its own loopback source address, run concurrently; while, inside the server process, a monitoring reader polls what the admin API serves (Server.CurrentStats as GET /api/v1/stats does, Stats.Get, the user registry) in bursts of 40 reads every 0.4 ms for the whole run; judged: child alive, sentinel answered within 8 s, after the batch a statistics/registry reader returns (20 s) and a NEW well-behaved client can log in and is answered (two attempts, 12 s each), user list and stats equal what the sentinel alone accounts for. rwmutex-model: random schedules of 4..17 actions over four goroutines (RLock via TryRLock, RUnlock, a goroutine entering Lock(), its return, Unlock; at most one writer outstanding) carried out on a real sync.RWMutex and compared step by step with the RWLock model (happens / is turned away). non-trivial = a hostile connection whose handshake the server answered (control) or that presented a genuine reference number (transfer); distinct = distinct byte script. grown-state: one child-process server + a header-trusting well-behaved client; 1..3 hostile clients log in and send only VALID requests below the 64 KiB request limit that grow shared state (1..4 message-board posts of 20000..30000 bytes onto a 39.6 KB board, 3..6 threaded-news articles with 20000..30000-byte titles, 1..2 articles with such bodies, user names of 200..4000 bytes) and leave; then the well-behaved client reads message board, article list, first article, category list, user list in random order, framing the stream by the transaction header's total size as a real client does, each read followed by an ordinary request that must be answered within 10 s (sentinel-starved), a NEW client does the same, registry/counters return to the sentinel alone; the header of every reply is compared with the model (GrownState.replyHeader: total = 2 + sum(4+|data|), 16-bit prefixes = |data| mod 65536); non-trivial = a reply with a field longer than 65535 bytes was received"
		x.assume = []string{
			"loopback TCP from 127.x.y.z source addresses stands for remote clients",
			"memory exhaustion, scheduler fairness, goroutine pile-up behind a never-reading client and data races on non-map fields are not exhibited by this check (partial)",
		}
		var portCtr int64
		run := func(c *Case, nCtl, nXfer int) {
			r := c.R
			var cs *childSrv
			var err error
			for try := 0; try < 6; try++ {
				port := 20000 + int((c.Seed+uint64(atomic.AddInt64(&portCtr, 1))*7919)%30000)&^1
				cs, err = startChild(port)
				if err == nil {
					break
				}
			}
			if cs == nil {
				c.Note("error", fmt.Sprint(err))
				c.Disagree("child-start", "could not start the child server")
				return
			}
			defer cs.stop()
			c.Note("port", cs.port)
			sentinel, err := newTCPClient("127.200.0.1", cs.port, "admin", "secret")
			if err != nil {
				c.Note("error", err.Error())
				c.Violation("sentinel-login", "a well-behaved client cannot log in to a fresh server")
				return
			}
			defer sentinel.c.Close()
			// a logged-in client that makes the server produce megabytes for it and never reads (kept open during the batch)
			stalled, serr := dialFrom("127.201.0.1", cs.port)
			if serr == nil {
				defer stalled.Close()
				stalled.SetWriteDeadline(time.Now().Add(20 * time.Second))
				stalled.Write(clientHandshake)
				stalled.Write(encTran(loginTran(1, "guest", "", fld(hotline.FieldUserName, []byte("stall")))))
				// 600 small requests, each answered with the ~40 KB message board: ~24 MB of replies nobody reads
				req := encTran(mkTran(hotline.TranGetMsgs, 7))
				go func() {
					for i := 0; i < 600; i++ {
						if _, err := stalled.Write(req); err != nil {
							return
						}
					}
				}()
				time.Sleep(1500 * time.Millisecond)
			}
			// hostile batch, all concurrently, each from its own source address
			var wg sync.WaitGroup
			var mu sync.Mutex
			seeds := make([]uint64, nCtl+nXfer)
			for i := range seeds {
				seeds[i] = r.U64()
			}
			for i := range seeds {
				wg.Add(1)
				go func(i int) {
					defer wg.Done()
					rr := NewRNG(seeds[i])
					src := fmt.Sprintf("127.%d.%d.%d", 1+(i/60000)%250, 1+(i/250)%250, 2+i%250)
					var canon string
					var nontriv bool
					if i < nCtl {
						canon, nontriv = hostileControl(rr, src, cs.port)
					} else {
						canon, nontriv = hostileTransfer(rr, src, cs.port)
					}
					mu.Lock()
					parts := strings.Split(canon, "/")
					if len(parts) > 2 {
						parts = parts[:2]
					}
					c.Dist(strings.Join(parts, "/"))
					if nontriv {
						c.Nontrivial(canon)
					}
					mu.Unlock()
				}(i)
			}
			// the well-behaved client keeps asking for the user list while the batch runs: every request must be answered
			pollStop, pollDone := make(chan struct{}), make(chan struct{})
			var starved string
			polls := 0
			go func() {
				defer close(pollDone)
				for id := uint32(1000); ; id++ {
					select {
					case <-pollStop:
						return
					default:
					}
					if _, ok := sentinel.request(id, hotline.TranGetUserNameList, 8*time.Second); !ok {
						starved = fmt.Sprintf("user-list request #%d of the well-behaved client got no reply", id-999)
						return
					}
					polls++
					time.Sleep(120 * time.Millisecond)
				}
			}()
			wg.Wait()
			close(pollStop)
			<-pollDone
			c.Note("sentinel_polls", polls)
			if starved != "" && cs.alive() {
				c.Note("sentinel_dead", sentinel.isDead())
				c.Note("child_log", tail(cs.childLog(), 400000))
				c.Violation("sentinel-starved", "while hostile connections were active: "+starved)
			}
			// the never-reading client is still connected: the sentinel must still be served
			if cs.alive() && !c.failed {
				if _, ok := sentinel.request(52, hotline.TranGetUserNameList, 8*time.Second); !ok && cs.alive() {
					c.Note("sentinel_dead", sentinel.isDead())
					c.Violation("sentinel-starved", "the well-behaved client got no reply within 8 s while a logged-in client that never reads its replies stayed connected")
				}
			}
			if stalled != nil {
				stalled.Close()
			}
			c.Evals(len(seeds))
			// let deferred clean-ups (3 s after each transfer) and delayed disconnects finish
			settle := time.Now().Add(4500 * time.Millisecond)
			for time.Now().Before(settle) && cs.alive() {
				time.Sleep(100 * time.Millisecond)
			}
			if !cs.alive() {
				c.Note("exit", fmt.Sprint(cs.exitErr))
				se := cs.stderr.String()
				if len(se) > 1200 {
					se = se[:1200]
				}
				c.Note("stderr_head", se)
				c.Note("stderr", tail(cs.stderr.String(), 800))
				c.Violation("server-process-terminated", "hostile input terminated the server process")
				return
			}
			rep, ok := sentinel.request(51, hotline.TranGetUserNameList, 8*time.Second)
			if !ok {
				c.Note("stderr", tail(cs.stderr.String(), 800))
				c.Note("sentinel_dead", sentinel.isDead())
				c.Note("child_log", tail(cs.childLog(), 400000))
				c.Violation("server-wedged", "after the hostile batch the well-behaved client gets no reply")
				return
			}
			// a reader of the statistics / the registry (what the admin API serves) must still return
			if st0, err := cs.stats(); err == nil && st0["wedged"] == true {
				c.Note("child_log", tail(cs.childLog(), 4000))
				c.Violation("stats-reader-wedged", "after the hostile batch a reader of the server statistics and user registry (Server.CurrentStats / ClientMgr.List, what GET /api/v1/stats serves) did not return within 20 s while the monitoring reader was polling: the shared state is locked for good")
				return
			}
			// a NEW well-behaved client must be able to log in and be answered (bounded patience, two attempts)
			freshOK, freshWhy := false, ""
			for try := 0; try < 2 && !freshOK && cs.alive(); try++ {
				fresh, err := newTCPClient(fmt.Sprintf("127.200.0.%d", 2+try), cs.port, "admin", "secret")
				if err != nil {
					freshWhy = err.Error()
					continue
				}
				if _, ok := fresh.request(60, hotline.TranGetUserNameList, 12*time.Second); ok {
					freshOK = true
				} else {
					freshWhy = "logged in, but its user-list request got no reply within 12 s (" + fresh.isDead() + ")"
				}
				fresh.c.Close()
			}
			if !freshOK && cs.alive() {
				c.Note("fresh_client", freshWhy)
				c.Note("child_log", tail(cs.childLog(), 4000))
				c.Violation("server-wedged-for-new-clients", "after the hostile batch a new well-behaved client cannot log in and get a reply: "+freshWhy)
				return
			}
			// quiescence: user list and counters are what the sentinel alone accounts for
			ok = waitFor(30*time.Second, func() bool {
				st, err := cs.stats()
				if err != nil {
					return false
				}
				us, _ := st["users"].([]any)
				return len(us) == 1 && fmt.Sprint(st["connected"]) == "1" && fmt.Sprint(st["dl"]) == "0" && fmt.Sprint(st["ul"]) == "0"
			})
			st, err := cs.stats()
			c.Note("stats", st)
			if err == nil && st["wedged"] == true {
				c.Violation("stats-reader-wedged", "a reader of the server statistics and user registry did not return within 20 s: the shared state is locked for good")
				return
			}
			if err != nil {
				c.Note("error", err.Error())
				c.Violation("stats-unavailable", "server state cannot be read after the hostile batch")
				return
			}
			if !ok {
				if os.Getenv("C03_DEBUG") != "" {
					cs.cmd.Process.Signal(syscall.SIGQUIT)
					<-cs.exited
					os.WriteFile("/tmp/c03-stacks.txt", cs.stderr.Bytes(), 0644)
				}
				c.Violation("residue-after-hostile-connections", "user list / connection or transfer counters are not back to what the well-behaved clients account for")
			}
			nUsers := 0
			for _, f := range rep.Fields {
				if f.Type == hotline.FieldUsernameWithInfo {
					nUsers++
				}
			}
			c.Sample(map[string]any{"hostile_control": nCtl, "hostile_transfer": nXfer, "stats_after": st})
			_ = nUsers
		}
		add := func(f *Family) { // dev aid: VERIF_ONLY_FAMILY=<name> runs one family
			if only := os.Getenv("VERIF_ONLY_FAMILY"); only != "" && only != f.Name {
				return
			}
			x.Add(f)
		}
		add(&Family{Name: "hostile-batch", Quick: 6, Thor: 120, MaxPar: 6, Run: func(c *Case) { run(c, 220, 60) }})
		add(&Family{Name: "rwmutex-model", Quick: 400, Thor: 6000, Run: c03RWMutexFamily})
		add(&Family{Name: "grown-state", Quick: 8, Thor: 60, MaxPar: 4, Run: c03GrownFamily})
	}
}
