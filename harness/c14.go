//go:build c14

package main

// C14 — each client receives whole, well-formed, correlated transactions.
//
//  forced-merge   the real sendTransaction writes transaction A (sizes up to and beyond 32 KiB, up to the
//                 64 KiB field and several fields) to an in-memory connection whose Write is atomic per call;
//                 the moment its first Write call returns, a second transaction B for the same client is
//                 sent (the schedule in which another goroutine wins the race between two Write calls).
//                 Judged: exactly one Write per transaction; the stream re-frames to exactly {A, B}
//                 (independent re-framer and the Lean parser).
//  reply-ctors    NewReply / NewErrReply / NewField on random requests: reply flag, request id, addressee,
//                 size prefix.
//  outbox-stress  N clients over real connections (handleNewConnection + processOutbox, one goroutine per
//                 outgoing transaction), every client bursting requests concurrently (keep-alive, user list,
//                 message board up to 60 000 bytes, file list, public chat, private messages); at quiescence
//                 every stream is re-framed (Go reference + Lean) and a request-id ledger per client judged.
//  wrap-replies   1-3 clients stay connected while the 16-bit id space wraps (counter moved with the test hook) and 2-4
//                 more log in; then requests from everybody: each reply must arrive on the connection that sent the
//                 request, exactly once; nobody may receive a reply to an id it never sent; a broadcast reaches all once.

import (
	"bytes"
	"encoding/binary"
	"fmt"
	"io"
	"net"
	"os"
	"path/filepath"
	"sort"
	"strings"
	"sync"
	"time"

	"github.com/jhalter/mobius/hotline"
)

func tranStrGo(t *hotline.Transaction) string {
	var sb strings.Builder
	fmt.Fprintf(&sb, "%d %d %d %d %d %d", t.Flags, t.IsReply, binary.BigEndian.Uint16(t.Type[:]),
		binary.BigEndian.Uint32(t.ID[:]), binary.BigEndian.Uint32(t.ErrorCode[:]), len(t.Fields))
	for _, f := range t.Fields {
		fmt.Fprintf(&sb, " %d:%s", binary.BigEndian.Uint16(f.Type[:]), hx(f.Data))
	}
	return sb.String()
}

func streamCanon(ts []hotline.Transaction) string {
	var sb strings.Builder
	fmt.Fprintf(&sb, "ok %d", len(ts))
	for i := range ts {
		sb.WriteString(" | ")
		sb.WriteString(tranStrGo(&ts[i]))
	}
	return sb.String()
}

// writesWhole is the monitor "one transaction = one Write call": every Write call recorded on a connection (the
// 8-byte handshake reply aside) must consist of whole transactions.  Returns the index and size of the first Write
// that does not, or -1.
func writesWhole(ws [][]byte) (int, []int) {
	var sizes []int
	bad := -1
	for i, w := range ws {
		sizes = append(sizes, len(w))
		if i == 0 && len(w) == 8 {
			continue
		}
		if _, rest, err := splitTransactions(w); (err != nil || len(rest) != 0) && bad < 0 {
			bad = i
		}
	}
	return bad, sizes
}

func judgeWrites(c *Case, who string, conn *segConn) bool {
	if bad, sizes := writesWhole(conn.Writes()); bad >= 0 {
		c.Note("write_sizes", clip(fmt.Sprint(sizes)))
		c.Violation("transaction-split-across-writes", fmt.Sprintf("the connection of %s received a Write call (number %d, %d bytes) that is not a sequence of whole transactions: some transaction is put on the wire with more than one Write, so another writer's transaction can land inside it", who, bad, sizes[bad]))
		return false
	}
	return true
}

// c14BigTran builds a transaction whose encoding has about the wanted size.
func c14BigTran(r *RNG, to hotline.ClientID) hotline.Transaction {
	var fields []hotline.Field
	switch r.Intn(10) {
	case 0: // small
		fields = append(fields, fld(hotline.FieldData, r.Bytes(r.Intn(200))))
	case 1, 2: // around the 32 KiB io.Copy buffer: total = 22 + 4 + n
		n := 32768 - 26 + r.Pick(-3, -2, -1, 0, 1, 2, 3, 100)
		fields = append(fields, fld(hotline.FieldData, r.Bytes(n)))
	case 3: // one maximal field
		fields = append(fields, fld(hotline.FieldData, r.Bytes(r.Pick(65535, 65534, 65532, 60000))))
	case 4: // many medium fields (a long file list)
		k := 200 + r.Intn(600)
		for i := 0; i < k; i++ {
			fields = append(fields, fld(hotline.FieldFileNameWithInfo, r.Bytes(40+r.Intn(60))))
		}
	case 5: // several large fields: well beyond 64 KiB in total
		for i := 0; i < 2+r.Intn(3); i++ {
			fields = append(fields, fld(hotline.FieldData, r.Bytes(30000+r.Intn(35000))))
		}
	default:
		fields = append(fields, fld(hotline.FieldData, r.Bytes(32769+r.Intn(32000))))
	}
	t := hotline.NewTransaction(hotline.TranType{0, byte(r.Pick(0, 101, 104, 106))}, to, fields...)
	if r.Bool() {
		t.IsReply = 1
		t.Type = hotline.TranType{}
	}
	binary.BigEndian.PutUint32(t.ID[:], uint32(r.U64()))
	return t
}

func runForcedMerge(c *Case) {
	r := c.R
	ts, err := newTS(TSOpt{Direct: true})
	if err != nil {
		panic(err)
	}
	defer ts.Close()
	sc := newSegConn(nil)
	cc := ts.Srv.NewClientConn(sc, "10.4.0.1:4000")
	a := c14BigTran(r, cc.ID)
	b := hotline.NewTransaction(hotline.TranChatMsg, cc.ID, fld(hotline.FieldData, textBytes(r, 1+r.Intn(30))))
	encA, encB := encTran(a), encTran(b)
	fired := false
	var errB error
	sc.onWrite = func(q []byte) {
		// runs on the writing goroutine right after a Write call returned: the first time, another sender gets in
		if !fired {
			fired = true
			errB = ts.Srv.VerifSendTransaction(b)
		}
	}
	errA := ts.Srv.VerifSendTransaction(a)
	if errA != nil || errB != nil {
		c.Note("errors", fmt.Sprint(errA, errB))
		c.Violation("send-transaction-error", "sendTransaction returned an error on an open connection")
		return
	}
	writes := sc.Writes()
	var sizes []int
	for _, w := range writes {
		sizes = append(sizes, len(w))
	}
	stream := sc.Written()
	c.Note("a_bytes", len(encA))
	c.Note("b_bytes", len(encB))
	c.Note("write_sizes", fmt.Sprint(sizes))
	c.Dist(fmt.Sprintf("forced-merge/A<=32KiB:%v", len(encA) <= 32768))
	c.Nontrivial(fmt.Sprintf("%d/%d/%x", len(encA), len(encB), fnv64a(encA)))
	// the stream must be whole transactions: exactly A and B, in either order
	got, rest, ferr := splitTransactions(stream)
	want := []string{tranStrGo(&a), tranStrGo(&b)}
	sort.Strings(want)
	var gs []string
	for i := range got {
		gs = append(gs, tranStrGo(&got[i]))
	}
	sort.Strings(gs)
	if ferr != nil || len(rest) != 0 || strings.Join(gs, "\n") != strings.Join(want, "\n") {
		c.Note("reframe_error", fmt.Sprint(ferr))
		c.Note("reframed_transactions", len(got))
		c.Violation("interleaved-transactions", fmt.Sprintf("a %d-byte transaction and a %d-byte transaction for the same client were written as Write calls of sizes %v; the resulting stream is not the two whole transactions (bytes of one lie inside the other)", len(encA), len(encB), sizes))
		return
	}
	if len(writes) != 2 || !(bytes.Equal(writes[0], encA) && bytes.Equal(writes[1], encB) || bytes.Equal(writes[0], encB) && bytes.Equal(writes[1], encA)) {
		c.Violation("transaction-split-across-writes", fmt.Sprintf("sendTransaction used %d Write calls (sizes %v) for two transactions: a transaction is not written with a single Write", len(writes), sizes))
		return
	}
	// the Lean parser on the same bytes (streams beyond ~300 KB are left to the Go re-framer)
	if len(stream) <= 150000 {
		c.Corr("stream-parses-to-permutation", c.AskS("c14perm", hx(stream), hx(encA), hx(encB)), "perm 2", true)
		ws := c.AskS("c14writes", "32768", hx(encA))
		c.Corr("single-write-shape", fmt.Sprintf("single [%d]", len(encA)), strings.SplitN(ws, " copy", 2)[0], false)
	}
}

func runReplyCtors(c *Case) {
	r := c.R
	var id hotline.ClientID
	binary.BigEndian.PutUint16(id[:], uint16(1+r.Intn(65535)))
	cc := &hotline.ClientConn{ID: id}
	var req hotline.Transaction
	binary.BigEndian.PutUint16(req.Type[:], uint16(r.Pick(101, 105, 108, 200, 300, 500, r.Intn(600))))
	binary.BigEndian.PutUint32(req.ID[:], uint32(r.U64()))
	binary.BigEndian.PutUint16(req.ClientID[:], uint16(r.Intn(65536)))
	fs := genFields(r, 4000)
	rep := cc.NewReply(&req, fs...)
	c.Nontrivial(fmt.Sprintf("%x/%x", req.ID, id))
	if rep.IsReply != 1 || rep.ID != req.ID || rep.ClientID != id || rep.ErrorCode != [4]byte{} || len(rep.Fields) != len(fs) {
		c.Note("reply", outStr(rep))
		c.Violation("reply-constructor", "NewReply does not set the reply flag, copy the request id and address the requester")
	}
	msg := string(textBytes(r, r.Intn(60)))
	er := cc.NewErrReply(&req, msg)
	if len(er) != 1 || er[0].IsReply != 1 || er[0].ID != req.ID || er[0].ClientID != id || er[0].ErrorCode != [4]byte{0, 0, 0, 1} ||
		len(er[0].Fields) != 1 || er[0].Fields[0].Type != hotline.FieldError || string(er[0].Fields[0].Data) != msg {
		c.Violation("error-reply-constructor", "NewErrReply does not yield one error reply with the reply flag, the request id, the requester and the message")
	}
	// NewField prefix law
	l := sizeBias(r, 65535)
	data := r.Bytes(l)
	f := hotline.NewField(hotline.FieldData, data)
	if int(binary.BigEndian.Uint16(f.FieldSize[:])) != l || !bytes.Equal(f.Data, data) {
		c.Violation("field-prefix", "NewField's size prefix differs from the data length")
	}
	ff := f
	enc, _ := drainScripted(&ff, []int{1 << 20}, l+4)
	c.Corr("field-layout", hx(enc), c.AskS("field", "101", hx(data)), true)
}

// ---------------------------------------------------------------- stress through the real outbox

type stressClient struct {
	name  []byte // the user name the server gave the session
	idx   int
	wc    *WireClient
	id    int
	sent  map[uint32]int // request id -> type
	order []uint32
}

func replyBearing(ty int) bool {
	switch ty {
	case 500, 300, 101, 200, 108:
		return true
	}
	return false
}

func runOutboxStress(c *Case) {
	r := c.R
	board := textBytes(r, r.Pick(0, 500, 20000, 32760, 40000, 60000))
	for i := range board {
		if board[i] == 0 {
			board[i] = ' '
		}
	}
	// the agreement is part of every login sequence: sometimes larger than the 32 KiB an io.Copy moves at a time
	agreement := strings.Repeat("agreement text. ", r.Pick(1, 50, 2050, 2100, 2500, 3700))
	ts, err := newTS(TSOpt{Board: string(board), Agreement: agreement})
	if err != nil {
		panic(err)
	}
	defer ts.Close()
	nfiles := r.Pick(0, 5, 60, 400, 700)
	for i := 0; i < nfiles; i++ {
		os.WriteFile(filepath.Join(ts.Root, fmt.Sprintf("file-%04d-%s.txt", i, strings.Repeat("x", 20+i%40))), nil, 0644)
	}
	n := 2 + r.Intn(5)
	var cls []*stressClient
	for i := 0; i < n; i++ {
		wc, err := loginWire(ts, fmt.Sprintf("10.5.0.%d:4000", i+1), "guest", "", fld(hotline.FieldUserName, []byte(fmt.Sprintf("user%d", i))), fld(hotline.FieldUserIconID, be16(i)))
		if err != nil {
			c.Note("login_error", err.Error())
			c.Disagree("stress-login", "a guest login over an in-memory connection did not succeed")
			return
		}
		sc := &stressClient{idx: i, wc: wc, sent: map[uint32]int{1: 107}}
		for _, cc := range ts.Srv.ClientMgr.List() {
			if cc.Connection == wc.Conn {
				sc.id = int(binary.BigEndian.Uint16(cc.ID[:]))
				sc.name = append([]byte{}, cc.UserName...)
			}
		}
		cls = append(cls, sc)
	}
	// requests that are answered when issued alone: probe each kind once, sequentially, on client 0
	alone := map[int]bool{}
	probe := func(ty int, t hotline.Transaction) {
		cls[0].sent[tranID(&t)] = ty
		cls[0].wc.Conn.Feed(encTran(t))
		_, ok := cls[0].wc.ReplyTo(tranID(&t), longWait)
		alone[ty] = ok
	}
	probe(500, mkTran(hotline.TranKeepAlive, 11))
	probe(300, mkTran(hotline.TranGetUserNameList, 12))
	probe(101, mkTran(hotline.TranGetMsgs, 13))
	probe(200, mkTran(hotline.TranGetFileNameList, 14))
	probe(108, mkTran(hotline.TranSendInstantMsg, 15, fld(hotline.FieldData, []byte("probe")), fld(hotline.FieldUserID, be16(cls[n-1].id)), fld(hotline.FieldOptions, []byte{0, 1})))
	for ty, ok := range alone {
		if !ok {
			c.Note("type", ty)
			c.Disagree("stress-probe", "a probe request issued alone got no reply in time")
			return
		}
	}
	// the bursts: prepared first, fed concurrently
	type line struct {
		sender int
		text   string
	}
	var chatLines []line
	privTo := map[int]map[string]int{} // target idx -> text -> expected count
	bursts := make([][]byte, n)
	k := 8 + r.Intn(30)
	for i, sc := range cls {
		var buf []byte
		for j := 0; j < k; j++ {
			id := uint32(100000*(i+1) + j)
			var t hotline.Transaction
			switch r.Intn(12) {
			case 0, 1:
				t = mkTran(hotline.TranKeepAlive, id)
			case 2, 3:
				t = mkTran(hotline.TranGetUserNameList, id)
			case 4, 5:
				t = mkTran(hotline.TranGetMsgs, id)
			case 6:
				t = mkTran(hotline.TranGetFileNameList, id)
			case 7:
				to := r.Intn(n)
				text := fmt.Sprintf("pm-%d-%d-%s", i, j, string(textBytes(r, r.Intn(40))))
				if privTo[to] == nil {
					privTo[to] = map[string]int{}
				}
				privTo[to][text]++
				t = mkTran(hotline.TranSendInstantMsg, id, fld(hotline.FieldData, []byte(text)), fld(hotline.FieldUserID, be16(cls[to].id)), fld(hotline.FieldOptions, []byte{0, 1}))
			default:
				// lengths around and beyond the 8192-byte chat limit included (the delivered line is cut, its field must stay well formed)
				l := r.Pick(0, 5, 40, 300, 3000, 8000, 8150, 8176, 8200, 9000)
				text := fmt.Sprintf("line-%d-%d-", i, j) + strings.Repeat("m", l)
				emote := r.Chance(25)
				fields := []hotline.Field{fld(hotline.FieldData, []byte(text))}
				if emote {
					fields = append(fields, fld(hotline.FieldChatOptions, []byte{0, 1}))
				}
				chatLines = append(chatLines, line{i, string(chatTextRef(sc.name, emote, []byte(text)))})
				t = mkTran(hotline.TranChatSend, id, fields...)
			}
			sc.sent[id] = tranType(&t)
			sc.order = append(sc.order, id)
			buf = append(buf, encTran(t)...)
		}
		bursts[i] = buf
	}
	var wg sync.WaitGroup
	start := make(chan struct{})
	for i, sc := range cls {
		wg.Add(1)
		go func(sc *stressClient, b []byte) {
			defer wg.Done()
			<-start
			// feed in a few pieces so that requests of different clients interleave
			for len(b) > 0 {
				m := 1 + len(b)/3
				if m > len(b) {
					m = len(b)
				}
				sc.wc.Conn.Feed(b[:m])
				b = b[m:]
			}
		}(sc, bursts[i])
	}
	close(start)
	wg.Wait()
	// quiescence: every reply-bearing request answered and every chat line seen by everybody, then a stable window
	complete := func() bool {
		for _, sc := range cls {
			_, trans, _, err := sc.wc.Received()
			if err != nil {
				return true // judged below
			}
			replies := map[uint32]bool{}
			chats, privs := 0, 0
			for i := range trans {
				if trans[i].IsReply == 1 {
					replies[tranID(&trans[i])] = true
				} else if tranType(&trans[i]) == 106 {
					chats++
				} else if tranType(&trans[i]) == 104 {
					if d, _ := fieldOf(&trans[i], 101); bytes.HasPrefix(d, []byte("pm-")) {
						privs++
					}
				}
			}
			wantPriv := 0
			for _, n := range privTo[sc.idx] {
				wantPriv += n
			}
			if privs < wantPriv {
				return false
			}
			for id, ty := range sc.sent {
				if replyBearing(ty) && !replies[id] {
					return false
				}
			}
			if chats < len(chatLines) {
				return false
			}
		}
		return true
	}
	waitFor(longWait, complete)
	for _, sc := range cls {
		sc.wc.Quiesce(20*time.Millisecond, 2*time.Second)
	}
	total := 0
	for _, sc := range cls {
		// ONE snapshot of what was written: re-framing, the Lean parser and the ledger all look at the same bytes
		// (transactions nobody waits for — a late login-sequence item — may still trickle in)
		stream := sc.wc.Conn.Written()
		hs := stream[:min(8, len(stream))]
		trans, rest, ferr := splitTransactions(stream[len(hs):])
		total += len(stream)
		c.Note("client", sc.idx)
		c.Note("stream_bytes", len(stream))
		if ferr != nil || len(rest) != 0 || len(hs) != 8 {
			var sizes []int
			for _, w := range sc.wc.Conn.Writes() {
				sizes = append(sizes, len(w))
			}
			c.Note("reframe_error", fmt.Sprint(ferr))
			c.Note("write_sizes", clip(fmt.Sprint(sizes)))
			c.Violation("interleaved-transactions", fmt.Sprintf("under load the byte stream written to client %d is not a concatenation of whole, well-formed transactions (%v)", sc.idx, ferr))
			return
		}
		if !judgeWrites(c, fmt.Sprintf("client %d", sc.idx), sc.wc.Conn) {
			return
		}
		// the Lean parser on the same bytes
		if len(stream) <= 200000 {
			c.Corr("stream-reframing", streamCanon(trans), c.AskS("streamdec", hx(stream[8:])), true)
		}
		// ledger
		replies := map[uint32]int{}
		seenChat := map[string]int{}
		seenPriv := map[string]int{}
		for i := range trans {
			t := &trans[i]
			if t.IsReply == 1 {
				id := tranID(t)
				if _, mine := sc.sent[id]; !mine {
					c.Note("reply", clip(tranStrGo(t)))
					c.Violation("reply-misdirected", fmt.Sprintf("client %d received a reply carrying id %d, which is not the id of any request sent on that connection", sc.idx, id))
					return
				}
				replies[id]++
				continue
			}
			switch tranType(t) {
			case 106:
				d, _ := fieldOf(t, 101)
				seenChat[string(d)]++
			case 104:
				d, _ := fieldOf(t, 101)
				seenPriv[string(d)]++
			case 301, 302, 354, 109, 122:
			default:
				c.Note("transaction", clip(tranStrGo(t)))
				c.Violation("unexpected-unsolicited-transaction", fmt.Sprintf("client %d received an unsolicited transaction of type %d", sc.idx, tranType(t)))
			}
		}
		for id, cnt := range replies {
			if cnt > 1 {
				c.Violation("reply-duplicated", fmt.Sprintf("client %d received %d replies to request %d (type %d)", sc.idx, cnt, id, sc.sent[id]))
				return
			}
		}
		for id, ty := range sc.sent {
			if replyBearing(ty) && alone[ty] && replies[id] != 1 {
				c.Violation("reply-missing-under-load", fmt.Sprintf("client %d: request %d (type %d) is answered when issued alone but got %d replies under load", sc.idx, id, ty, replies[id]))
				return
			}
			if ty == 105 && replies[id] != 0 {
				c.Violation("reply-unexpected", fmt.Sprintf("client %d: chat send %d got a reply although it gets none when issued alone", sc.idx, id))
			}
		}
		for _, l := range chatLines {
			// l.text is the line as it must be delivered: formatted with the sender's name and cut to 8192 bytes
			if seenChat[l.text] != 1 {
				c.Note("line", clip(l.text))
				c.Violation("broadcast-delivery-count", fmt.Sprintf("client %d received the public chat line %q (%d bytes as delivered) %d times, expected exactly once", sc.idx, clip(l.text[:min(len(l.text), 40)]), len(l.text), seenChat[l.text]))
				return
			}
		}
		for text, cnt := range privTo[sc.idx] {
			if seenPriv[text] != cnt {
				c.Violation("private-message-delivery-count", fmt.Sprintf("client %d received private message %q %d times, expected %d", sc.idx, text, seenPriv[text], cnt))
				return
			}
		}
	}
	for _, sc := range cls {
		sc.wc.Conn.EOF()
	}
	for _, sc := range cls {
		sc.wc.WaitDone(longWait)
	}
	c.Nontrivial(fmt.Sprintf("stress n=%d k=%d board=%d files=%d lines=%d %x", n, k, len(board), nfiles, len(chatLines), c.Seed))
	c.Dist(fmt.Sprintf("stress/clients=%d", n))
	c.Dist(fmt.Sprintf("stress/board>32KiB:%v", len(board) > 32768))
	c.Sample(map[string]any{"family": "outbox-stress", "clients": n, "requests_per_client": k, "board_bytes": len(board), "files": nfiles, "chat_lines": len(chatLines), "bytes_received": total})
}

// ---------------------------------------------------------------- chat lines at the 8192-byte limit, field by field

// runLongChatLines: plain and emote lines of 8150..9100 bytes to public chat and to a private chat, handler level:
// every field of every returned transaction must carry a size prefix equal to its data length, and every transaction,
// serialised on its own, must re-frame (Go reference, Lean decoder) to itself.
func runLongChatLines(c *Case) {
	r := c.R
	ts, err := newTS(TSOpt{Direct: true})
	if err != nil {
		panic(err)
	}
	defer ts.Close()
	var ccs []*hotline.ClientConn
	for i := 0; i < 3; i++ {
		cc, _ := ts.DirectClient("guest", textBytes(r, r.Pick(0, 1, 5, 13, 14, 31)), fmt.Sprintf("10.8.0.%d:1", i+1))
		ccs = append(ccs, cc)
	}
	var chat []byte
	res, _, _ := callSync(ts, ccs[0], mkTran(hotline.TranInviteNewChat, 900, fld(hotline.FieldUserID, ccs[1].ID[:])))
	for i := range res {
		if res[i].IsReply == 1 {
			chat, _ = fieldOf(&res[i], 114)
		}
	}
	if len(chat) == 4 {
		callSync(ts, ccs[1], mkTran(hotline.TranJoinChat, 901, fld(hotline.FieldChatID, chat)))
	}
	canon := ""
	for k := 0; k < 4 && !c.failed; k++ {
		sender := ccs[r.Intn(len(ccs))]
		msg := textBytes(r, r.Pick(8150, 8170, 8175, 8176, 8177, 8185, 8192, 8193, 8300, 9000, 9100, 40))
		fields := []hotline.Field{fld(hotline.FieldData, msg)}
		emote := r.Chance(40)
		if emote {
			fields = append(fields, fld(hotline.FieldChatOptions, []byte{0, 1}))
		}
		private := len(chat) == 4 && r.Chance(50)
		if private {
			fields = append(fields, fld(hotline.FieldChatID, chat))
		}
		outs, _, p := callSync(ts, sender, mkTran(hotline.TranChatSend, uint32(1000+k), fields...))
		if p != nil {
			c.Violation("chat-handler-panic", "HandleChatSend panicked on a long line")
			return
		}
		c.Note("message_bytes", len(msg))
		c.Note("emote", emote)
		c.Note("private", private)
		want := chatTextRef(sender.UserName, emote, msg)
		for i := range outs {
			t := outs[i]
			for _, f := range t.Fields {
				if int(binary.BigEndian.Uint16(f.FieldSize[:])) != len(f.Data) {
					c.Note("field", binary.BigEndian.Uint16(f.Type[:]))
					c.Violation("field-prefix", fmt.Sprintf("a chat line of %d bytes (emote=%v, private=%v) is delivered in a field whose size prefix says %d while %d data bytes follow", len(msg), emote, private, binary.BigEndian.Uint16(f.FieldSize[:]), len(f.Data)))
					return
				}
			}
			if d, _ := fieldOf(&t, 101); !bytes.Equal(d, want) {
				c.Violation("chat-text-format", fmt.Sprintf("delivered chat text has %d bytes, the formatted line cut to 8192 bytes has %d", len(d), len(want)))
				return
			}
			enc := encTran(t)
			got, rest, ferr := splitTransactions(enc)
			if ferr != nil || len(rest) != 0 || len(got) != 1 || tranStrGo(&got[0]) != tranStrGo(&t) {
				c.Note("reframe_error", fmt.Sprint(ferr))
				c.Violation("interleaved-transactions", "a chat transaction serialised on its own does not re-frame to itself (a length prefix disagrees with its content)")
				return
			}
			c.Corr("chat-transaction-decodes", c.AskS("trandec", hx(enc)), "ok "+tranStrGo(&t), true)
		}
		canon += fmt.Sprintf("%d/%v/%v/%x;", len(msg), emote, private, fnv64a(msg))
		c.Dist(fmt.Sprintf("long-chat/over-limit:%v", len(want) == 8192))
	}
	c.Nontrivial(canon)
}

// ---------------------------------------------------------------- the login sequence with a large agreement

// runLoginAgreement: a guest (no "no agreement" privilege) logs in on a server whose agreement makes a transaction
// of up to 60 KB.  Every transaction of the login sequence must arrive in ONE Write call; and the schedule in which
// another user's chat line is written to the new connection right after a large Write (the point where a chunked
// writer would be half-way) must leave the stream whole.
func runLoginAgreement(c *Case) {
	r := c.R
	n := r.Pick(10, 2040, 2046, 2047, 2048, 2100, 2500, 3000, 3740)
	agreement := strings.Repeat("Be nice to others. ", n)[:n*16]
	ts, err := newTS(TSOpt{Agreement: agreement})
	if err != nil {
		panic(err)
	}
	defer ts.Close()
	b, err := loginWire(ts, "10.9.0.1:4000", "guest", "", fld(hotline.FieldUserName, []byte("bystander")))
	if err != nil {
		c.Disagree("agreement-login", "the bystander could not log in")
		return
	}
	a := ts.Connect("10.9.0.2:4000", nil)
	line := hotline.NewTransaction(hotline.TranChatMsg, hotline.ClientID{}, fld(hotline.FieldData, []byte("\r    bystander:  hello newcomer")))
	fired := false
	a.Conn.onWrite = func(q []byte) {
		if fired || len(q) < 1000 {
			return
		}
		for _, cc := range ts.Srv.ClientMgr.List() {
			if cc.Connection == a.Conn {
				fired = true
				line.ClientID = cc.ID
				_ = ts.Srv.VerifSendTransaction(line)
			}
		}
	}
	a.Conn.Feed(clientHandshake)
	a.Conn.Feed(encTran(loginTran(1, "guest", "", fld(hotline.FieldUserName, []byte("newcomer")))))
	// wait for the end of the login sequence: the agreement transaction (109) or a stream that no longer frames
	waitFor(longWait, func() bool {
		_, trans, _, err := a.Received()
		if err != nil {
			return true
		}
		for i := range trans {
			if tranType(&trans[i]) == 109 {
				return true
			}
		}
		return false
	})
	a.Quiesce(20*time.Millisecond, 2*time.Second)
	snapshot := a.Conn.Written() // one snapshot for every judgement below
	trans, rest, ferr := splitTransactions(snapshot[min(8, len(snapshot)):])
	c.Note("agreement_bytes", len(agreement))
	bad, sizes := writesWhole(a.Conn.Writes())
	c.Note("write_sizes", clip(fmt.Sprint(sizes)))
	if ferr != nil || len(rest) != 0 {
		c.Note("reframe_error", fmt.Sprint(ferr))
		c.Violation("interleaved-transactions", fmt.Sprintf("login with a %d-byte agreement while another user's chat line is delivered: the stream written to the new client (Write calls of sizes %v) is not a concatenation of whole transactions", len(agreement), sizes))
		return
	}
	if bad >= 0 {
		judgeWrites(c, "the newly logged-in client", a.Conn)
		return
	}
	agreements, lines := 0, 0
	for i := range trans {
		d, _ := fieldOf(&trans[i], 101)
		switch tranType(&trans[i]) {
		case 109:
			agreements++
			if string(d) != agreement {
				c.Violation("agreement-text", fmt.Sprintf("the agreement delivered at login has %d bytes, the server's agreement has %d", len(d), len(agreement)))
			}
		case 106:
			if bytes.Contains(d, []byte("hello newcomer")) {
				lines++
			}
		}
	}
	if agreements != 1 {
		c.Violation("agreement-count", fmt.Sprintf("the login sequence carried %d agreement transactions, expected one", agreements))
	}
	if fired && lines != 1 {
		c.Violation("broadcast-delivery-count", fmt.Sprintf("the chat line sent during the login arrived %d times", lines))
	}
	if len(snapshot) <= 200000 {
		c.Corr("stream-reframing", streamCanon(trans), c.AskS("streamdec", hx(snapshot[8:])), true)
	}
	a.Conn.EOF()
	b.Conn.EOF()
	a.WaitDone(longWait)
	b.WaitDone(longWait)
	c.Nontrivial(fmt.Sprintf("agreement %d", len(agreement)))
	c.Dist(fmt.Sprintf("login-agreement/transaction>32KiB:%v", len(agreement)+26 > 32768))
}

// ---------------------------------------------------------------- a reader that stalls in the middle of a transaction

// runSlowReader: the client's side of a real net.Conn (net.Pipe: synchronous, deadlines supported) reads the first
// bytes of a transaction, stops reading for several seconds — longer than a plausible write deadline — while a second
// transaction is queued behind, then drains.  Everything the client ever received must be whole transactions: a Write
// is either completed or the connection is given up, never abandoned half-way with the session going on.
func runSlowReader(c *Case) {
	r := c.R
	ts, err := newTS(TSOpt{Direct: true})
	if err != nil {
		panic(err)
	}
	defer ts.Close()
	srvEnd, cliEnd := net.Pipe()
	cc := ts.Srv.NewClientConn(srvEnd, "10.10.0.1:4000")
	a := hotline.NewTransaction(hotline.TranType{0, 104}, cc.ID, fld(hotline.FieldData, r.Bytes(r.Pick(3000, 20000, 40000))))
	b := hotline.NewTransaction(hotline.TranChatMsg, cc.ID, fld(hotline.FieldData, []byte("\r        other:  next")))
	encA, encB := encTran(a), encTran(b)
	errs := make(chan error, 2)
	go func() { errs <- ts.Srv.VerifSendTransaction(a) }()
	head := make([]byte, r.Pick(1, 10, 19, 20, 21, 300))
	if _, err := io.ReadFull(cliEnd, head); err != nil {
		c.Disagree("slow-reader-setup", "could not read the first bytes of the transaction")
		return
	}
	go func() { errs <- ts.Srv.VerifSendTransaction(b) }()
	pause := 6500 * time.Millisecond
	if c.X.Tier == "thorough" && r.Chance(30) {
		pause = 11 * time.Second
	}
	time.Sleep(pause)
	// the reader is back and drains whatever comes
	got := make(chan []byte, 1)
	go func() {
		rest, _ := io.ReadAll(cliEnd)
		got <- rest
	}()
	var sendErrs []string
	for i := 0; i < 2; i++ {
		select {
		case e := <-errs:
			if e != nil {
				sendErrs = append(sendErrs, e.Error())
			}
		case <-time.After(longWait):
			c.Violation("send-transaction-stuck", "sendTransaction did not return although the client is reading again")
			srvEnd.Close()
			return
		}
	}
	srvEnd.Close()
	stream := append(head, (<-got)...)
	c.Note("first_read", len(head))
	c.Note("pause_s", pause.Seconds())
	c.Note("a_bytes", len(encA))
	c.Note("b_bytes", len(encB))
	c.Note("received_bytes", len(stream))
	c.Note("send_errors", fmt.Sprint(sendErrs))
	trans, rest, ferr := splitTransactions(stream)
	if ferr != nil || len(rest) != 0 {
		c.Note("reframe_error", fmt.Sprint(ferr))
		c.Violation("interleaved-transactions", fmt.Sprintf("a client read %d bytes of a %d-byte transaction, paused %.1f s and went on reading: what it received in total (%d bytes) is not a sequence of whole transactions — the interrupted transaction was abandoned half-way and the session continued (send errors: %v)", len(head), len(encA), pause.Seconds(), len(stream), sendErrs))
		return
	}
	var gs []string
	for i := range trans {
		gs = append(gs, tranStrGo(&trans[i]))
	}
	sort.Strings(gs)
	want := []string{tranStrGo(&a), tranStrGo(&b)}
	sort.Strings(want)
	if strings.Join(gs, "\n") != strings.Join(want, "\n") {
		c.Violation("transaction-lost-after-stall", fmt.Sprintf("after the stall the client received %d whole transactions instead of the two that were sent (send errors: %v)", len(trans), sendErrs))
		return
	}
	if len(stream) <= 150000 {
		c.Corr("stream-parses-to-permutation", c.AskS("c14perm", hx(stream), hx(encA), hx(encB)), "perm 2", true)
	}
	c.Nontrivial(fmt.Sprintf("stall %d %d %x", len(head), len(encA), fnv64a(encA)))
	c.Dist("slow-reader/run")
}

// ---------------------------------------------------------------- replies after the id space wrapped

type wrapClient struct {
	name string
	wc   *WireClient
	sent map[uint32]int
}

// awaitOwnReply waits until the reply to request id arrives on the connection that sent it.  If meanwhile a
// reply carrying that id shows up on ANOTHER connection the reply was misdirected (concrete violation, no wait).
func awaitOwnReply(c *Case, all []*wrapClient, who *wrapClient, id uint32) bool {
	verdict := ""
	waitFor(longWait, func() bool {
		for _, x := range all {
			_, trans, _, err := x.wc.Received()
			if err != nil {
				verdict = "unframed"
				return true
			}
			for i := range trans {
				if trans[i].IsReply == 1 && tranID(&trans[i]) == id {
					if x == who {
						verdict = "ok"
					} else {
						verdict = "misdirected to " + x.name
					}
					return true
				}
			}
		}
		return false
	})
	switch {
	case verdict == "ok":
		return true
	case verdict == "unframed":
		c.Violation("interleaved-transactions", "the stream written to a client is not a sequence of whole transactions")
	case verdict == "":
		c.Violation("reply-missing-under-load", fmt.Sprintf("request %d of %s (type %d) got no reply on its connection", id, who.name, who.sent[id]))
	default:
		c.Violation("reply-misdirected", fmt.Sprintf("the reply to request %d, sent by %s (type %d), was written to another connection (%s): that client received a reply carrying an id it never sent, and the request stays unanswered", id, who.name, who.sent[id], verdict))
	}
	return false
}

// runWrapReplies: a client stays connected while the 16-bit id space wraps (counter moved with the test hook) and
// further users log in; afterwards every reply must still arrive on the connection that sent the request, exactly
// once, and no connection may see a reply to an id it never sent.  Broadcasts reach everybody once.
func runWrapReplies(c *Case) {
	r := c.R
	ts, err := newTS(TSOpt{Board: string(bytes.Repeat([]byte("board "), r.Pick(1, 500, 6000)))})
	if err != nil {
		panic(err)
	}
	defer ts.Close()
	mgr := ts.Srv.ClientMgr.(*hotline.MemClientMgr)
	var all []*wrapClient
	nextID := uint32(1000)
	login := func(name string) *wrapClient {
		wc, err := loginWire(ts, fmt.Sprintf("10.7.0.%d:4000", len(all)+1), "guest", "", fld(hotline.FieldUserName, []byte(name)))
		if err != nil {
			c.Note("login_error", err.Error())
			c.Violation("login-reply-missing", fmt.Sprintf("the login of %s was not answered on its own connection", name))
			return nil
		}
		w := &wrapClient{name: name, wc: wc, sent: map[uint32]int{1: 107}}
		all = append(all, w)
		return w
	}
	ask := func(w *wrapClient, ty hotline.TranType, fields ...hotline.Field) bool {
		nextID++
		t := mkTran(ty, nextID, fields...)
		w.sent[nextID] = tranType(&t)
		w.wc.Conn.Feed(encTran(t))
		return awaitOwnReply(c, all, w, nextID)
	}
	// long-lived users at the low ids
	nOld := 1 + r.Intn(3)
	for i := 0; i < nOld; i++ {
		w := login(fmt.Sprintf("old%d", i))
		if w == nil || !ask(w, hotline.TranKeepAlive) {
			return
		}
	}
	// the counter comes round: 65 535 (or k·65 536 - 1, or 2^32 - 1) connections have been made over the lifetime
	start := uint32(r.Pick(65535, 65534, 131071, 4294967295, 4294967294, 196607))
	mgr.VerifSetNextClientID(start)
	nNew := 2 + r.Intn(3)
	for i := 0; i < nNew; i++ {
		if login(fmt.Sprintf("new%d", i)) == nil {
			return
		}
	}
	c.Note("counter_set_to", start)
	c.Note("clients", len(all))
	// requests from everybody, the long-lived users first
	kinds := []hotline.TranType{hotline.TranKeepAlive, hotline.TranGetUserNameList, hotline.TranGetMsgs, hotline.TranGetFileNameList}
	for round := 0; round < 2; round++ {
		for _, w := range all {
			if !ask(w, kinds[r.Intn(len(kinds))]) {
				return
			}
		}
	}
	// a broadcast: everybody connected gets the line exactly once
	line := fmt.Sprintf("wrapline-%d", r.Intn(1<<30))
	nextID++
	all[len(all)-1].sent[nextID] = 105
	all[len(all)-1].wc.Conn.Feed(encTran(mkTran(hotline.TranChatSend, nextID, fld(hotline.FieldData, []byte(line)))))
	count := func(w *wrapClient) int {
		_, trans, _, _ := w.wc.Received()
		n := 0
		for i := range trans {
			if d, _ := fieldOf(&trans[i], 101); trans[i].IsReply == 0 && tranType(&trans[i]) == 106 && bytes.Contains(d, []byte(line)) {
				n++
			}
		}
		return n
	}
	waitFor(longWait, func() bool {
		for _, w := range all {
			if count(w) < 1 {
				return false
			}
		}
		return true
	})
	for _, w := range all {
		w.wc.Quiesce(10*time.Millisecond, time.Second)
		if n := count(w); n != 1 {
			c.Violation("broadcast-delivery-count", fmt.Sprintf("%s received the public chat line %d times after the id space wrapped, expected exactly once", w.name, n))
			return
		}
	}
	// ledger over everything each connection received
	for _, w := range all {
		_, trans, rest, err := w.wc.Received()
		if err != nil || len(rest) != 0 {
			c.Violation("interleaved-transactions", "the stream written to a client is not a sequence of whole transactions")
			return
		}
		if !judgeWrites(c, w.name, w.wc.Conn) {
			return
		}
		seen := map[uint32]int{}
		for i := range trans {
			if trans[i].IsReply != 1 {
				continue
			}
			id := tranID(&trans[i])
			if _, mine := w.sent[id]; !mine {
				c.Violation("reply-misdirected", fmt.Sprintf("%s received a reply carrying id %d, which it never sent", w.name, id))
				return
			}
			seen[id]++
		}
		for id, ty := range w.sent {
			if (replyBearing(ty) || ty == 107) && seen[id] != 1 {
				c.Violation("reply-duplicated", fmt.Sprintf("%s: request %d (type %d) has %d replies on its connection, expected exactly one", w.name, id, ty, seen[id]))
				return
			}
		}
	}
	for _, w := range all {
		w.wc.Conn.EOF()
	}
	for _, w := range all {
		w.wc.WaitDone(longWait)
	}
	c.Nontrivial(fmt.Sprintf("wrap-replies start=%d old=%d new=%d %x", start, nOld, nNew, c.Seed))
	c.Dist(fmt.Sprintf("wrap-replies/start=%d", start))
}

func init() {
	props["C14"] = func(x *Ctx) {
		x.rule = "forced-merge: transaction A (encoded size small, 32 KiB ± 3, 32-64 KiB, one 65 535-byte field, 200-800 fields, several fields totalling up to ~190 KB) written by the real sendTransaction; a second transaction B for the same client is sent the moment A's first Write call returns; reply-ctors: random requests through NewReply / NewErrReply / NewField; outbox-stress: 2-6 real connections, 8-37 concurrent requests each (keep-alive, user list, message board of 0..60 000 bytes, file list of 0..700 entries, public chat lines of 0..9000 bytes — plain and emote, cut to 8192 by the server —, private messages); long-chat-lines: plain / emote lines of 8150..9100 bytes to public chat and a private chat at handler level, size prefix of every field vs its data, each transaction re-framed on its own through the real processOutbox. wrap-replies: 1-3 long-lived connections, the id counter set to 65 535 / k·65 536-1 / 2^32-1, 2-4 further logins, then keep-alive / user list / message board / file list requests from everybody and one public chat line, judged by a per-connection reply ledger; login-agreement: login of a guest on a server with an agreement of 160 B .. 60 KB while another user's chat line is written to the new connection right after the first large Write, judged per Write call (one transaction = one Write) and on the whole stream; slow-reader: a net.Pipe client reads 1-300 bytes of a 3-40 KB transaction, stalls 6.5 s (11 s) with a second transaction queued, then drains — everything ever received must be whole transactions; non-trivial = every forced merge / stress / wrap / login / stall run (distinct sizes and contents); distinct = distinct (sizes, content hash) / run parameters"
		x.assume = []string{
			"a single Write call on a connection is atomic (net.Conn: Go's fd write lock); the in-memory connection used here has that behaviour and records every call",
			"goroutine schedules are sampled (stress) or forced at the one point that matters (between two Write calls of one transaction); fairness of the Go scheduler, memory pressure and kernel-level partial writes are outside the model",
			"transactions fit the protocol: every field at most 65 535 bytes",
		}
		x.Add(&Family{Name: "forced-merge", Quick: 500, Thor: 8000, Run: runForcedMerge})
		x.Add(&Family{Name: "reply-ctors", Quick: 3000, Thor: 100000, Run: runReplyCtors})
		x.Add(&Family{Name: "outbox-stress", Quick: 80, Thor: 1500, Run: runOutboxStress})
		x.Add(&Family{Name: "wrap-replies", Quick: 40, Thor: 800, Run: runWrapReplies})
		x.Add(&Family{Name: "long-chat-lines", Quick: 150, Thor: 3000, Run: runLongChatLines})
		x.Add(&Family{Name: "login-agreement", Quick: 40, Thor: 800, Run: runLoginAgreement})
		x.Add(&Family{Name: "slow-reader", Quick: 2, Thor: 16, Run: runSlowReader})
		c14WaveD(x)
	}
}
