//go:build c14

package main

// C14, wave d.
//
//  kick-window   the history of c14_c17_kick.go (administrator disconnects U, U hangs up during the grace second,
//                1-3 newcomers from other addresses log in, the delayed second Disconnect runs, everybody sends
//                requests) judged by the request-id ledger: every request a newcomer sends after the delayed
//                Disconnect is answered by exactly one reply carrying its id on its own connection, nobody receives
//                a reply to a request he did not send; plus the registry's own account of whom the delayed
//                Disconnect removed, compared with the Lean registry model (Kick.run).
//  stats-poll    a stats reader (Server.CurrentStats / Stats.Values — what GET /api/v1/stats calls — and Stats.Get)
//                polls from several goroutines while clients log in over real connections, send requests and
//                leave, in waves; ledger: every request is answered exactly once.

import (
	"encoding/binary"
	"fmt"
	"runtime"
	"strings"
	"sync"
	"sync/atomic"
	"time"

	"github.com/jhalter/mobius/hotline"
)

// kwLedger judges one connection's stream: whole transactions, replies only to own requests, at most one each,
// exactly one for every reply-bearing request in `must`.
func kwLedger(c *Case, k *kickClient, must []uint32, suffix, when string) bool {
	_, trans, rest, err := k.WC.Received()
	if err != nil || len(rest) != 0 {
		c.Violation("interleaved-transactions", fmt.Sprintf("the stream written to %s is not a sequence of whole transactions", k.Name))
		return false
	}
	seen := map[uint32]int{}
	for i := range trans {
		if trans[i].IsReply != 1 {
			continue
		}
		id := tranID(&trans[i])
		if _, mine := k.Sent[id]; !mine {
			c.Violation("reply-misdirected"+suffix, fmt.Sprintf("%s received a reply carrying id %d, which is not the id of any request sent on that connection", k.Name, id))
			return false
		}
		seen[id]++
	}
	for id, n := range seen {
		if n > 1 {
			c.Violation("reply-duplicated"+suffix, fmt.Sprintf("%s received %d replies to request %d (type %d)", k.Name, n, id, k.Sent[id]))
			return false
		}
	}
	for _, id := range must {
		if replyBearing(k.Sent[id]) && seen[id] != 1 {
			c.Violation("reply-missing"+suffix, fmt.Sprintf("%s (user id %d, %s): request %d (type %d) %s got %d replies", k.Name, k.ID, k.Addr, id, k.Sent[id], when, seen[id]))
			return false
		}
	}
	return true
}

func runKickWindowC14(c *Case) {
	plan := randKickPlan(c.R)
	kr := runKickWindow(c, plan, nil)
	c.Note("plan", plan.String())
	if kr.Skip != "" || !kr.ToldLeft || !kr.Closed {
		// fixture trouble, or a defect in the disconnect itself (C17's business): nothing staged to judge here
		c.Dist("kick-window/skipped")
		c.Note("skip", kr.Skip)
		return
	}
	hist := kr.Events
	c.Note("registry_events", kwHistory(hist))
	c.Note("target", fmt.Sprintf("id %d %s", kr.Target.ID, kr.Target.Addr))
	var ids []string
	for _, k := range kr.New {
		ids = append(ids, fmt.Sprintf("%s=id %d %s", k.Name, k.ID, k.Addr))
	}
	c.Note("newcomers", strings.Join(ids, ", "))
	suffix := ""
	if plan.Wrap && kr.Wrapped {
		suffix = "-after-id-wrap"
	}
	c.Dist(fmt.Sprintf("kick-window/wrap=%v selfclose=%v timer-ran=%v", plan.Wrap && kr.Wrapped, plan.SelfClose, kr.TimerRan))
	when := "sent after the delayed Disconnect of the kicked user ran (a request of the same kind was answered on this connection a moment earlier)"
	// the registry's own account: a Disconnect removes only the connection it was aimed at
	for _, e := range hist {
		if e.Kind == "delayed-delete" && e.Serial >= 0 && e.Addr != kr.Target.Addr {
			c.Violation("stale-disconnect-removed-another-connection"+suffix, fmt.Sprintf("the delayed Disconnect scheduled for the kicked user (id %d, %s) ran after that user had already left and removed the connection of %s, which holds id %d now, from the client table: every reply addressed to it is dropped from here on", kr.Target.ID, kr.Target.Addr, e.Addr, e.ID))
			break
		}
	}
	if !kr.Fenced {
		c.Violation("newcomer-not-served"+suffix, "a client that logged in while a kicked user's delayed Disconnect was pending sent requests and a chat line after it ran; the chat line never reached the other users")
	}
	for _, k := range kr.New {
		if !kwLedger(c, k, k.After, suffix, when) {
			break
		}
	}
	kwLedger(c, kr.Admin, kr.Admin.After, suffix, when)
	kwLedger(c, kr.Bystander, kr.Bystander.After, suffix, when)
	for _, k := range append(append([]*kickClient{}, kr.New...), kr.Admin, kr.Bystander) {
		judgeWrites(c, k.Name, k.WC.Conn)
	}
	kwModelCorr(c, kr)
	c.Nontrivial(fmt.Sprintf("%s|%d|%s", plan.String(), kr.Target.ID, kwHistory(hist)))
	c.Sample(map[string]any{"family": "kick-window", "plan": plan.String(), "registry_events": kwHistory(hist)})
}

// ---------------------------------------------------------------- stats reader polling while users come and go

func runStatsPoll(c *Case) {
	r := c.R
	ts, err := newTS(TSOpt{Board: strings.Repeat("b", r.Pick(10, 2000)), Agreement: "a"})
	if err != nil {
		panic(err)
	}
	defer ts.Close()
	stop := make(chan struct{})
	var polls atomic.Int64
	var pw sync.WaitGroup
	nPoll := 4 + r.Intn(6)
	for i := 0; i < nPoll; i++ {
		pw.Add(1)
		go func(i int) {
			defer pw.Done()
			for {
				select {
				case <-stop:
					return
				default:
				}
				if i%3 == 2 {
					_ = ts.Srv.Stats.Get(hotline.StatCurrentlyConnected)
				} else {
					_ = ts.Srv.CurrentStats()
				}
				polls.Add(1)
				runtime.Gosched()
			}
		}(i)
	}
	// pollers blocked for good (a wedged stats mutex) must not keep the case from ending
	defer func() {
		close(stop)
		done := make(chan struct{})
		go func() { pw.Wait(); close(done) }()
		select {
		case <-done:
		case <-time.After(5 * time.Second):
		}
	}()
	waves := 2 + r.Intn(2)
	perWave := 3 + r.Intn(4)
	answered := 0
	for w := 0; w < waves && !c.failed; w++ {
		type user struct {
			k    *kickClient
			must []uint32
			err  error
		}
		us := make([]*user, perWave)
		var wg sync.WaitGroup
		var idm sync.Mutex
		next := uint32(5000 + 1000*w)
		for i := range us {
			us[i] = &user{}
			wg.Add(1)
			go func(u *user, i int, seed uint64) {
				defer wg.Done()
				rr := NewRNG(seed)
				k, err := kwLogin(ts, fmt.Sprintf("u%d-%d", w, i), fmt.Sprintf("10.40.%d.%d:%d", w+1, i+1, 3000+i), "guest", "")
				u.k, u.err = k, err
				if err != nil {
					return
				}
				n := 2 + rr.Intn(4)
				for j := 0; j < n; j++ {
					idm.Lock()
					next++
					id := next
					idm.Unlock()
					ty := kwKinds[rr.Intn(len(kwKinds))]
					k.Sent[id] = int(binary.BigEndian.Uint16(ty[:]))
					k.WC.Conn.Feed(encTran(mkTran(ty, id)))
					u.must = append(u.must, id)
				}
			}(us[i], i, r.U64())
		}
		wg.Wait()
		for _, u := range us {
			if u.err != nil {
				c.Note("login_error", u.err.Error())
				c.Violation("login-reply-missing", fmt.Sprintf("wave %d: the login of %s was not answered on its own connection while the statistics were being polled", w, u.k.Name))
				return
			}
		}
		// every request is answered when issued alone (outbox-stress probes the same kinds); under the poll it must be too.
		// The wait is huge; it is cut short only on positive evidence that the statistics mutex is wedged: no poller
		// has come back for 10 s although this loop itself went round thousands of times (the process is running).
		lastPolls, lastChange, rounds := polls.Load(), time.Now(), 0
		waitFor(longWait, func() bool {
			all := true
			for _, u := range us {
				for _, id := range u.must {
					if !kwHasReply(u.k, id) {
						all = false
					}
				}
			}
			if all {
				return true
			}
			if p := polls.Load(); p != lastPolls {
				lastPolls, lastChange, rounds = p, time.Now(), 0
			} else if rounds++; rounds > 5000 && time.Since(lastChange) > 10*time.Second {
				c.Note("stats_readers", "no statistics reader has returned for 10 s")
				return true
			}
			return false
		})
		c.Note("wave", w)
		c.Note("polls_so_far", polls.Load())
		for _, u := range us {
			if !kwLedger(c, u.k, u.must, "", "sent right after the login while a statistics reader polls (Server.CurrentStats / Stats.Get) and other users log in and leave") {
				return
			}
			answered += len(u.must)
		}
		// they leave (concurrently with the pollers and, in the next wave, with new logins)
		for _, u := range us {
			u.k.WC.Conn.EOF()
		}
		if w == waves-1 || r.Bool() {
			for _, u := range us {
				if _, done := u.k.WC.WaitDone(longWait); !done {
					c.Violation("connection-handler-stuck", fmt.Sprintf("the connection handler of %s did not return after its client closed the connection (statistics polled concurrently): the user is never removed from the table", u.k.Name))
					return
				}
			}
		}
	}
	// the reader itself must come back too
	before := polls.Load()
	if !waitFor(longWait, func() bool { return polls.Load() > before }) {
		c.Violation("stats-reader-stuck", "Server.CurrentStats / Stats.Get no longer return after users logged in and left while the statistics were polled")
		return
	}
	if n := len(ts.Srv.ClientMgr.List()); n != 0 {
		waitFor(10*time.Second, func() bool { return len(ts.Srv.ClientMgr.List()) == 0 })
	}
	c.Nontrivial(fmt.Sprintf("stats-poll pollers=%d waves=%d users=%d %x", nPoll, waves, perWave, c.Seed))
	c.Dist(fmt.Sprintf("stats-poll/pollers=%d", nPoll))
	c.Sample(map[string]any{"family": "stats-poll", "pollers": nPoll, "waves": waves, "users_per_wave": perWave, "requests_answered": answered, "polls": polls.Load()})
}

func c14WaveD(x *Ctx) {
	{
		x.rule += "; kick-window: administrator, bystander and target log in over real connections in one of the 6 orders; optionally the id counter is advanced by real Add/Delete pairs until the target's id is the allocator's next candidate (16-bit wrap); disconnect request (no option / temporary / permanent ban); the target's client closes its own connection during the grace second (15%: waits to be closed); 1-3 newcomers log in from other addresses while the delayed Disconnect is held at a gate in a wrapped ClientMgr, are answered once each, the gate opens, then 3-5 requests per newcomer plus a chat line (fence) and requests from administrator and bystander, judged by the request-id ledger and by the registry's own record of whom the delayed Disconnect removed; stats-poll: 4-9 goroutines polling Server.CurrentStats / Stats.Get without pause while 2-3 waves of 3-6 users log in concurrently, send 2-5 requests each and leave, ledger per connection"
		x.assume = append(x.assume, "time.Sleep(1 s) in the disconnect handler's goroutine is a lower bound: the harness delays the goroutine's ClientMgr.Delete further (wrapped interface field) until the newcomers have logged in — a legal schedule, forced instead of sampled")
		x.Add(&Family{Name: "kick-window", Quick: 24, Thor: 300, Run: runKickWindowC14})
		x.Add(&Family{Name: "stats-poll", Quick: 6, Thor: 60, Run: runStatsPoll, MaxPar: 3})
		kwOnly(x)
	}
}
