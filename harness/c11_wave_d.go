//go:build c11

package main

// C11, wave d: aliases as first-class entries of the agreement judges (relative and absolute link
// targets, to files and to folders, made on disk and by the real Make Alias transaction under an
// absolute and a relative file root), comments at the boundaries of the two-byte comment length
// field travelling through set-info → get-info → rename → move → download reply, and ignore
// patterns loaded through the real mobius.LoadConfig from a generated config.yaml (Perl-syntax
// patterns included) with the reference predicate computed from the CONFIGURED patterns.

import (
	"bytes"
	"encoding/binary"
	"fmt"
	"os"
	"path/filepath"
	"regexp"
	"sort"
	"strings"

	"github.com/jhalter/mobius/hotline"
	"github.com/jhalter/mobius/internal/mobius"
)

// ---------------------------------------------------------------- aliases

type aliasState struct {
	ok      bool
	link    string // the link string (Readlink)
	isDir   bool   // what the kernel resolves it to
	data    []byte // the target's bytes (regular file)
	entries []string
	target  string // the resolved absolute target (EvalSymlinks)
}

func captureAlias(dir, name string) aliasState {
	lp := filepath.Join(dir, name)
	var s aliasState
	li, err := os.Lstat(lp)
	if err != nil || li.Mode()&os.ModeSymlink == 0 {
		return s
	}
	s.link, _ = os.Readlink(lp)
	fi, err := os.Stat(lp)
	if err != nil {
		return s
	}
	s.ok = true
	s.target, _ = filepath.EvalSymlinks(lp)
	if fi.IsDir() {
		s.isDir = true
		s.entries = snapshot(s.target)
	} else {
		s.data, _ = os.ReadFile(lp)
	}
	return s
}

// judgeAliasTargetKept: whatever was done to the alias, the entry it pointed at is untouched.
func (h *c11Run) judgeAliasTargetKept(what string, before aliasState, aliasPath string) {
	c := h.c
	if before.target == "" || strings.HasPrefix(aliasPath+"/", before.target+"/") {
		return // an alias that lives inside the folder it points at: acting on the alias changes that folder
	}
	bad := ""
	fi, err := os.Lstat(before.target)
	switch {
	case err != nil:
		bad = "the alias's target is gone"
	case before.isDir != fi.IsDir():
		bad = "the alias's target changed its kind"
	case before.isDir:
		if strings.Join(snapshot(before.target), "\n") != strings.Join(before.entries, "\n") {
			bad = "the folder the alias pointed at changed"
		}
	default:
		if b, _ := os.ReadFile(before.target); !bytes.Equal(b, before.data) {
			bad = "the file the alias pointed at changed"
		}
	}
	if bad != "" {
		c.Note("operation", what)
		c.Note("alias", aliasPath)
		c.Note("target", before.target)
		c.Note("history", h.trace)
		c.Violation("alias-"+what+"-touched-target", "a "+what+" of an alias by its listed name must act on the alias itself: "+bad)
	}
}

// judgeAliasCarried: an acknowledged rename / move of an alias by its listed name moved the ALIAS (the link with its
// link string), left nothing under the old name and did not touch the target.
func (h *c11Run) judgeAliasCarried(what string, before aliasState, srcDir, srcName, dstDir, dstName string) {
	c := h.c
	src, dst := filepath.Join(srcDir, srcName), filepath.Join(dstDir, dstName)
	var bad []string
	li, err := os.Lstat(dst)
	switch {
	case err != nil:
		bad = append(bad, "nothing exists under the new name")
	case li.Mode()&os.ModeSymlink == 0:
		bad = append(bad, "the new name is not an alias")
	default:
		if l, _ := os.Readlink(dst); l != before.link {
			bad = append(bad, fmt.Sprintf("the alias now points at %q instead of %q", l, before.link))
		}
	}
	if _, err := os.Lstat(src); err == nil {
		bad = append(bad, "the alias still exists under the old name")
	}
	if len(bad) > 0 {
		c.Note("operation", what)
		c.Note("source", src)
		c.Note("destination", dst)
		c.Note("link_string", before.link)
		c.Note("problems", bad)
		c.Note("history", h.trace)
		c.Violation("alias-"+what+"-not-done", "a "+what+" of an alias acknowledged as done did not "+what+" the alias: "+bad[0])
	}
	if !strings.HasPrefix(dst+"/", before.target+"/") {
		h.judgeAliasTargetKept(what, before, src)
	}
}

// judgeAliasViews: list entry, get-info reply and download reply of an alias (addressed by its listed name) agree
// with each other and with what the alias delivers.
func (h *c11Run) judgeAliasViews(dir string, e diskEnt, le *listEntry, pfb []byte, has bool, ity, isz []byte, hasSz bool) {
	c := h.c
	lp := filepath.Join(dir, e.name)
	fi, err := os.Stat(lp)
	if err != nil || le == nil {
		return
	}
	tgt, _ := os.Readlink(lp)
	note := func() {
		c.Note("alias", lp)
		c.Note("link_string", tgt)
		c.Note("list_type", hx(le.Type))
		c.Note("list_size", le.Size)
		c.Note("info_type", hx(ity))
		c.Note("info_size", hx(isz))
		c.Note("history", h.trace)
	}
	if fi.IsDir() {
		if string(le.Type) != "fldr" || string(ity) != "fldr" {
			note()
			c.Violation("alias-type-disagree", "an alias of a folder is not shown as a folder (fldr) both in the file list and in get-info")
		}
		if sub, err := os.ReadDir(lp); err == nil {
			want := 0
			for _, de := range sub {
				if !h.ignored(de.Name()) {
					want++
				}
			}
			if string(le.Type) == "fldr" && int(le.Size) != want {
				note()
				c.Note("non_ignored_entries", want)
				c.Violation("folder-count-wrong", "the item count shown for an alias of a folder is not the number of the folder's non-ignored entries")
			}
		}
		c.Nontrivial(fmt.Sprintf("alias-agree|dir|%s|%v", e.name, filepath.IsAbs(tgt)))
		return
	}
	if !fi.Mode().IsRegular() {
		return
	}
	data, err := os.ReadFile(lp)
	if err != nil {
		return
	}
	_, hasRsrc := readOrNil(filepath.Join(dir, ".rsrc_"+e.name))
	_, hasInfo := readOrNil(filepath.Join(dir, ".info_"+e.name))
	dreply, dres := h.step(fileReq{Kind: "download", PF: pfb, HasPF: has, Name: e.listed})
	if !strings.HasPrefix(dreply, "download ") {
		note()
		c.Note("reply", dreply)
		c.Violation("listed-name-not-addressable", "download of a listed alias of a file (name bytes unchanged) was not accepted")
		return
	}
	if !hasRsrc {
		dsz, _ := getF(&dres[0], hotline.FieldFileSize)
		want := be32(len(data))
		if !hasSz || !bytes.Equal(isz, want) || !bytes.Equal(dsz, want) || le.Size != uint32(len(data)) {
			note()
			c.Note("bytes_delivered", len(data))
			c.Note("download_reply_size", hx(dsz))
			c.Violation("alias-size-disagree", "the size of an alias of a file (no resource fork) differs between list, get-info, download reply and the bytes it delivers")
		}
	}
	if !hasInfo {
		// The list derives the type code from the TARGET's name, get-info from the alias's own name: they are required
		// to agree whenever both names select the same entry of the extension table (reported to the lead: they differ
		// for an alias whose extension differs from its target's; judged with VERIF_C11_STRICT_ALIAS=1).
		same := c.Ask("typeof", []byte(e.name)) == c.Ask("typeof", []byte(filepath.Base(tgt)))
		if same || os.Getenv("VERIF_C11_STRICT_ALIAS") != "" {
			if !bytes.Equal(ity, le.Type) {
				note()
				c.Violation("alias-type-disagree", "the type code of an alias of a file differs between the file list and get-info")
			}
		} else {
			c.Dist("alias-type-follows-target-name (not judged)")
		}
	}
	c.Nontrivial(fmt.Sprintf("alias-agree|file|%s|%d|%v", e.name, len(data), filepath.IsAbs(tgt)))
}

var c11AliasNames = []string{"note.txt", "pic.JPG", "doc.pdf", "b c", "Résumé.txt", "z", "arch.tgz", "noext", "Folder", "Sub Dir", "ƒolder", "Ångström", "q.tar.gz", "img.Jpeg"}

// relTo renders target as a link string relative to the folder linkDir (what `ln -s` with a relative path stores).
func relTo(r *RNG, linkDir, target string) string {
	rel, err := filepath.Rel(linkDir, target)
	if err != nil {
		return target
	}
	if !strings.HasPrefix(rel, "..") && r.Chance(30) {
		rel = "./" + rel
	}
	return rel
}

// cwdResolves reports whether the file list's own resolution of a link string (against the working directory of
// the process, as coded: os.Stat(os.Readlink(link))) finds what the kernel finds (against the link's folder).
func cwdResolves(linkPath string) bool {
	tgt, err := os.Readlink(linkPath)
	if err != nil {
		return false
	}
	a, errA := os.Stat(tgt)
	b, errB := os.Stat(linkPath)
	if errA != nil || errB != nil {
		return errA != nil && errB != nil
	}
	return os.SameFile(a, b)
}

// divergentAliases: the listed names (Mac Roman) of the non-ignored aliases of dir whose link string the file list
// resolves differently from the kernel.  Empty under VERIF_C11_STRICT_ALIAS (everything is judged).
func (h *c11Run) divergentAliases(dir string) map[string]bool {
	out := map[string]bool{}
	if os.Getenv("VERIF_C11_STRICT_ALIAS") != "" {
		return out
	}
	des, _ := os.ReadDir(dir)
	for _, de := range des {
		if de.Type()&os.ModeSymlink == 0 || h.ignored(de.Name()) {
			continue
		}
		if !cwdResolves(filepath.Join(dir, de.Name())) {
			if enc, ok := macEnc(strings.TrimSuffix(de.Name(), ".incomplete")); ok {
				out[string(enc)] = true
			}
		}
	}
	return out
}

// c11Aliases: a small tree, then aliases of files and folders — fixture links with absolute and RELATIVE link strings,
// and aliases made by the real Make Alias transaction under the absolute file root and under a RELATIVE file root
// (the server's working directory is not the tree) — each judged as a first-class entry: listed, addressable by its
// listed name, views agree with what it delivers, rename / move / delete act on the alias itself.
func c11Aliases(c *Case) {
	r := c.R
	ig := c11Ignores[0]
	ts, err := newTS(TSOpt{Direct: true, PreserveForks: r.Bool(), IgnoreFiles: ig.pats,
		Accounts: []AcctSpec{{Login: "admin", Name: "admin", Password: "", Access: allAccess()}}})
	if err != nil {
		c.Note("error", err.Error())
		c.Disagree("fixture", "cannot build the test server")
		return
	}
	defer ts.Close()
	h := &c11Run{c: c, ts: ts, ig: ig}
	for _, p := range ig.pats {
		h.res = append(h.res, regexp.MustCompile(p))
	}
	h.cc, _ = ts.DirectClient("admin", []byte("admin"), "127.0.0.1:1")
	// the tree: folders A, "B b", A/inner with a few files each
	folders := [][]string{nil, {"A"}, {"B b"}, {"A", "inner"}}
	for _, f := range folders[1:] {
		os.MkdirAll(h.dirPath(f), 0755)
	}
	type target struct {
		chain []string
		name  string
		isDir bool
	}
	var targets []target
	for _, f := range folders {
		used := map[string]bool{}
		for i, n := 0, 1+r.Intn(3); i < n; i++ {
			name := c11AliasNames[r.Intn(8)]
			if used[name] {
				continue
			}
			used[name] = true
			os.WriteFile(filepath.Join(h.dirPath(f), name), r.Bytes(1+r.Intn(300)), 0644)
			targets = append(targets, target{f, name, false})
		}
	}
	targets = append(targets, target{nil, "A", true}, target{nil, "B b", true}, target{[]string{"A"}, "inner", true})
	relRoot := ""
	if wd, err := os.Getwd(); err == nil {
		if rr, err := filepath.Rel(wd, ts.Root); err == nil && !filepath.IsAbs(rr) {
			relRoot = rr
		}
	}
	type made struct {
		chain []string
		name  string
		kind  string
	}
	var aliases []made
	for i, n := 0, 3+r.Intn(4); i < n; i++ {
		t := targets[r.Intn(len(targets))]
		dst := folders[r.Intn(len(folders))]
		dstDir := h.dirPath(dst)
		tpath := filepath.Join(h.dirPath(t.chain), t.name)
		if t.isDir && strings.HasPrefix(dstDir+"/", tpath+"/") && r.Chance(70) {
			continue // mostly not an alias of a folder inside that folder
		}
		kind := []string{"fixture-abs", "fixture-rel", "fixture-rel", "handler-abs-root", "handler-rel-root"}[r.Intn(5)]
		name := t.name
		if strings.HasPrefix(kind, "fixture") && r.Chance(50) {
			// another name with the SAME extension (the type code of an alias: see judgeAliasViews)
			name = "alias of " + t.name
			if r.Chance(30) {
				name = "ln-" + t.name
			}
		}
		lp := filepath.Join(dstDir, name)
		if _, err := os.Lstat(lp); err == nil {
			continue
		}
		switch kind {
		case "fixture-abs":
			if os.Symlink(tpath, lp) != nil {
				continue
			}
		case "fixture-rel":
			if os.Symlink(relTo(r, dstDir, tpath), lp) != nil {
				continue
			}
		default:
			if kind == "handler-rel-root" {
				if relRoot == "" {
					continue
				}
				ts.Srv.Config.FileRoot = relRoot
			}
			spf, shas := h.pf(t.chain)
			npf, nhas := h.pf(dst)
			nm, _ := macEnc(t.name)
			h.id++
			res, _, pan := ts.Call(h.cc, fileReq{Kind: "alias", PF: spf, HasPF: shas, Name: nm, NewPF: npf, HasNewPF: nhas}.tran(h.id))
			ts.Srv.Config.FileRoot = ts.Root
			if canonReply("alias", res, pan) != "ok" {
				continue
			}
			h.trace = append(h.trace, fmt.Sprintf("make-alias (%s) of %s in %s", kind, tpath, dstDir))
			st := captureAlias(dstDir, name)
			if !st.ok || st.target != tpath {
				// "alias … change[s] the visible tree exactly as requested": the alias must lead to the named entry
				if kind == "handler-rel-root" && os.Getenv("VERIF_C11_STRICT_ALIAS") == "" {
					// reported to the lead: under a relative file root (the default `-config config`) Make Alias stores a
					// link string relative to the WORKING DIRECTORY, which the kernel resolves against the alias's folder
					c.Dist("make-alias-under-relative-root-dangles (not judged)")
				} else {
					c.Note("alias", lp)
					c.Note("link_string", st.link)
					c.Note("requested_target", tpath)
					c.Note("file_root", map[string]string{"handler-abs-root": ts.Root, "handler-rel-root": relRoot}[kind])
					c.Violation("alias-wrong", "make-alias was acknowledged but the alias does not lead to the named entry")
				}
			}
		}
		c.Dist("aliases/made/" + kind)
		aliases = append(aliases, made{dst, name, kind})
	}
	// every alias as a first-class entry
	for _, a := range aliases {
		dir := h.dirPath(a.chain)
		lp := filepath.Join(dir, a.name)
		st := captureAlias(dir, a.name)
		if !st.ok {
			c.Dist("aliases/dangling")
			continue // dangling: outside the quantifier
		}
		pfb, has := h.pf(a.chain)
		listed, _ := macEnc(a.name)
		// (1) listed — the list resolves the link string against the working directory (as coded); where that differs
		// from the kernel's resolution (relative link strings) the list clause is reported, not judged
		h.listAndJudge(a.chain) // exactness of the list and, for a sample of entries, the views
		if !cwdResolves(lp) {
			c.Dist("relative-alias-unlisted (not judged)")
		}
		// (2) views of THIS alias
		lreply, lres := h.step(fileReq{Kind: "list", PF: pfb, HasPF: has})
		var le *listEntry
		if strings.HasPrefix(lreply, "list ") {
			got := parseList(&lres[0])
			for k := range got {
				if bytes.Equal(got[k].Name, listed) {
					le = &got[k]
				}
			}
		}
		ireply, ires := h.step(fileReq{Kind: "info", PF: pfb, HasPF: has, Name: listed})
		if !strings.HasPrefix(ireply, "info ") {
			c.Note("alias", lp)
			c.Note("link_string", st.link)
			c.Note("reply", ireply)
			c.Note("history", h.trace)
			c.Violation("listed-name-not-addressable", "get-info on an alias (addressed by the name the list shows for it) did not find the entry")
			continue
		}
		ity, _ := getF(&ires[0], hotline.FieldFileType)
		isz, hasSz := getF(&ires[0], hotline.FieldFileSize)
		if le != nil {
			h.judgeAliasViews(dir, diskEnt{name: a.name, listed: listed, link: true, complete: true}, le, pfb, has, ity, isz, hasSz)
		} else if !st.isDir {
			// not listed (relative link string, see above): get-info and the download reply must still agree with the bytes delivered
			dreply, dres := h.step(fileReq{Kind: "download", PF: pfb, HasPF: has, Name: listed})
			dsz := []byte(nil)
			if strings.HasPrefix(dreply, "download ") {
				dsz, _ = getF(&dres[0], hotline.FieldFileSize)
			}
			if _, hasRsrc := readOrNil(filepath.Join(dir, ".rsrc_"+a.name)); !hasRsrc {
				want := be32(len(st.data))
				if !hasSz || !bytes.Equal(isz, want) || !bytes.Equal(dsz, want) {
					c.Note("alias", lp)
					c.Note("link_string", st.link)
					c.Note("bytes_delivered", len(st.data))
					c.Note("info_size", hx(isz))
					c.Note("download_reply", dreply)
					c.Violation("alias-size-disagree", "the size of an alias of a file differs between get-info, the download reply and the bytes it delivers")
				}
			}
			c.Nontrivial(fmt.Sprintf("alias-agree|unlisted|%s|%d", a.name, len(st.data)))
		}
		// (3) an operation by listed name acts on the alias itself
		switch r.Intn(4) {
		case 0: // rename (same extension)
			nn := "renamed " + a.name
			if _, err := os.Lstat(filepath.Join(dir, nn)); err == nil {
				break
			}
			enc, _ := macEnc(nn)
			reply, _ := h.step(fileReq{Kind: "setinfo", PF: pfb, HasPF: has, Name: listed, NewName: enc, HasNewName: true})
			if reply == "ok" {
				h.judgeAliasCarried("rename", st, dir, a.name, dir, nn)
				c.Nontrivial(fmt.Sprintf("alias-rename|%s|%s", a.name, a.kind))
			} else {
				c.Note("alias", lp)
				c.Note("reply", reply)
				c.Violation("listed-name-not-addressable", "renaming an alias by its listed name to a free name was not acknowledged")
			}
		case 1: // move
			dst := folders[r.Intn(len(folders))]
			dstDir := h.dirPath(dst)
			if dstDir == dir || strings.HasPrefix(dstDir+"/", lp+"/") {
				break
			}
			if _, err := os.Lstat(filepath.Join(dstDir, a.name)); err == nil {
				break
			}
			npf, nhas := h.pf(dst)
			reply, _ := h.step(fileReq{Kind: "move", PF: pfb, HasPF: has, Name: listed, NewPF: npf, HasNewPF: nhas})
			if reply == "ok" {
				h.judgeAliasCarried("move", st, dir, a.name, dstDir, a.name)
				c.Nontrivial(fmt.Sprintf("alias-move|%s|%s", a.name, a.kind))
			}
		case 2: // delete
			reply, _ := h.step(fileReq{Kind: "delete", PF: pfb, HasPF: has, Name: listed})
			if reply == "ok" {
				if _, err := os.Lstat(lp); err == nil {
					c.Note("alias", lp)
					c.Violation("delete-not-whole", "a delete of an alias acknowledged as done left the alias behind")
				}
				h.judgeAliasTargetKept("delete", st, lp)
				c.Nontrivial(fmt.Sprintf("alias-delete|%s|%s", a.name, a.kind))
			}
		}
		if h.bad {
			break
		}
	}
	c.Sample(map[string]any{"family": "aliases", "aliases": len(aliases), "steps": h.steps})
}

// ---------------------------------------------------------------- comments at the boundaries of the length field

func c11Comment(r *RNG, n int) []byte {
	b := make([]byte, n)
	for i := range b {
		// printable ASCII and Mac-Roman high bytes; never 0 (kept simple to read in replays)
		if r.Chance(15) {
			b[i] = byte(0x80 + r.Intn(0x80))
		} else {
			b[i] = byte(0x20 + r.Intn(0x5f))
		}
	}
	return b
}

// infoForkComment reads the comment out of the bytes of an information fork by the protocol description:
// 72 fixed bytes up to and including the two-byte name size, the name, a two-byte comment size, the comment.
func infoForkComment(b []byte) (size int, comment []byte, ok bool) {
	if len(b) < 72 {
		return 0, nil, false
	}
	nl := int(binary.BigEndian.Uint16(b[70:72]))
	if len(b) < 72+nl+2 {
		return 0, nil, false
	}
	size = int(binary.BigEndian.Uint16(b[72+nl : 74+nl]))
	return size, b[74+nl:], true
}

// c11CommentLengths: comments of 0, 1, 255, 256, 257, 300, 1000, 65535 (and random) bytes set on a file and on a
// folder; after each: get-info returns exactly the comment, the stored information fork carries its length in the
// two-byte field and all of its bytes, the download reply's transfer size counts it; then rename and move take it along.
func c11CommentLengths(c *Case) {
	r := c.R
	ig := c11Ignores[0]
	ts, err := newTS(TSOpt{Direct: true, PreserveForks: r.Bool(), IgnoreFiles: ig.pats,
		Accounts: []AcctSpec{{Login: "admin", Name: "admin", Password: "", Access: allAccess()}}})
	if err != nil {
		c.Note("error", err.Error())
		c.Disagree("fixture", "cannot build the test server")
		return
	}
	defer ts.Close()
	h := &c11Run{c: c, ts: ts, ig: ig}
	for _, p := range ig.pats {
		h.res = append(h.res, regexp.MustCompile(p))
	}
	h.cc, _ = ts.DirectClient("admin", []byte("admin"), "127.0.0.1:1")
	os.MkdirAll(filepath.Join(ts.Root, "dst"), 0755)
	os.MkdirAll(filepath.Join(ts.Root, "Sub Dir", "proj"), 0755)
	name := []string{"note.txt", "pic.JPG", "Résumé.txt", "noext"}[r.Intn(4)]
	chain := [][]string{nil, {"Sub Dir"}}[r.Intn(2)]
	onFolder := r.Chance(25)
	if onFolder {
		name, chain = "proj", []string{"Sub Dir"}
	} else {
		data := r.Bytes(r.Intn(400))
		os.WriteFile(filepath.Join(h.dirPath(chain), name), data, 0644)
		if r.Chance(30) {
			os.WriteFile(filepath.Join(h.dirPath(chain), ".info_"+name), validInfoFork("TEXT", "ttxt", []byte(name), r.Text(r.Intn(20))), 0644)
		}
	}
	lens := []int{0, 1, 255, 256, 257, 300, 1000, 65535, 254, 511, 512, 513, 4096, 32767, 32768, 65534, 2 + r.Intn(253), 258 + r.Intn(65000)}
	n := 3 + r.Intn(3)
	cur, curChain := name, chain
	for i := 0; i < n && !h.bad; i++ {
		L := lens[r.Intn(len(lens))]
		if i == 0 {
			L = lens[c.Idx%8] // every boundary length is met in the first cases of every run
		}
		cm := c11Comment(r, L)
		dir := h.dirPath(curChain)
		pfb, has := h.pf(curChain)
		enc, _ := macEnc(cur)
		reply, _ := h.step(fileReq{Kind: "setinfo", PF: pfb, HasPF: has, Name: enc, Comment: cm, HasComment: true})
		if reply != "ok" {
			c.Note("comment_bytes", L)
			c.Note("reply", reply)
			c.Violation("comment-not-stored", "set-comment on an existing entry was not acknowledged")
			return
		}
		check := func(stage, dir, nm string, chain []string) {
			pfb, has := h.pf(chain)
			enc, _ := macEnc(nm)
			ireply, ires := h.step(fileReq{Kind: "info", PF: pfb, HasPF: has, Name: enc})
			got, _ := getF(&hotline.Transaction{Fields: fieldsOf(ires)}, hotline.FieldFileComment)
			note := func() {
				c.Note("stage", stage)
				c.Note("entry", filepath.Join(dir, nm))
				c.Note("comment_bytes_set", L)
				c.Note("comment_bytes_returned", len(got))
				c.Note("history", h.trace)
			}
			if !strings.HasPrefix(ireply, "info ") || !bytes.Equal(got, cm) {
				note()
				c.Note("first_difference", firstDiffC11(got, cm))
				c.Violation("comment-not-stored", fmt.Sprintf("%s: get-info does not return the %d-byte comment that was set (it returns %d bytes)", stage, L, len(got)))
			}
			raw, ok := readOrNil(filepath.Join(dir, ".info_"+nm))
			if !ok {
				note()
				c.Violation("comment-not-stored", stage+": the information fork side file does not exist")
				return
			}
			sz, stored, okp := infoForkComment(raw)
			if !okp || sz != L || !bytes.Equal(stored, cm) {
				note()
				c.Note("stored_comment_size_field", sz)
				c.Note("stored_comment_bytes", len(stored))
				c.Violation("comment-length-field-wrong", fmt.Sprintf("%s: the stored information fork does not carry the comment with its length (%d) in the two-byte size field: field=%d, %d bytes follow", stage, L, sz, len(stored)))
			}
			if !onFolder {
				// the comment travels in the download's information fork: the transfer size counts all of it
				dreply, dres := h.step(fileReq{Kind: "download", PF: pfb, HasPF: has, Name: enc})
				if strings.HasPrefix(dreply, "download ") {
					xs, _ := getF(&dres[0], hotline.FieldTransferSize)
					data, _ := readOrNil(filepath.Join(dir, nm))
					rs, _ := readOrNil(filepath.Join(dir, ".rsrc_"+nm))
					nameLen := len(raw) - 74 - len(stored)
					want := (len(data) + len(rs) + 130 + nameLen + L) & 0xffffffff
					if len(xs) != 4 || int(binary.BigEndian.Uint32(xs)) != want {
						note()
						c.Note("download_reply", dreply)
						c.Note("expected_transfer_size", want)
						c.Violation("comment-not-carried", stage+": the download reply's transfer size does not count the whole comment")
					}
				}
			}
			c.Nontrivial(fmt.Sprintf("comment|%s|%d|%v", stage, L, onFolder))
			c.Dist(fmt.Sprintf("comment-length/%s", lenBucket(L)))
		}
		check("after set-comment", dir, cur, curChain)
		switch r.Intn(3) {
		case 0: // rename
			nn := fmt.Sprintf("r%d-%s", i, name)
			nenc, _ := macEnc(nn)
			if reply, _ := h.step(fileReq{Kind: "setinfo", PF: pfb, HasPF: has, Name: enc, NewName: nenc, HasNewName: true}); reply == "ok" {
				cur = nn
				check("after rename", dir, cur, curChain)
			}
		case 1: // move
			dst := [][]string{nil, {"dst"}, {"Sub Dir"}}[r.Intn(3)]
			if h.dirPath(dst) == dir || onFolder && len(dst) > 0 && dst[0] == "Sub Dir" {
				break
			}
			npf, nhas := h.pf(dst)
			if reply, _ := h.step(fileReq{Kind: "move", PF: pfb, HasPF: has, Name: enc, NewPF: npf, HasNewPF: nhas}); reply == "ok" {
				curChain = dst
				check("after move", h.dirPath(dst), cur, curChain)
			}
		}
	}
	c.Sample(map[string]any{"family": "comment-lengths", "steps": h.steps, "folder": onFolder})
}

func lenBucket(n int) string {
	switch {
	case n == 0:
		return "0"
	case n < 255:
		return "1-254"
	case n <= 257:
		return fmt.Sprint(n)
	case n < 65535:
		return "258-65534"
	default:
		return "65535"
	}
}

func firstDiffC11(a, b []byte) string {
	n := len(a)
	if len(b) < n {
		n = len(b)
	}
	for i := 0; i < n; i++ {
		if a[i] != b[i] {
			return fmt.Sprintf("byte %d", i)
		}
	}
	if len(a) != len(b) {
		return fmt.Sprintf("lengths %d vs %d", len(a), len(b))
	}
	return "none"
}

// ---------------------------------------------------------------- ignore patterns through the real LoadConfig

// c11PatternPool: ignore patterns as an operator may configure them.  Go's regexp.MatchString (what the file list
// matches with) accepts all of them but the last; several use Perl-only syntax (inline flags, \d \w \s \b classes,
// non-capturing groups, non-greedy operators, Unicode classes) that POSIX ERE does not have.
var c11PatternPool = []string{
	`^\.`, `^@`, `\.bak$`, `(?i)^thumbs\.db$`, `^\d+\.tmp$`, `\.(?:tmp|swp)$`, `^~\$`, `(?i)\.ds_store`, `^\w+\.lock$`,
	`\s\(copy\)$`, `^x.*?y$`, `\bbackup\b`, `[[:digit:]]+$`, `^\p{Lu}`, `(?i)\.BAK$`, `^(?:a|b)\.txt$`, `^(a|b)\.txt$`, `\.tmp$`,
	`(?i)^\.`, `\x2ebak$`, `^.{12,}$`, `\D\d\d\d$`, `[unclosed`,
}

var c11IgnoreNames = []string{"Thumbs.db", "THUMBS.DB", "thumbs.db", "12345.tmp", "a.tmp", "x.swp", "~$doc.docx", ".DS_Store", "pkg.lock",
	"report (copy)", "xay", "xy", "my backup file", "backups", "file123", "Ünicode", "Upper", "lower", "a.txt", "b.txt", "c.txt", "x.bak", "X.BAK",
	".hidden", "@sys", "7.tmp", "seven.tmp.txt", "a rather long file name.dat", "Folder", "Sub Dir"}

func yamlQuote(s string) string { return "'" + strings.ReplaceAll(s, "'", "''") + "'" }

// c11ConfiguredIgnores: a config.yaml with IgnoreFiles drawn from the pool is loaded through the real
// mobius.LoadConfig and becomes the server's configuration; the reference predicate is regexp.MatchString on the
// CONFIGURED patterns (independent of what LoadConfig returns).  Lists of the root and of sub-folders are judged
// directly (exactness, folder counts) and compared with the model run under the reference predicate.
func c11ConfiguredIgnores(c *Case) {
	r := c.R
	var pats []string
	for i, n := 0, 1+r.Intn(4); i < n; i++ {
		p := c11PatternPool[r.Intn(len(c11PatternPool))]
		dup := false
		for _, q := range pats {
			dup = dup || q == p
		}
		if !dup {
			pats = append(pats, p)
		}
	}
	if r.Chance(50) {
		pats = append([]string{`^\.`}, pats...)
	}
	ts, err := newTS(TSOpt{Direct: true, PreserveForks: true,
		Accounts: []AcctSpec{{Login: "admin", Name: "admin", Password: "", Access: allAccess()}}})
	if err != nil {
		c.Note("error", err.Error())
		c.Disagree("fixture", "cannot build the test server")
		return
	}
	defer ts.Close()
	// the configuration file, as the server binary reads it at start-up
	var sb strings.Builder
	sb.WriteString("Name: verif\nDescription: generated by the C11 check\n")
	relRoot := r.Bool()
	if relRoot {
		sb.WriteString("FileRoot: Files\n")
	} else {
		sb.WriteString("FileRoot: " + yamlQuote(ts.Root) + "\n")
	}
	sb.WriteString("PreserveResourceForks: true\nIgnoreFiles:\n")
	for _, p := range pats {
		sb.WriteString("  - " + yamlQuote(p) + "\n")
	}
	cfgPath := filepath.Join(ts.Cfg, "config.yaml")
	if err := os.WriteFile(cfgPath, []byte(sb.String()), 0644); err != nil {
		return
	}
	cfg, err := mobius.LoadConfig(cfgPath)
	c.Note("config_yaml", sb.String())
	if err != nil {
		c.Note("error", err.Error())
		c.Violation("config-not-loaded", "a valid config.yaml with ignore patterns was refused by LoadConfig")
		return
	}
	if cfg.FileRoot != ts.Root {
		if a, e1 := os.Stat(cfg.FileRoot); e1 != nil {
			c.Note("file_root", cfg.FileRoot)
			c.Violation("config-file-root", "the file root LoadConfig computed does not exist")
			return
		} else if b, _ := os.Stat(ts.Root); !os.SameFile(a, b) {
			c.Note("file_root", cfg.FileRoot)
			c.Violation("config-file-root", "the file root LoadConfig computed is not the configured folder")
			return
		}
	}
	ts.Srv.Config = *cfg
	ts.Srv.Config.FileRoot = ts.Root
	h := &c11Run{c: c, ts: ts}
	// the reference predicate: the configured patterns, matched the way the statement says ("match none of the
	// configured ignore patterns"); a pattern that does not compile matches nothing
	for _, p := range pats {
		if re, err := regexp.Compile(p); err == nil {
			h.res = append(h.res, re)
		}
	}
	h.cc, _ = ts.DirectClient("admin", []byte("admin"), "127.0.0.1:1")
	// the tree
	var dirs [][]string
	dirs = append(dirs, nil)
	var allNames []string
	fill := func(chain []string) {
		dir := h.dirPath(chain)
		for i, n := 0, 5+r.Intn(8); i < n; i++ {
			nm := c11IgnoreNames[r.Intn(len(c11IgnoreNames))]
			p := filepath.Join(dir, nm)
			if _, err := os.Lstat(p); err == nil {
				continue
			}
			allNames = append(allNames, nm)
			if (nm == "Folder" || nm == "Sub Dir" || nm == "backups" || nm == "Upper") && len(chain) < 2 {
				os.Mkdir(p, 0755)
				dirs = append(dirs, append(append([]string{}, chain...), nm))
				continue
			}
			os.WriteFile(p, r.Bytes(r.Intn(100)), 0644)
			if r.Chance(20) {
				os.WriteFile(filepath.Join(dir, ".rsrc_"+nm), r.Bytes(1+r.Intn(20)), 0644)
				allNames = append(allNames, ".rsrc_"+nm)
			}
			if r.Chance(20) {
				os.WriteFile(filepath.Join(dir, ".info_"+nm), validInfoFork("TEXT", "ttxt", []byte(nm), r.Text(r.Intn(10))), 0644)
				allNames = append(allNames, ".info_"+nm)
			}
		}
	}
	fill(nil)
	for i := 1; i < len(dirs) && i < 5; i++ {
		fill(dirs[i])
	}
	// the model's ignore predicate, extensionally: the names of the tree the reference predicate ignores
	seen := map[string]bool{}
	var ign []string
	for _, nm := range allNames {
		if !seen[nm] && h.ignored(nm) {
			ign = append(ign, "n"+hx([]byte(nm)))
		}
		seen[nm] = true
	}
	sort.Strings(ign)
	h.ig = c11Ignore{pats: pats, tok: "-"}
	if len(ign) > 0 {
		h.ig.tok = strings.Join(ign, ",")
	}
	h.igSet = true
	c.Note("ignore", pats)
	kept := len(cfg.IgnoreFiles)
	c.Dist(fmt.Sprintf("configured-ignores/patterns=%d loaded=%d", len(pats), kept))
	for _, ch := range dirs {
		h.listAndJudge(ch)
		if h.bad {
			break
		}
	}
	c.Nontrivial("ignores|" + strings.Join(pats, "\x00") + "|" + strings.Join(allNames, ","))
	c.Sample(map[string]any{"family": "configured-ignores", "patterns": pats, "folders": len(dirs)})
}

func c11WaveD(x *Ctx) {
	x.rule += "; aliases: a small tree plus 3-6 aliases of files and folders — fixture links with absolute and RELATIVE link strings (plain, ./x, ../x/y), aliases made by the real Make Alias transaction under the absolute and under a RELATIVE file root (the harness's working directory is not the tree) — each listed, addressed by its listed name for get-info and download request (list size/type = get-info = download reply = bytes delivered; an alias of a folder is fldr with the folder's count in both), then renamed, moved or deleted by its listed name (the alias itself moves with its link string, its target is untouched); the same alias judges run inside histories; comment-lengths: comments of 0, 1, 255, 256, 257, 300, 1000, 65535 (then 254, 511..513, 4096, 32767, 32768, 65534, random) bytes set on a file (with or without an existing information fork) or a folder, followed by rename and move — after every stage get-info returns exactly the comment, the stored fork's two-byte length field and bytes are exact, the download reply counts all of it (30% of the set-comment steps of histories use boundary lengths up to 1000); configured-ignores: config.yaml with 1-5 IgnoreFiles patterns from a pool of 23 (Perl-only syntax: (?i), \\d, \\w, \\s, \\b, (?:…), .*?, \\p{Lu}, \\x2e; POSIX classes; one pattern that does not compile) and an absolute or relative FileRoot, loaded through the real mobius.LoadConfig and installed as the server's configuration; trees from 30 names built to hit and to miss the patterns, side files present (shown when no pattern hides dot-files); every folder's list judged against regexp.MatchString on the CONFIGURED patterns and compared with the model under that predicate"
	x.Add(&Family{Name: "aliases", Quick: 160, Thor: 2000, Run: c11Aliases})
	x.Add(&Family{Name: "comment-lengths", Quick: 48, Thor: 400, Run: c11CommentLengths})
	x.Add(&Family{Name: "configured-ignores", Quick: 160, Thor: 2000, Run: c11ConfiguredIgnores})
}
