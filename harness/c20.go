//go:build c20

package main

// C20 — a crash never leaves persistent state torn.
//
// Every case: a generated sequence of 3..8 persistent updates (board post, news category/article create and delete,
// account create / modify / rename / delete, ban add) is executed by the REAL store code in a child process (this
// binary re-executed with C20_CHILD set) under strace.  From the trace:
//   (i)   the system calls each update makes on the config directory are compared with the model's program for
//         that update (Lean `Crash.tempRename` / `createLink` / `renameUpdate` / `[remove]`);
//   (ii)  for the last update and every k, the state "first k calls done" is materialised from the pre-state and
//         loaded with the real constructors: every store must load and hold the complete old or new value;
//         directory listing and old/new verdict are compared with the model's `crash prog k`;
//   (iii) thorough tier: the child is really killed (SIGKILL injected by strace on entry to the k-th call) and the
//         directory it leaves is loaded the same way.

import (
	"bufio"
	"bytes"
	"encoding/hex"
	"encoding/json"
	"fmt"
	"io"
	"os"
	"os/exec"
	"path/filepath"
	"regexp"
	"runtime"
	"runtime/debug"
	"sort"
	"strconv"
	"strings"
	"sync"
	"syscall"
	"time"

	"github.com/jhalter/mobius/hotline"
	"github.com/jhalter/mobius/internal/mobius"
	"gopkg.in/yaml.v3"
)

// ---------------------------------------------------------------- update specs (shared by parent and child)

type c20Update struct {
	Kind     string   `json:"kind"` // board-post news-cat news-post news-del-art news-del-item acct-create acct-update acct-delete ban-add
	Data     string   `json:"data,omitempty"`
	Path     []string `json:"path,omitempty"`
	Name     string   `json:"name,omitempty"`
	Bundle   bool     `json:"bundle,omitempty"`
	ID       uint32   `json:"id,omitempty"`
	Parent   uint32   `json:"parent,omitempty"`
	Login    string   `json:"login,omitempty"`
	NewLogin string   `json:"new_login,omitempty"`
	Access   []int    `json:"access,omitempty"`
	IP       string   `json:"ip,omitempty"`
	Until    int64    `json:"until,omitempty"` // unix seconds; 0 = permanent (nil)
	Existing bool     `json:"existing,omitempty"` // acct-update whose new login already exists (must be refused)
	Logins   []string `json:"logins,omitempty"`   // acct-touch / acct-delete-any: the first of these logins that exists is used
}

type c20Job struct {
	Dir     string      `json:"dir"`
	Updates []c20Update `json:"updates"`
	IPs     []string    `json:"ips"`
	Result  string      `json:"result"`
}

type c20Result struct {
	Errors    []string          `json:"errors"`
	MemBefore map[string]string `json:"mem_before"` // in-memory values before the last update
	MemAfter  map[string]string `json:"mem_after"`
	LoadError string            `json:"load_error"`
}

type c20Stores struct {
	board *mobius.FlatNews
	news  *mobius.ThreadedNewsYAML
	acct  *mobius.YAMLAccountManager
	bans  *mobius.BanFile
}

func c20Load(dir string) (*c20Stores, error) {
	var s c20Stores
	var err error
	if s.board, err = mobius.NewFlatNews(filepath.Join(dir, "MessageBoard.txt")); err != nil {
		return nil, fmt.Errorf("message board: %w", err)
	}
	if s.news, err = mobius.NewThreadedNewsYAML(filepath.Join(dir, "ThreadedNews.yaml")); err != nil {
		return nil, fmt.Errorf("threaded news: %w", err)
	}
	if s.acct, err = mobius.NewYAMLAccountManager(filepath.Join(dir, "Users")); err != nil {
		return nil, fmt.Errorf("accounts: %w", err)
	}
	if s.bans, err = mobius.NewBanFile(filepath.Join(dir, "Banlist.yaml")); err != nil {
		return nil, fmt.Errorf("ban list: %w", err)
	}
	return &s, nil
}

// c20Values renders each store's value canonically (what a client of the store can observe).
func c20Values(s *c20Stores, ips []string) map[string]string {
	v := map[string]string{}
	s.board.Seek(0, 0)
	b, _ := io.ReadAll(s.board)
	v["board"] = hex.EncodeToString(b)
	nb, _ := yaml.Marshal(&s.news.ThreadedNews)
	// normalise through one decode/encode so that nil and empty maps render alike
	var tn hotline.ThreadedNews
	if yaml.Unmarshal(nb, &tn) == nil {
		if nb2, err := yaml.Marshal(&tn); err == nil {
			nb = nb2
		}
	}
	v["news"] = string(nb)
	accts := s.acct.List()
	sort.Slice(accts, func(i, j int) bool { return accts[i].Login < accts[j].Login })
	var sb strings.Builder
	for _, a := range accts {
		fmt.Fprintf(&sb, "%q %q %q %x %q\n", a.Login, a.Name, a.Password, a.Access[:], a.FileRoot)
	}
	v["accounts"] = sb.String()
	sb.Reset()
	for _, ip := range ips {
		banned, until := s.bans.IsBanned(ip)
		if banned {
			if until == nil {
				fmt.Fprintf(&sb, "%s permanent\n", ip)
			} else {
				fmt.Fprintf(&sb, "%s until %d\n", ip, until.Unix())
			}
		}
	}
	v["bans"] = sb.String()
	return v
}

func c20AccessOf(bits []int) hotline.AccessBitmap {
	var a hotline.AccessBitmap
	for _, b := range bits {
		a.Set(b)
	}
	return a
}

func c20Apply(s *c20Stores, u c20Update) error {
	switch u.Kind {
	case "board-post":
		d, _ := hex.DecodeString(u.Data)
		_, err := s.board.Write(d)
		return err
	case "news-cat":
		ty := [2]byte{0, 3}
		if u.Bundle {
			ty = [2]byte{0, 2}
		}
		return s.news.CreateGrouping(u.Path, u.Name, ty)
	case "news-post":
		return s.news.PostArticle(u.Path, u.Parent, hotline.NewsArtData{Title: u.Name, Poster: "poster", Data: u.Data,
			Date: [8]byte{7, 234, 0, 0, 0, 1, 2, 3}})
	case "news-del-art":
		return s.news.DeleteArticle(u.Path, u.ID, false)
	case "news-del-item":
		return s.news.DeleteNewsItem(u.Path)
	case "acct-create":
		return s.acct.Create(hotline.Account{Login: u.Login, Name: u.Name, Password: "$2a$04$notarealhash" + u.Login, Access: c20AccessOf(u.Access)})
	case "acct-update":
		a := s.acct.Get(u.Login)
		if a == nil {
			return fmt.Errorf("no such account")
		}
		acc := *a
		acc.Name = u.Name
		acc.Access = c20AccessOf(u.Access)
		return s.acct.Update(acc, u.NewLogin)
	case "acct-delete":
		return s.acct.Delete(u.Login)
	case "acct-touch", "acct-delete-any":
		// follow-up after a crash: the account the crashed update was about, under whichever login it has now
		for _, l := range u.Logins {
			if a := s.acct.Get(l); a != nil {
				if u.Kind == "acct-delete-any" {
					return s.acct.Delete(l)
				}
				acc := *a
				acc.Name = u.Name
				return s.acct.Update(acc, l)
			}
		}
		return nil // the account does not exist in this state (e.g. its creation had not become visible)
	case "ban-add":
		if u.Until == 0 {
			return s.bans.Add(u.IP, nil)
		}
		t := time.Unix(u.Until, 0)
		return s.bans.Add(u.IP, &t)
	}
	return fmt.Errorf("unknown update kind %q", u.Kind)
}

const c20Marker = ".verif-marker-"

func c20Child(jobPath string) {
	runtime.LockOSThread()
	var job c20Job
	b, err := os.ReadFile(jobPath)
	if err != nil || json.Unmarshal(b, &job) != nil {
		os.Exit(3)
	}
	var res c20Result
	s, err := c20Load(job.Dir)
	if err != nil {
		res.LoadError = err.Error()
	} else {
		for i, u := range job.Updates {
			if i == len(job.Updates)-1 {
				res.MemBefore = c20Values(s, job.IPs)
			}
			if f, err := os.Open(filepath.Join(job.Dir, c20Marker+strconv.Itoa(i))); err == nil {
				f.Close()
			}
			e := ""
			func() {
				defer func() {
					if r := recover(); r != nil {
						e = fmt.Sprint("panic: ", r)
					}
				}()
				if err := c20Apply(s, u); err != nil {
					e = err.Error()
				}
			}()
			res.Errors = append(res.Errors, e)
		}
		if f, err := os.Open(filepath.Join(job.Dir, c20Marker+"end")); err == nil {
			f.Close()
		}
		res.MemAfter = c20Values(s, job.IPs)
	}
	out, _ := json.Marshal(res)
	os.WriteFile(job.Result, out, 0644)
}

// ---------------------------------------------------------------- trace

type c20Call struct {
	Name string // open write close rename link unlink
	A, B string // config-relative paths
	Data []byte
	OK   bool
	Seg  int // -1 = before the first update (store loading), i = during update i
	Sys  string
	Nth  int // ordinal of this syscall name within the tracee thread (for fault injection)
}

var c20LineRe = regexp.MustCompile(`^(\d+)\s+(\w+)\((.*)\)\s+=\s+(-?\d+|\?)(.*)$`)
var c20UnfinishedRe = regexp.MustCompile(`^(\d+)\s+(\w+)\((.*) <unfinished \.\.\.>$`)
var c20ResumedRe = regexp.MustCompile(`^(\d+)\s+<\.\.\. (\w+) resumed>(.*)$`)

// c20Strings extracts the quoted (hex-escaped, strace -xx) string arguments of an argument list.
func c20Strings(args string) [][]byte {
	var out [][]byte
	for i := 0; i < len(args); i++ {
		if args[i] != '"' {
			continue
		}
		j := i + 1
		var b []byte
		for j < len(args) && args[j] != '"' {
			if args[j] == '\\' && j+3 < len(args) && args[j+1] == 'x' {
				v, _ := strconv.ParseUint(args[j+2:j+4], 16, 8)
				b = append(b, byte(v))
				j += 4
			} else {
				b = append(b, args[j])
				j++
			}
		}
		out = append(out, b)
		i = j
	}
	return out
}

// c20ParseTrace returns the calls that touch the config directory, in order of completion, with their update segment.
func c20ParseTrace(path, cfg string) ([]c20Call, error) {
	f, err := os.Open(path)
	if err != nil {
		return nil, err
	}
	defer f.Close()
	sc := bufio.NewScanner(f)
	sc.Buffer(make([]byte, 1<<20), 64<<20)
	pending := map[string]string{}
	fds := map[string]string{} // fd -> rel path (threads share the table)
	counts := map[string]int{} // pid/syscall -> invocations so far
	seg := -1
	var calls []c20Call
	rel := func(p []byte) (string, bool) {
		s := string(p)
		if !strings.HasPrefix(s, cfg+"/") {
			return "", false
		}
		return s[len(cfg)+1:], true
	}
	for sc.Scan() {
		line := sc.Text()
		if m := c20UnfinishedRe.FindStringSubmatch(line); m != nil {
			pending[m[1]+"/"+m[2]] = m[3]
			continue
		}
		if m := c20ResumedRe.FindStringSubmatch(line); m != nil {
			pre := pending[m[1]+"/"+m[2]]
			delete(pending, m[1]+"/"+m[2])
			line = m[1] + " " + m[2] + "(" + pre + strings.TrimPrefix(m[3], " ")
		}
		m := c20LineRe.FindStringSubmatch(line)
		if m == nil {
			continue
		}
		pid, sysName, args, ret := m[1], m[2], m[3], m[4]
		counts[pid+"/"+sysName]++
		nth := counts[pid+"/"+sysName]
		ok := ret != "?" && !strings.HasPrefix(ret, "-")
		strs := c20Strings(args)
		switch sysName {
		case "openat", "open", "creat":
			if len(strs) < 1 {
				continue
			}
			p, in := rel(strs[0])
			if !in {
				continue
			}
			if strings.HasPrefix(p, c20Marker) {
				t := strings.TrimPrefix(p, c20Marker)
				if t == "end" {
					seg = 1 << 30
				} else {
					seg, _ = strconv.Atoi(t)
				}
				continue
			}
			if !strings.Contains(args, "O_WRONLY") && !strings.Contains(args, "O_RDWR") && sysName != "creat" {
				if ok {
					fds[ret] = "" // read-only handle: writes through it cannot happen, closes are ignored
				}
				continue
			}
			flags := ""
			for _, fl := range []string{"O_CREAT", "O_TRUNC", "O_EXCL", "O_APPEND"} {
				if strings.Contains(args, fl) || sysName == "creat" && fl != "O_EXCL" && fl != "O_APPEND" {
					flags += "|" + fl
				}
			}
			if ok {
				fds[ret] = p
			}
			calls = append(calls, c20Call{Name: "open", A: p, B: flags, OK: ok, Seg: seg, Sys: sysName, Nth: nth})
		case "write":
			fd := strings.SplitN(args, ",", 2)[0]
			p := fds[fd]
			if p == "" {
				continue
			}
			var d []byte
			if len(strs) > 0 {
				d = strs[0]
			}
			if ok {
				n, _ := strconv.Atoi(ret)
				if n < len(d) {
					d = d[:n]
				}
			}
			calls = append(calls, c20Call{Name: "write", A: p, Data: d, OK: ok, Seg: seg, Sys: sysName, Nth: nth})
		case "close":
			fd := strings.TrimSpace(args)
			p, known := fds[fd]
			delete(fds, fd)
			if !known || p == "" {
				continue
			}
			calls = append(calls, c20Call{Name: "close", A: p, OK: ok, Seg: seg, Sys: sysName, Nth: nth})
		case "rename", "renameat", "renameat2", "link", "linkat":
			if len(strs) < 2 {
				continue
			}
			a, ina := rel(strs[0])
			b, inb := rel(strs[1])
			if !ina && !inb {
				continue
			}
			name := "rename"
			if strings.HasPrefix(sysName, "link") {
				name = "link"
			}
			calls = append(calls, c20Call{Name: name, A: a, B: b, OK: ok, Seg: seg, Sys: sysName, Nth: nth})
		case "unlink", "unlinkat":
			if len(strs) < 1 {
				continue
			}
			p, in := rel(strs[0])
			if !in {
				continue
			}
			if strings.Contains(args, "AT_REMOVEDIR") {
				continue // os.Remove's second attempt after a failed unlink
			}
			calls = append(calls, c20Call{Name: "unlink", A: p, OK: ok, Seg: seg, Sys: sysName, Nth: nth})
		}
	}
	return calls, sc.Err()
}

// ---------------------------------------------------------------- directory states

type c20State map[string][]byte // config-relative path -> content (regular files only)

func c20ReadDir(dir string) c20State {
	st := c20State{}
	filepath.Walk(dir, func(p string, info os.FileInfo, err error) error {
		if err != nil || info.IsDir() {
			return nil
		}
		r, _ := filepath.Rel(dir, p)
		if strings.HasPrefix(r, c20Marker) {
			return nil
		}
		b, _ := os.ReadFile(p)
		st[r] = b
		return nil
	})
	return st
}

func (st c20State) clone() c20State {
	c := c20State{}
	for k, v := range st {
		c[k] = append([]byte{}, v...)
	}
	return c
}

func (st c20State) write(dir string) error {
	for _, d := range []string{dir, filepath.Join(dir, "Users")} {
		if err := os.MkdirAll(d, 0755); err != nil {
			return err
		}
	}
	for p, b := range st {
		if err := os.WriteFile(filepath.Join(dir, p), b, 0644); err != nil {
			return err
		}
	}
	return nil
}

// c20Sim applies traced calls to a directory state with POSIX semantics for the calls the code uses (a failed call
// changes nothing).  Names map to inodes, so a write through a handle reaches the file under whatever name it has
// by then, and hard links share content.
type c20Inode struct{ data []byte }

type c20Sim struct {
	names map[string]*c20Inode
	fds   map[string]*c20Inode // keyed by the path the handle was opened with (the code has one handle per path at a time)
	off   map[string]int
}

func c20NewSim(st c20State) *c20Sim {
	s := &c20Sim{names: map[string]*c20Inode{}, fds: map[string]*c20Inode{}, off: map[string]int{}}
	for p, b := range st {
		s.names[p] = &c20Inode{data: append([]byte{}, b...)}
	}
	return s
}

func (s *c20Sim) state() c20State {
	st := c20State{}
	for p, in := range s.names {
		st[p] = append([]byte{}, in.data...)
	}
	return st
}

// materialise writes the state into dir, keeping hard links (names that share an inode are linked, not copied).
func (s *c20Sim) materialise(dir string) error {
	for _, d := range []string{dir, filepath.Join(dir, "Users")} {
		if err := os.MkdirAll(d, 0755); err != nil {
			return err
		}
	}
	var names []string
	for p := range s.names {
		names = append(names, p)
	}
	sort.Strings(names)
	first := map[*c20Inode]string{}
	for _, p := range names {
		in := s.names[p]
		if f, ok := first[in]; ok {
			if err := os.Link(filepath.Join(dir, f), filepath.Join(dir, p)); err != nil {
				return err
			}
			continue
		}
		first[in] = p
		if err := os.WriteFile(filepath.Join(dir, p), in.data, 0644); err != nil {
			return err
		}
	}
	return nil
}

func (s *c20Sim) apply(c c20Call) {
	if !c.OK {
		return
	}
	switch c.Name {
	case "open":
		in, exists := s.names[c.A]
		if !exists {
			if !strings.Contains(c.B, "O_CREAT") {
				return
			}
			in = &c20Inode{}
			s.names[c.A] = in
		}
		if strings.Contains(c.B, "O_TRUNC") {
			in.data = []byte{}
		}
		s.fds[c.A] = in
		s.off[c.A] = 0
		if strings.Contains(c.B, "O_APPEND") {
			s.off[c.A] = len(in.data)
		}
	case "write":
		in := s.fds[c.A]
		if in == nil {
			return
		}
		cur := in.data
		o := s.off[c.A]
		for len(cur) < o {
			cur = append(cur, 0)
		}
		tail := []byte{}
		if o+len(c.Data) < len(cur) {
			tail = append(tail, cur[o+len(c.Data):]...)
		}
		in.data = append(append(append([]byte{}, cur[:o]...), c.Data...), tail...)
		s.off[c.A] = o + len(c.Data)
	case "close":
		delete(s.fds, c.A)
	case "rename":
		if in, ok := s.names[c.A]; ok && c.A != c.B {
			s.names[c.B] = in
			delete(s.names, c.A)
		}
	case "link":
		if in, ok := s.names[c.A]; ok {
			if _, ex := s.names[c.B]; !ex {
				s.names[c.B] = in
			}
		}
	case "unlink":
		delete(s.names, c.A)
	}
}

func c20Listing(st c20State, dir string) string {
	var l []string
	for p, b := range st {
		d, n := filepath.Split(p)
		d = strings.TrimSuffix(d, "/")
		if d != dir {
			continue
		}
		l = append(l, fmt.Sprintf("%s=%d/%d", n, len(b), fnv64(b)))
	}
	sort.Strings(l)
	return strings.Join(l, " ")
}

// ---------------------------------------------------------------- model specs

// c20ModelSpec: the model program for an update (data taken from the traced write), the directory it works in, the loader view.
func c20ModelSpec(u c20Update, data []byte) (spec, dir, vis, store string) {
	t := func(p string) string { return fmt.Sprintf("T:%s.tmp:%s:%s", p, p, hx(data)) }
	switch u.Kind {
	case "board-post":
		return t("MessageBoard.txt"), "", "file=MessageBoard.txt", "board"
	case "news-cat", "news-post", "news-del-art", "news-del-item":
		return t("ThreadedNews.yaml"), "", "file=ThreadedNews.yaml", "news"
	case "ban-add":
		return t("Banlist.yaml"), "", "file=Banlist.yaml", "bans"
	case "acct-create":
		return fmt.Sprintf("C:.account.tmp:%s.yaml:%s", u.Login, hx(data)), "Users", "yaml", "accounts"
	case "acct-update":
		// the model decides from the directory: same login / rename onto a free login / refused (login exists)
		return fmt.Sprintf("U:.account.tmp:%s.yaml:%s.yaml:%s", u.Login, u.NewLogin, hx(data)), "Users", "yaml", "accounts"
	case "acct-delete":
		return fmt.Sprintf("D:%s.yaml", u.Login), "Users", "yaml", "accounts"
	}
	return "", "", "", ""
}

func c20CallsCanon(calls []c20Call, dir string) string {
	var l []string
	strip := func(p string) string {
		if dir != "" {
			return strings.TrimPrefix(p, dir+"/")
		}
		return p
	}
	for _, c := range calls {
		switch c.Name {
		case "open":
			fl := ""
			if c.B != "|O_CREAT|O_TRUNC" {
				fl = "[" + c.B + "]"
			}
			l = append(l, "open"+fl+":"+strip(c.A))
		case "write":
			l = append(l, fmt.Sprintf("write:%s:%d/%d", strip(c.A), len(c.Data), fnv64(c.Data)))
		case "close":
			l = append(l, "close:"+strip(c.A))
		case "rename", "link":
			l = append(l, c.Name+":"+strip(c.A)+":"+strip(c.B))
		case "unlink":
			l = append(l, "unlink:"+strip(c.A))
		}
	}
	return strings.Join(l, " ")
}

// ---------------------------------------------------------------- generation

type c20World struct {
	logins  []string          // accounts on disk
	cats    [][]string        // news category paths (categories, not bundles)
	bundles [][]string        // bundle paths (incl. root = empty path)
	arts    map[string][]uint32
	nextArt map[string]uint32
	ips     []string
}

var c20DefinedBits = []int{0, 1, 2, 3, 4, 5, 6, 7, 8, 9, 10, 11, 12, 13, 14, 15, 16, 17, 18, 20, 21, 22, 23, 24, 25, 26, 27, 28, 29, 30, 31, 32, 33, 34, 35, 36, 37, 38, 39, 40}

func c20RandAccess(r *RNG) []int {
	var bits []int
	for _, b := range c20DefinedBits {
		if r.Chance(35) {
			bits = append(bits, b)
		}
	}
	return bits
}

func c20Token(r *RNG, n int) string {
	const al = "abcdefghijklmnopqrstuvwxyz0123456789"
	b := make([]byte, n)
	for i := range b {
		b[i] = al[r.Intn(len(al))]
	}
	return string(b)
}

// c20Gen draws one update that is valid in world w and updates w.
func c20Gen(r *RNG, w *c20World, kindBias string) c20Update {
	for {
		k := r.Intn(13)
		if kindBias != "" && r.Chance(70) {
			switch kindBias {
			case "board":
				k = 0
			case "news":
				k = 1 + r.Intn(4)
			case "acct":
				k = 5 + r.Intn(5)
				if r.Chance(15) {
					k = 11
				}
			case "ban":
				k = 10
			}
		}
		switch k {
		case 0:
			return c20Update{Kind: "board-post", Data: hex.EncodeToString([]byte("From u (Jan02 15:04):\r\r" + c20Token(r, r.Pick(0, 1, 30, 400, 5000)) + "\r\r___\r"))}
		case 1: // new category or bundle
			parent := w.bundles[r.Intn(len(w.bundles))]
			name := "g" + c20Token(r, 4)
			p := append(append([]string{}, parent...), name)
			bundle := r.Chance(40)
			if bundle {
				w.bundles = append(w.bundles, p)
			} else {
				w.cats = append(w.cats, p)
				w.nextArt[strings.Join(p, "/")] = 1
			}
			return c20Update{Kind: "news-cat", Path: parent, Name: name, Bundle: bundle}
		case 2: // post an article
			if len(w.cats) == 0 {
				continue
			}
			p := w.cats[r.Intn(len(w.cats))]
			key := strings.Join(p, "/")
			var parent uint32
			if as := w.arts[key]; len(as) > 0 && r.Chance(50) {
				parent = as[r.Intn(len(as))]
			}
			// the store numbers a new article max(existing)+1
			var mx uint32
			for _, a := range w.arts[key] {
				if a > mx {
					mx = a
				}
			}
			w.arts[key] = append(w.arts[key], mx+1)
			return c20Update{Kind: "news-post", Path: p, Parent: parent, Name: "t" + c20Token(r, 5), Data: c20Token(r, r.Pick(0, 10, 300, 3000))}
		case 3: // delete an article
			if len(w.cats) == 0 {
				continue
			}
			p := w.cats[r.Intn(len(w.cats))]
			key := strings.Join(p, "/")
			as := w.arts[key]
			if len(as) == 0 {
				continue
			}
			i := r.Intn(len(as))
			id := as[i]
			// deleting an article other articles point to keeps those pointers; only leaf-ish deletes are generated
			w.arts[key] = append(append([]uint32{}, as[:i]...), as[i+1:]...)
			return c20Update{Kind: "news-del-art", Path: p, ID: id}
		case 4: // delete a category without sub-items
			if len(w.cats) == 0 {
				continue
			}
			i := r.Intn(len(w.cats))
			p := w.cats[i]
			w.cats = append(append([][]string{}, w.cats[:i]...), w.cats[i+1:]...)
			delete(w.arts, strings.Join(p, "/"))
			return c20Update{Kind: "news-del-item", Path: p}
		case 5, 6:
			l := "u" + c20Token(r, 1+r.Intn(6))
			for _, x := range w.logins {
				if x == l {
					l = ""
				}
			}
			if l == "" {
				continue
			}
			w.logins = append(w.logins, l)
			return c20Update{Kind: "acct-create", Login: l, Name: "N " + c20Token(r, 5), Access: c20RandAccess(r)}
		case 7:
			l := w.logins[r.Intn(len(w.logins))]
			return c20Update{Kind: "acct-update", Login: l, NewLogin: l, Name: "M " + c20Token(r, r.Pick(0, 5, 200)), Access: c20RandAccess(r)}
		case 8:
			i := r.Intn(len(w.logins))
			l := w.logins[i]
			nl := "r" + c20Token(r, 1+r.Intn(6))
			dup := false
			for _, x := range w.logins {
				if x == nl {
					dup = true
				}
			}
			if dup || l == "guest" {
				continue
			}
			w.logins[i] = nl
			return c20Update{Kind: "acct-update", Login: l, NewLogin: nl, Name: "R " + c20Token(r, 5), Access: c20RandAccess(r)}
		case 11: // rename onto an EXISTING login: must be refused, nothing may change
			if len(w.logins) < 3 {
				continue
			}
			i := 1 + r.Intn(len(w.logins)-1)
			j := r.Intn(len(w.logins))
			if i == j {
				continue
			}
			return c20Update{Kind: "acct-update", Login: w.logins[i], NewLogin: w.logins[j], Name: "X " + c20Token(r, 4), Access: c20RandAccess(r), Existing: true}
		case 9:
			if len(w.logins) <= 2 {
				continue
			}
			i := 2 + r.Intn(len(w.logins)-2)
			l := w.logins[i]
			w.logins = append(append([]string{}, w.logins[:i]...), w.logins[i+1:]...)
			return c20Update{Kind: "acct-delete", Login: l}
		case 10, 12:
			ip := w.ips[r.Intn(len(w.ips))]
			var until int64
			if r.Chance(60) {
				until = 1900000000 + int64(r.Intn(100000))
			}
			return c20Update{Kind: "ban-add", IP: ip, Until: until}
		}
	}
}

func c20KindOf(u c20Update) string {
	if u.Kind == "acct-update" && u.Existing {
		return "acct-rename-existing"
	}
	if u.Kind == "acct-update" && u.Login != u.NewLogin {
		return "acct-rename"
	}
	return u.Kind
}

// ---------------------------------------------------------------- running the child

func c20RunChild(c *Case, job c20Job, work string, inject string) (trace string, res c20Result, err error) {
	jobPath := filepath.Join(work, "job.json")
	job.Result = filepath.Join(work, "result.json")
	os.Remove(job.Result)
	jb, _ := json.Marshal(job)
	if err := os.WriteFile(jobPath, jb, 0644); err != nil {
		return "", res, err
	}
	self, err := os.Executable()
	if err != nil {
		return "", res, err
	}
	trace = filepath.Join(work, "trace.txt")
	args := []string{"-f", "-xx", "-s", "4194304", "-e", "trace=openat,open,creat,write,rename,renameat,renameat2,link,linkat,unlink,unlinkat,close", "-o", trace}
	if inject != "" && inject != "plain" {
		args = append(args, "-e", "inject="+inject)
	}
	args = append(args, self)
	cmd := exec.Command("strace", args...)
	if inject == "plain" { // no tracing: the recovery run after a crash
		cmd = exec.Command(self)
	}
	cmd.Env = append(os.Environ(), "C20_CHILD="+jobPath, "GOMAXPROCS=2")
	out, runErr := cmd.CombinedOutput()
	if b, e := os.ReadFile(job.Result); e == nil {
		json.Unmarshal(b, &res)
	} else if inject == "" {
		return trace, res, fmt.Errorf("child left no result (%v): %s", runErr, clip(string(out)))
	}
	return trace, res, nil
}

// c20LoadValues loads a directory with the real constructors; err != "" when a store refuses to load.
func c20LoadValues(dir string, ips []string) (map[string]string, string) {
	var v map[string]string
	var errStr string
	func() {
		defer func() {
			if r := recover(); r != nil {
				errStr = fmt.Sprint("panic while loading: ", r)
			}
		}()
		s, err := c20Load(dir)
		if err != nil {
			errStr = err.Error()
			return
		}
		v = c20Values(s, ips)
	}()
	return v, errStr
}

var c20Stores4 = []string{"board", "news", "accounts", "bans"}

// c20Judge loads a crash state and judges it: every store loads; untouched stores equal old; the store in flight is
// the complete old or new value.  Returns the verdict for the store in flight ("old", "new", "both", "" on violation).
func c20Judge(c *Case, st c20State, scratch string, ips []string, oldV, newV map[string]string, store string, k int, how string) string {
	dir := filepath.Join(scratch, fmt.Sprintf("%s-%d", how, k))
	os.RemoveAll(dir)
	if err := st.write(dir); err != nil {
		panic(err)
	}
	defer os.RemoveAll(dir)
	v, lerr := c20LoadValues(dir, ips)
	if lerr != "" {
		c.Note("crash_point", k)
		c.Note("how", how)
		c.Note("load_error", lerr)
		c.Note("state", c20Listing(st, "")+" || Users: "+c20Listing(st, "Users"))
		c.Violation("crash-state-does-not-load", fmt.Sprintf("after a kill following call %d of the update a store refuses to load: %s", k, lerr))
		return ""
	}
	verdict := ""
	for _, s := range c20Stores4 {
		isOld, isNew := v[s] == oldV[s], v[s] == newV[s]
		if s != store {
			if !isOld {
				c.Note("crash_point", k)
				c.Note("store", s)
				c.Note("loaded", clip(v[s]))
				c.Note("expected", clip(oldV[s]))
				c.Violation("crash-changes-other-store", "a crash during an update of one store changed the loaded value of another store")
				return ""
			}
			continue
		}
		switch {
		case isOld && isNew:
			verdict = "both"
		case isOld:
			verdict = "old"
		case isNew:
			verdict = "new"
		default:
			c.Note("crash_point", k)
			c.Note("how", how)
			c.Note("store", s)
			c.Note("loaded", clip(v[s]))
			c.Note("old", clip(oldV[s]))
			c.Note("new", clip(newV[s]))
			c.Note("state", c20Listing(st, "")+" || Users: "+c20Listing(st, "Users"))
			c.Violation("crash-state-torn", fmt.Sprintf("after a kill following call %d of the update the %s store loads as neither the complete old nor the complete new value", k, s))
			return ""
		}
	}
	return verdict
}

// ---------------------------------------------------------------- the family

func init() {
	if job := os.Getenv("C20_CHILD"); job != "" {
		c20Child(job)
		os.Exit(0)
	}
	props["C20"] = func(x *Ctx) {
		x.rule = "a case = a generated valid sequence of 3..8 persistent updates over a small world (<= 8 logins, <= 6 news paths, 4 addresses) drawn from: board post, news category/bundle create, article post (with and without parent), article delete, category delete, account create / modify / rename onto a free login / rename onto an existing login (must be refused untouched) / delete, ban add (temporary / permanent); the last update's kind is cycled so that every kind is the in-flight one equally often; when it is a ban, half of the cases are the first ban ever (no Banlist.yaml in the initial directory, the one store file whose absence the loader accepts); the crash point ranges over EVERY system-call boundary of the last update. " +
			"non-trivial = the last update made at least one system call on the config directory and old != new (or is a refused rename onto an existing login); distinct = (kind of the in-flight update, its arguments, pre-state listing)"
		x.assume = []string{
			"a kill lands between two system calls (a kill in the middle of one write(2) is not modelled); no power loss (page cache survives)",
			"after every crash point the real stores are restarted on the crash state (hard links kept), complete further updates and are reloaded; one crash point per case goes through the start-up of the real server binary (built from the tree under test)",
			"the materialised crash states apply the traced calls with POSIX semantics; in the thorough tier they are cross-checked by really killing the child (strace SIGKILL injection on syscall entry)",
			"gopkg.in/yaml.v3 decode(encode(x)) = x on the stores' value types (exercised by every reload, not proved)",
		}
		thor := x.Tier == "thorough"
		x.Add(&Family{Name: "crash-points", Quick: 1200, Thor: 12000, Run: func(c *Case) { c20Case(c, false) }})
		x.Add(&Family{Name: "ack-implies-persisted", Quick: 150, Thor: 2500, Run: func(c *Case) { c20AckPersisted(c) }})
		if thor {
			x.Add(&Family{Name: "real-kill", Quick: 0, Thor: 400, Run: func(c *Case) { c20Case(c, true) }})
		}
		for _, f := range c20ExtraFamilies { // families registered by the other c20_*.go files
			f(x)
		}
		if only := os.Getenv("VERIF_ONLY_FAMILY"); only != "" { // development aid: run one family
			var keep []*Family
			for _, f := range x.families {
				if f.Name == only {
					keep = append(keep, f)
				}
			}
			x.families = keep
		}
	}
}

var c20ExtraFamilies []func(x *Ctx)

var c20Kinds = []string{"board-post", "news-cat", "news-post", "news-del-art", "news-del-item", "acct-create", "acct-update", "acct-rename", "acct-rename-existing", "acct-delete", "ban-add"}

func c20Case(c *Case, realKill bool) {
	r := c.R
	scratch, err := os.MkdirTemp("/var/tmp", "mobius-verif-c20-")
	if err != nil {
		panic(err)
	}
	defer os.RemoveAll(scratch)
	// initial config directory
	d0 := filepath.Join(scratch, "d0")
	users := filepath.Join(d0, "Users")
	os.MkdirAll(users, 0755)
	w := &c20World{logins: []string{"guest", "admin"}, bundles: [][]string{{}}, arts: map[string][]uint32{}, nextArt: map[string]uint32{},
		ips: []string{"10.0.0.1", "10.0.0.2", "192.168.7.7", "fe80::1"}}
	for _, a := range []AcctSpec{{Login: "guest", Name: "guest", Access: guestAccess()}, {Login: "admin", Name: "admin", Password: "secret", Access: c20AccessOf(c20DefinedBits)}} {
		if err := writeAccount(users, a); err != nil {
			panic(err)
		}
	}
	board := []byte(c20Token(r, r.Pick(0, 1, 200, 3000)))
	os.WriteFile(filepath.Join(d0, "MessageBoard.txt"), board, 0644)
	os.WriteFile(filepath.Join(d0, "ThreadedNews.yaml"), []byte(emptyNews), 0644)
	// Banlist.yaml is the one store file whose ABSENCE the loader accepts (= empty list).  When a ban is the in-flight
	// update, half of the cases are the first ban ever: no file initially and no earlier ban in the sequence, so every
	// crash point of the update that CREATES the file is judged.
	wantLast := c20Kinds[int(c.Seed%uint64(len(c20Kinds)))]
	firstBan := wantLast == "ban-add" && r.Chance(50)
	if !firstBan && r.Chance(50) {
		os.WriteFile(filepath.Join(d0, "Banlist.yaml"), []byte("10.9.9.9: null\n"), 0644)
	}
	// temp files left behind by earlier crashes (killed after the temp file was written, before the rename): short ones
	// and ones LONGER than anything a later update writes – a later update must not inherit their tail
	stale := func(path string, yamlish bool) {
		if !r.Chance(35) {
			return
		}
		n := r.Pick(5, 30, 20000, 60000)
		var b []byte
		if yamlish {
			b = []byte("Login: ghost\nName: left over\n")
			for len(b) < n {
				b = append(b, []byte("stale: \"left by a crashed update "+c20Token(r, 20)+"\"\n  - not: [valid\n")...)
			}
		} else {
			b = []byte(strings.Repeat("STALE-"+c20Token(r, 6)+"\r", n/13+1))
		}
		os.WriteFile(path, b, 0644)
	}
	stale(filepath.Join(users, ".account.tmp"), true)
	stale(filepath.Join(d0, "MessageBoard.txt.tmp"), false)
	stale(filepath.Join(d0, "ThreadedNews.yaml.tmp"), true)
	stale(filepath.Join(d0, "Banlist.yaml.tmp"), true)
	// updates; the last one's kind is cycled over all kinds
	n := 3 + r.Intn(6)
	var ups []c20Update
	bias := map[string]string{"board-post": "board", "ban-add": "ban"}[wantLast]
	if strings.HasPrefix(wantLast, "news") {
		bias = "news"
	}
	if strings.HasPrefix(wantLast, "acct") {
		bias = "acct"
	}
	kindOf := c20KindOf
	if firstBan {
		bias = ""
	}
	for len(ups) < n-1 {
		u := c20Gen(r, w, bias)
		if firstBan && u.Kind == "ban-add" { // (a ban does not change the generator's world: dropping it is safe)
			continue
		}
		ups = append(ups, u)
	}
	if firstBan {
		bias = "ban"
	}
	c.Note("first_ban_ever", firstBan)
	for tries := 0; ; tries++ {
		save := *w
		save.logins = append([]string{}, w.logins...)
		save.cats = append([][]string{}, w.cats...)
		save.bundles = append([][]string{}, w.bundles...)
		arts := map[string][]uint32{}
		for k, v := range w.arts {
			arts[k] = append([]uint32{}, v...)
		}
		u := c20Gen(r, w, bias)
		if kindOf(u) == wantLast || tries > 300 {
			ups = append(ups, u)
			break
		}
		*w = save
		w.arts = arts
		if tries%25 == 24 && !firstBan { // the wanted kind needs something that does not exist yet: add one more preparatory update
			ups = append(ups, c20Gen(r, w, bias))
		}
	}
	last := ups[len(ups)-1]
	c.Note("updates", ups)
	job := c20Job{Updates: ups, IPs: append(append([]string{}, w.ips...), "10.9.9.9")}

	// run the real code under strace on a working copy
	work := filepath.Join(scratch, "work")
	cfg := filepath.Join(work, "config")
	init0 := c20ReadDir(d0)
	if err := init0.write(cfg); err != nil {
		panic(err)
	}
	job.Dir = cfg
	tracePath, res, err := c20RunChild(c, job, work, "")
	if err != nil {
		panic(err)
	}
	if res.LoadError != "" {
		panic("child could not load the initial directory: " + res.LoadError)
	}
	calls, err := c20ParseTrace(tracePath, cfg)
	if err != nil {
		panic(err)
	}
	for i, e := range res.Errors {
		if e != "" {
			c.Note(fmt.Sprintf("update_%d_error", i), e)
		}
	}
	// sanity: the trace interpreter reproduces the directory the child left
	sim := c20NewSim(init0)
	var pre c20State
	lastIdx := len(ups) - 1
	var lastCalls []c20Call
	perUpdate := make([][]c20Call, len(ups))
	preOf := make([]c20State, len(ups))
	snapped := 0
	for _, cl := range calls {
		for snapped < len(ups) && snapped <= cl.Seg {
			preOf[snapped] = sim.state()
			snapped++
		}
		if cl.Seg == lastIdx && pre == nil {
			pre = sim.state()
		}
		if cl.Seg >= 0 && cl.Seg < len(ups) {
			perUpdate[cl.Seg] = append(perUpdate[cl.Seg], cl)
		}
		if cl.Seg == lastIdx {
			lastCalls = append(lastCalls, cl)
		}
		sim.apply(cl)
	}
	for ; snapped < len(ups); snapped++ {
		preOf[snapped] = sim.state()
	}
	if pre == nil {
		pre = sim.state()
	}
	dirEntries := func(st c20State, dir string) []string {
		var names, ents []string
		for p := range st {
			d, n := filepath.Split(p)
			if strings.TrimSuffix(d, "/") == dir {
				names = append(names, n)
			}
		}
		sort.Strings(names)
		for _, n := range names {
			ents = append(ents, n+":"+hx(st[filepath.Join(dir, n)]))
		}
		return ents
	}
	final := c20ReadDir(cfg)
	if a, b := c20Listing(sim.state(), "")+"|"+c20Listing(sim.state(), "Users"), c20Listing(final, "")+"|"+c20Listing(final, "Users"); a != b {
		c.Note("simulated", a)
		c.Note("real", b)
		c.Disagree("trace-replay", "applying the traced calls to the initial directory does not reproduce the directory the child left")
		return
	}

	// (i) program correspondence for every update of the sequence
	for i, u := range ups {
		if u.Existing {
			// renaming onto an existing login must be refused before anything is touched
			if res.Errors[i] == "" || len(perUpdate[i]) != 0 {
				c.Note("update", u)
				c.Note("update_index", i)
				c.Note("error_returned", res.Errors[i])
				c.Note("calls", c20CallsCanon(perUpdate[i], "Users"))
				c.Violation("rename-onto-existing-login", "renaming an account onto a login that already exists was not refused: the other account's file is overwritten (and a crash after the first rename leaves neither the old nor the new account set)")
			}
		} else if res.Errors[i] != "" && len(perUpdate[i]) == 0 {
			continue
		}
		var data []byte
		for _, cl := range perUpdate[i] {
			if cl.Name == "write" {
				data = append(data, cl.Data...)
			}
		}
		spec, dir, _, _ := c20ModelSpec(u, data)
		want := c.AskS("c20prog", append([]string{spec}, dirEntries(preOf[i], dir)...)...)
		got := c20CallsCanon(perUpdate[i], dir)
		if got != want {
			c.Note("update", u)
			c.Note("update_index", i)
		}
		c.Corr("syscall-program-"+kindOf(u), got, want, false)
		c.Dist("program/" + kindOf(u))
	}

	// (ii) every crash point of the last update
	oldDir := filepath.Join(scratch, "old")
	pre.write(oldDir)
	oldV, e1 := c20LoadValues(oldDir, job.IPs)
	newV, e2 := c20LoadValues(cfg, job.IPs)
	if e1 != "" || e2 != "" {
		c.Note("old_error", e1)
		c.Note("new_error", e2)
		c.Violation("state-does-not-load", "the directory before / after a completed update cannot be loaded: "+e1+e2)
		return
	}
	// acknowledged changes are on disk: disk = memory before the last update and after it
	for _, s := range c20Stores4 {
		if res.MemBefore[s] != oldV[s] {
			c.Note("store", s)
			c.Note("memory", clip(res.MemBefore[s]))
			c.Note("disk", clip(oldV[s]))
			c.Violation("acknowledged-change-not-on-disk", "after the earlier updates had returned, reloading the directory gives a different "+s+" value than the one in memory")
			return
		}
		if res.MemAfter[s] != newV[s] {
			c.Note("store", s)
			c.Note("memory", clip(res.MemAfter[s]))
			c.Note("disk", clip(newV[s]))
			c.Violation("acknowledged-change-not-on-disk", "after the update had returned, reloading the directory gives a different "+s+" value than the one in memory")
			return
		}
	}
	var data []byte
	for _, cl := range lastCalls {
		if cl.Name == "write" {
			data = append(data, cl.Data...)
		}
	}
	spec, dir, vis, store := c20ModelSpec(last, data)
	ents := dirEntries(pre, dir)
	progOK := c20CallsCanon(lastCalls, dir) == c.AskS("c20prog", append([]string{spec}, ents...)...)
	cur := c20NewSim(pre)
	verdicts := make([]string, len(lastCalls)+1)
	for k := 0; k <= len(lastCalls); k++ {
		if k > 0 {
			cur.apply(lastCalls[k-1])
		}
		curSt := cur.state()
		v := c20Judge(c, curSt, scratch, job.IPs, oldV, newV, store, k, "materialised")
		verdicts[k] = v
		if v == "" {
			return
		}
		if k == len(lastCalls) && v == "old" {
			c.Note("crash_point", k)
			c.Violation("completed-update-lost", "with all calls of the update done the store still loads as the old value")
			return
		}
		if progOK {
			line := fmt.Sprintf("c20sim %s %d %s %s", spec, k, vis, strings.Join(ents, " "))
			want := c.O.Ask(line)
			got := c20Listing(curSt, dir) + " | " + v + fmt.Sprintf(" %d", len(lastCalls))
			if got != want {
				c.Note("crash_point", k)
				c.Note("spec", clip(spec))
			}
			c.Corr("crash-state-"+kindOf(last), got, want, false)
		}
		c.Dist(fmt.Sprintf("verdict/%s/%s", kindOf(last), v))
	}
	// (ii-b) life goes on after a crash: for EVERY crash point restart on the crash state (leftovers and hard links
	// included), make further complete updates, restart again – see c20Recovery
	if len(lastCalls) > 0 {
		startupAt := r.Intn(len(lastCalls) + 1)
		if len(lastCalls) >= 3 && r.Chance(70) {
			startupAt = 1 + r.Intn(3) // while the temp file is being written
		}
		rs := c20NewSim(pre)
		for k := 0; k <= len(lastCalls); k++ {
			if k > 0 {
				rs.apply(lastCalls[k-1])
			}
			work := filepath.Join(scratch, fmt.Sprintf("recovery-%d", k))
			if err := rs.materialise(filepath.Join(work, "config")); err != nil {
				panic(err)
			}
			ok := c20Recovery(c, r, work, last, store, job.IPs, k, "materialised")
			os.RemoveAll(work)
			if !ok {
				return
			}
			if k == startupAt {
				// the same crash state through the start-up path of the real server binary (main(): config, loaders, …)
				sdir := filepath.Join(scratch, fmt.Sprintf("startup-%d", k), "config")
				if err := rs.materialise(sdir); err != nil {
					panic(err)
				}
				started, slog, serr := c20RealStartup(sdir)
				if serr != "" {
					c.Dist("real-startup/unavailable")
					c.Note("real_startup_unavailable", serr)
				} else {
					c.Dist(fmt.Sprintf("real-startup/started=%v", started))
					if !started && !strings.Contains(slog, "Error loading") {
						// slow machine or an unrelated start-up problem: not a statement about the crash state
						c.Dist("real-startup/inconclusive")
						os.RemoveAll(filepath.Dir(sdir))
					} else if !started {
						c.Note("crash_point", k)
						c.Note("server_log", clip(slog))
						c.Violation("server-does-not-start-on-crash-state", fmt.Sprintf("the real server binary does not come up on the directory left by a kill after call %d of the update", k))
						os.RemoveAll(filepath.Dir(sdir))
						return
					}
					if started {
						v := c20Judge(c, c20ReadDir(sdir), scratch, job.IPs, oldV, newV, store, k, "after the real server binary's start-up")
						os.RemoveAll(filepath.Dir(sdir))
						if v == "" {
							return
						}
					}
				}
			}
		}
	}
	if (len(lastCalls) > 0 && oldV[store] != newV[store]) || (last.Existing && res.Errors[lastIdx] != "") {
		c.Nontrivial(fmt.Sprintf("%s|%v|%s|%s", kindOf(last), last, c20Listing(pre, ""), c20Listing(pre, "Users")))
	}
	c.Dist("in-flight/" + kindOf(last))
	if firstBan {
		c.Dist("in-flight/ban-add-first-ever(no Banlist.yaml)")
	}
	c.Dist(fmt.Sprintf("calls/%d", len(lastCalls)))
	c.Sample(map[string]any{"in_flight": kindOf(last), "updates": len(ups), "calls": c20CallsCanon(lastCalls, dir), "verdicts": strings.Join(verdicts, ",")})

	// (iii) really kill the child on entry to the k-th call of the last update
	if realKill {
		c20RealKill(c, job, init0, scratch, lastCalls, oldV, newV, store, verdicts)
	}
}

// c20RealKill re-runs the same job from the same initial directory under `strace -e inject=<syscall>:signal=KILL:when=<n>`
// so that the child dies on entry to the k-th call of the in-flight update, then loads what it left.
func c20RealKill(c *Case, job c20Job, init0 c20State, scratch string, lastCalls []c20Call, oldV, newV map[string]string, store string, verdicts []string) {
	for k := 1; k <= len(lastCalls); k++ {
		cl := lastCalls[k-1]
		work := filepath.Join(scratch, fmt.Sprintf("kill-%d", k))
		cfg := filepath.Join(work, "config")
		if err := init0.write(cfg); err != nil {
			panic(err)
		}
		j := job
		j.Dir = cfg
		_, _, err := c20RunChild(c, j, work, fmt.Sprintf("%s:signal=KILL:when=%d", cl.Sys, cl.Nth))
		if err != nil {
			panic(err)
		}
		if _, err := os.Stat(filepath.Join(work, "result.json")); err == nil {
			c.Dist("real-kill/child-survived")
			os.RemoveAll(work)
			continue // the injection did not hit (counted; not a property failure)
		}
		st := c20ReadDir(cfg)
		v := c20Judge(c, st, scratch, job.IPs, oldV, newV, store, k-1, "killed")
		if v == "" {
			os.RemoveAll(work)
			return
		}
		// the really killed directory (real hard links, real leftovers): restart, continue, restart
		os.Remove(filepath.Join(work, "result.json"))
		okRec := c20Recovery(c, c.R, work, job.Updates[len(job.Updates)-1], store, job.IPs, k-1, "killed")
		os.RemoveAll(work)
		if !okRec {
			return
		}
		c.Dist("real-kill/" + v)
		// the killed child's directory must be the state the trace interpreter predicts for "k-1 calls done"
		if v != verdicts[k-1] && !(v == "both" || verdicts[k-1] == "both") {
			c.Note("crash_point", k-1)
			c.Note("killed_verdict", v)
			c.Note("materialised_verdict", verdicts[k-1])
			c.Disagree("real-kill-vs-materialised", "the directory left by a really killed child loads differently from the materialised trace prefix")
		}
	}
}

// c20Recovery: work/config holds a crash state ("first k calls of the in-flight update done", leftovers and hard links
// included).  The real stores are restarted on it in a child, which completes further small updates – for the store
// of the crashed update its own follow-up write, always another account create and an account update, and, for an
// account in flight, an update or delete of that very account under whichever login it has now.  Then the directory
// is loaded again and judged: it loads; it holds exactly what the child had in memory when its updates had returned
// (every acknowledged update whole, nothing else changed); no two account files share an inode or a login.
func c20Recovery(c *Case, r *RNG, work string, last c20Update, store string, ips []string, k int, how string) bool {
	cfg := filepath.Join(work, "config")
	follow := func(st string) c20Update {
		switch st {
		case "board":
			return c20Update{Kind: "board-post", Data: hex.EncodeToString([]byte("From r (Jan02 15:04):\r\r" + c20Token(r, r.Pick(0, 3, 40)) + "\r\r___\r"))}
		case "news":
			return c20Update{Kind: "news-cat", Path: nil, Name: "z" + c20Token(r, 3), Bundle: r.Bool()}
		case "accounts":
			if r.Bool() {
				return c20Update{Kind: "acct-create", Login: "z" + c20Token(r, 5), Name: "Z", Access: c20RandAccess(r)}
			}
			return c20Update{Kind: "acct-touch", Logins: []string{"guest", "admin"}, Name: "G " + c20Token(r, 3)}
		default:
			return c20Update{Kind: "ban-add", IP: ips[r.Intn(len(ips))], Until: 1900000000 + int64(r.Intn(1000))}
		}
	}
	ups := []c20Update{follow(store)}
	// always: another account create and an account update (they write through the shared temp name)
	ups = append(ups, c20Update{Kind: "acct-create", Login: "y" + c20Token(r, 5), Name: "Y", Access: c20RandAccess(r)})
	ups = append(ups, c20Update{Kind: "acct-touch", Logins: []string{"guest", "admin"}, Name: "G " + c20Token(r, 3)})
	if store == "accounts" && !last.Existing {
		// the account the crashed update was about
		logins := []string{last.Login}
		if last.NewLogin != "" && last.NewLogin != last.Login {
			logins = []string{last.NewLogin, last.Login}
		}
		kind := "acct-touch"
		if r.Chance(30) {
			kind = "acct-delete-any"
		}
		u := c20Update{Kind: kind, Logins: logins, Name: "T " + c20Token(r, 4)}
		at := r.Intn(len(ups) + 1)
		ups = append(ups[:at], append([]c20Update{u}, ups[at:]...)...)
	}
	if r.Bool() {
		ups = append(ups, follow(c20Stores4[r.Intn(4)]))
	}
	job := c20Job{Dir: cfg, Updates: ups, IPs: ips}
	_, res, err := c20RunChild(c, job, work, "plain")
	if err != nil {
		panic(err)
	}
	st := c20ReadDir(cfg)
	note := func() {
		c.Note("in_flight", last)
		c.Note("recovery_after_call", k)
		c.Note("crash_state_how", how)
		c.Note("recovery_updates", ups)
		c.Note("state_after_recovery", c20Listing(st, "")+" || Users: "+c20Listing(st, "Users"))
	}
	if res.LoadError != "" {
		note()
		c.Note("load_error", res.LoadError)
		c.Violation("crash-state-does-not-load", "the restarted server could not load a crash state: "+res.LoadError)
		return false
	}
	for i, e := range res.Errors {
		if e != "" {
			note()
			c.Note("update_index", i)
			c.Note("error", e)
			c.Violation("update-fails-after-crash", "after a restart on a crash state an ordinary update fails: "+e)
			return false
		}
	}
	v, lerr := c20LoadValues(cfg, ips)
	if lerr != "" {
		note()
		c.Note("load_error", lerr)
		c.Violation("state-after-recovery-does-not-load", "a crash left something behind; after the restarted server had completed further updates the directory no longer loads: "+lerr)
		return false
	}
	for _, s := range c20Stores4 {
		if v[s] != res.MemAfter[s] {
			note()
			c.Note("store", s)
			c.Note("memory", clip(res.MemAfter[s]))
			c.Note("disk", clip(v[s]))
			c.Violation("acknowledged-change-not-on-disk", "after a restart on a crash state and further completed updates, reloading gives a different "+s+" value than the one the server had in memory (an acknowledged update is lost or another entry was overwritten)")
			return false
		}
	}
	// structure of the accounts directory: one file per login, one inode per file
	users := filepath.Join(cfg, "Users")
	ents, _ := os.ReadDir(users)
	byIno := map[uint64]string{}
	byLogin := map[string]string{}
	for _, e := range ents {
		n := e.Name()
		if !strings.HasSuffix(n, ".yaml") { // (.account.tmp may stay linked to the last created file: every writer unlinks it first)
			continue
		}
		fi, err := os.Stat(filepath.Join(users, n))
		if err != nil {
			continue
		}
		if sys, ok := fi.Sys().(*syscall.Stat_t); ok {
			if other, dup := byIno[sys.Ino]; dup {
				note()
				c.Note("files", other+" , "+n)
				c.Violation("aliased-account-files", "after recovery and further completed account writes two account files in Users/ are the same file (hard link): a write through one rewrites the other")
				return false
			}
			byIno[sys.Ino] = n
		}
		var acc hotline.Account
		b, _ := os.ReadFile(filepath.Join(users, n))
		if yaml.Unmarshal(b, &acc) == nil {
			if other, dup := byLogin[acc.Login]; dup {
				note()
				c.Note("files", other+" , "+n)
				c.Note("login", acc.Login)
				c.Violation("duplicate-login-files", "after recovery and further completed updates two account files hold the same login: which one a restart keeps depends on the directory order")
				return false
			}
			byLogin[acc.Login] = n
			if n != acc.Login+".yaml" {
				note()
				c.Note("file", n)
				c.Note("login", acc.Login)
				c.Violation("account-file-misnamed", "after a restart and further completed updates an account file is not named after the login it holds: later updates and deletes of that account act on another file")
				return false
			}
		}
	}
	c.Dist("recovery/" + store)
	return true
}

// ---------------------------------------------------------------- the real server binary's start-up on a crash state

var (
	c20ServerOnce sync.Once
	c20ServerBin  string
	c20ServerErr  string
)

// c20Server builds cmd/mobius-hotline-server of the tree under test (the module this harness was built against) once per run.
func c20Server() (string, string) {
	c20ServerOnce.Do(func() {
		repo := ""
		if bi, ok := debug.ReadBuildInfo(); ok {
			for _, d := range bi.Deps {
				if d.Path == "github.com/jhalter/mobius" && d.Replace != nil {
					repo = d.Replace.Path
				}
			}
		}
		if repo == "" {
			c20ServerErr = "cannot locate the tree under test from the build info"
			return
		}
		dir := filepath.Join("/var/tmp", "mobius-verif-c20-server-bin", sanitize(repo))
		os.MkdirAll(dir, 0755)
		// one binary per tree under test, replaced atomically (concurrent runs against the same tree build the same thing)
		bin := filepath.Join(dir, "server")
		tmp := filepath.Join(dir, fmt.Sprintf("server.build-%d", os.Getpid()))
		cmd := exec.Command("go", "build", "-o", tmp, "./cmd/mobius-hotline-server")
		cmd.Dir = repo
		cmd.Env = append(os.Environ(), "GOFLAGS=-mod=readonly", "GOPROXY=off", "GOSUMDB=off", "GOTOOLCHAIN=local")
		if out, err := cmd.CombinedOutput(); err != nil {
			os.Remove(tmp)
			c20ServerErr = "go build of the server failed: " + clip(string(out))
			return
		}
		if err := os.Rename(tmp, bin); err != nil {
			os.Remove(tmp)
			c20ServerErr = "cannot install the server binary: " + err.Error()
			return
		}
		c20ServerBin = bin
	})
	return c20ServerBin, c20ServerErr
}

// c20RealStartup starts the REAL server binary on a materialised crash state (config dir completed with config.yaml,
// banner, agreement, file root), waits until it reports that it is up (or exits), kills it, and returns: whatever the
// start-up path of main() did to the directory is now in cfg.
func c20RealStartup(cfg string) (started bool, log string, err string) {
	bin, berr := c20Server()
	if bin == "" {
		return false, "", berr
	}
	os.MkdirAll(filepath.Join(cfg, "Files"), 0755)
	os.WriteFile(filepath.Join(cfg, "banner.jpg"), []byte("JPEG"), 0644)
	os.WriteFile(filepath.Join(cfg, "Agreement.txt"), []byte("agree"), 0644)
	os.WriteFile(filepath.Join(cfg, "config.yaml"), []byte("Name: verif\nDescription: crash state\nBannerFile: banner.jpg\nFileRoot: Files\nEnableTrackerRegistration: false\nTrackers: []\nMaxDownloads: 0\nMaxDownloadsPerClient: 0\nMaxConnectionsPerIP: 0\nPreserveResourceForks: false\nIgnoreFiles: []\nEnableBonjour: false\n"), 0644)
	logPath := cfg + ".server.log"
	defer os.Remove(logPath)
	port := 20000 + (int(time.Now().UnixNano()/1000)%20000)*2
	cmd := exec.Command(bin, "-config", cfg, "-interface", "127.0.0.1", "-bind", strconv.Itoa(port), "-log-file", logPath, "-log-level", "info")
	var outb bytes.Buffer
	cmd.Stdout, cmd.Stderr = &outb, &outb
	if e := cmd.Start(); e != nil {
		return false, "", "cannot start the server binary: " + e.Error()
	}
	done := make(chan struct{})
	go func() { cmd.Wait(); close(done) }()
	deadline := time.Now().Add(15 * time.Second)
	for time.Now().Before(deadline) {
		b, _ := os.ReadFile(logPath)
		if strings.Contains(string(b), "Hotline server started") || strings.Contains(outb.String(), "Hotline server started") {
			started = true
			break
		}
		select {
		case <-done:
			deadline = time.Now()
		case <-time.After(3 * time.Millisecond):
		}
	}
	cmd.Process.Kill()
	<-done
	b, _ := os.ReadFile(logPath)
	// the process may have exited right after coming up (its port was taken): what counts is that it got past the loaders
	if strings.Contains(string(b), "Hotline server started") || strings.Contains(outb.String(), "Hotline server started") {
		started = true
	}
	for _, f := range []string{"Files", "banner.jpg", "Agreement.txt", "config.yaml"} {
		os.RemoveAll(filepath.Join(cfg, f))
	}
	return started, string(b) + outb.String(), ""
}

// ---------------------------------------------------------------- ack-implies-persisted

func c20CopyDir(src, dst string) error {
	return filepath.Walk(src, func(p string, info os.FileInfo, err error) error {
		if err != nil {
			return nil
		}
		rel, _ := filepath.Rel(src, p)
		if info.IsDir() {
			return os.MkdirAll(filepath.Join(dst, rel), 0755)
		}
		b, err := os.ReadFile(p)
		if err != nil {
			return nil
		}
		return os.WriteFile(filepath.Join(dst, rel), b, 0644)
	})
}

func c20NewsPath(items ...string) []byte {
	b := []byte{0, byte(len(items))}
	for _, it := range items {
		b = append(b, 0, 0, byte(len(it)))
		b = append(b, it...)
	}
	return b
}

// c20AckPersisted: through the REAL handlers (direct mode).  The moment a handler hands back its (non-error) reply
// the change it acknowledges must be in the config directory: a copy of the directory taken at that moment is
// loaded with the real constructors and must show the change – a kill right after the acknowledgement loses nothing.
func c20AckPersisted(c *Case) {
	r := c.R
	ts, err := newTS(TSOpt{Direct: true, Board: c20Token(r, r.Pick(0, 50, 2000))})
	if err != nil {
		panic(err)
	}
	defer ts.Close()
	admin, _ := ts.DirectClient("admin", []byte("root"), "10.4.0.1:1000")
	n := 2 + r.Intn(5)
	var logins []string
	var cats []string
	snap := 0
	for i := 0; i < n; i++ {
		kind := r.Pick(0, 0, 1, 2, 3, 4, 5, 6)
		var tr hotline.Transaction
		var what string
		var expect func(dir string, v map[string]string) string // "" = persisted
		ip := ""
		switch kind {
		case 0: // disconnect + ban
			ip = fmt.Sprintf("10.77.%d.%d", r.Intn(200), 1+r.Intn(200))
			victim, _ := ts.DirectClient("guest", []byte("v"+c20Token(r, 3)), ip+":4000")
			opt := byte(1 + r.Intn(2))
			tr = mkTran(hotline.TranDisconnectUser, uint32(i+1), fld(hotline.FieldUserID, victim.ID[:]), fld(hotline.FieldOptions, []byte{0, opt}))
			what = fmt.Sprintf("disconnect-and-ban(%s, option %d)", ip, opt)
			expect = func(dir string, v map[string]string) string {
				bf, err := mobius.NewBanFile(filepath.Join(dir, "Banlist.yaml"))
				if err != nil {
					return "ban list does not load: " + err.Error()
				}
				if b, _ := bf.IsBanned(ip); !b {
					return "address " + ip + " is not in Banlist.yaml"
				}
				return ""
			}
		case 1: // new user
			l := "n" + c20Token(r, 5)
			logins = append(logins, l)
			acc := c20AccessOf(c20RandAccess(r))
			tr = mkTran(hotline.TranNewUser, uint32(i+1), fld(hotline.FieldUserLogin, hotline.EncodeString([]byte(l))),
				fld(hotline.FieldUserName, []byte("N "+l)), fld(hotline.FieldUserPassword, []byte("pw")), fld(hotline.FieldUserAccess, acc[:]))
			what = "new-user(" + l + ")"
			expect = func(dir string, v map[string]string) string {
				if !strings.Contains(v["accounts"], fmt.Sprintf("%q %q", l, "N "+l)) {
					return "account " + l + " is not in Users/"
				}
				return ""
			}
		case 2: // delete user
			if len(logins) == 0 {
				continue
			}
			j := r.Intn(len(logins))
			l := logins[j]
			logins = append(logins[:j], logins[j+1:]...)
			tr = mkTran(hotline.TranDeleteUser, uint32(i+1), fld(hotline.FieldUserLogin, hotline.EncodeString([]byte(l))))
			what = "delete-user(" + l + ")"
			expect = func(dir string, v map[string]string) string {
				if strings.Contains(v["accounts"], fmt.Sprintf("%q ", l)) {
					return "account " + l + " is still in Users/"
				}
				return ""
			}
		case 3: // new news category
			name := "c" + c20Token(r, 4)
			cats = append(cats, name)
			tr = mkTran(hotline.TranNewNewsCat, uint32(i+1), fld(hotline.FieldNewsCatName, []byte(name)))
			what = "new-news-category(" + name + ")"
			expect = func(dir string, v map[string]string) string {
				if !strings.Contains(v["news"], name) {
					return "category " + name + " is not in ThreadedNews.yaml"
				}
				return ""
			}
		case 4: // post an article
			if len(cats) == 0 {
				continue
			}
			cat := cats[r.Intn(len(cats))]
			title := "t" + c20Token(r, 6)
			tr = mkTran(hotline.TranPostNewsArt, uint32(i+1), fld(hotline.FieldNewsPath, c20NewsPath(cat)), fld(hotline.FieldNewsArtID, []byte{0, 0, 0, 0}),
				fld(hotline.FieldNewsArtTitle, []byte(title)), fld(hotline.FieldNewsArtDataFlav, []byte("text/plain")),
				fld(hotline.FieldNewsArtData, []byte("body "+c20Token(r, 20))))
			what = "post-article(" + cat + ", " + title + ")"
			expect = func(dir string, v map[string]string) string {
				if !strings.Contains(v["news"], title) {
					return "article " + title + " is not in ThreadedNews.yaml"
				}
				return ""
			}
		case 5: // message board post
			body := "b" + c20Token(r, 12)
			tr = mkTran(hotline.TranOldPostNews, uint32(i+1), fld(hotline.FieldData, []byte(body)))
			what = "board-post(" + body + ")"
			expect = func(dir string, v map[string]string) string {
				if !strings.Contains(v["board"], hex.EncodeToString([]byte(body))) {
					return "the post is not in MessageBoard.txt"
				}
				return ""
			}
		default: // delete a news category
			if len(cats) == 0 {
				continue
			}
			j := r.Intn(len(cats))
			name := cats[j]
			cats = append(cats[:j], cats[j+1:]...)
			tr = mkTran(hotline.TranDelNewsItem, uint32(i+1), fld(hotline.FieldNewsPath, c20NewsPath(name)))
			what = "delete-news-item(" + name + ")"
			expect = func(dir string, v map[string]string) string {
				if strings.Contains(v["news"], name) {
					return "category " + name + " is still in ThreadedNews.yaml"
				}
				return ""
			}
		}
		res, _, pan := ts.Call(admin, tr)
		// the acknowledgement is in hand: what a restart would find NOW
		snap++
		dir := filepath.Join(ts.Dir, fmt.Sprintf("at-ack-%d", snap))
		c20CopyDir(ts.Cfg, dir)
		if pan != nil {
			c.Note("operation", what)
			c.Note("panic", fmt.Sprint(pan))
			c.Violation("handler-panics", "a persisting handler panicked")
			return
		}
		acked := false
		for _, t := range res {
			if t.IsReply == 1 && t.ErrorCode == [4]byte{} {
				acked = true
			}
		}
		c.Dist(fmt.Sprintf("ack-persisted/kind=%d/acked=%v", kind, acked))
		if !acked {
			os.RemoveAll(dir)
			continue
		}
		v, lerr := c20LoadValues(dir, nil)
		if lerr != "" {
			c.Note("operation", what)
			c.Note("load_error", lerr)
			c.Violation("state-does-not-load", "the config directory as it is when an update is acknowledged does not load: "+lerr)
			return
		}
		if why := expect(dir, v); why != "" {
			c.Note("operation", what)
			c.Note("missing", why)
			c.Note("users", v["accounts"])
			c.Violation("acknowledged-before-persisted", "a change was acknowledged to the client before it was in the config directory ("+what+": "+why+"): a kill right after the acknowledgement loses it")
			return
		}
		os.RemoveAll(dir)
		c.Nontrivial(what)
	}
	c.Sample(map[string]any{"family": "ack-implies-persisted", "operations": n})
}

var _ = bytes.Equal
