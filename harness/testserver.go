package main

// Shared fixture: a real hotline.Server wired the way cmd/mobius-hotline-server wires it, on a
// throw-away config directory, reachable either over in-memory connections (wire mode: the real
// handleNewConnection / processOutbox run) or by direct handler calls (direct mode: the harness
// collects the outbox).

import (
	"bufio"
	"context"
	"encoding/binary"
	"errors"
	"fmt"
	"io"
	"log/slog"
	"net"
	"os"
	"path/filepath"
	"sort"
	"sync"
	"sync/atomic"
	"time"

	"github.com/jhalter/mobius/hotline"
	"github.com/jhalter/mobius/internal/mobius"
	"gopkg.in/yaml.v3"
)

var discardLogger = slog.New(slog.NewTextHandler(io.Discard, nil))

type AcctSpec struct {
	Login    string
	Name     string
	Password string
	Access   hotline.AccessBitmap
	FileRoot string
}

type TSOpt struct {
	Accounts      []AcctSpec // default: guest (typical guest access) + admin (all bits)
	Board         string
	Agreement     string
	News          string // ThreadedNews.yaml content
	Direct        bool   // collect the outbox instead of running processOutbox
	PreserveForks bool
	IgnoreFiles   []string
	BannerFile    bool
	Name          string
	NoOutbox      bool // do not start an outbox consumer (the caller runs ListenAndServe, which starts its own)
}

type TS struct {
	Srv     *hotline.Server
	Outer   string // directory created in /var/tmp and removed by Close (the sandbox is four levels below it)
	Dir     string // sandbox (contains config/ and canaries)
	Cfg     string
	Root    string
	Users   string
	Acct    *mobius.YAMLAccountManager
	Bans    *mobius.BanFile
	News    *mobius.ThreadedNewsYAML
	Board   *mobius.FlatNews
	Agree   *mobius.Agreement
	mu      sync.Mutex
	outbox  []hotline.Transaction // direct mode
	stopCol chan struct{}
	direct  bool
}

func allAccess() hotline.AccessBitmap {
	return hotline.AccessBitmap{0xff, 0xff, 0xff, 0xff, 0xff, 0xff, 0xff, 0xff}
}

func accessOf(bits ...int) hotline.AccessBitmap {
	var a hotline.AccessBitmap
	for _, b := range bits {
		a.Set(b)
	}
	return a
}

func guestAccess() hotline.AccessBitmap {
	return accessOf(hotline.AccessDownloadFile, hotline.AccessDownloadFolder, hotline.AccessUploadFile, hotline.AccessUploadFolder,
		hotline.AccessReadChat, hotline.AccessSendChat, hotline.AccessOpenChat, hotline.AccessNewsReadArt, hotline.AccessNewsPostArt,
		hotline.AccessSendPrivMsg)
}

func writeAccount(dir string, a AcctSpec) error {
	// The server stores bcrypt(obfuscated password bytes as sent on the wire): see HandleNewUser / handleNewConnection.
	acc := hotline.NewAccount(a.Login, a.Name, string(hotline.EncodeString([]byte(a.Password))), a.Access)
	acc.FileRoot = a.FileRoot
	b, err := yaml.Marshal(acc)
	if err != nil {
		return err
	}
	return os.WriteFile(filepath.Join(dir, a.Login+".yaml"), b, 0644)
}

const emptyNews = "Categories: {}\n"

func newTS(opt TSOpt) (*TS, error) {
	outer, err := os.MkdirTemp("/var/tmp", "mobius-verif-")
	if err != nil {
		return nil, err
	}
	// the sandbox sits four levels below the directory that is removed afterwards: code under test
	// that escapes the sandbox by a few ".." (seeded changes do) still cannot litter /var/tmp
	dir := filepath.Join(outer, "o1", "o2", "o3", "o4")
	if err := os.MkdirAll(dir, 0755); err != nil {
		return nil, err
	}
	ts := &TS{Outer: outer, Dir: dir, Cfg: filepath.Join(dir, "config"), stopCol: make(chan struct{})}
	ts.Root = filepath.Join(ts.Cfg, "Files")
	ts.Users = filepath.Join(ts.Cfg, "Users")
	for _, d := range []string{ts.Cfg, ts.Root, ts.Users} {
		if err := os.MkdirAll(d, 0755); err != nil {
			return nil, err
		}
	}
	accts := opt.Accounts
	if accts == nil {
		accts = []AcctSpec{
			{Login: "guest", Name: "guest", Password: "", Access: guestAccess()},
			{Login: "admin", Name: "admin", Password: "secret", Access: allAccess()},
		}
	}
	for _, a := range accts {
		if err := writeAccount(ts.Users, a); err != nil {
			return nil, err
		}
	}
	news := opt.News
	if news == "" {
		news = emptyNews
	}
	os.WriteFile(filepath.Join(ts.Cfg, "MessageBoard.txt"), []byte(opt.Board), 0644)
	os.WriteFile(filepath.Join(ts.Cfg, "Agreement.txt"), []byte(opt.Agreement), 0644)
	os.WriteFile(filepath.Join(ts.Cfg, "ThreadedNews.yaml"), []byte(news), 0644)
	name := opt.Name
	if name == "" {
		name = "verif"
	}
	cfg := hotline.Config{Name: name, Description: "d", FileRoot: ts.Root, PreserveResourceForks: opt.PreserveForks, IgnoreFiles: opt.IgnoreFiles}
	if cfg.IgnoreFiles == nil {
		cfg.IgnoreFiles = []string{`^\.`, `^@`}
	}
	if opt.BannerFile {
		cfg.BannerFile = "banner.jpg"
	}
	srv, err := hotline.NewServer(hotline.WithLogger(discardLogger), hotline.WithConfig(cfg))
	if err != nil {
		return nil, err
	}
	ts.Srv = srv
	if ts.Board, err = mobius.NewFlatNews(filepath.Join(ts.Cfg, "MessageBoard.txt")); err != nil {
		return nil, err
	}
	if ts.Bans, err = mobius.NewBanFile(filepath.Join(ts.Cfg, "Banlist.yaml")); err != nil {
		return nil, err
	}
	if ts.News, err = mobius.NewThreadedNewsYAML(filepath.Join(ts.Cfg, "ThreadedNews.yaml")); err != nil {
		return nil, err
	}
	if ts.Acct, err = mobius.NewYAMLAccountManager(ts.Users); err != nil {
		return nil, err
	}
	if ts.Agree, err = mobius.NewAgreement(ts.Cfg, "\r"); err != nil {
		return nil, err
	}
	srv.MessageBoard = ts.Board
	srv.BanList = ts.Bans
	srv.ThreadedNewsMgr = ts.News
	srv.AccountManager = ts.Acct
	srv.Agreement = ts.Agree
	srv.Banner = []byte("JPEGDATA")
	mobius.RegisterHandlers(srv)
	if opt.Direct {
		ts.direct = true
		go ts.collect()
	} else if !opt.NoOutbox {
		go srv.VerifProcessOutbox()
	}
	return ts, nil
}

func (ts *TS) collect() {
	ob := ts.Srv.VerifOutbox()
	for {
		select {
		case t := <-ob:
			ts.mu.Lock()
			ts.outbox = append(ts.outbox, t)
			ts.mu.Unlock()
		case <-ts.stopCol:
			return
		}
	}
}

// TakeOutbox returns and clears what was queued on the outbox (direct mode).
func (ts *TS) TakeOutbox() []hotline.Transaction {
	ts.mu.Lock()
	defer ts.mu.Unlock()
	o := ts.outbox
	ts.outbox = nil
	return o
}

func (ts *TS) Close() {
	select {
	case <-ts.stopCol:
	default:
		close(ts.stopCol)
	}
	os.RemoveAll(ts.Dir)
	os.RemoveAll(ts.Outer)
}

// ---------------------------------------------------------------- direct mode

// nopConn is the server-side connection of a directly driven client.
type nopConn struct {
	mu     sync.Mutex
	closed bool
	wrote  []byte
}

func (n *nopConn) Read(p []byte) (int, error) { return 0, io.EOF }
func (n *nopConn) Write(p []byte) (int, error) {
	n.mu.Lock()
	defer n.mu.Unlock()
	n.wrote = append(n.wrote, p...)
	return len(p), nil
}
func (n *nopConn) Close() error {
	n.mu.Lock()
	defer n.mu.Unlock()
	n.closed = true
	return nil
}
func (n *nopConn) IsClosed() bool {
	n.mu.Lock()
	defer n.mu.Unlock()
	return n.closed
}

// DirectClient registers a logged-in client the way handleNewConnection would, without a socket.
func (ts *TS) DirectClient(login string, userName []byte, addr string) (*hotline.ClientConn, *nopConn) {
	nc := &nopConn{}
	cc := ts.Srv.NewClientConn(nc, addr)
	cc.Account = ts.Srv.AccountManager.Get(login)
	cc.UserName = userName
	cc.Logger = discardLogger
	if cc.Account != nil && cc.Authorize(hotline.AccessDisconUser) {
		cc.Flags.Set(hotline.UserFlagAdmin, 1)
	}
	return cc, nc
}

// Call invokes the registered handler for t on cc (like handleTransaction, minus idle bookkeeping)
// and returns the handler's result followed by whatever it queued on the outbox meanwhile.
func (ts *TS) Call(cc *hotline.ClientConn, t hotline.Transaction) (res []hotline.Transaction, queued []hotline.Transaction, panicked any) {
	h, ok := ts.Srv.VerifHandlers()[t.Type]
	if !ok {
		return nil, nil, nil
	}
	func() {
		defer func() {
			if r := recover(); r != nil {
				panicked = r
			}
		}()
		t = throughWireParser(t)
		res = h(cc, &t)
	}()
	return res, ts.drainOutbox(), panicked
}

// throughWireParser hands a handler what it would get in production: every request reaches a handler only after
// the connection loop parsed it from bytes (Transaction.Write -> inner bufio.Scanner -> Field.Write).  A request whose
// fields are well formed (size prefix = data length, data <= 65535, as NewField builds them) is serialised with the
// real Transaction.Read and parsed back with the real Transaction.Write; the parsed transaction is what the handler
// sees.  On code whose parser returns the fields that were sent (C01's round trip) this changes nothing; a parser that
// aliases buffers or reorders / loses fields now shows in every handler-level family.  Requests that cannot be
// serialised (hand-built inconsistent fields, oversize) are passed on as they are.
func throughWireParser(t hotline.Transaction) (out hotline.Transaction) {
	out = t
	for _, f := range t.Fields {
		if int(binary.BigEndian.Uint16(f.FieldSize[:])) != len(f.Data) {
			return
		}
	}
	defer func() {
		if recover() != nil {
			out = t
		}
	}()
	src := t
	src.Fields = append([]hotline.Field(nil), t.Fields...)
	b, err := io.ReadAll(&src)
	if err != nil || len(b) < 22 {
		return
	}
	var u hotline.Transaction
	if _, err := u.Write(b); err != nil {
		return
	}
	u.ClientID = t.ClientID
	return u
}

// drainOutbox returns everything queued on the outbox so far.  The collector goroutine appends after it
// receives, so a marker is pushed through the (FIFO, single-consumer) channel and awaited first.
func (ts *TS) drainOutbox() []hotline.Transaction {
	if !ts.direct {
		return ts.TakeOutbox()
	}
	marker := hotline.Transaction{Type: hotline.TranType{0xff, 0xfe}}
	binary.BigEndian.PutUint32(marker.ID[:], uint32(time.Now().UnixNano()))
	select {
	case ts.Srv.VerifOutbox() <- marker:
	case <-time.After(5 * time.Second):
		return ts.TakeOutbox()
	}
	var out []hotline.Transaction
	waitFor(5*time.Second, func() bool {
		ts.mu.Lock()
		defer ts.mu.Unlock()
		for i, t := range ts.outbox {
			if t.Type == marker.Type && t.ID == marker.ID {
				out = append(out, ts.outbox[:i]...)
				ts.outbox = append([]hotline.Transaction{}, ts.outbox[i+1:]...)
				return true
			}
		}
		return false
	})
	return out
}

func mkTran(ty hotline.TranType, id uint32, fields ...hotline.Field) hotline.Transaction {
	t := hotline.Transaction{Type: ty, Fields: fields}
	binary.BigEndian.PutUint32(t.ID[:], id)
	return t
}

func fld(id [2]byte, data []byte) hotline.Field { return hotline.NewField(id, data) }

// ---------------------------------------------------------------- wire mode

// segConn is an in-memory server-side connection whose Read follows a segmentation script and
// whose Write calls are recorded individually (each call atomic, like TCP).
type segConn struct {
	mu       sync.Mutex
	cond     *sync.Cond
	in       []byte // bytes not yet delivered
	segs     []int  // sizes of the next reads (cycled when exhausted; 0 = as much as asked)
	segIdx   int
	eof      bool // no more input will come
	closed   bool
	writes   [][]byte // every Write call
	onWrite  func([]byte)
	readGate func() // optional hook before each read returns
}

func newSegConn(segs []int) *segConn {
	s := &segConn{segs: segs}
	s.cond = sync.NewCond(&s.mu)
	return s
}

func (s *segConn) Feed(b []byte) {
	s.mu.Lock()
	s.in = append(s.in, b...)
	s.mu.Unlock()
	s.cond.Broadcast()
}

func (s *segConn) EOF() {
	s.mu.Lock()
	s.eof = true
	s.mu.Unlock()
	s.cond.Broadcast()
}

func (s *segConn) Read(p []byte) (int, error) {
	s.mu.Lock()
	defer s.mu.Unlock()
	for len(s.in) == 0 && !s.eof && !s.closed {
		s.cond.Wait()
	}
	if s.closed {
		return 0, io.ErrClosedPipe
	}
	if len(s.in) == 0 {
		return 0, io.EOF
	}
	n := len(p)
	if len(s.segs) > 0 {
		k := s.segs[s.segIdx%len(s.segs)]
		s.segIdx++
		if k > 0 && k < n {
			n = k
		}
	}
	if n > len(s.in) {
		n = len(s.in)
	}
	copy(p, s.in[:n])
	s.in = s.in[n:]
	return n, nil
}

func (s *segConn) Write(p []byte) (int, error) {
	s.mu.Lock()
	if s.closed {
		s.mu.Unlock()
		return 0, io.ErrClosedPipe
	}
	q := append([]byte{}, p...)
	s.writes = append(s.writes, q)
	cb := s.onWrite
	s.mu.Unlock()
	if cb != nil {
		cb(q)
	}
	return len(p), nil
}

func (s *segConn) Close() error {
	s.mu.Lock()
	s.closed = true
	s.mu.Unlock()
	s.cond.Broadcast()
	return nil
}

func (s *segConn) Written() []byte {
	s.mu.Lock()
	defer s.mu.Unlock()
	var b []byte
	for _, w := range s.writes {
		b = append(b, w...)
	}
	return b
}

func (s *segConn) Writes() [][]byte {
	s.mu.Lock()
	defer s.mu.Unlock()
	return append([][]byte{}, s.writes...)
}

func (s *segConn) IsClosed() bool {
	s.mu.Lock()
	defer s.mu.Unlock()
	return s.closed
}

// splitTransactions re-frames a server→client byte stream with an independent reference parser.
// rest is what could not be framed (must be empty for a well-formed stream).
func splitTransactions(b []byte) (ts []hotline.Transaction, rest []byte, err error) {
	for len(b) > 0 {
		if len(b) < 22 {
			return ts, b, errors.New("trailing bytes shorter than a transaction header")
		}
		total := int(binary.BigEndian.Uint32(b[12:16]))
		data := int(binary.BigEndian.Uint32(b[16:20]))
		if total != data {
			return ts, b, fmt.Errorf("totalSize %d != dataSize %d", total, data)
		}
		if total < 2 || 20+total > len(b) {
			return ts, b, fmt.Errorf("declared size %d exceeds the %d bytes that follow", total, len(b)-20)
		}
		t := hotline.Transaction{Flags: b[0], IsReply: b[1]}
		copy(t.Type[:], b[2:4])
		copy(t.ID[:], b[4:8])
		copy(t.ErrorCode[:], b[8:12])
		n := int(binary.BigEndian.Uint16(b[20:22]))
		p := b[22 : 20+total]
		for i := 0; i < n; i++ {
			if len(p) < 4 {
				return ts, b, errors.New("field header cut")
			}
			l := int(binary.BigEndian.Uint16(p[2:4]))
			if len(p) < 4+l {
				return ts, b, errors.New("field data cut")
			}
			var f hotline.Field
			copy(f.Type[:], p[0:2])
			copy(f.FieldSize[:], p[2:4])
			f.Data = append([]byte{}, p[4:4+l]...)
			t.Fields = append(t.Fields, f)
			p = p[4+l:]
		}
		if len(p) != 0 {
			return ts, b, errors.New("bytes left after the declared number of fields")
		}
		ts = append(ts, t)
		b = b[20+total:]
	}
	return ts, nil, nil
}

func encTran(t hotline.Transaction) []byte {
	b, _ := io.ReadAll(&t)
	return b
}

var clientHandshake = []byte{0x54, 0x52, 0x54, 0x50, 0x48, 0x4F, 0x54, 0x4C, 0, 1, 0, 2}

func loginTran(id uint32, login, password string, extra ...hotline.Field) hotline.Transaction {
	fs := []hotline.Field{
		fld(hotline.FieldUserLogin, hotline.EncodeString([]byte(login))),
		fld(hotline.FieldUserPassword, hotline.EncodeString([]byte(password))),
	}
	fs = append(fs, extra...)
	return mkTran(hotline.TranLogin, id, fs...)
}

// WireClient drives the real handleNewConnection over a segConn.
type WireClient struct {
	ts   *TS
	Conn *segConn
	Done chan error
	Addr string
}

func (ts *TS) Connect(addr string, segs []int) *WireClient {
	c := &WireClient{ts: ts, Conn: newSegConn(segs), Done: make(chan error, 1), Addr: addr}
	go func() {
		c.Done <- ts.Srv.VerifHandleNewConnection(context.Background(), c.Conn, addr)
	}()
	return c
}

// WaitDone waits for the connection handler to return.
func (c *WireClient) WaitDone(d time.Duration) (error, bool) {
	select {
	case err := <-c.Done:
		c.Done <- err
		return err, true
	case <-time.After(d):
		return nil, false
	}
}

// longWaitTimeouts counts waits of a minute or more that ran out.  Such waits are deliberately huge (checks run on
// loaded machines and never assert latencies) and never run out on code that answers at all; once a few have, the
// code under test evidently does not answer in that situation, the failures are recorded, and the remaining
// cases must not spend two minutes each finding the same thing: later long waits are cut to a few seconds.
var longWaitTimeouts atomic.Int64

// waitFor polls cond until it holds or the timeout elapses.
func waitFor(d time.Duration, cond func() bool) bool {
	long := d >= time.Minute
	if long && longWaitTimeouts.Load() >= 3 {
		d = 6 * time.Second
	}
	deadline := time.Now().Add(d)
	for {
		if cond() {
			return true
		}
		if time.Now().After(deadline) {
			if long {
				longWaitTimeouts.Add(1)
			}
			return false
		}
		time.Sleep(200 * time.Microsecond)
	}
}

// Received parses everything the server wrote to this client after the 8-byte handshake reply.
func (c *WireClient) Received() (hsReply []byte, trans []hotline.Transaction, rest []byte, err error) {
	b := c.Conn.Written()
	if len(b) < 8 {
		return b, nil, nil, nil
	}
	trans, rest, err = splitTransactions(b[8:])
	return b[:8], trans, rest, err
}

// ReplyTo waits for a reply transaction carrying id.
func (c *WireClient) ReplyTo(id uint32, d time.Duration) (*hotline.Transaction, bool) {
	var found *hotline.Transaction
	ok := waitFor(d, func() bool {
		_, trans, _, _ := c.Received()
		for i := range trans {
			if trans[i].IsReply == 1 && binary.BigEndian.Uint32(trans[i].ID[:]) == id {
				found = &trans[i]
				return true
			}
		}
		return false
	})
	return found, ok
}

// Quiesce waits until the number of bytes written to the client has been stable for `stable`.
func (c *WireClient) Quiesce(stable, max time.Duration) {
	deadline := time.Now().Add(max)
	last := -1
	lastChange := time.Now()
	for time.Now().Before(deadline) {
		n := len(c.Conn.Written())
		if n != last {
			last = n
			lastChange = time.Now()
		} else if time.Since(lastChange) > stable {
			return
		}
		time.Sleep(300 * time.Microsecond)
	}
}

// LoginOK performs handshake + login and waits for the login reply.
func (ts *TS) LoginOK(addr, login, password string, segs []int, extra ...hotline.Field) (*WireClient, error) {
	c := ts.Connect(addr, segs)
	c.Conn.Feed(clientHandshake)
	c.Conn.Feed(encTran(loginTran(1, login, password, extra...)))
	r, ok := c.ReplyTo(1, 5*time.Second)
	if !ok {
		return c, errors.New("no login reply")
	}
	if r.ErrorCode != [4]byte{} {
		return c, errors.New("login refused")
	}
	return c, nil
}

// ---------------------------------------------------------------- canonical forms

func fieldsCanon(fs []hotline.Field) string {
	s := ""
	for _, f := range fs {
		s += fmt.Sprintf(" %d:%s", binary.BigEndian.Uint16(f.Type[:]), hx(f.Data))
	}
	return s
}

// tranCanonTo renders (to, isReply, type, error, fields) — transaction ids of non-replies are random and dropped.
func tranCanonTo(t hotline.Transaction) string {
	id := ""
	if t.IsReply == 1 {
		id = fmt.Sprintf(" id=%d", binary.BigEndian.Uint32(t.ID[:]))
	}
	return fmt.Sprintf("to=%d reply=%d type=%d err=%d%s%s", binary.BigEndian.Uint16(t.ClientID[:]), t.IsReply,
		binary.BigEndian.Uint16(t.Type[:]), binary.BigEndian.Uint32(t.ErrorCode[:]), id, fieldsCanon(t.Fields))
}

// snapshot renders a directory tree as sorted (relative path, kind, size, content-hash | link target) lines.
func snapshot(root string) []string {
	var out []string
	filepath.Walk(root, func(p string, info os.FileInfo, err error) error {
		if err != nil {
			return nil
		}
		rel, _ := filepath.Rel(root, p)
		li, err := os.Lstat(p)
		if err != nil {
			return nil
		}
		switch {
		case li.Mode()&os.ModeSymlink != 0:
			tgt, _ := os.Readlink(p)
			out = append(out, fmt.Sprintf("%s L %s", rel, tgt))
		case li.IsDir():
			out = append(out, fmt.Sprintf("%s D", rel))
		default:
			b, _ := os.ReadFile(p)
			out = append(out, fmt.Sprintf("%s F %d %x", rel, len(b), fnv64(b)))
		}
		return nil
	})
	sort.Strings(out)
	return out
}

func fnv64(b []byte) uint64 {
	h := uint64(14695981039346656037)
	for _, c := range b {
		h ^= uint64(c)
		h *= 1099511628211
	}
	return h
}

// listenLoop is unused in-process; kept for the child-process server of C03.
var _ = net.Listen
var _ = bufio.NewReader
