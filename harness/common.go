package main

// Shared machinery of the correspondence harness: PRNG, oracle pipe, case bookkeeping,
// evidence / replay writers, known-findings matching.

import (
	"bufio"
	"encoding/hex"
	"encoding/json"
	"fmt"
	"hash/fnv"
	"io"
	"os"
	"os/exec"
	"path/filepath"
	"runtime"
	"sort"
	"strings"
	"sync"
	"sync/atomic"
	"time"
)

// ---------------------------------------------------------------- PRNG (splitmix64)

type RNG struct{ s uint64 }

func NewRNG(seed uint64) *RNG { return &RNG{s: seed} }

func (r *RNG) U64() uint64 {
	r.s += 0x9E3779B97F4A7C15
	z := r.s
	z = (z ^ (z >> 30)) * 0xBF58476D1CE4E5B9
	z = (z ^ (z >> 27)) * 0x94D049BB133111EB
	return z ^ (z >> 31)
}
func (r *RNG) Intn(n int) int {
	if n <= 0 {
		return 0
	}
	return int(r.U64() % uint64(n))
}
func (r *RNG) Bool() bool        { return r.U64()&1 == 1 }
func (r *RNG) Chance(p int) bool { return r.Intn(100) < p } // p percent
func (r *RNG) Pick(xs ...int) int {
	return xs[r.Intn(len(xs))]
}
func (r *RNG) Bytes(n int) []byte {
	b := make([]byte, n)
	for i := range b {
		b[i] = byte(r.U64())
	}
	return b
}

// Text draws a byte string from a mix of alphabets (ASCII, Mac-Roman high bytes, UTF-8, invalid UTF-8, NUL, '/', dots).
func (r *RNG) Text(n int) []byte {
	b := make([]byte, 0, n)
	mode := r.Intn(6)
	for len(b) < n {
		switch mode {
		case 0, 1:
			b = append(b, byte('a'+r.Intn(26)))
		case 2:
			b = append(b, byte(0x80+r.Intn(0x80)))
		case 3:
			b = append(b, []byte("é")...)
		case 4:
			b = append(b, byte(r.U64()))
		default:
			const al = " ./-_AZaz09:\r\n\x00"
			b = append(b, al[r.Intn(len(al))])
		}
	}
	return b[:n]
}

// Name draws a safe ASCII name (letters, digits, space, dash) of length 1..n.
func (r *RNG) Name(n int) string {
	l := 1 + r.Intn(n)
	const al = "abcdefghijklmnopqrstuvwxyzABCDEFGHIJKLMNOPQRSTUVWXYZ0123456789 -_"
	b := make([]byte, l)
	for i := range b {
		b[i] = al[r.Intn(len(al))]
	}
	if b[0] == ' ' {
		b[0] = 'x'
	}
	if b[l-1] == ' ' {
		b[l-1] = 'y'
	}
	return string(b)
}

func mix(a uint64, s string, i uint64) uint64 {
	h := fnv.New64a()
	fmt.Fprintf(h, "%d|%s|%d", a, s, i)
	return h.Sum64()
}

// ---------------------------------------------------------------- hex helpers

func hx(b []byte) string {
	if len(b) == 0 {
		return "-"
	}
	return hex.EncodeToString(b)
}
func unhx(s string) []byte {
	if s == "-" || s == "" {
		return []byte{}
	}
	b, err := hex.DecodeString(s)
	if err != nil {
		panic("bad hex from oracle: " + s)
	}
	return b
}
func short(b []byte) string {
	if len(b) <= 48 {
		return hx(b)
	}
	return fmt.Sprintf("%s…(%d bytes)", hex.EncodeToString(b[:48]), len(b))
}

// ---------------------------------------------------------------- oracle process

type Oracle struct {
	cmd *exec.Cmd
	in  *bufio.Writer
	out *bufio.Reader
	mu  sync.Mutex
}

func startOracle(path string) (*Oracle, error) {
	cmd := exec.Command(path)
	stdin, err := cmd.StdinPipe()
	if err != nil {
		return nil, err
	}
	stdout, err := cmd.StdoutPipe()
	if err != nil {
		return nil, err
	}
	cmd.Stderr = os.Stderr
	if err := cmd.Start(); err != nil {
		return nil, err
	}
	return &Oracle{cmd: cmd, in: bufio.NewWriterSize(stdin, 1<<20), out: bufio.NewReaderSize(stdout, 1<<20)}, nil
}

// Ask sends one request line and returns the one-line answer.
func (o *Oracle) Ask(line string) string {
	o.mu.Lock()
	defer o.mu.Unlock()
	o.in.WriteString(line)
	o.in.WriteByte('\n')
	if err := o.in.Flush(); err != nil {
		return "ORACLE-DEAD " + err.Error()
	}
	s, err := o.out.ReadString('\n')
	if err != nil {
		return "ORACLE-DEAD " + err.Error()
	}
	return strings.TrimRight(s, "\n")
}

func (o *Oracle) Close() {
	o.mu.Lock()
	defer o.mu.Unlock()
	o.in.Flush()
	if c, ok := o.cmd.Stdin.(io.Closer); ok {
		c.Close()
	}
	o.cmd.Process.Kill()
	o.cmd.Wait()
}

// ---------------------------------------------------------------- run context

type Failure struct {
	Kind   string         `json:"kind"` // impl-violation | correspondence | proof
	Key    string         `json:"key"`  // classification used for known-findings matching
	What   string         `json:"what"`
	Family string         `json:"family"`
	Seed   uint64         `json:"case_seed"`
	Idx    int            `json:"case_idx"`
	Detail map[string]any `json:"detail"`
}

type Ctx struct {
	truncated bool
	Prop      string
	Tier      string
	Seed      uint64
	Oracles   []*Oracle
	start     time.Time
	mu        sync.Mutex
	evals     int64
	nontriv   map[uint64]struct{}
	dist      map[string]int64
	samples   []any
	fails     []Failure
	corrOK    int64
	corrBad   int64
	rule      string
	notes     []string
	assume    []string
	families  []*Family
	failCount map[string]int
}

type Family struct {
	Name  string
	Quick int
	Thor  int
	Run   func(c *Case)
	// Serial families run on one goroutine (they use global resources such as ports or sleeps).
	Serial bool
	// MaxPar bounds the number of cases of this family running at once (0 = one per CPU).
	MaxPar int
}

type Case struct {
	X      *Ctx
	R      *RNG
	Fam    string
	Seed   uint64
	Idx    int
	O      *Oracle
	Detail map[string]any
	failed bool
}

func (c *Case) Note(k string, v any) {
	if c.Detail == nil {
		c.Detail = map[string]any{}
	}
	c.Detail[k] = v
}

// Nontrivial marks the case as reaching the code the property is about; canon identifies the distinct input.
func (c *Case) Nontrivial(canon string) {
	h := fnv.New64a()
	h.Write([]byte(c.Fam))
	h.Write([]byte{0})
	h.Write([]byte(canon))
	c.X.mu.Lock()
	c.X.nontriv[h.Sum64()] = struct{}{}
	c.X.mu.Unlock()
}

// Evals counts n further evaluations made inside this case (e.g. connections of a batch).
func (c *Case) Evals(n int) { atomic.AddInt64(&c.X.evals, int64(n)) }

func (c *Case) Dist(k string) {
	c.X.mu.Lock()
	c.X.dist[k]++
	c.X.mu.Unlock()
}

func (c *Case) Sample(v any) {
	c.X.mu.Lock()
	if len(c.X.samples) < 6 {
		c.X.samples = append(c.X.samples, v)
	}
	c.X.mu.Unlock()
}

// Violation: the implementation's own observation fails the property's predicate on a concrete input.
func (c *Case) Violation(key, what string) {
	c.fail("impl-violation", key, what)
}

// Disagree: model and implementation differ on this input (correspondence broken).
func (c *Case) Disagree(key, what string) {
	c.fail("correspondence", key, what)
}

func (c *Case) fail(kind, key, what string) {
	c.failed = true
	d := map[string]any{}
	for k, v := range c.Detail {
		d[k] = v
	}
	c.X.mu.Lock()
	if c.X.failCount == nil {
		c.X.failCount = map[string]int{}
	}
	c.X.failCount[kind+"/"+key]++
	if c.X.failCount[kind+"/"+key] <= 2 {
		c.X.fails = append(c.X.fails, Failure{Kind: kind, Key: key, What: what, Family: c.Fam, Seed: c.Seed, Idx: c.Idx, Detail: d})
	}
	c.X.mu.Unlock()
}

// Ask queries the Lean oracle.
func (c *Case) Ask(op string, args ...[]byte) string {
	var sb strings.Builder
	sb.WriteString(op)
	for _, a := range args {
		sb.WriteByte(' ')
		sb.WriteString(hx(a))
	}
	return c.O.Ask(sb.String())
}

// AskS queries the oracle with preformatted string arguments.
func (c *Case) AskS(op string, args ...string) string {
	return c.O.Ask(op + " " + strings.Join(args, " "))
}

// Corr compares an implementation observation with the model's; spec=true means the model side is the
// property's reference (a mismatch is a direct violation on this concrete input).
func (c *Case) Corr(name string, impl, model string, spec bool) bool {
	if impl == model {
		atomic.AddInt64(&c.X.corrOK, 1)
		return true
	}
	atomic.AddInt64(&c.X.corrBad, 1)
	c.Note("impl", clip(impl))
	c.Note("model", clip(model))
	if spec {
		c.Violation(name, "implementation output differs from the reference ("+name+")")
	} else {
		c.Disagree(name, "model and implementation differ ("+name+")")
	}
	return false
}

func clip(s string) string {
	if len(s) > 600 {
		return s[:600] + fmt.Sprintf("…(%d chars)", len(s))
	}
	return s
}

func (x *Ctx) Add(f *Family) { x.families = append(x.families, f) }

func (x *Ctx) runFamilies(only string, onlySeed uint64, replay bool, replayIdx ...int) {
	workers := runtime.NumCPU()
	if workers > len(x.Oracles) {
		workers = len(x.Oracles)
	}
	for _, f := range x.families {
		if only != "" && f.Name != only {
			continue
		}
		n := f.Quick
		if x.Tier == "thorough" {
			n = f.Thor
		}
		if replay {
			n = 1
		}
		w := workers
		if f.Serial {
			w = 1
		}
		if f.MaxPar > 0 && w > f.MaxPar {
			w = f.MaxPar
		}
		var wg sync.WaitGroup
		var next int64 = -1
		for k := 0; k < w; k++ {
			wg.Add(1)
			go func(k int) {
				defer wg.Done()
				for {
					i := int(atomic.AddInt64(&next, 1))
					if i >= n {
						return
					}
					if x.overBudget() {
						return
					}
					cs := mix(x.Seed, f.Name, uint64(i))
					idx := i
					if replay {
						cs = onlySeed
						if len(replayIdx) > 0 {
							idx = replayIdx[0]
						}
					}
					c := &Case{X: x, R: NewRNG(cs), Fam: f.Name, Seed: cs, Idx: idx, O: x.Oracles[k]}
					func() {
						defer func() {
							if r := recover(); r != nil {
								buf := make([]byte, 4096)
								buf = buf[:runtime.Stack(buf, false)]
								c.Note("panic", fmt.Sprint(r))
								c.Note("stack", string(buf))
								c.Violation("harness-panic", "unrecovered panic escaped from the code under test: "+fmt.Sprint(r))
							}
						}()
						f.Run(c)
					}()
					atomic.AddInt64(&x.evals, 1)
				}
			}(k)
		}
		wg.Wait()
	}
}

// overBudget: failures are already recorded and the run has taken far longer than any run on a tree where the
// property holds (those finish in about a minute / twenty minutes): stop scheduling further cases so that the
// findings are reported instead of the check running for hours (code under test that stops answering makes
// every remaining case wait for its timeouts).  Never true while nothing has failed.
var runStart = time.Now()

func (x *Ctx) overBudget() bool {
	budget := 12 * time.Minute
	if x.Tier == "thorough" {
		budget = 90 * time.Minute
	}
	if time.Since(runStart) < budget {
		return false
	}
	x.mu.Lock()
	defer x.mu.Unlock()
	if len(x.failCount) == 0 {
		return false
	}
	if !x.truncated {
		x.truncated = true
		fmt.Println("NOTE: time budget exceeded with failures already recorded; remaining cases are not run")
	}
	return true
}

// ---------------------------------------------------------------- known findings

type KnownFinding struct {
	Property string `json:"property"`
	Key      string `json:"key"`
	What     string `json:"what"`
}
type KnownFile struct {
	Findings []KnownFinding    `json:"findings"`
	Fixed    []json.RawMessage `json:"fixed"`
}

func loadKnown(path string) KnownFile {
	var k KnownFile
	b, err := os.ReadFile(path)
	if err != nil {
		return k
	}
	_ = json.Unmarshal(b, &k)
	return k
}

// ---------------------------------------------------------------- finishing

type ProofInfo struct {
	Obligations int      `json:"obligations"`
	Discharged  int      `json:"discharged"`
	CheckerCmd  string   `json:"checker_cmd"`
	TrustedBase []string `json:"trusted_base"`
	Theorems    []string `json:"theorems"`
	Axioms      []string `json:"axioms"`
	Broken      []string `json:"broken"` // obligations that no longer check (build failed)
	BuildLog    string   `json:"build_log"`
	Facts       []string `json:"generated_facts"`
}

func (x *Ctx) finish(verifDir string, proof *ProofInfo, level string) int {
	wall := time.Since(x.start).Seconds()
	known := loadKnown(filepath.Join(verifDir, "known_findings.json"))
	isKnown := func(f Failure) *KnownFinding {
		for i := range known.Findings {
			k := &known.Findings[i]
			if k.Property == x.Prop && k.Key == f.Key && f.Kind == "impl-violation" {
				return k
			}
		}
		return nil
	}
	var viol, corr []Failure
	knownHit := map[string]*KnownFinding{}
	for _, f := range x.fails {
		if k := isKnown(f); k != nil {
			knownHit[k.Key] = k
			continue
		}
		if f.Kind == "impl-violation" {
			viol = append(viol, f)
		} else {
			corr = append(corr, f)
		}
	}
	exit := 0
	os.MkdirAll(filepath.Join(verifDir, "replays"), 0755)
	writeReplay := func(name string, v any) string {
		p := filepath.Join(verifDir, "replays", name)
		b, _ := json.MarshalIndent(v, "", " ")
		os.WriteFile(p, b, 0644)
		return p
	}
	keys := make([]string, 0, len(knownHit))
	for k := range knownHit {
		keys = append(keys, k)
	}
	sort.Strings(keys)
	for _, k := range keys {
		fmt.Printf("KNOWN-FINDING: property=%s %s [%s]\n", x.Prop, knownHit[k].What, k)
	}
	nviol := 0
	if len(viol) > 0 {
		// one VIOLATION line per distinct key
		seen := map[string]bool{}
		for _, f := range viol {
			if seen[f.Key] {
				continue
			}
			seen[f.Key] = true
			nviol++
			p := writeReplay(fmt.Sprintf("%s-%s-%d.json", x.Prop, sanitize(f.Key), f.Seed), map[string]any{
				"property": x.Prop, "kind": f.Kind, "key": f.Key, "what": f.What, "family": f.Family,
				"case_seed": f.Seed, "case_idx": f.Idx, "tier": x.Tier, "seed": x.Seed, "detail": f.Detail,
				"replay_cmd": fmt.Sprintf("bin/check replay %s", filepath.Join("replays", fmt.Sprintf("%s-%s-%d.json", x.Prop, sanitize(f.Key), f.Seed))),
			})
			fmt.Printf("VIOLATION property=%s replay=%s\n", x.Prop, p)
		}
		exit = 1
	} else if len(corr) > 0 || (proof != nil && len(proof.Broken) > 0) {
		nviol = 1
		d := map[string]any{"property": x.Prop, "tier": x.Tier, "seed": x.Seed}
		name := "obligation"
		if len(corr) > 0 {
			d["kind"] = "correspondence"
			d["correspondence"] = corr[0].Key
			d["what"] = corr[0].What
			d["family"] = corr[0].Family
			d["case_seed"] = corr[0].Seed
			d["case_idx"] = corr[0].Idx
			d["detail"] = corr[0].Detail
			d["all_broken_correspondences"] = distinctKeys(corr)
			name = corr[0].Key
		}
		if proof != nil && len(proof.Broken) > 0 {
			if len(corr) == 0 {
				d["kind"] = "proof"
				name = proof.Broken[0]
			}
			d["broken_obligations"] = proof.Broken
			d["build_log"] = proof.BuildLog
		}
		d["note"] = "the property is no longer shown to hold; the search over the implementation found no input on which the property's own predicate fails"
		p := writeReplay(fmt.Sprintf("%s-%s-nofail.json", x.Prop, sanitize(name)), d)
		fmt.Printf("VIOLATION property=%s replay=%s no-failing-input-found\n", x.Prop, p)
		exit = 1
	}

	// evidence
	cov := map[string]any{
		"evaluations":                   x.evals,
		"distinct_nontrivial":           len(x.nontriv),
		"rule":                          x.rule,
		"samples":                       x.samples,
		"distribution":                  x.dist,
		"traces_validated_against_impl": x.corrOK + x.corrBad,
		"disagreements_checked":         x.corrBad,
		"notes":                         x.notes,
	}
	if len(x.samples) == 0 {
		cov["samples"] = []any{"(no samples recorded)"}
	}
	if proof != nil {
		cov["obligations"] = proof.Obligations
		cov["discharged"] = proof.Discharged
		cov["checker_cmd"] = proof.CheckerCmd
		cov["trusted_base"] = proof.TrustedBase
		cov["theorems"] = proof.Theorems
		cov["axioms"] = proof.Axioms
		cov["generated_facts"] = proof.Facts
		if len(proof.Broken) > 0 {
			cov["broken_obligations"] = proof.Broken
		}
	}
	kf := []string{}
	for _, k := range keys {
		kf = append(kf, k)
	}
	cov["known_findings_hit"] = kf
	cov["failure_counts"] = x.failCount
	ev := map[string]any{
		"property_id": x.Prop,
		"tier":        x.Tier,
		"seed":        int64(x.Seed & 0x7fffffffffffffff),
		"level":       level,
		"coverage":    cov,
		"assumptions": x.assume,
		"wall_s":      wall,
		"violations":  nviol,
	}
	b, _ := json.MarshalIndent(ev, "", " ")
	os.MkdirAll(filepath.Join(verifDir, "evidence"), 0755)
	tmp := filepath.Join(verifDir, "evidence", x.Prop+".json.tmp")
	os.WriteFile(tmp, b, 0644)
	os.Rename(tmp, filepath.Join(verifDir, "evidence", x.Prop+".json"))
	return exit
}

func distinctKeys(fs []Failure) []string {
	m := map[string]bool{}
	for _, f := range fs {
		m[f.Key] = true
	}
	var ks []string
	for k := range m {
		ks = append(ks, k)
	}
	sort.Strings(ks)
	return ks
}

func sanitize(s string) string {
	var b strings.Builder
	for _, r := range s {
		if (r >= 'a' && r <= 'z') || (r >= 'A' && r <= 'Z') || (r >= '0' && r <= '9') || r == '-' || r == '_' {
			b.WriteRune(r)
		} else {
			b.WriteByte('_')
		}
	}
	if b.Len() > 60 {
		return b.String()[:60]
	}
	return b.String()
}
