//go:build c13

package main

// C13, wave e — faults at connection teardown.
//
// ClientConn.Disconnect has three effects: the user leaves the client table, everybody remaining is sent the user-left
// notice, the connection is closed.  The last one can fail (close(2) reporting EIO / ECONNRESET, a wrapping connection
// that cannot flush, a connection that is already closed); the first two must not depend on it
// (`Presence.teardown_independent_of_close`).
//
// Family `teardown-faults`: a presence history (same events, same judges, looped and directly registered clients as
// `presence-history`) in which the server's side of every connection is wrapped in a faultConn whose Close
//   mode 0  succeeds,
//   mode 1  fails the first time it is called (the descriptor is released all the same),
//   mode 2  fails every time,
//   mode 3  fails when the peer had already closed / the connection is already closed,
// and users leave in every way the server knows: by themselves (client closes; Disconnect call), on a request that
// aborts (the deferred Disconnect of the connection handler), kicked by an administrator (HandleDisconnectUser: delayed
// Disconnect in a goroutine of its own, 1 s), account deleted while logged in (HandleDeleteUser: 2 s).
// Judges: the ones of the presence histories — everybody remaining is sent the user-left notice exactly once, the user
// is out of the table, every roster stays right (soundCheck) and, when settled, equals a fresh list.
// Every wait is for an event (table entry gone, connection handler returned, Disconnect's Once finished); nothing is
// concluded from elapsed time.

import (
	"context"
	"encoding/binary"
	"errors"
	"fmt"
	"io"
	"strings"
	"sync"
	"time"

	"github.com/jhalter/mobius/hotline"
)

const c13CloseModes = 4

var errCloseFault = errors.New("close: input/output error")

type faultConn struct {
	inner    io.ReadWriteCloser
	mode     int
	peerGone func() bool
	mu       sync.Mutex
	closes   int
	results  []bool // per Close call: true = returned an error
}

func newFaultConn(inner io.ReadWriteCloser, mode int, peerGone func() bool) *faultConn {
	return &faultConn{inner: inner, mode: mode, peerGone: peerGone}
}

func (f *faultConn) Read(p []byte) (int, error)  { return f.inner.Read(p) }
func (f *faultConn) Write(p []byte) (int, error) { return f.inner.Write(p) }

func (f *faultConn) Close() error {
	gone := f.peerGone != nil && f.peerGone()
	f.mu.Lock()
	f.closes++
	n := f.closes
	fail := false
	switch f.mode {
	case 1:
		fail = n == 1
	case 2:
		fail = true
	case 3:
		fail = gone || n > 1
	}
	f.results = append(f.results, fail)
	f.mu.Unlock()
	_ = f.inner.Close() // the descriptor is released whatever close reports
	if fail {
		return errCloseFault
	}
	return nil
}

// firstClose: was Close called at all, and did the first call report an error.
func (f *faultConn) firstClose() (called, failed bool) {
	f.mu.Lock()
	defer f.mu.Unlock()
	if len(f.results) == 0 {
		return false, false
	}
	return true, f.results[0]
}

// connectFaulty is ts.Connect with the server's end wrapped: the client's end (Feed / EOF / what was written) stays
// the segConn.
func connectFaulty(ts *TS, addr string, mode int) (*WireClient, *faultConn) {
	inner := newSegConn(nil)
	c := &WireClient{ts: ts, Conn: inner, Done: make(chan error, 1), Addr: addr}
	fc := newFaultConn(inner, mode, func() bool {
		inner.mu.Lock()
		defer inner.mu.Unlock()
		return inner.eof || inner.closed
	})
	go func() {
		c.Done <- ts.Srv.VerifHandleNewConnection(context.Background(), fc, addr)
	}()
	return c, fc
}

const c13AdminLogin = "adm"

// connectAdmin registers the administrator (clean connection, never a victim), completes its login and lets it fetch.
func (h *c13run) connectAdmin(r *RNG) *c13cl {
	cc, nc := h.ts.DirectClient(c13AdminLogin, nil, "10.9.0.1:4000")
	cl := &c13cl{cc: cc, nc: nc, id: int(binary.BigEndian.Uint16(cc.ID[:])), acct: -1, live: true}
	h.clients = append(h.clients, cl)
	h.record(fmt.Sprintf("C %s %s %s %s", hx([]byte(cc.Account.Login)), hx([]byte(cc.Account.Name)), hx(cc.Account.Access[:]), hx(cc.Icon)), nil)
	h.agree(r, cl)
	if !h.c.failed && !cl.fetched {
		h.fetch(cl)
	}
	return cl
}

// removed waits until the delayed Disconnect the server scheduled for cl has taken it out of the table and has run to
// its end, and returns what it queued.
func (h *c13run) removed(cl *c13cl, how string) ([]hotline.Transaction, bool) {
	if !waitFor(longWait, func() bool { return h.ts.Srv.ClientMgr.Get(cl.cc.ID) != cl.cc }) {
		h.c.Violation("delayed-disconnect-not-performed", fmt.Sprintf("user %d was %s, but two minutes later it is still in the client table", cl.id, how))
		return nil, false
	}
	if cl.wc != nil {
		// the close ends the connection handler's read; its deferred Disconnect returns once the first run is complete
		// (a server that did not close the connection after a while: the peer goes away by itself)
		waitFor(15*time.Second, func() bool { called, _ := cl.fc.firstClose(); return called })
		cl.wc.Conn.EOF()
		if _, done := cl.wc.WaitDone(longWait); !done {
			h.c.Violation("disconnect-not-performed", fmt.Sprintf("user %d was %s: its connection handler did not return", cl.id, how))
			return nil, false
		}
	} else {
		// what the connection handler's deferred call does when the read on the closed connection fails: a second
		// Disconnect, which (sync.Once) waits for the first to finish
		cl.cc.Disconnect()
	}
	return syncOutbox(h.ts), true
}

// departed judges one departure: user-left to everybody remaining exactly once, entry gone, rosters right.
func (h *c13run) departed(cl *c13cl, outs []hotline.Transaction, how string) {
	cl.live = false
	h.record(fmt.Sprintf("D %d", cl.id), outs)
	got := map[int]int{}
	for i := range outs {
		if tranType(&outs[i]) == 302 && outs[i].IsReply == 0 {
			if d, _ := fieldOf(&outs[i], 103); u16(d) == cl.id {
				if cc := h.ts.Srv.ClientMgr.Get(outs[i].ClientID); cc != nil {
					got[int(binary.BigEndian.Uint16(cc.ID[:]))]++
				}
			}
		}
	}
	h.c.Note("departure", fmt.Sprintf("user %d %s; %s", cl.id, how, closeStr(cl)))
	for _, o := range h.live() {
		if got[o.id] != 1 {
			h.c.Note("history", clip(fmt.Sprint(h.evs)))
			h.c.Violation("user-left-audience", fmt.Sprintf("user %d %s (%s): user %d received %d user-left notices, expected 1", cl.id, how, closeStr(cl), o.id, got[o.id]))
			return
		}
	}
	if h.ts.Srv.ClientMgr.Get(cl.cc.ID) == cl.cc {
		h.c.Violation("disconnect-keeps-entry", fmt.Sprintf("user %d %s but is still in the client table", cl.id, how))
		return
	}
	h.soundCheck("after user " + fmt.Sprint(cl.id) + " " + how)
	if !h.c.failed {
		h.convergenceCheck("after user " + fmt.Sprint(cl.id) + " " + how)
	}
}

func closeStr(cl *c13cl) string {
	if cl.fc == nil {
		return "clean connection"
	}
	called, failed := cl.fc.firstClose()
	switch {
	case !called:
		return fmt.Sprintf("close mode %d, Close not called", cl.fc.mode)
	case failed:
		return fmt.Sprintf("close mode %d, Close returned an error", cl.fc.mode)
	}
	return fmt.Sprintf("close mode %d, Close succeeded", cl.fc.mode)
}

func runTeardownFaults(c *Case) {
	r := c.R
	accts := append(c13Accounts(), AcctSpec{Login: c13AdminLogin, Name: "Admin",
		Access: accessOf(hotline.AccessDisconUser, hotline.AccessDeleteUser, hotline.AccessCannotBeDiscon, hotline.AccessAnyName, hotline.AccessSendPrivMsg)})
	ts, err := newTS(TSOpt{Direct: true, Accounts: accts})
	if err != nil {
		panic(err)
	}
	defer ts.Close()
	h := &c13run{c: c, ts: ts, req: 1000, ops: map[string]int{}, loop: true, faults: true}
	defer h.endLoops()
	n := 3 + r.Intn(3)
	for i := 0; i < n && !c.failed; i++ {
		h.connect(r)
	}
	steps := 10 + r.Intn(14)
	for i := 0; i < steps && !c.failed; i++ {
		h.step(r)
		h.idsCheck("after an event")
		h.soundCheck(fmt.Sprintf("after event %d", len(h.evs)))
		if !c.failed {
			h.convergenceCheck(fmt.Sprintf("after event %d", len(h.evs)))
		}
	}
	for _, cl := range h.live() {
		if !cl.agreed && !c.failed {
			h.agree(r, cl)
		}
	}
	// the administrator's part: a kick, then an account deleted while its user is logged in
	var admin *c13cl
	if !c.failed {
		admin = h.connectAdmin(r)
	}
	victims := func() []*c13cl {
		var v []*c13cl
		for _, cl := range h.live() {
			if cl != admin && !cl.cc.Account.Access.IsSet(hotline.AccessCannotBeDiscon) {
				v = append(v, cl)
			}
		}
		return v
	}
	if v := victims(); !c.failed && len(v) > 0 {
		victim := v[r.Intn(len(v))]
		h.req++
		fields := []hotline.Field{fld(hotline.FieldUserID, be16(victim.id))}
		if _, ok := h.call(admin, mkTran(hotline.TranDisconnectUser, h.req, fields...)); ok {
			if outs, ok := h.removed(victim, "kicked by an administrator"); ok {
				h.departed(victim, outs, "was kicked by an administrator (delayed Disconnect)")
				h.ops["kicked"]++
			}
		}
	}
	if !c.failed {
		// an account with exactly one user logged in (several would leave in no particular order)
		per := map[string][]*c13cl{}
		for _, cl := range h.live() {
			if cl != admin {
				per[cl.cc.Account.Login] = append(per[cl.cc.Account.Login], cl)
			}
		}
		var single []*c13cl
		for _, cl := range h.live() {
			if cl != admin && len(per[cl.cc.Account.Login]) == 1 {
				single = append(single, cl)
			}
		}
		if len(single) > 0 {
			victim := single[r.Intn(len(single))]
			h.req++
			if _, ok := h.call(admin, mkTran(hotline.TranDeleteUser, h.req, fld(hotline.FieldUserLogin, hotline.EncodeString([]byte(victim.cc.Account.Login))))); ok {
				if outs, ok := h.removed(victim, "logged in with an account that was deleted"); ok {
					h.departed(victim, outs, "was logged in with an account that was deleted (delayed Disconnect)")
					h.ops["account-deleted"]++
				}
			}
		}
	}
	// everybody else hangs up, one by one
	for _, cl := range h.live() {
		if c.failed || cl == admin {
			continue
		}
		outs := h.hangUp(cl)
		h.departed(cl, outs, "closed its connection")
		h.ops["hung-up"]++
	}
	if c.failed {
		return
	}
	// the model runs the same history with the close outcome of every departure as an input (token DT)
	byID := map[int]*c13cl{}
	for _, cl := range h.clients {
		byID[cl.id] = cl
	}
	failedCloses := 0
	evs := make([]string, len(h.evs))
	for i, e := range h.evs {
		evs[i] = e
		var id int
		if n, _ := fmt.Sscanf(e, "D %d", &id); n == 1 && strings.HasPrefix(e, "D ") {
			cr := "ok"
			if cl := byID[id]; cl != nil && cl.fc != nil {
				if called, failed := cl.fc.firstClose(); called && failed {
					cr = "err"
					failedCloses++
				}
			}
			evs[i] = fmt.Sprintf("DT %d %s", id, cr)
		}
	}
	for _, cl := range h.clients {
		if cl.fc != nil && !cl.live {
			if called, _ := cl.fc.firstClose(); !called {
				c.Note("client", cl.id)
				c.Violation("connection-not-closed", fmt.Sprintf("user %d's session is over but the server never closed its connection", cl.id))
				return
			}
		}
	}
	line := "c13runt " + strings.Join(evs, " ")
	c.Note("history", clip(strings.Join(evs, " ")))
	ans := c.O.Ask(line)
	implLine := fmt.Sprintf("%d ", len(evs)) + strings.Join(h.impl, " | ") + " || " + h.implState()
	if ans != implLine {
		a := strings.Split(ans, " | ")
		b := strings.Split(implLine, " | ")
		for i := 0; i < len(a) && i < len(b); i++ {
			if a[i] != b[i] {
				c.Note("first_diff_event", i)
				if i < len(evs) {
					c.Note("event", clip(evs[i]))
				}
				c.Note("model_event_out", clip(a[i]))
				c.Note("impl_event_out", clip(b[i]))
				break
			}
		}
	}
	c.Corr("teardown-history", implLine, ans, false)
	for k, v := range h.ops {
		for i := 0; i < v; i++ {
			c.Dist("op/" + k)
		}
	}
	c.Dist(fmt.Sprintf("failed-closes/%d", min(failedCloses, 6)))
	if failedCloses > 0 && h.checks > 0 {
		c.Nontrivial(line)
	}
	c.Sample(map[string]any{"family": "teardown-faults", "clients": len(h.clients), "events": len(evs), "failed_closes": failedCloses, "roster_checks": h.checks, "ops": h.ops})
}
