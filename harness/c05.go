//go:build c05

package main

// C05 — every privileged effect requires the governing privilege.
//
// Direct mode.  The decision table: every registered handler × target kinds / field-presence variants (the
// "rows" below) × requester bitmaps {all-zero, each single privilege 0..40, all-but-one for each of 0..40,
// all ones}.  Every invocation runs on its own real server (temp file tree, account directory, threaded
// news, message board, ban file, three clients, one private chat).  Observed per invocation: the handler's
// result (replies: error flag and text; transactions for other clients), the outbox, and a full
// before/after snapshot (config directory incl. file tree, Users, ThreadedNews.yaml, MessageBoard.txt,
// Banlist.yaml; in memory: accounts, news, board, bans, chat membership and subject, pending transfers,
// client names / flags / icons, closed connections).
//
// Judged directly (the governing bits of each row are written in this file, independently of Lean and of
// the Go handlers): without a governing privilege → exactly one error reply to the requester, nothing to
// others, snapshot unchanged; with all of them → the reply is not a lack-of-privilege message.
// And compared with the Lean model (Authz.run) and the Lean governing table (Spec.governing).

import (
	"bytes"
	"fmt"
	"os"
	"path/filepath"
	"sort"
	"strings"
	"sync"
	"time"

	"github.com/jhalter/mobius/hotline"
	"gopkg.in/yaml.v3"
)

// ---------------------------------------------------------------- world

type world struct {
	ts            *TS
	rq, oc, by    *hotline.ClientConn
	rqC, ocC, byC *nopConn
	chat          hotline.ChatID
}

const ocIP = "10.7.7.7"

func fpath(items ...string) []byte {
	b := be16(len(items))
	for _, it := range items {
		b = append(b, 0, 0, byte(len(it)))
		b = append(b, it...)
	}
	return b
}

var badPathBytes = []byte{0, 1, 0, 0}

func mustWrite(p string, data string) {
	if err := os.WriteFile(p, []byte(data), 0644); err != nil {
		panic(err)
	}
}

var (
	newsOnce    sync.Once
	newsText    string
	hashOnce    sync.Once
	emptyPwHash string
)

// fixtureNews renders (once) the ThreadedNews.yaml of the fixture with the real news manager:
// TopCat (category, 1 article), Bundle (bundle) containing Cat (category, 1 article) and the bundle Sub with
// categories and bundles at depth 3 and 4.
func fixtureNews() string {
	newsOnce.Do(func() {
		ts, err := newTS(TSOpt{Direct: true})
		if err != nil {
			panic(err)
		}
		defer ts.Close()
		n := ts.News
		n.CreateGrouping([]string{}, "TopCat", hotline.NewsCategory)
		n.CreateGrouping([]string{}, "Bundle", hotline.NewsBundle)
		n.CreateGrouping([]string{"Bundle"}, "Cat", hotline.NewsCategory)
		// depth 3 and 4: Bundle/Sub/{DeepCat, DeepBundle}, Bundle/Sub/DeepBundle/{Cat4, Bundle4}
		n.CreateGrouping([]string{"Bundle"}, "Sub", hotline.NewsBundle)
		n.CreateGrouping([]string{"Bundle", "Sub"}, "DeepCat", hotline.NewsCategory)
		n.CreateGrouping([]string{"Bundle", "Sub"}, "DeepBundle", hotline.NewsBundle)
		n.CreateGrouping([]string{"Bundle", "Sub", "DeepBundle"}, "Cat4", hotline.NewsCategory)
		n.CreateGrouping([]string{"Bundle", "Sub", "DeepBundle"}, "Bundle4", hotline.NewsBundle)
		art := hotline.NewsArtData{Title: "t", Poster: "p", DataFlav: hotline.NewsFlavor, Data: "article body"}
		n.PostArticle([]string{"TopCat"}, 0, art)
		n.PostArticle([]string{"Bundle", "Cat"}, 0, art)
		n.PostArticle([]string{"Bundle", "Sub", "DeepCat"}, 0, art)
		n.PostArticle([]string{"Bundle", "Sub", "DeepBundle", "Cat4"}, 0, art)
		b, err := os.ReadFile(filepath.Join(ts.Cfg, "ThreadedNews.yaml"))
		if err != nil {
			panic(err)
		}
		newsText = string(b)
	})
	return newsText
}

// newWorld builds the fixture.  otherAccess: bitmap of the account "other" (the other logged-in user).
func newWorld(requester, otherAccess hotline.AccessBitmap) (*world, error) {
	hashOnce.Do(func() { emptyPwHash = hotline.HashAndSalt([]byte("")) })
	ts, err := newTS(TSOpt{Direct: true, Board: "old board text\r", News: fixtureNews(), Accounts: []AcctSpec{
		{Login: "req", Name: "Req Account", Password: "", Access: hotline.AccessBitmap(maskDefined(requester))},
	}})
	if err != nil {
		return nil, err
	}
	// further accounts through the real account manager (password hash computed once)
	for _, a := range []hotline.Account{
		{Login: "other", Name: "Other Account", Password: emptyPwHash, Access: hotline.AccessBitmap(maskDefined(otherAccess))},
		{Login: "victim", Name: "Victim Account", Password: emptyPwHash, Access: bmOf(2)},
	} {
		if err := ts.Acct.Create(a); err != nil {
			ts.Close()
			return nil, err
		}
	}
	w := &world{ts: ts}
	r := ts.Root
	mustWrite(filepath.Join(r, "afile.txt"), "file content")
	for _, d := range []string{"adir", "Uploads", "Uploads/inner", "Drop Box", "plain", "movedest", "My UPLOADS", "Old DROP Box"} {
		if err := os.Mkdir(filepath.Join(r, d), 0755); err != nil {
			ts.Close()
			return nil, err
		}
	}
	mustWrite(filepath.Join(r, "adir", "inner.txt"), "inner")
	mustWrite(filepath.Join(r, "Drop Box", "secret.txt"), "secret")
	mustWrite(filepath.Join(r, "Uploads", "taken.bin"), "taken")
	mustWrite(filepath.Join(r, "plain", "p.txt"), "p")
	mustWrite(filepath.Join(r, "My UPLOADS", "u.txt"), "u")
	mustWrite(filepath.Join(r, "Old DROP Box", "hidden.txt"), "hidden")
	// partial uploads left behind (resume targets)
	mustWrite(filepath.Join(r, "plain", "partial.bin.incomplete"), "part")
	mustWrite(filepath.Join(r, "Uploads", "partial.bin.incomplete"), "part")
	mustWrite(filepath.Join(r, "partial.bin.incomplete"), "part")
	// aliases (what HandleMakeAlias creates: symlinks with absolute targets inside the root)
	for _, a := range [][2]string{{"afile.txt", "alias_file"}, {"adir", "alias_dir"}, {"adir/inner.txt", "adir/alias_inner"},
		{"gone.txt", "alias_dangling"}, {"adir/gone", "adir/alias_dangling2"}} { // the last two: targets that no longer exist
		if err := os.Symlink(filepath.Join(r, a[0]), filepath.Join(r, a[1])); err != nil {
			ts.Close()
			return nil, err
		}
	}
	w.rq, w.rqC = directClientWith(ts, "req", "10.0.0.1:1000", requester)
	w.rq.UserName = []byte("req-name")
	w.oc, w.ocC = directClientWith(ts, "other", ocIP+":5555", otherAccess)
	w.by, w.byC = directClientWith(ts, "victim", "10.0.0.9:9", bmOf(9))
	w.by.UserName = []byte("bystander")
	w.chat = ts.Srv.ChatMgr.New(w.oc)
	ts.Srv.ChatMgr.Join(w.chat, w.rq)
	ts.Srv.ChatMgr.SetSubject(w.chat, "subject")
	ts.TakeOutbox()
	return w, nil
}

var transferTypes = []hotline.FileTransferType{hotline.FileDownload, hotline.FileUpload, hotline.FolderDownload, hotline.FolderUpload, hotline.BannerDownload}

// snap: the full observable state (disk + memory).
func (w *world) snap() []string {
	ts := w.ts
	out := snapshot(ts.Cfg)
	for i := range out {
		out[i] = "disk " + out[i]
	}
	accts := ts.Acct.List()
	sort.Slice(accts, func(i, j int) bool { return accts[i].Login < accts[j].Login })
	for _, a := range accts {
		out = append(out, fmt.Sprintf("acct %s|%s|%s|%s|%s", a.Login, a.Name, bmHex(a.Access), a.Password, a.FileRoot))
	}
	for _, c := range ts.Srv.ClientMgr.List() {
		nt := 0
		for _, ty := range transferTypes {
			nt += len(c.ClientFileTransferMgr.Get(ty))
		}
		acc := "-"
		if c.Account != nil {
			acc = c.Account.Login + "/" + bmHex(c.Account.Access)
		}
		out = append(out, fmt.Sprintf("client %d|%s|%x|%x|%x|%s|transfers=%d", u16(c.ID), hx(c.UserName), c.Flags[:], c.Icon, c.AutoReply, acc, nt))
	}
	var mem []string
	for _, c := range ts.Srv.ChatMgr.Members(w.chat) {
		mem = append(mem, fmt.Sprint(u16(c.ID)))
	}
	out = append(out, "chat "+strings.Join(mem, ",")+" subject="+ts.Srv.ChatMgr.GetSubject(w.chat))
	nb, _ := yaml.Marshal(&ts.News.ThreadedNews)
	out = append(out, fmt.Sprintf("newsmem %x", fnv64(nb)))
	bd, _ := ts.Srv.ReadMessageBoard()
	out = append(out, fmt.Sprintf("boardmem %x", fnv64(bd)))
	bn, until := ts.Bans.IsBanned(ocIP)
	out = append(out, fmt.Sprintf("ban %v %v", bn, until == nil))
	out = append(out, fmt.Sprintf("closed rq=%v oc=%v by=%v", w.rqC.IsClosed(), w.ocC.IsClosed(), w.byC.IsClosed()))
	return out
}

func diffSnap(a, b []string) []string {
	am, bm := map[string]bool{}, map[string]bool{}
	for _, s := range a {
		am[s] = true
	}
	for _, s := range b {
		bm[s] = true
	}
	var d []string
	for _, s := range a {
		if !bm[s] {
			d = append(d, "- "+s)
		}
	}
	for _, s := range b {
		if !am[s] {
			d = append(d, "+ "+s)
		}
	}
	if len(d) > 12 {
		d = append(d[:12], fmt.Sprintf("… %d more", len(d)-12))
	}
	return d
}

func (w *world) exists(rel string) bool {
	_, err := os.Lstat(filepath.Join(w.ts.Root, rel))
	return err == nil
}

// ---------------------------------------------------------------- rows

type effectSpec struct {
	bit      int
	happened func(w *world) bool // nil for atomic rows
}

type row struct {
	name      string
	tokens    []string // request class for the oracle
	governing []int    // the property's governing privileges for this row, in the order the effects are requested
	build     func(w *world) hotline.Transaction
	// multi: separately governed effects in one request (per-effect judgement); nil = atomic: any missing
	// governing privilege must leave the whole snapshot unchanged
	multi []effectSpec
	// anyName: the display-name privilege (no error reply; the name is simply not adopted)
	anyName     bool
	wantName    string // anyName rows: the name asked for
	fallback    string // anyName rows: the name that must stay / be used instead
	delayed     bool   // the handler may start a delayed goroutine (checked again 3.3 s later)
	rawPath     []byte // path-field variants: the raw field bytes (place cross-checked with the Lean model)
	few         bool   // a short list of bitmaps around the row's privileges is enough
	inert       bool   // the request names nothing that can be acted on: every requester gets an error reply, nothing changes
	otherAccess []int  // bitmap of the other user's account
	expect      string // with all privileges: "changed" | "data" | "reply" | "err" | "" (sanity of the row itself)
	uploadName  string // for the two upload-anywhere messages
}

func tr(ty hotline.TranType, fs ...hotline.Field) hotline.Transaction { return mkTran(ty, 77, fs...) }

func newsPath(items ...string) []byte { return fpath(items...) }

func fileTargetFields(kind string) []hotline.Field {
	switch kind {
	case "file":
		return []hotline.Field{fld(hotline.FieldFileName, []byte("afile.txt"))}
	case "folder":
		return []hotline.Field{fld(hotline.FieldFileName, []byte("adir"))}
	case "nestedfile":
		return []hotline.Field{fld(hotline.FieldFileName, []byte("inner.txt")), fld(hotline.FieldFilePath, fpath("adir"))}
	case "aliasFile": // an alias whose target is a file: governed like a file (Stat follows the link)
		return []hotline.Field{fld(hotline.FieldFileName, []byte("alias_file"))}
	case "aliasFolder":
		return []hotline.Field{fld(hotline.FieldFileName, []byte("alias_dir"))}
	case "nestedAliasFile":
		return []hotline.Field{fld(hotline.FieldFileName, []byte("alias_inner")), fld(hotline.FieldFilePath, fpath("adir"))}
	case "danglingAlias": // an alias whose target was removed afterwards
		return []hotline.Field{fld(hotline.FieldFileName, []byte("alias_dangling"))}
	case "nestedDanglingAlias":
		return []hotline.Field{fld(hotline.FieldFileName, []byte("alias_dangling2")), fld(hotline.FieldFilePath, fpath("adir"))}
	case "missing":
		return []hotline.Field{fld(hotline.FieldFileName, []byte("nope.txt"))}
	case "root":
		return []hotline.Field{}
	case "rootexplicit":
		return []hotline.Field{fld(hotline.FieldFileName, []byte{}), fld(hotline.FieldFilePath, []byte{0, 0})}
	case "badPath":
		return []hotline.Field{fld(hotline.FieldFileName, []byte("afile.txt")), fld(hotline.FieldFilePath, badPathBytes)}
	}
	panic("kind " + kind)
}

func modelKind(kind string) string {
	switch kind {
	case "nestedfile", "aliasFile", "nestedAliasFile":
		return "file"
	case "aliasFolder":
		return "folder"
	case "danglingAlias", "nestedDanglingAlias":
		return "missing"
	case "rootexplicit":
		return "root"
	}
	return kind
}

func byKindBits(kind string, fileBit, folderBit int) []int {
	switch modelKind(kind) {
	case "file":
		return []int{fileBit}
	case "folder":
		return []int{folderBit}
	}
	return nil
}

func itoa(i int) string { return fmt.Sprint(i) }

// groundPlace: the kind of the folder a path field addresses, taken from where the real ReadPath says the request
// acts (its last component: contains "drop box" / "upload" in any case; the root is plain).
func groundPlace(raw []byte) string {
	full, err := hotline.ReadPath("/R", raw, nil)
	if err != nil {
		return "badPath"
	}
	rel := strings.Trim(strings.TrimPrefix(filepath.Clean(full), "/R"), "/")
	if rel == "" {
		return "plain"
	}
	name := strings.ToLower(filepath.Base(rel))
	switch {
	case strings.Contains(name, "drop box"):
		return "dropBox"
	case strings.Contains(name, "upload"):
		return "uploads"
	}
	return "plain"
}

func buildRows() []row {
	var rows []row
	add := func(r row) { rows = append(rows, r) }
	uid := func(c *hotline.ClientConn) []byte { return c.ID[:] }

	// ---- files
	for _, k := range []string{"file", "folder", "nestedfile", "aliasFile", "aliasFolder", "nestedAliasFile", "danglingAlias", "nestedDanglingAlias", "missing", "root", "rootexplicit", "badPath"} {
		k := k
		inert := map[string]bool{"danglingAlias": true, "nestedDanglingAlias": true, "missing": true, "root": true, "rootexplicit": true}[k]
		exp := map[string]string{"danglingAlias": "err", "nestedDanglingAlias": "err", "file": "changed", "folder": "changed", "nestedfile": "changed", "aliasFile": "changed", "aliasFolder": "changed", "nestedAliasFile": "changed", "missing": "err", "root": "err", "rootexplicit": "err"}[k]
		add(row{name: "deleteFile/" + k, tokens: []string{"deleteFile", modelKind(k)}, governing: byKindBits(k, 0, 6), expect: exp, inert: inert,
			build: func(w *world) hotline.Transaction { return tr(hotline.TranDeleteFile, fileTargetFields(k)...) }})
		add(row{name: "moveFile/" + k, tokens: []string{"moveFile", modelKind(k)}, governing: byKindBits(k, 4, 8), expect: exp, inert: inert,
			build: func(w *world) hotline.Transaction {
				return tr(hotline.TranMoveFile, append(fileTargetFields(k), fld(hotline.FieldFileNewPath, fpath("movedest")))...)
			}})
		if k != "badPath" {
			e2 := map[string]string{"danglingAlias": "data", "nestedDanglingAlias": "data", "file": "data", "folder": "data", "nestedfile": "data", "aliasFile": "data", "aliasFolder": "data", "nestedAliasFile": "data", "missing": "data", "root": "err", "rootexplicit": "err"}[k]
			add(row{name: "getFileInfo/" + k, tokens: []string{"getFileInfo", modelKind(k)}, expect: e2,
				build: func(w *world) hotline.Transaction { return tr(hotline.TranGetFileInfo, fileTargetFields(k)...) }})
		}
	}
	for _, k := range []string{"file", "folder", "nestedfile", "aliasFile", "aliasFolder", "nestedAliasFile"} {
		k := k
		name := map[string]string{"file": "afile.txt", "folder": "adir", "nestedfile": "adir/inner.txt",
			"aliasFile": "alias_file", "aliasFolder": "alias_dir", "nestedAliasFile": "adir/alias_inner"}[k]
		dir := filepath.Dir(name)
		base := filepath.Base(name)
		cbit, rbit := 28, 3
		if modelKind(k) == "folder" {
			cbit, rbit = 29, 7
		}
		commented := func(w *world) bool {
			return w.exists(filepath.Join(dir, ".info_"+base)) || w.exists(filepath.Join(dir, ".info_renamed"))
		}
		renamed := func(w *world) bool { return !w.exists(name) || w.exists(filepath.Join(dir, "renamed")) }
		add(row{name: "setFileInfo/" + k + "/comment", tokens: []string{"setFileInfo", modelKind(k), "1", "0"}, governing: []int{cbit}, expect: "changed",
			build: func(w *world) hotline.Transaction {
				return tr(hotline.TranSetFileInfo, append(fileTargetFields(k), fld(hotline.FieldFileComment, []byte("a comment")))...)
			}})
		add(row{name: "setFileInfo/" + k + "/rename", tokens: []string{"setFileInfo", modelKind(k), "0", "1"}, governing: []int{rbit}, expect: "changed",
			build: func(w *world) hotline.Transaction {
				return tr(hotline.TranSetFileInfo, append(fileTargetFields(k), fld(hotline.FieldFileNewName, []byte("renamed")))...)
			}})
		add(row{name: "setFileInfo/" + k + "/both", tokens: []string{"setFileInfo", modelKind(k), "1", "1"}, governing: []int{cbit, rbit}, expect: "changed",
			multi: []effectSpec{{cbit, commented}, {rbit, renamed}},
			build: func(w *world) hotline.Transaction {
				return tr(hotline.TranSetFileInfo, append(fileTargetFields(k), fld(hotline.FieldFileComment, []byte("a comment")), fld(hotline.FieldFileNewName, []byte("renamed")))...)
			}})
		add(row{name: "setFileInfo/" + k + "/neither", tokens: []string{"setFileInfo", modelKind(k), "0", "0"}, expect: "reply",
			build: func(w *world) hotline.Transaction { return tr(hotline.TranSetFileInfo, fileTargetFields(k)...) }})
	}
	for _, k := range []string{"missing", "root"} {
		k := k
		add(row{name: "setFileInfo/" + k + "/both", tokens: []string{"setFileInfo", k, "1", "1"},
			build: func(w *world) hotline.Transaction {
				return tr(hotline.TranSetFileInfo, append(fileTargetFields(k), fld(hotline.FieldFileComment, []byte("c")), fld(hotline.FieldFileNewName, []byte("renamed")))...)
			}})
	}
	add(row{name: "newFolder/new", tokens: []string{"newFolder", "0"}, governing: []int{5}, expect: "changed",
		build: func(w *world) hotline.Transaction {
			return tr(hotline.TranNewFolder, fld(hotline.FieldFileName, []byte("created")))
		}})
	add(row{name: "newFolder/nested", tokens: []string{"newFolder", "0"}, governing: []int{5}, expect: "changed",
		build: func(w *world) hotline.Transaction {
			return tr(hotline.TranNewFolder, fld(hotline.FieldFileName, []byte("created")), fld(hotline.FieldFilePath, fpath("adir")))
		}})
	add(row{name: "newFolder/exists", tokens: []string{"newFolder", "1"}, governing: []int{5}, expect: "err",
		build: func(w *world) hotline.Transaction {
			return tr(hotline.TranNewFolder, fld(hotline.FieldFileName, []byte("adir")))
		}})
	add(row{name: "makeFileAlias", tokens: []string{"makeFileAlias"}, governing: []int{31}, expect: "changed",
		build: func(w *world) hotline.Transaction {
			return tr(hotline.TranMakeFileAlias, fld(hotline.FieldFileName, []byte("afile.txt")), fld(hotline.FieldFileNewPath, fpath("adir")))
		}})
	for _, k := range []string{"file", "nestedfile", "missing", "root"} {
		k := k
		e := map[string]string{"file": "changed", "nestedfile": "changed", "missing": "changed", "root": "err"}[k]
		add(row{name: "downloadFile/" + k, tokens: []string{"downloadFile", modelKind(k)}, governing: []int{2}, expect: e,
			build: func(w *world) hotline.Transaction { return tr(hotline.TranDownloadFile, fileTargetFields(k)...) }})
	}
	for _, k := range []string{"folder", "missing"} {
		k := k
		e := map[string]string{"folder": "changed", "missing": ""}[k]
		add(row{name: "downloadFldr/" + k, tokens: []string{"downloadFldr", k}, governing: []int{39}, expect: e,
			build: func(w *world) hotline.Transaction { return tr(hotline.TranDownloadFldr, fileTargetFields(k)...) }})
	}
	type place struct {
		name, model string
		path        []byte
	}
	places := []place{
		{"uploads", "uploads", fpath("Uploads")}, {"dropBox", "dropBox", fpath("Drop Box")}, {"plain", "plain", fpath("plain")},
		{"root", "plain", nil}, {"nestedPlain", "plain", fpath("Uploads", "inner")}, {"badPath", "badPath", badPathBytes},
	}
	for _, p := range places {
		p := p
		g1, g38 := []int{1}, []int{38}
		if p.model == "plain" {
			g1, g38 = []int{1, 25}, []int{38, 25}
		}
		e := "changed"
		if p.model == "badPath" {
			e = ""
		}
		pf := func() []hotline.Field {
			if p.path == nil {
				return nil
			}
			return []hotline.Field{fld(hotline.FieldFilePath, p.path)}
		}
		add(row{name: "uploadFile/" + p.name, tokens: []string{"uploadFile", p.model, "0"}, governing: g1, expect: e, uploadName: "new.bin",
			build: func(w *world) hotline.Transaction {
				return tr(hotline.TranUploadFile, append(pf(), fld(hotline.FieldFileName, []byte("new.bin")), fld(hotline.FieldTransferSize, []byte{0, 0, 0, 9}))...)
			}})
		add(row{name: "uploadFldr/" + p.name, tokens: []string{"uploadFldr", p.model}, governing: g38, expect: e, uploadName: "newdir",
			build: func(w *world) hotline.Transaction {
				return tr(hotline.TranUploadFldr, append(pf(), fld(hotline.FieldFileName, []byte("newdir")), fld(hotline.FieldTransferSize, []byte{0, 0, 0, 9}), fld(hotline.FieldFolderItemCount, []byte{0, 1}))...)
			}})
		if p.model != "badPath" {
			g := []int(nil)
			if p.model == "dropBox" {
				g = []int{30}
			}
			add(row{name: "getFileNameList/" + p.name, tokens: []string{"getFileNameList", p.model}, governing: g, expect: map[bool]string{true: "reply", false: "data"}[p.name == "nestedPlain"],
				build: func(w *world) hotline.Transaction { return tr(hotline.TranGetFileNameList, pf()...) }})
		}
	}
	// path-field variants: the folder kind must be judged on the folder the request ACTS ON (all items joined and
	// cleaned, as ReadPath does), not on the last raw item: items with embedded separators, ".", "..", "" before /
	// after the special folder, mixed case, declared item count smaller than the items present.
	rawItems := func(count int, items ...string) []byte {
		b := fpath(items...)
		copy(b, be16(count))
		return b
	}
	for _, v := range []struct {
		name string
		raw  []byte
	}{
		{"uploads-dotdot-plain", fpath("Uploads/../plain")},
		{"plain-dotdot-dropbox", fpath("plain/../Drop Box")},
		{"dropbox-dot", fpath("Drop Box", ".")},
		{"dropbox-x-dotdot", fpath("Drop Box", "x", "..")},
		{"uploads-empty", fpath("Uploads", "")},
		{"uploads-dotdot", fpath("Uploads", "..")},
		{"plain-dotdot-uploads", fpath("plain", "..", "Uploads")},
		{"mixedcase-uploads", fpath("My UPLOADS")},
		{"mixedcase-dropbox", fpath("Old DROP Box")},
		{"slash-item-inner", fpath("Uploads/inner")},
		{"adir-dotdot-dropbox-dot", fpath("adir/../Drop Box/.")},
		{"dotdot-dropbox", fpath("..", "Drop Box")},
		{"dropbox-dotdot-item", fpath("Drop Box/..")},
		{"dropbox-dotdot-plain", fpath("Drop Box", "..", "plain")},
		{"chain", fpath("Uploads/../Drop Box/../plain")},
		{"dropbox-trailing-slash", fpath("Drop Box/")},
		{"dot-uploads-dot", fpath(".", "Uploads", ".")},
		{"dropbox-dotdot-uploads-item", fpath("Drop Box/../Uploads")},
		{"count0-dropbox", rawItems(0, "Drop Box")},
		{"count1-plain-dropbox", rawItems(1, "plain", "Drop Box")},
		{"count1-uploads-dotdot-plain", rawItems(1, "Uploads", "..", "plain")},
		{"count2-dropbox-dot-plain", rawItems(2, "Drop Box", ".", "plain")},
	} {
		v := v
		model := groundPlace(v.raw)
		g1, g38, g30 := []int{1}, []int{38}, []int(nil)
		if model == "plain" {
			g1, g38 = []int{1, 25}, []int{38, 25}
		}
		if model == "dropBox" {
			g30 = []int{30}
		}
		e, el := "changed", "reply"
		if model == "badPath" {
			e, el = "", ""
		}
		add(row{name: "uploadFile/path/" + v.name, tokens: []string{"uploadFile", model, "0"}, governing: g1, expect: e, uploadName: "new.bin", rawPath: v.raw, few: true,
			build: func(w *world) hotline.Transaction {
				return tr(hotline.TranUploadFile, fld(hotline.FieldFilePath, v.raw), fld(hotline.FieldFileName, []byte("new.bin")), fld(hotline.FieldTransferSize, []byte{0, 0, 0, 9}))
			}})
		add(row{name: "uploadFldr/path/" + v.name, tokens: []string{"uploadFldr", model}, governing: g38, expect: e, uploadName: "newdir", rawPath: v.raw, few: true,
			build: func(w *world) hotline.Transaction {
				return tr(hotline.TranUploadFldr, fld(hotline.FieldFilePath, v.raw), fld(hotline.FieldFileName, []byte("newdir")), fld(hotline.FieldTransferSize, []byte{0, 0, 0, 9}), fld(hotline.FieldFolderItemCount, []byte{0, 1}))
			}})
		if model != "badPath" {
			add(row{name: "getFileNameList/path/" + v.name, tokens: []string{"getFileNameList", model}, governing: g30, expect: el, rawPath: v.raw, few: true,
				build: func(w *world) hotline.Transaction {
					return tr(hotline.TranGetFileNameList, fld(hotline.FieldFilePath, v.raw))
				}})
		}
	}
	// resuming a partial upload (field 204 present, `<name>.incomplete` exists): same place rule as a fresh upload
	for _, p := range []place{{"plain", "plain", fpath("plain")}, {"root", "plain", nil}, {"uploads", "uploads", fpath("Uploads")}} {
		p := p
		g := []int{1}
		if p.model == "plain" {
			g = []int{1, 25}
		}
		add(row{name: "uploadFile/resume/" + p.name, tokens: []string{"uploadFile", p.model, "0"}, governing: g, expect: "changed", uploadName: "partial.bin",
			build: func(w *world) hotline.Transaction {
				fs := []hotline.Field{fld(hotline.FieldFileName, []byte("partial.bin")), fld(hotline.FieldFileTransferOptions, []byte{0, 2})}
				if p.path != nil {
					fs = append(fs, fld(hotline.FieldFilePath, p.path))
				}
				return tr(hotline.TranUploadFile, fs...)
			}})
	}
	add(row{name: "uploadFile/exists", tokens: []string{"uploadFile", "uploads", "1"}, governing: []int{1}, expect: "err", uploadName: "taken.bin",
		build: func(w *world) hotline.Transaction {
			return tr(hotline.TranUploadFile, fld(hotline.FieldFilePath, fpath("Uploads")), fld(hotline.FieldFileName, []byte("taken.bin")), fld(hotline.FieldTransferSize, []byte{0, 0, 0, 9}))
		}})
	add(row{name: "downloadBanner", tokens: []string{"downloadBanner"}, expect: "changed",
		build: func(w *world) hotline.Transaction { return tr(hotline.TranDownloadBanner) }})

	// ---- accounts
	zero8 := make([]byte, 8)
	add(row{name: "newUser/fresh", tokens: []string{"newUser", "0", hx(zero8), "0"}, governing: []int{14}, expect: "changed",
		build: func(w *world) hotline.Transaction { return newUserTran(77, "fresh", "Fresh", "pw", zero8) }})
	add(row{name: "newUser/withDownload", tokens: []string{"newUser", "0", "20", "0"}, governing: []int{14},
		build: func(w *world) hotline.Transaction { return newUserTran(77, "fresh", "Fresh", "pw", []byte{0x20}) }})
	add(row{name: "newUser/exists", tokens: []string{"newUser", "1", hx(zero8), "0"}, governing: []int{14}, expect: "err",
		build: func(w *world) hotline.Transaction { return newUserTran(77, "victim", "Fresh", "pw", zero8) }})
	add(row{name: "deleteUser/offline", tokens: []string{"deleteUser", "0"}, governing: []int{15}, expect: "changed", delayed: true,
		build: func(w *world) hotline.Transaction {
			return tr(hotline.TranDeleteUser, fld(hotline.FieldUserLogin, obf("victim2")))
		}})
	add(row{name: "deleteUser/loggedIn", tokens: []string{"deleteUser", "0"}, governing: []int{15}, expect: "changed", delayed: true,
		build: func(w *world) hotline.Transaction {
			return tr(hotline.TranDeleteUser, fld(hotline.FieldUserLogin, obf("other")))
		}})
	add(row{name: "deleteUser/missing", tokens: []string{"deleteUser", "1"}, governing: []int{15},
		build: func(w *world) hotline.Transaction {
			return tr(hotline.TranDeleteUser, fld(hotline.FieldUserLogin, obf("nobody")))
		}})
	add(row{name: "setUser/exists", tokens: []string{"setUser", "1"}, governing: []int{17}, expect: "changed",
		build: func(w *world) hotline.Transaction {
			return tr(hotline.TranSetUser, fld(hotline.FieldUserLogin, obf("other")), fld(hotline.FieldUserName, []byte("Renamed")),
				fld(hotline.FieldUserPassword, []byte{0}), fld(hotline.FieldUserAccess, []byte{0xff, 0xff, 0, 0, 0, 0, 0, 0}))
		}})
	add(row{name: "setUser/missing", tokens: []string{"setUser", "0"}, governing: []int{17}, expect: "err",
		build: func(w *world) hotline.Transaction {
			return tr(hotline.TranSetUser, fld(hotline.FieldUserLogin, obf("nobody")), fld(hotline.FieldUserName, []byte("X")),
				fld(hotline.FieldUserPassword, []byte{0}), fld(hotline.FieldUserAccess, zero8))
		}})
	add(row{name: "getUser/exists", tokens: []string{"getUser", "1"}, governing: []int{16}, expect: "data",
		build: func(w *world) hotline.Transaction {
			return tr(hotline.TranGetUser, fld(hotline.FieldUserLogin, []byte("other")))
		}})
	add(row{name: "getUser/missing", tokens: []string{"getUser", "0"}, governing: []int{16}, expect: "err",
		build: func(w *world) hotline.Transaction {
			return tr(hotline.TranGetUser, fld(hotline.FieldUserLogin, []byte("nobody")))
		}})
	add(row{name: "listUsers", tokens: []string{"listUsers"}, governing: []int{16}, expect: "data",
		build: func(w *world) hotline.Transaction { return tr(hotline.TranListUsers) }})
	acctGone := func(l string) func(w *world) bool { return func(w *world) bool { return w.ts.Acct.Get(l) == nil } }
	acctThere := func(l string) func(w *world) bool { return func(w *world) bool { return w.ts.Acct.Get(l) != nil } }
	otherRenamed := func(w *world) bool { a := w.ts.Acct.Get("other"); return a == nil || a.Name != "Other Account" }
	add(row{name: "updateUser/delete", tokens: []string{"updateUser", "d0"}, governing: []int{15}, expect: "changed", delayed: true,
		build: func(w *world) hotline.Transaction { return tr(hotline.TranUpdateUser, subDelete("victim2")) }})
	add(row{name: "updateUser/modify", tokens: []string{"updateUser", "m0"}, governing: []int{17}, expect: "changed",
		build: func(w *world) hotline.Transaction {
			return tr(hotline.TranUpdateUser, subCreateOrModify("other", "Edited", []byte{0}, []byte{0xff, 0, 0, 0, 0, 0, 0, 0}))
		}})
	add(row{name: "updateUser/rename", tokens: []string{"updateUser", "m0"}, governing: []int{17}, expect: "changed",
		build: func(w *world) hotline.Transaction {
			return tr(hotline.TranUpdateUser, subRename("victim2", "victim3", "Edited", zero8))
		}})
	add(row{name: "updateUser/create", tokens: []string{"updateUser", "c:" + hx(zero8) + ":0"}, governing: []int{14}, expect: "changed",
		build: func(w *world) hotline.Transaction {
			return tr(hotline.TranUpdateUser, subCreateOrModify("fresh", "Fresh", []byte("pw"), zero8))
		}})
	add(row{name: "updateUser/createWithDownload", tokens: []string{"updateUser", "c:20:0"}, governing: []int{14},
		build: func(w *world) hotline.Transaction {
			return tr(hotline.TranUpdateUser, subCreateOrModify("fresh", "Fresh", []byte("pw"), []byte{0x20}))
		}})
	add(row{name: "updateUser/multi", tokens: []string{"updateUser", "d0", "c:" + hx(zero8) + ":0", "m0"}, governing: []int{15, 14, 17}, expect: "changed", delayed: true,
		multi: []effectSpec{{15, acctGone("victim2")}, {14, acctThere("fresh")}, {17, otherRenamed}},
		build: func(w *world) hotline.Transaction {
			return tr(hotline.TranUpdateUser, subDelete("victim2"), subCreateOrModify("fresh", "Fresh", []byte("pw"), zero8),
				subCreateOrModify("other", "Edited", []byte{0}, zero8))
		}})
	add(row{name: "updateUser/multi2", tokens: []string{"updateUser", "m0", "d0"}, governing: []int{17, 15}, expect: "changed", delayed: true,
		multi: []effectSpec{{17, otherRenamed}, {15, acctGone("victim2")}},
		build: func(w *world) hotline.Transaction {
			return tr(hotline.TranUpdateUser, subCreateOrModify("other", "Edited", []byte{0}, zero8), subDelete("victim2"))
		}})
	add(row{name: "updateUser/empty", tokens: []string{"updateUser"}, expect: "reply",
		build: func(w *world) hotline.Transaction { return tr(hotline.TranUpdateUser) }})

	// ---- communication
	add(row{name: "chatSend/public", tokens: []string{"chatSend"}, governing: []int{10},
		build: func(w *world) hotline.Transaction {
			return tr(hotline.TranChatSend, fld(hotline.FieldData, []byte("hello")))
		}})
	add(row{name: "chatSend/private", tokens: []string{"chatSend"}, governing: []int{10},
		build: func(w *world) hotline.Transaction {
			return tr(hotline.TranChatSend, fld(hotline.FieldData, []byte("hello")), fld(hotline.FieldChatID, w.chat[:]))
		}})
	add(row{name: "chatSend/emote", tokens: []string{"chatSend"}, governing: []int{10},
		build: func(w *world) hotline.Transaction {
			return tr(hotline.TranChatSend, fld(hotline.FieldData, []byte("waves")), fld(hotline.FieldChatOptions, []byte{0, 1}))
		}})
	add(row{name: "sendInstantMsg/exists", tokens: []string{"sendInstantMsg", "1"}, governing: []int{40},
		build: func(w *world) hotline.Transaction {
			return tr(hotline.TranSendInstantMsg, fld(hotline.FieldData, []byte("psst")), fld(hotline.FieldUserID, uid(w.oc)))
		}})
	add(row{name: "sendInstantMsg/missing", tokens: []string{"sendInstantMsg", "0"}, governing: []int{40},
		build: func(w *world) hotline.Transaction {
			return tr(hotline.TranSendInstantMsg, fld(hotline.FieldData, []byte("psst")), fld(hotline.FieldUserID, []byte{0x7f, 0x7f}))
		}})
	add(row{name: "inviteNewChat", tokens: []string{"inviteNewChat"}, governing: []int{11},
		build: func(w *world) hotline.Transaction {
			return tr(hotline.TranInviteNewChat, fld(hotline.FieldUserID, uid(w.oc)))
		}})
	add(row{name: "inviteToChat", tokens: []string{"inviteToChat"}, governing: []int{11},
		build: func(w *world) hotline.Transaction {
			return tr(hotline.TranInviteToChat, fld(hotline.FieldUserID, uid(w.by)), fld(hotline.FieldChatID, w.chat[:]))
		}})
	add(row{name: "joinChat", tokens: []string{"joinChat"}, expect: "data",
		build: func(w *world) hotline.Transaction {
			return tr(hotline.TranJoinChat, fld(hotline.FieldChatID, w.chat[:]))
		}})
	add(row{name: "leaveChat", tokens: []string{"leaveChat"}, expect: "changed",
		build: func(w *world) hotline.Transaction {
			return tr(hotline.TranLeaveChat, fld(hotline.FieldChatID, w.chat[:]))
		}})
	add(row{name: "rejectChatInvite", tokens: []string{"rejectChatInvite"},
		build: func(w *world) hotline.Transaction {
			return tr(hotline.TranRejectChatInvite, fld(hotline.FieldChatID, w.chat[:]))
		}})
	add(row{name: "setChatSubject", tokens: []string{"setChatSubject"}, expect: "changed",
		build: func(w *world) hotline.Transaction {
			return tr(hotline.TranSetChatSubject, fld(hotline.FieldChatID, w.chat[:]), fld(hotline.FieldChatSubject, []byte("new subject")))
		}})
	add(row{name: "userBroadcast", tokens: []string{"userBroadcast"}, governing: []int{32},
		build: func(w *world) hotline.Transaction {
			return tr(hotline.TranUserBroadcast, fld(hotline.FieldData, []byte("attention")))
		}})
	add(row{name: "getClientInfoText/exists", tokens: []string{"getClientInfoText", "1"}, governing: []int{24}, expect: "data",
		build: func(w *world) hotline.Transaction {
			return tr(hotline.TranGetClientInfoText, fld(hotline.FieldUserID, uid(w.oc)))
		}})
	add(row{name: "getClientInfoText/missing", tokens: []string{"getClientInfoText", "0"}, governing: []int{24}, expect: "err",
		build: func(w *world) hotline.Transaction {
			return tr(hotline.TranGetClientInfoText, fld(hotline.FieldUserID, []byte{0x7f, 0x7f}))
		}})
	for _, prot := range []bool{false, true} {
		for _, o := range []struct {
			name string
			b    []byte
		}{{"absent", nil}, {"temporary", []byte{0, 1}}, {"permanent", []byte{0, 2}}, {"other", []byte{0, 5}}} {
			prot, o := prot, o
			oa := []int{2, 9}
			pn := "unprotected"
			if prot {
				oa = []int{2, 9, 23}
				pn = "protected"
			}
			e := "changed"
			if o.name == "absent" || o.name == "other" {
				e = "reply" // the disconnect itself happens a second later
			}
			if prot {
				e = "err"
			}
			add(row{name: "disconnectUser/" + pn + "/" + o.name, tokens: []string{"disconnectUser", map[bool]string{true: "1", false: "0"}[prot], o.name},
				governing: []int{22}, delayed: true, otherAccess: oa, expect: e,
				build: func(w *world) hotline.Transaction {
					fs := []hotline.Field{fld(hotline.FieldUserID, uid(w.oc))}
					if o.b != nil {
						fs = append(fs, fld(hotline.FieldOptions, o.b))
					}
					return tr(hotline.TranDisconnectUser, fs...)
				}})
		}
	}
	add(row{name: "getUserNameList", tokens: []string{"getUserNameList"}, expect: "data",
		build: func(w *world) hotline.Transaction { return tr(hotline.TranGetUserNameList) }})
	add(row{name: "keepAlive", tokens: []string{"keepAlive"}, expect: "reply",
		build: func(w *world) hotline.Transaction { return tr(hotline.TranKeepAlive) }})
	add(row{name: "agreed/name", tokens: []string{"agreed", "1"}, governing: []int{26}, anyName: true, wantName: "Chosen Name", fallback: "Req Account",
		build: func(w *world) hotline.Transaction {
			return tr(hotline.TranAgreed, fld(hotline.FieldUserName, []byte("Chosen Name")), fld(hotline.FieldUserIconID, []byte{0, 5}), fld(hotline.FieldOptions, []byte{0, 0}))
		}})
	add(row{name: "agreed/noName", tokens: []string{"agreed", "0"}, expect: "reply",
		build: func(w *world) hotline.Transaction {
			return tr(hotline.TranAgreed, fld(hotline.FieldUserIconID, []byte{0, 5}), fld(hotline.FieldOptions, []byte{0, 0}))
		}})
	add(row{name: "setClientUserInfo", tokens: []string{"setClientUserInfo"}, governing: []int{26}, anyName: true, wantName: "Chosen Name", fallback: "req-name",
		build: func(w *world) hotline.Transaction {
			return tr(hotline.TranSetClientUserInfo, fld(hotline.FieldUserName, []byte("Chosen Name")), fld(hotline.FieldUserIconID, []byte{0, 5}))
		}})

	// ---- news
	add(row{name: "oldPostNews", tokens: []string{"oldPostNews"}, governing: []int{21}, expect: "changed",
		build: func(w *world) hotline.Transaction {
			return tr(hotline.TranOldPostNews, fld(hotline.FieldData, []byte("a post")))
		}})
	add(row{name: "postNewsArt", tokens: []string{"postNewsArt"}, governing: []int{21}, expect: "changed",
		build: func(w *world) hotline.Transaction {
			return tr(hotline.TranPostNewsArt, fld(hotline.FieldNewsPath, newsPath("TopCat")), fld(hotline.FieldNewsArtID, []byte{0, 0, 0, 0}),
				fld(hotline.FieldNewsArtTitle, []byte("title")), fld(hotline.FieldNewsArtData, []byte("body")))
		}})
	add(row{name: "getMsgs", tokens: []string{"getMsgs"}, governing: []int{20}, expect: "data",
		build: func(w *world) hotline.Transaction { return tr(hotline.TranGetMsgs) }})
	add(row{name: "getNewsCatNameList", tokens: []string{"getNewsCatNameList"}, governing: []int{20}, expect: "data",
		build: func(w *world) hotline.Transaction { return tr(hotline.TranGetNewsCatNameList) }})
	add(row{name: "getNewsCatNameList/nested", tokens: []string{"getNewsCatNameList"}, governing: []int{20}, expect: "data",
		build: func(w *world) hotline.Transaction {
			return tr(hotline.TranGetNewsCatNameList, fld(hotline.FieldNewsPath, newsPath("Bundle")))
		}})
	add(row{name: "getNewsArtNameList", tokens: []string{"getNewsArtNameList"}, governing: []int{20}, expect: "data",
		build: func(w *world) hotline.Transaction {
			return tr(hotline.TranGetNewsArtNameList, fld(hotline.FieldNewsPath, newsPath("TopCat")))
		}})
	add(row{name: "getNewsArtData", tokens: []string{"getNewsArtData"}, governing: []int{20}, expect: "data",
		build: func(w *world) hotline.Transaction {
			return tr(hotline.TranGetNewsArtData, fld(hotline.FieldNewsPath, newsPath("TopCat")), fld(hotline.FieldNewsArtID, []byte{0, 0, 0, 1}))
		}})
	add(row{name: "delNewsArt", tokens: []string{"delNewsArt"}, governing: []int{33}, expect: "changed",
		build: func(w *world) hotline.Transaction {
			return tr(hotline.TranDelNewsArt, fld(hotline.FieldNewsPath, newsPath("TopCat")), fld(hotline.FieldNewsArtID, []byte{0, 0, 0, 1}))
		}})
	add(row{name: "newNewsCat", tokens: []string{"newNewsCat"}, governing: []int{34}, expect: "changed",
		build: func(w *world) hotline.Transaction {
			return tr(hotline.TranNewNewsCat, fld(hotline.FieldNewsCatName, []byte("NewCat")))
		}})
	add(row{name: "newNewsFldr", tokens: []string{"newNewsFldr"}, governing: []int{36}, expect: "changed",
		build: func(w *world) hotline.Transaction {
			return tr(hotline.TranNewNewsFldr, fld(hotline.FieldFileName, []byte("NewBundle")))
		}})
	for _, k := range []struct {
		name, model string
		path        []byte
		g           []int
		e           string
	}{
		{"category", "category", newsPath("TopCat"), []int{35}, "changed"},
		{"nestedCategory", "category", newsPath("Bundle", "Cat"), []int{35}, "changed"},
		{"bundle", "bundle", newsPath("Bundle"), []int{37}, "changed"},
		{"depth3Category", "category", newsPath("Bundle", "Sub", "DeepCat"), []int{35}, "changed"},
		{"depth3Bundle", "bundle", newsPath("Bundle", "Sub", "DeepBundle"), []int{37}, "changed"},
		{"depth4Category", "category", newsPath("Bundle", "Sub", "DeepBundle", "Cat4"), []int{35}, "changed"},
		{"depth4Bundle", "bundle", newsPath("Bundle", "Sub", "DeepBundle", "Bundle4"), []int{37}, "changed"},
		{"depth2Bundle", "bundle", newsPath("Bundle", "Sub"), []int{37}, "changed"},
		{"missing", "missing", newsPath("Nope"), []int{37}, "reply"},
		{"deepMissing", "missing", newsPath("Bundle", "Sub", "Nope"), []int{37}, "reply"},
		{"emptyPath", "badPath", nil, nil, ""},
	} {
		k := k
		add(row{name: "delNewsItem/" + k.name, tokens: []string{"delNewsItem", k.model}, governing: k.g, expect: k.e,
			build: func(w *world) hotline.Transaction {
				if k.path == nil {
					return tr(hotline.TranDelNewsItem)
				}
				return tr(hotline.TranDelNewsItem, fld(hotline.FieldNewsPath, k.path))
			}})
	}
	return rows
}

// ---------------------------------------------------------------- judging

// the texts with which the handlers refuse for lack of a privilege
func isPrivilegeDenial(msg string) bool {
	return strings.HasPrefix(msg, "You are not allowed to ") ||
		(strings.HasPrefix(msg, "Cannot accept upload of the ") && strings.Contains(msg, "because you are only allowed to upload to the \"Uploads\" folder."))
}

type invocation struct {
	r       *row
	b       hotline.AccessBitmap
	w       *world
	before  []string
	denied  bool // judged as "must be inert": a governing privilege is missing (atomic rows)
	obsDeny bool
}

func hasAll(b hotline.AccessBitmap, bits []int) bool {
	for _, g := range bits {
		if !bitOf(b, g) {
			return false
		}
	}
	return true
}

// invoke runs one (row, bitmap) on a fresh world and judges the immediate observation.
// It returns the invocation when the world must be looked at again later (delayed rows), else closes it.
func invoke(c *Case, r *row, b hotline.AccessBitmap) *invocation { return invokeAfter(c, r, b, b, nil) }

// invokeAfter: the requester logs in holding `login`; then `history` runs (e.g. further sessions on the same
// account and an administrator's set-user changing the account to `b`); then the request is made and judged
// against `b`, the privileges the account holds at the time of the request.
func invokeAfter(c *Case, r *row, login, b hotline.AccessBitmap, history func(w *world) string) *invocation {
	oa := bmOf(2, 9)
	if r.otherAccess != nil {
		oa = bmOf(r.otherAccess...)
	}
	w, err := newWorld(login, oa)
	if err != nil {
		c.Note("err", err.Error())
		c.Disagree("fixture", "world could not be built")
		return nil
	}
	if strings.HasPrefix(r.name, "deleteUser/offline") || strings.HasPrefix(r.name, "updateUser/") {
		// an account nobody is logged in with
		w.ts.Acct.Create(hotline.Account{Login: "victim2", Name: "Victim Two", Password: emptyPwHash, Access: bmOf(2)})
	}
	inv := &invocation{r: r, b: b, w: w}
	keep := false
	defer func() {
		if !keep {
			w.ts.Close()
		}
	}()
	note := func() {
		resetNotes(c)
		c.Note("row", r.name)
		c.Note("request_class", strings.Join(r.tokens, " "))
		c.Note("governing", r.governing)
		c.Note("bitmap", bmHex(b))
		c.Note("bits", bmBits(b))
	}
	note()
	if history != nil {
		if problem := history(w); problem != "" {
			c.Note("history_problem", problem)
			c.Disagree("fixture-history", "the history before the request did not take effect: "+problem)
			return nil
		}
		c.Note("logged_in_with", bmHex(login))
	}
	t := r.build(w)
	inv.before = w.snap()
	res, queued, pan := w.ts.Call(w.rq, t)
	after := w.snap()
	if pan != nil {
		c.Note("panic", fmt.Sprint(pan))
		c.Violation("handler-panic-"+r.name, "the handler panicked on a well-formed request")
		return nil
	}
	replies, others := requesterReplies(res, w.rq)
	others = append(others, queued...)
	replyKind := "none"
	msg := ""
	if len(replies) >= 1 {
		if isErrReply(replies[0]) {
			replyKind = "err"
			msg = errText(replies[0])
		} else {
			replyKind = "reply"
		}
	}
	denial := replyKind == "err" && isPrivilegeDenial(msg)
	inv.obsDeny = denial
	c.Note("reply", replyKind)
	c.Note("error_text", msg)
	c.Note("others", len(others))
	changed := !equalSnap(inv.before, after)
	missing := !hasAll(b, r.governing)

	// exactly-one-error-reply shape (whenever the handler answers with an error at all)
	wellFormedErr := func() bool {
		return len(res) == 1 && len(replies) == 1 && isErrReply(replies[0]) && replies[0].ID == t.ID &&
			len(replies[0].Fields) == 1 && replies[0].Fields[0].Type == hotline.FieldError && len(queued) == 0
	}

	switch {
	case r.anyName:
		// without the privilege the name is simply not adopted (no error); with it the name is adopted
		name := string(w.rq.UserName)
		if replyKind == "err" {
			c.Violation("anyname-error-"+r.name, "a request carrying a display name was answered with an error")
		}
		if missing && name != r.fallback {
			c.Note("name_after", name)
			c.Violation("anyname-adopted-"+r.name, "the display name was adopted without the use-any-name privilege")
		}
		if !missing && name != r.wantName {
			c.Note("name_after", name)
			c.Violation("anyname-refused-"+r.name, "the display name was not adopted although the account holds the use-any-name privilege")
		}
		if missing {
			for _, o := range others {
				for _, f := range o.Fields {
					if f.Type == hotline.FieldUserName && string(f.Data) == r.wantName {
						c.Violation("anyname-announced-"+r.name, "other users were told the display name although it was not adopted")
					}
				}
			}
		}
	case missing && r.multi == nil:
		inv.denied = true
		if !wellFormedErr() {
			c.Note("result", len(res))
			c.Violation("missing-privilege-no-error-"+r.name, "without the governing privilege the requester did not get exactly one error reply")
		}
		if len(others) != 0 {
			c.Violation("missing-privilege-reached-others-"+r.name, "without the governing privilege the request still reached other users")
		}
		if changed {
			c.Note("diff", diffSnap(inv.before, after))
			c.Violation("missing-privilege-effect-"+r.name, "without the governing privilege the request still changed server state")
		}
		if replyKind == "err" && !denial {
			c.Note("note", "refused, but not with a lack-of-privilege message")
		}
	case missing:
		// per-effect: the first effect whose privilege is missing and everything after it must not have happened
		first := -1
		for i, e := range r.multi {
			if !bitOf(b, e.bit) {
				first = i
				break
			}
		}
		if !wellFormedErr() {
			c.Violation("missing-privilege-no-error-"+r.name, "a governing privilege is missing but the requester did not get exactly one error reply")
		}
		for i := first; i < len(r.multi); i++ {
			if r.multi[i].happened(w) {
				c.Note("effect_index", i)
				c.Note("diff", diffSnap(inv.before, after))
				c.Violation("missing-privilege-effect-"+r.name, fmt.Sprintf("the effect governed by privilege %d happened although privilege %d is missing", r.multi[i].bit, r.multi[first].bit))
			}
		}
		if first == 0 {
			inv.denied = true
			if changed {
				c.Note("diff", diffSnap(inv.before, after))
				c.Violation("missing-privilege-effect-"+r.name, "without the first governing privilege the request still changed server state")
			}
			if len(others) != 0 {
				c.Violation("missing-privilege-reached-others-"+r.name, "without the governing privilege the request still reached other users")
			}
		}
	default:
		// all governing privileges held (or none exist): never refused for lack of privilege
		if denial {
			c.Violation("refused-despite-privilege-"+r.name, "the request was refused for lack of privilege although the account holds the governing privilege(s): "+msg)
		}
	}
	// a request that names nothing actionable (missing target, nothing named, an alias whose target is gone):
	// whoever asks, the answer is an error and nothing changes — in particular no effect without any privilege check
	if r.inert {
		if changed || len(others) != 0 {
			c.Note("diff", diffSnap(inv.before, after))
			c.Violation("unprivileged-effect-"+r.name, "a request on a target that cannot be acted on changed server state / reached others (no privilege was checked)")
		}
		if !wellFormedErr() {
			c.Violation("unprivileged-effect-"+r.name, "a request on a target that cannot be acted on was not answered with exactly one error reply")
		}
	}
	// a denial, whenever it happens, must be inert
	if denial && !r.anyName && r.multi == nil {
		if changed || len(others) != 0 || !wellFormedErr() {
			c.Note("diff", diffSnap(inv.before, after))
			c.Violation("denial-not-inert-"+r.name, "a lack-of-privilege error reply came with a state change / traffic to others / extra transactions")
		}
	}

	// correspondence with the Lean model
	model := c.AskS("authz", append([]string{bmHex(b)}, r.tokens...)...)
	parts := strings.Split(model, " | ")
	if len(parts) != 3 {
		c.Note("oracle", model)
		c.Disagree("oracle-authz", "oracle could not evaluate the request class")
	} else {
		mv, mout := parts[0], parts[2]
		obsV := "notdenied"
		if denial {
			obsV = "denied " + hx([]byte(msg))
		}
		modV := "notdenied"
		if strings.HasPrefix(mv, "denied ") {
			text := string(unhx(strings.TrimPrefix(mv, "denied ")))
			text = strings.Replace(text, "%s", r.uploadName, 1)
			modV = "denied " + hx([]byte(text))
		}
		c.Corr("authz-denial", obsV, modV, false)
		mk := "none"
		if strings.Contains(mout, "err") {
			mk = "err"
		} else if strings.Contains(mout, "reply") {
			mk = "reply"
		}
		c.Corr("authz-reply-kind", replyKind, mk, false)
		mo := strings.Contains(mout, "others")
		if len(others) > 0 && !mo {
			// the model over-approximates traffic to others (it does not know who is logged in); the converse is a mismatch
			c.Note("model_out", mout)
			c.Corr("authz-others", "others", "no-others", false)
		}
		if parts[1] == "-" && mv != "proceeded" && changed {
			c.Note("diff", diffSnap(inv.before, after))
			c.Disagree("authz-effect", "the model performs no effect but the server state changed")
		}
	}

	// sanity of the row itself (positive control with every privilege)
	if b == allOnes() && r.expect != "" {
		ok := true
		switch r.expect {
		case "changed":
			ok = changed && replyKind != "err"
		case "data":
			ok = replyKind == "reply" && len(replies[0].Fields) > 0
		case "reply":
			ok = replyKind == "reply"
		case "err":
			ok = replyKind == "err" && !denial
		}
		if !ok {
			c.Note("expect", r.expect)
			c.Note("changed", changed)
			c.Disagree("row-inert-"+r.name, "with every privilege the request did not have the expected observable outcome (the row tests nothing)")
		}
	}
	c.Dist("outcome/" + map[bool]string{true: "denied", false: replyKind}[denial])
	if len(r.governing) > 0 {
		c.Nontrivial(r.name + ":" + bmHex(b))
	}
	if r.delayed {
		keep = true
		return inv
	}
	return nil
}

// scriptConn plays the client side of a transfer connection: prepared bytes in, server writes collected.
type scriptConn struct {
	in  *bytes.Reader
	out bytes.Buffer
}

func (s *scriptConn) Read(p []byte) (int, error)  { return s.in.Read(p) }
func (s *scriptConn) Write(p []byte) (int, error) { return s.out.Write(p) }

func equalSnap(a, b []string) bool {
	if len(a) != len(b) {
		return false
	}
	for i := range a {
		if a[i] != b[i] {
			return false
		}
	}
	return true
}

// later: 3.3 s after the call — a denied request must not have started a delayed disconnect / deletion.
func (inv *invocation) later(c *Case) {
	defer inv.w.ts.Close()
	if !inv.denied {
		return
	}
	late := inv.w.ts.TakeOutbox()
	after := inv.w.snap()
	if !equalSnap(inv.before, after) || len(late) != 0 {
		resetNotes(c)
		c.Note("row", inv.r.name)
		c.Note("bitmap", bmHex(inv.b))
		c.Note("diff", diffSnap(inv.before, after))
		c.Note("late_outbox", len(late))
		c.Violation("missing-privilege-delayed-effect-"+inv.r.name, "without the governing privilege a delayed effect (disconnect / notification) still happened")
	}
}

func tableBitmaps() []hotline.AccessBitmap {
	l := []hotline.AccessBitmap{{}, allOnes()}
	for i := 0; i <= 40; i++ {
		l = append(l, bmOf(i))
	}
	for i := 0; i <= 40; i++ {
		l = append(l, hotline.AccessBitmap(withoutBit(allOnes(), i)))
	}
	return l
}

func runRow(c *Case, r *row, bitmaps []hotline.AccessBitmap) {
	// governing table: harness (property statement) vs Lean Spec
	want := "-"
	if len(r.governing) > 0 {
		s := make([]string, len(r.governing))
		for i, g := range r.governing {
			s[i] = itoa(g)
		}
		want = strings.Join(s, ",")
	}
	if got := c.AskS("governing", r.tokens...); got != want {
		c.Note("row", r.name)
		c.Note("harness", want)
		c.Note("lean", got)
		c.Disagree("governing-table-"+r.name, "the harness's and Lean's governing-privilege tables differ for this request class")
	}
	if r.rawPath != nil {
		if got := c.AskS("placeraw", hx(r.rawPath)); got != r.tokens[1] {
			c.Note("row", r.name)
			c.Note("path_field", hx(r.rawPath))
			c.Note("acts_on_kind", r.tokens[1])
			c.Note("lean", got)
			c.Disagree("place-model-"+r.name, "the Lean model classifies the folder this path field addresses differently from where ReadPath acts")
		}
	}
	var pending []*invocation
	var mu sync.Mutex
	if r.delayed {
		// run concurrently, look again after the longest delayed goroutine (3 s)
		var wg sync.WaitGroup
		sem := make(chan struct{}, 24)
		for _, b := range bitmaps {
			wg.Add(1)
			go func(b hotline.AccessBitmap) {
				defer wg.Done()
				sem <- struct{}{}
				defer func() { <-sem }()
				sub := &Case{X: c.X, R: c.R, Fam: c.Fam, Seed: c.Seed, Idx: c.Idx, O: c.O, Detail: map[string]any{"idx": c.Detail["idx"]}}
				if inv := invoke(sub, r, b); inv != nil {
					mu.Lock()
					pending = append(pending, inv)
					mu.Unlock()
				}
			}(b)
		}
		wg.Wait()
		time.Sleep(3300 * time.Millisecond)
		for _, inv := range pending {
			inv.later(c)
		}
		return
	}
	for _, b := range bitmaps {
		invoke(c, r, b)
	}
}

var (
	rowsOnce sync.Once
	allRows  []row
)

func c05Rows() []row {
	rowsOnce.Do(func() { allRows = buildRows() })
	return allRows
}

func init() {
	props["C05"] = func(x *Ctx) {
		rows := c05Rows()
		x.rule = fmt.Sprintf("decision table: %d rows (all 43 registered handlers × target kinds file/folder/nested/alias to a file/alias to a folder/missing/root/bad path, category/bundle at depth 1..4/missing, upload folder/drop box/plain/root/nested incl. path fields with embedded separators, dot and dot-dot items, empty items, mixed case and under-declared item counts, existing/missing account or user, protected/unprotected target × ban options, field-presence variants, multi-effect requests) × requester bitmaps (all-zero, all ones, each single privilege 0..40, all-but-one for every privilege governing a row of the same transaction type; thorough tier: all-but-one for each of 0..40 = 84 bitmaps); every invocation on its own real server with a file tree, account dir, threaded news, message board, ban file, 3 clients, 1 private chat; full before/after snapshot. plus a family with three sessions on one account whose privilege is revoked / granted by an administrator's set-user before the request comes from the 1st / 2nd / 3rd session; thorough adds random bitmaps. non-trivial = invocation of a row that has a governing privilege (the handler reaches a guard); distinct = distinct (row, bitmap)", len(rows))
		x.assume = []string{
			"direct mode: handlers are called with ClientConns built like handleNewConnection builds them; the requester's in-memory bitmap is set directly",
			"governing privileges per row are written in harness/c05.go from the property statement and cross-checked with Spec.governing",
			"irregular files (devices, fifos) and I/O failures are not exercised",
		}
		var plain, delayed []*row
		for i := range rows {
			if rows[i].delayed {
				delayed = append(delayed, &rows[i])
			} else {
				plain = append(plain, &rows[i])
			}
		}
		tb := tableBitmaps()
		// quick tier: zero, ones, every single privilege 0..40, and all-but-one for every privilege that governs
		// some row of the same transaction type (the row's own bits and its sibling branches); thorough: all 84
		sibling := map[string]map[int]bool{}
		for i := range rows {
			k := rows[i].tokens[0]
			if sibling[k] == nil {
				sibling[k] = map[int]bool{}
			}
			for _, g := range rows[i].governing {
				sibling[k][g] = true
			}
		}
		rowBitmaps := func(r *row) []hotline.AccessBitmap {
			if r.few && x.Tier != "thorough" {
				l := []hotline.AccessBitmap{{}, allOnes(), bmOf(1, 25), bmOf(38, 25), bmOf(1, 38, 30), bmOf(25, 30)}
				for _, g := range []int{1, 25, 30, 38} {
					l = append(l, bmOf(g), hotline.AccessBitmap(withoutBit(allOnes(), g)))
				}
				return l
			}
			if x.Tier == "thorough" {
				return tb
			}
			l := append([]hotline.AccessBitmap{}, tb[:43]...)
			for g := 0; g <= 40; g++ {
				if sibling[r.tokens[0]][g] {
					l = append(l, hotline.AccessBitmap(withoutBit(allOnes(), g)))
				}
			}
			return l
		}
		type cell struct {
			r *row
			b hotline.AccessBitmap
		}
		var cells []cell
		for _, r := range plain {
			for _, b := range rowBitmaps(r) {
				cells = append(cells, cell{r, b})
			}
		}
		// one case = one (row, bitmap) invocation
		x.Add(&Family{Name: "decision-table", Quick: len(cells), Thor: len(cells), Run: func(c *Case) {
			idx := tableIndex(c, len(cells)) % len(cells)
			r, b := cells[idx].r, cells[idx].b
			runRow(c, r, []hotline.AccessBitmap{b})
			c.Dist("row/" + r.name)
			if idx%1777 == 0 {
				c.Sample(map[string]any{"family": "decision-table", "row": r.name, "governing": r.governing, "bitmap": bmHex(b)})
			}
		}})
		// handlers that start delayed goroutines (delete user, disconnect user, editor delete): one case = one row ×
		// all 84 bitmaps, run concurrently on separate servers and inspected again 3.3 s later
		x.Add(&Family{Name: "decision-table-delayed", Quick: len(delayed), Thor: len(delayed), Run: func(c *Case) {
			r := delayed[tableIndex(c, len(delayed))%len(delayed)]
			runRow(c, r, rowBitmaps(r))
			c.Dist("row/" + r.name)
			c.Sample(map[string]any{"family": "decision-table-delayed", "row": r.name, "governing": r.governing, "bitmaps": len(rowBitmaps(r))})
		}})
		// several sessions on ONE account; an administrator's set-user revokes / grants a privilege; then the governed
		// request comes from the first, second or third of those sessions (client list order).  What counts is what the
		// ACCOUNT holds at the time of the request.
		var single []*row
		for _, r := range plain {
			if len(r.governing) == 1 && !r.anyName && r.multi == nil {
				single = append(single, r)
			}
		}
		x.Add(&Family{Name: "set-user-sessions", Quick: len(single) * 6, Thor: len(single) * 6 * 3, Run: func(c *Case) {
			idx := tableIndex(c, len(single)*6*3)
			r := single[idx/6%len(single)]
			revoke := idx%2 == 0
			k := idx / 2 % 3
			g := r.governing[0]
			var base [8]byte
			switch c.R.Intn(3) {
			case 0:
				base = maskDefined(allOnes())
			case 1:
				base = maskDefined(randBitmap(c.R))
			}
			with, without := hotline.AccessBitmap(withBit(base, g)), hotline.AccessBitmap(withoutBit(base, g))
			login, now := with, without
			mode := "revoke"
			if !revoke {
				login, now = without, with
				mode = "grant"
			}
			invokeAfter(c, r, login, now, func(w *world) string {
				c.Note("history", fmt.Sprintf("3 sessions on one account; set-user %ss privilege %d; request from session #%d", mode, g, k+1))
				// two more sessions on the requester's account, then the administrator edits the account
				e1, c1 := directClientWith(w.ts, "req", "10.0.0.3:1", login)
				e2, c2 := directClientWith(w.ts, "req", "10.0.0.4:1", login)
				e1.UserName, e2.UserName = []byte("req-name"), []byte("req-name")
				ad, _ := directClientWith(w.ts, "victim", "10.0.0.5:1", allOnes())
				_, _, pan := w.ts.Call(ad, mkTran(hotline.TranSetUser, 5, fld(hotline.FieldUserLogin, obf("req")), fld(hotline.FieldUserName, []byte("Req Account")),
					fld(hotline.FieldUserPassword, []byte{0}), fld(hotline.FieldUserAccess, now[:])))
				if pan != nil {
					return fmt.Sprint("set-user panicked: ", pan)
				}
				if a := w.ts.Acct.Get("req"); a == nil || a.Access != now {
					return "the account was not changed"
				}
				switch k {
				case 1:
					w.rq, w.rqC = e1, c1
				case 2:
					w.rq, w.rqC = e2, c2
				}
				return ""
			})
			c.Dist(fmt.Sprintf("set-user-sessions/%s/session-%d", mode, k+1))
		}})
		// the transfer phase of a granted folder upload: an account WITHOUT upload-anywhere was granted a folder upload
		// into an upload folder / drop box; whatever item paths it then announces on the transfer connection (".."
		// segments, segments with separators, empty and dot segments), nothing may appear outside that folder
		x.Add(&Family{Name: "folder-upload-items", Quick: 150, Thor: 3000, Run: func(c *Case) {
			r := c.R
			b := bmOf(38)
			for k := r.Intn(6); k > 0; k-- {
				if g := definedPrivs[r.Intn(40)]; g != 25 {
					b = hotline.AccessBitmap(withBit(b, g))
				}
			}
			places := [][]string{{"Uploads"}, {"Drop Box"}, {"My UPLOADS"}, {"plain", "..", "Uploads"}, {"Uploads/../Old DROP Box"}}
			pl := places[r.Intn(len(places))]
			segs := []string{"..", "..", "escaped", "sub", ".", "", "a/../../../esc2", "../x", "plain", "Uploads", "deep/er", "...", "..", "/abs"}
			nItems := 1 + r.Intn(4)
			var itemPaths [][]string
			for i := 0; i < nItems; i++ {
				var it []string
				switch r.Intn(5) {
				case 0:
					it = []string{"..", "..", "escaped"}
				case 1:
					it = []string{"sub", "..", "..", "..", "escaped2"}
				default:
					for k := 1 + r.Intn(4); k > 0; k-- {
						it = append(it, segs[r.Intn(len(segs))])
					}
				}
				itemPaths = append(itemPaths, it)
			}
			w, err := newWorld(b, bmOf(2, 9))
			if err != nil {
				c.Disagree("fixture", "world could not be built")
				return
			}
			defer w.ts.Close()
			c.Note("bitmap", bmHex(b))
			c.Note("granted_into", pl)
			c.Note("item_paths", itemPaths)
			res, _, pan := w.ts.Call(w.rq, tr(hotline.TranUploadFldr, fld(hotline.FieldFilePath, fpath(pl...)), fld(hotline.FieldFileName, []byte("newdir")),
				fld(hotline.FieldTransferSize, []byte{0, 0, 0, 0}), fld(hotline.FieldFolderItemCount, be16(nItems))))
			if pan != nil || len(res) != 1 || isErrReply(res[0]) {
				c.Disagree("fixture-upload-grant", "a folder upload into an upload folder / drop box was not granted to an account holding upload-folder")
				return
			}
			var ref []byte
			for _, f := range res[0].Fields {
				if f.Type == hotline.FieldRefNum {
					ref = f.Data
				}
			}
			if len(ref) != 4 {
				c.Disagree("fixture-upload-grant", "no reference number")
				return
			}
			ft := w.ts.Srv.FileTransferMgr.Get(hotline.FileTransferID(ref))
			if ft == nil {
				c.Disagree("fixture-upload-grant", "no transfer registered")
				return
			}
			fullPath, err := hotline.ReadPath(ft.FileRoot, ft.FilePath, ft.FileName)
			if err != nil {
				c.Disagree("fixture-upload-grant", "transfer path unreadable")
				return
			}
			granted, _ := filepath.Rel(w.ts.Dir, filepath.Dir(fullPath)) // the folder the upload was granted into
			var stream []byte
			for _, it := range itemPaths {
				ip := fpath(it...)
				stream = append(stream, be16(len(ip)-2+4)...)
				stream = append(stream, 0, 1) // a folder item
				stream = append(stream, ip...)
			}
			before := snapshot(w.ts.Dir)
			func() {
				defer func() { recover() }()
				_ = hotline.UploadFolderHandler(&scriptConn{in: bytes.NewReader(stream)}, fullPath, ft, w.ts.Srv.FS, discardLogger, false)
			}()
			after := snapshot(w.ts.Dir)
			var outside []string
			for _, d := range diffSnap(before, after) {
				line := strings.TrimPrefix(strings.TrimPrefix(d, "+ "), "- ") // "<path> D" | "<path> F …" | "<path> L …"
				if !strings.HasPrefix(line, granted+"/") && !strings.HasPrefix(line, granted+" ") {
					outside = append(outside, d)
				}
			}
			if len(outside) > 0 {
				c.Note("outside", outside)
				c.Note("granted_folder", granted)
				c.Violation("upload-outside-granted-folder", "an account without upload-anywhere, granted a folder upload into an upload folder, created entries outside that folder through its item paths")
			}
			c.Dist(fmt.Sprintf("folder-upload-items/changed-%v", !equalSnap(before, after)))
			c.Nontrivial(fmt.Sprint("fui:", pl, itemPaths))
		}})
		x.Add(&Family{Name: "random-bitmaps", Quick: 150, Thor: 3000, Run: func(c *Case) {
			r := &rows[c.R.Intn(len(rows))]
			n := 6
			var bms []hotline.AccessBitmap
			for i := 0; i < n; i++ {
				b := randBitmap(c.R)
				// steer half of them to the boundary: all governing bits but one / exactly the governing bits
				if len(r.governing) > 0 {
					switch c.R.Intn(4) {
					case 0:
						for _, g := range r.governing {
							b = hotline.AccessBitmap(withBit(b, g))
						}
					case 1:
						for _, g := range r.governing {
							b = hotline.AccessBitmap(withBit(b, g))
						}
						b = hotline.AccessBitmap(withoutBit(b, r.governing[c.R.Intn(len(r.governing))]))
					}
				}
				bms = append(bms, b)
			}
			runRow(c, r, bms)
		}})
		c05WaveD(x)
		c05WaveE(x)
	}
}

var _ = bytes.Equal
