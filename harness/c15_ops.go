//go:build c15

package main

import (
	"fmt"
	"os"
	"strings"

	"github.com/jhalter/mobius/hotline"
	"github.com/jhalter/mobius/internal/mobius"
)

// pool of a history: few logins / names / passwords so that collisions are frequent
type c15Pool struct {
	logins [][]byte
	names  [][]byte
	pws    [][]byte
}

func c15NewPool(r *RNG) *c15Pool {
	p := &c15Pool{}
	for i := 0; i < 4+r.Intn(3); i++ {
		p.logins = append(p.logins, c15GenLogin(r))
	}
	if r.Chance(50) {
		p.logins = append(p.logins, []byte("guest"))
	}
	// near-collisions: logins that differ from another login (a pool login, guest, admin) only by case,
	// surrounding spaces or a look-alike character — each must stay its own account at every layer
	for i := 0; i < 1+r.Intn(2); i++ {
		base := [][]byte{[]byte("guest"), []byte("admin"), p.logins[r.Intn(len(p.logins))]}[r.Intn(3)]
		var v []byte
		switch r.Intn(7) {
		case 0:
			v = []byte(strings.ToUpper(string(base)))
		case 1:
			v = []byte(strings.Title(strings.ToLower(string(base))))
		case 2:
			v = append(append([]byte{}, base...), ' ')
		case 3:
			v = append([]byte{' '}, base...)
		case 4:
			v = []byte(strings.Replace(string(base), "s", "\u0455", 1) + "") // Cyrillic dze for s
			if string(v) == string(base) {
				v = append(append([]byte{}, base...), 0xcc, 0x81) // combining acute
			}
		case 5:
			v = append(append([]byte{}, base...), '.')
		default:
			v = []byte(strings.ToLower(string(base)))
		}
		if legalLogin(v) && !yamlUnsafe(v) && string(v) != "admin" && len(v) < 200 {
			p.logins = append(p.logins, v)
		}
	}
	for i := 0; i < 4; i++ {
		p.names = append(p.names, c15GenName(r))
	}
	for i := 0; i < 3+r.Intn(2); i++ {
		p.pws = append(p.pws, c15GenPw(r))
	}
	return p
}

func (p *c15Pool) login(r *RNG) []byte { return p.logins[r.Intn(len(p.logins))] }
func (p *c15Pool) name(r *RNG) []byte  { return p.names[r.Intn(len(p.names))] }
func (p *c15Pool) pw(r *RNG) []byte    { return p.pws[r.Intn(len(p.pws))] }

// existing returns a login currently in memory (other than admin), or a pool login when there is none.
func (h *c15Run) existing(r *RNG, p *c15Pool) []byte {
	var ls [][]byte
	for _, a := range h.ts.Acct.List() {
		if a.Login != "admin" {
			ls = append(ls, []byte(a.Login))
		}
	}
	if len(ls) == 0 || r.Chance(15) {
		return p.login(r)
	}
	// List() is in map order: pick deterministically
	best := ls[0]
	k := r.Intn(len(ls))
	sorted := append([][]byte{}, ls...)
	for i := range sorted {
		for j := i + 1; j < len(sorted); j++ {
			if string(sorted[j]) < string(sorted[i]) {
				sorted[i], sorted[j] = sorted[j], sorted[i]
			}
		}
	}
	best = sorted[k]
	return best
}

// pwField draws the password field of a set-user / modify record: value, marker, absent or empty.
func c15PwChoice(r *RNG, p *c15Pool) (present bool, data []byte, kind string) {
	switch r.Intn(6) {
	case 0, 1:
		return true, p.pw(r), "value"
	case 2, 3:
		return true, []byte{0}, "marker"
	case 4:
		return false, nil, "absent"
	default:
		return true, []byte{}, "empty"
	}
}

func (h *c15Run) stepNewUser(r *RNG, p *c15Pool, step int) {
	l := p.login(r)
	if r.Chance(25) {
		l = h.existing(r, p)
	}
	fs := []c15Field{{105, obf(l)}, {102, p.name(r)}}
	pw := p.pw(r)
	if r.Chance(85) {
		fs = append(fs, c15Field{106, pw})
	} else {
		pw = []byte{}
	}
	if r.Chance(90) {
		fs = append(fs, c15Field{110, h.access(r)})
	}
	h.beginReq(fs)
	fs = h.shape(fs)
	before := h.ts.Acct.Get(string(l)) != nil
	res, _, pn := h.call(mkTran(hotline.TranNewUser, uint32(step), c15Fields(fs)...))
	o := classify(res, pn)
	h.addPw(l, pw)
	h.obs("N "+c15Tok(fs), fmt.Sprintf("step %d new-user %s", step, hx(l)), o)
	h.c.Dist("new-user/" + o)
	if o == "done" {
		h.nDone++
		h.nMut++
		if before {
			h.c.Note("login", hx(l))
			h.c.Violation("new-user-overwrites", "new-user succeeded for a login that already existed")
		}
		if !h.cc.Authenticate(string(l), pw) {
			h.c.Note("login", hx(l))
			h.c.Violation("new-user-cannot-login", "a newly created account does not accept its password")
		}
	}
}

func (h *c15Run) stepSetUser(r *RNG, p *c15Pool, step int) {
	l := h.existing(r, p)
	fs := []c15Field{{105, obf(l)}}
	if r.Chance(90) {
		fs = append(fs, c15Field{102, p.name(r)})
	}
	if r.Chance(85) {
		fs = append(fs, c15Field{110, h.access(r)})
	}
	present, data, kind := c15PwChoice(r, p)
	if present {
		fs = append(fs, c15Field{106, data})
	}
	h.beginReq(fs)
	fs = h.shape(fs)
	prev := h.ts.Acct.Get(string(l))
	res, _, pn := h.call(mkTran(hotline.TranSetUser, uint32(step), c15Fields(fs)...))
	o := classify(res, pn)
	if kind == "value" {
		h.addPw(l, data)
	} else {
		h.addLogin(l)
	}
	h.obs("S "+c15Tok(fs), fmt.Sprintf("step %d set-user %s pw=%s", step, hx(l), kind), o)
	h.c.Dist("set-user/" + kind + "/" + o)
	if o == "done" && prev != nil {
		h.nDone++
		h.nMut++
		h.pwMonitor(l, prev.Password, kind, data, "set-user")
	}
}

// pwMonitor: the password clause of the property judged on the implementation's own state.
func (h *c15Run) pwMonitor(l []byte, prevHash, kind string, data []byte, op string) {
	now := h.ts.Acct.Get(string(l))
	if now == nil {
		return
	}
	fail := func(what string) {
		h.c.Note("login", hx(l))
		h.c.Note("history", strings.Join(h.toks, " "))
		h.c.Violation("password-semantics", op+": "+what)
	}
	switch kind {
	case "value":
		if !h.verifies(now.Password, data) {
			fail("the new password is not accepted after a password change")
		}
		for _, old := range h.pws[string(l)] {
			if string(old) != string(data) && h.verifies(now.Password, old) {
				fail("an old password is still accepted after a password change")
			}
		}
	case "marker":
		for _, old := range append([][]byte{{}}, h.pws[string(l)]...) {
			if h.verifies(prevHash, old) != h.verifies(now.Password, old) {
				fail("the 'unchanged' marker changed which passwords are accepted")
			}
		}
		if h.verifies(now.Password, []byte{0}) && !h.verifies(prevHash, []byte{0}) {
			fail("the 'unchanged' marker was stored as a password")
		}
	case "absent", "empty":
		if !h.verifies(now.Password, []byte{}) {
			fail("an absent/empty password field did not clear the password")
		}
		for _, old := range h.pws[string(l)] {
			if len(old) > 0 && h.verifies(now.Password, old) {
				fail("an old password is still accepted after the password was cleared")
			}
		}
	}
}

func (h *c15Run) stepDeleteUser(r *RNG, p *c15Pool, step int) {
	l := h.existing(r, p)
	fs := []c15Field{{105, obf(l)}}
	h.beginReq(fs)
	fs = h.shape(fs)
	res, _, pn := h.call(mkTran(hotline.TranDeleteUser, uint32(step), c15Fields(fs)...))
	o := classify(res, pn)
	h.addLogin(l)
	h.obs("D "+c15Tok(fs), fmt.Sprintf("step %d delete-user %s", step, hx(l)), o)
	h.c.Dist("delete-user/" + o)
	if o == "done" {
		h.nDone++
		h.nMut++
		h.goneMonitor(l, "delete-user")
	}
}

// goneMonitor: a deleted / renamed-away login can no longer log in, is not listed, has no file.
func (h *c15Run) goneMonitor(l []byte, op string) {
	fail := func(what string) {
		h.c.Note("login", hx(l))
		h.c.Note("history", strings.Join(h.toks, " "))
		h.c.Violation("removed-login-still-present", op+": "+what)
	}
	if h.ts.Acct.Get(string(l)) != nil {
		fail("the login can still be looked up in memory")
	}
	for _, pw := range append([][]byte{{}}, h.pws[string(l)]...) {
		if h.cc.Authenticate(string(l), pw) {
			fail("the login still authenticates")
		}
	}
	if _, err := os.Stat(h.ts.Users + "/" + string(l) + ".yaml"); err == nil {
		fail("the account file still exists")
	}
}

func (h *c15Run) stepGetUser(r *RNG, p *c15Pool, step int) {
	l := h.existing(r, p)
	fs := []c15Field{{105, l}} // get-user reads the login field as sent (not de-obfuscated)
	res, _, pn := h.call(mkTran(hotline.TranGetUser, uint32(step), c15Fields(fs)...))
	o := classify(res, pn)
	if o == "done" {
		t := res[0]
		hash := string(t.GetField(hotline.FieldUserPassword).Data)
		if a := h.ts.Acct.Get(string(l)); a == nil || a.Password != hash {
			h.c.Violation("get-user-hash", "get-user returns a password hash other than the stored one")
		}
		pwHex := "?"
		if v, ok := h.hashPw[hash]; ok {
			pwHex = v
		} else {
			for _, pw := range append([][]byte{{}, obf([]byte("adm"))}, h.pws[string(l)]...) {
				if h.verifies(hash, pw) {
					pwHex = hx(pw)
					h.hashPw[hash] = pwHex
				}
			}
		}
		o = fmt.Sprintf("user %s %s %s %s", hx(t.GetField(hotline.FieldUserName).Data), hx(t.GetField(hotline.FieldUserLogin).Data),
			hx(t.GetField(hotline.FieldUserAccess).Data), pwHex)
	}
	h.addLogin(l)
	h.obs("G "+c15Tok(fs), fmt.Sprintf("step %d get-user %s", step, hx(l)), o)
	h.c.Dist("get-user/" + strings.Fields(o)[0])
}

type c15Rec struct {
	kind   string // delete | modify | rename | create
	fs     []c15Field
	src    []byte // login looked up
	dst    []byte // login afterwards
	pwKind string
	pwData []byte
}

func (h *c15Run) genRec(r *RNG, p *c15Pool) c15Rec {
	switch r.Intn(10) {
	case 0, 1: // delete
		l := h.existing(r, p)
		return c15Rec{kind: "delete", fs: []c15Field{{101, obf(l)}}, src: l}
	case 2, 3, 4: // modify
		l := h.existing(r, p)
		rec := c15Rec{kind: "modify", src: l, dst: l}
		rec.fs = []c15Field{{105, obf(l)}, {102, p.name(r)}}
		if r.Chance(10) {
			rec.fs = append([]c15Field{{101, []byte{}}}, rec.fs...) // empty data field = no rename
		}
		present, data, kind := c15PwChoice(r, p)
		rec.pwKind, rec.pwData = kind, data
		if present {
			rec.fs = append(rec.fs, c15Field{106, data})
		}
		if r.Chance(70) {
			rec.fs = append(rec.fs, c15Field{110, h.access(r)})
		}
		return rec
	case 5, 6, 7: // rename
		l := h.existing(r, p)
		n := p.login(r)
		rec := c15Rec{kind: "rename", src: l, dst: n}
		rec.fs = []c15Field{{101, obf(l)}, {105, obf(n)}, {102, p.name(r)}}
		present, data, kind := c15PwChoice(r, p)
		rec.pwKind, rec.pwData = kind, data
		if present {
			rec.fs = append(rec.fs, c15Field{106, data})
		}
		if r.Chance(70) {
			rec.fs = append(rec.fs, c15Field{110, h.access(r)})
		}
		return rec
	default: // create
		l := p.login(r)
		rec := c15Rec{kind: "create", src: l, dst: l, pwKind: "value"}
		rec.pwData = p.pw(r)
		rec.fs = []c15Field{{105, obf(l)}, {102, p.name(r)}, {110, h.access(r)}}
		if r.Chance(92) {
			rec.fs = append(rec.fs, c15Field{106, rec.pwData}) // absent: the handler panics (nil dereference)
		}
		if r.Chance(30) { // field order does not matter
			rec.fs[0], rec.fs[len(rec.fs)-1] = rec.fs[len(rec.fs)-1], rec.fs[0]
		}
		return rec
	}
}

func goCopyAccess(old [8]byte, data []byte) [8]byte {
	copy(old[:], data)
	return old
}

// stepBatchIndependent: one update-user request whose sub-records concern pairwise different logins —
// a RENAME first, then modify / delete records for OTHER existing accounts and a create — so that every
// record's own effect can be judged on the post-state (key batch-record-not-applied).
func (h *c15Run) stepBatchIndependent(r *RNG, p *c15Pool, step int) bool {
	var ex []string
	for _, a := range h.ts.Acct.List() {
		if a.Login != "admin" && len(a.Login) < 200 {
			ex = append(ex, a.Login)
		}
	}
	if len(ex) < 2 {
		return false
	}
	for i := range ex {
		for j := i + 1; j < len(ex); j++ {
			if ex[j] < ex[i] {
				ex[i], ex[j] = ex[j], ex[i]
			}
		}
	}
	// deterministic shuffle
	for i := len(ex) - 1; i > 0; i-- {
		j := r.Intn(i + 1)
		ex[i], ex[j] = ex[j], ex[i]
	}
	used := map[string]bool{"admin": true}
	for _, l := range ex {
		used[l] = true
	}
	fresh := func() []byte {
		for {
			l := c15GenLogin(r)
			if len(l) < 100 && !used[string(l)] {
				used[string(l)] = true
				return l
			}
		}
	}
	type want struct {
		kind     string
		src, dst string
		name     []byte
		pwKind   string
		pw       []byte
		access   *[8]byte
		before   hotline.Account
	}
	var wants []want
	var recs [][]c15Field
	mk := func(kind string, login string) {
		b := h.ts.Acct.Get(login)
		w := want{kind: kind, src: login, dst: login, before: *b, name: p.name(r)}
		var fs []c15Field
		if kind == "rename" {
			w.dst = string(fresh())
			fs = append(fs, c15Field{101, obf([]byte(login))})
		}
		fs = append(fs, c15Field{105, obf([]byte(w.dst))}, c15Field{102, w.name})
		present, data, pk := c15PwChoice(r, p)
		w.pwKind, w.pw = pk, data
		if present {
			fs = append(fs, c15Field{106, data})
		}
		if r.Chance(70) {
			ac := h.access(r)
			a8 := goCopyAccess(b.Access, ac)
			w.access = &a8
			fs = append(fs, c15Field{110, ac})
		}
		wants = append(wants, w)
		recs = append(recs, fs)
	}
	mk("rename", ex[0])
	mk("modify", ex[1])
	if len(ex) > 2 && r.Chance(60) {
		mk("modify", ex[2])
	}
	if len(ex) > 3 && r.Chance(50) {
		wants = append(wants, want{kind: "delete", src: ex[3]})
		recs = append(recs, []c15Field{{101, obf([]byte(ex[3]))}})
	}
	if r.Chance(50) {
		l := fresh()
		ac := h.access(r)
		a8 := goCopyAccess([8]byte{}, ac)
		w := want{kind: "create", src: string(l), dst: string(l), name: p.name(r), pwKind: "value", pw: p.pw(r), access: &a8}
		wants = append(wants, w)
		recs = append(recs, []c15Field{{105, obf(l)}, {102, w.name}, {106, w.pw}, {110, ac}})
	}
	var fields []hotline.Field
	tok := fmt.Sprintf("U %d", len(recs))
	h.beginReq(recs...)
	for i := range recs {
		if len(recs[i]) > 1 { // a one-field sub-record is a delete: it stays one field
			recs[i] = h.shape(recs[i])
		}
	}
	for i, fs := range recs {
		fields = append(fields, hotline.NewField(hotline.FieldData, c15SubRecord(fs)))
		tok += " " + c15Tok(fs)
		w := wants[i]
		h.addLogin([]byte(w.src))
		if w.dst != "" {
			h.addLogin([]byte(w.dst))
			if w.kind == "rename" {
				for _, pw := range h.pws[w.src] {
					h.addPw([]byte(w.dst), pw)
				}
			}
			if w.pwKind == "value" {
				h.addPw([]byte(w.dst), w.pw)
			}
		}
		h.c.Dist("update-record/" + w.kind)
	}
	res, _, pn := h.call(mkTran(hotline.TranUpdateUser, uint32(step), fields...))
	o := classify(res, pn)
	h.obs(tok, fmt.Sprintf("step %d update-user independent batch", step), o)
	h.c.Dist("update-user-independent/" + o)
	fail := func(i int, what string) {
		h.c.Note("record_index", i)
		h.c.Note("record", c15Tok(recs[i]))
		h.c.Note("history", strings.Join(h.toks, " "))
		h.c.Violation("batch-record-not-applied", fmt.Sprintf("update-user with %d independent records: record %d (%s %q): %s", len(recs), i, wants[i].kind, wants[i].src, what))
	}
	if o != "done" {
		fail(0, "the request was not acknowledged ("+o+")")
	} else {
		h.nDone++
		h.nMut++
	}
	for i, w := range wants {
		switch w.kind {
		case "delete":
			if h.ts.Acct.Get(w.src) != nil {
				fail(i, "the deleted login is still present")
			}
			continue
		case "rename":
			if h.ts.Acct.Get(w.src) != nil {
				fail(i, "the renamed-away login is still present")
			}
		}
		now := h.ts.Acct.Get(w.dst)
		if now == nil {
			fail(i, fmt.Sprintf("login %q does not exist afterwards", w.dst))
			continue
		}
		if now.Name != string(w.name) {
			fail(i, "the name was not applied")
		}
		if w.access != nil && now.Access != *w.access {
			fail(i, "the privileges were not applied")
		}
		if w.access == nil && w.kind != "create" && now.Access != w.before.Access {
			fail(i, "the privileges changed although none were sent")
		}
		switch w.pwKind {
		case "value":
			if !h.verifies(now.Password, w.pw) {
				fail(i, "the new password is not accepted")
			}
		case "marker":
			if now.Password != w.before.Password {
				fail(i, "the 'unchanged' marker changed the stored password")
			}
		default:
			if !h.verifies(now.Password, []byte{}) {
				fail(i, "the password was not cleared")
			}
		}
	}
	return true
}

func (h *c15Run) stepUpdateUser(r *RNG, p *c15Pool, step int) {
	if r.Chance(25) && h.stepBatchIndependent(r, p, step) {
		return
	}
	n := r.Pick(1, 1, 2, 2, 3, 4)
	var recs []c15Rec
	var fields []hotline.Field
	tok := fmt.Sprintf("U %d", n)
	kinds := ""
	var gen []c15Rec
	var all [][]c15Field
	for i := 0; i < n; i++ {
		g := h.genRec(r, p)
		gen = append(gen, g)
		all = append(all, g.fs)
	}
	h.beginReq(all...)
	for i := 0; i < n; i++ {
		rec := gen[i]
		if len(rec.fs) > 1 { // a one-field sub-record is a delete: it stays one field
			rec.fs = h.shape(rec.fs)
		}
		recs = append(recs, rec)
		fields = append(fields, hotline.NewField(hotline.FieldData, c15SubRecord(rec.fs)))
		tok += " " + c15Tok(rec.fs)
		kinds += rec.kind[:1]
		h.c.Dist("update-record/" + rec.kind)
		if rec.pwKind == "value" && rec.dst != nil {
			h.addPw(rec.dst, rec.pwData)
		}
		h.addLogin(rec.src)
		if rec.dst != nil {
			h.addLogin(rec.dst)
		}
	}
	// for the direct monitors of a single-record request: state before
	var prevHash string
	var existed bool
	var ontoSrc, ontoDst *hotline.Account // a rename whose target login exists (must be refused, both survive)
	if n == 1 {
		if a := h.ts.Acct.Get(string(recs[0].src)); a != nil {
			prevHash, existed = a.Password, true
			if recs[0].kind == "rename" && string(recs[0].src) != string(recs[0].dst) {
				_, e1 := os.Stat(h.ts.Users + "/" + string(recs[0].src) + ".yaml")
				_, e2 := os.Stat(h.ts.Users + "/" + string(recs[0].dst) + ".yaml")
				if d := h.ts.Acct.Get(string(recs[0].dst)); d != nil && e1 == nil && e2 == nil {
					ontoSrc, ontoDst = a, d
				}
			}
		}
	}
	res, _, pn := h.call(mkTran(hotline.TranUpdateUser, uint32(step), fields...))
	o := classify(res, pn)
	h.obs(tok, fmt.Sprintf("step %d update-user %s", step, kinds), o)
	h.c.Dist("update-user/" + fmt.Sprint(n) + "/" + o)
	if ontoSrc != nil {
		h.c.Dist("rename-onto-existing/" + o)
		for _, before := range []*hotline.Account{ontoSrc, ontoDst} {
			now := h.ts.Acct.Get(before.Login)
			_, statErr := os.Stat(h.ts.Users + "/" + before.Login + ".yaml")
			if now == nil || viewOf(*now) != viewOf(*before) || statErr != nil {
				h.c.Note("src", hx([]byte(ontoSrc.Login)))
				h.c.Note("dst", hx([]byte(ontoDst.Login)))
				h.c.Note("history", strings.Join(h.toks, " "))
				h.c.Violation("rename-onto-existing-login", fmt.Sprintf("renaming %q onto the existing login %q changed or destroyed account %q", ontoSrc.Login, ontoDst.Login, before.Login))
			}
			for _, pw := range append([][]byte{{}}, h.pws[before.Login]...) {
				if h.cc.Authenticate(before.Login, pw) != h.verifies(before.Password, pw) {
					h.c.Violation("rename-onto-existing-login", fmt.Sprintf("after the refused rename login %q accepts other passwords than before", before.Login))
				}
			}
		}
	}
	if o == "done" {
		h.nDone++
		h.nMut++
		if n == 1 && existed {
			rec := recs[0]
			switch rec.kind {
			case "delete":
				h.goneMonitor(rec.src, "update-user delete record")
			case "rename":
				if string(rec.src) != string(rec.dst) {
					h.goneMonitor(rec.src, "update-user rename record")
				}
				h.pwMonitorRenamed(rec, prevHash)
			case "modify":
				h.pwMonitor(rec.dst, prevHash, rec.pwKind, rec.pwData, "update-user modify record")
			}
		}
	}
}

func (h *c15Run) pwMonitorRenamed(rec c15Rec, prevHash string) {
	// passwords ever used with the OLD login are the "old passwords" of the renamed account
	for _, pw := range h.pws[string(rec.src)] {
		h.addPw(rec.dst, pw)
	}
	if h.ts.Acct.Get(string(rec.dst)) == nil {
		h.c.Note("login", hx(rec.dst))
		h.c.Violation("renamed-to-login-missing", "after a successful rename the new login does not exist")
		return
	}
	h.pwMonitor(rec.dst, prevHash, rec.pwKind, rec.pwData, "update-user rename record")
}

func (h *c15Run) stepRestart(step int) {
	o := h.restart()
	h.obs("R", fmt.Sprintf("step %d restart", step), o)
	h.c.Dist("restart/" + o)
}

func init() {
	props["C15"] = func(x *Ctx) {
		x.rule = "histories of 20-40 protocol operations (new-user 350, set-user 353, batched update-user 349 with 1-4 sub-records mixing create/modify/rename/delete, delete-user 351, get-user 352, list-users 348, restart = swapping in a manager freshly loaded from the directory) over a pool of 4-7 logins, 4 names, 3-4 passwords drawn from arbitrary bytes that are legal file names (non-UTF-8, YAML look-alikes such as 123/true/~/null/<<, spaces, leading dashes, glob characters, LF/CR inside, lengths around NAME_MAX); after EVERY step: Authenticate for every login ever used with every password ever used with it, list-users reply, parsed directory, second manager. non-trivial = at least 3 state-changing requests succeeded; distinct = distinct token string of the history (oracle input). wave d: wire-large-fields = the same histories with every request serialised and parsed back by the real Transaction.Write, names / privilege fields / filler fields of 4000..60000 bytes in every position and order (request < 64 KiB); failing-persist = histories in which 45 % of the requests are served while Users/.account.tmp cannot be written (non-empty directory at that name); binary-restart = the real server binary started with -init, accounts (incl. the default ones) deleted / renamed / created over TCP, process stopped and started again with or without -init"
		x.assume = []string{
			"bcrypt: verify (hash p) q <-> p = q for the generated passwords (as sent): at most 20 bytes, either free of 0x00 or one leading 0x00 followed by 1..4 non-zero bytes (bcrypt repeats the NUL-terminated key cyclically: hash(\"\") also accepts the single byte 0x00; the oracle's environment compares bcrypt keys)",
			"gopkg.in/yaml.v3 round-trips every string except those containing LF whose first character is LF, TAB, U+2028 or U+2029 (excluded from the history generators by this rule; exercised by family yaml-unsafe-strings, known finding yaml-block-scalar-leading-whitespace)",
			"the requesting administrator holds every account privilege and is not itself edited by the history (authorisation is C05/C06)",
			"update-user sub-records are well-formed field lists (count + fields)",
		}
		x.Add(&Family{Name: "histories", Quick: 200, Thor: 2000, Run: func(c *Case) { c15History(c, 0) }})
		x.Add(&Family{Name: "rename-chains", Quick: 60, Thor: 500, Run: func(c *Case) { c15History(c, 1) }})
		x.Add(&Family{Name: "long-logins", Quick: 32, Thor: 200, Run: c15LongLogins})
		x.Add(&Family{Name: "yaml-unsafe-strings", Quick: 20, Thor: 100, Run: c15YamlUnsafe})
		x.Add(&Family{Name: "wire-large-fields", Quick: 60, Thor: 600, Run: c15WireHistory})
		x.Add(&Family{Name: "failing-persist", Quick: 60, Thor: 600, Run: c15FailingPersist})
		x.Add(&Family{Name: "binary-restart", Quick: 8, Thor: 48, MaxPar: 4, Run: c15BinaryRestart})
		if only := os.Getenv("VERIF_FAMILY"); only != "" { // development aid: run one family
			var keep []*Family
			for _, f := range x.families {
				if f.Name == only {
					keep = append(keep, f)
				}
			}
			x.families = keep
		}
	}
}

// c15History runs one generated history. mode 1 = rename-heavy.
func c15History(c *Case, mode int) {
	r := c.R
	h, err := newC15Run(c, "accounts-views-disagree")
	if err != nil {
		c.Disagree("testserver", err.Error())
		return
	}
	defer h.ts.Close()
	p := c15NewPool(r)
	for _, l := range p.logins {
		if got := c.AskS("c15legal", hx(l)); got != "true" {
			c.Note("login", hx(l))
			c.Disagree("legal-login-predicate", "generator's legal-login predicate and Lean's LegalLogin differ")
			return
		}
		want := hx(append(append([]byte{}, l...), []byte(".yaml")...))
		if got := c.AskS("c15file", hx(l)); got != want+" "+want {
			c.Note("login", hx(l))
			c.Disagree("file-name", "model file name of a legal login is not login.yaml: "+got)
			return
		}
	}
	n := 20 + r.Intn(21)
	h.check(0)
	for step := 1; step <= n; step++ {
		k := r.Intn(100)
		if mode == 1 {
			switch {
			case k < 20:
				h.stepNewUser(r, p, step)
			case k < 85:
				h.stepUpdateUser(r, p, step)
			case k < 92:
				h.stepDeleteUser(r, p, step)
			default:
				h.stepRestart(step)
			}
		} else {
			switch {
			case k < 22:
				h.stepNewUser(r, p, step)
			case k < 42:
				h.stepSetUser(r, p, step)
			case k < 72:
				h.stepUpdateUser(r, p, step)
			case k < 82:
				h.stepDeleteUser(r, p, step)
			case k < 89:
				h.stepGetUser(r, p, step)
			default:
				h.stepRestart(step)
			}
		}
		h.check(step)
		if step%9 == 0 {
			h.wireLogins(2)
		}
	}
	h.wireLogins(4)
	h.finish()
	c.Dist(fmt.Sprintf("successful-changes/%d", min(h.nMut/5*5, 30)))
	if h.nMut >= 3 {
		c.Nontrivial(strings.Join(h.toks, " "))
	}
	c.Sample(map[string]any{"family": c.Fam, "ops": n, "successful_changes": h.nMut, "logins": len(h.logins), "observations": len(h.impl)})
}

// c15LongLogins: logins whose file name is just below / at / above NAME_MAX (255): create and
// rename must either happen in memory AND on disk or not at all.
func c15LongLogins(c *Case) {
	r := c.R
	h, err := newC15Run(c, "rename-long-login-mem-disk-diverge")
	if err != nil {
		c.Disagree("testserver", err.Error())
		return
	}
	defer h.ts.Close()
	lens := []int{245, 246, 247, 248, 249, 250, 251, 252}
	ln := lens[c.Idx%len(lens)]
	if c.Idx >= 2*len(lens) {
		ln = lens[r.Intn(len(lens))]
	}
	long := []byte(strings.Repeat(string(rune('A'+r.Intn(26))), ln))
	short := []byte("u" + fmt.Sprint(r.Intn(10)))
	p := &c15Pool{logins: [][]byte{short, long, []byte("guest")}, names: [][]byte{[]byte("n1"), []byte("n2")}, pws: [][]byte{{1, 2}, {3}}}
	h.check(0)
	step := 1
	do := func(fs []c15Field, ty hotline.TranType, tok string, label string) string {
		res, _, pn := h.call(mkTran(ty, uint32(step), c15Fields(fs)...))
		o := classify(res, pn)
		h.obs(tok+" "+c15Tok(fs), label, o)
		h.check(step)
		step++
		return o
	}
	h.addPw(short, []byte{1, 2})
	h.addPw(long, []byte{1, 2})
	h.addPw(long, []byte{3})
	do([]c15Field{{105, obf(short)}, {102, []byte("n1")}, {106, []byte{1, 2}}, {110, make([]byte, 8)}}, hotline.TranNewUser, "N", "create short")
	// rename short -> long through update-user
	rec := []c15Field{{101, obf(short)}, {105, obf(long)}, {102, []byte("n2")}, {106, []byte{0}}}
	res, _, pn := h.call(mkTran(hotline.TranUpdateUser, uint32(step), hotline.NewField(hotline.FieldData, c15SubRecord(rec))))
	o := classify(res, pn)
	h.obs("U 1 "+c15Tok(rec), "rename short->long", o)
	c.Dist(fmt.Sprintf("rename-to-%d/%s", ln, o))
	h.check(step)
	step++
	// create the long login directly (fails when it exists or the name is too long)
	do([]c15Field{{105, obf(long)}, {102, []byte("n1")}, {106, []byte{3}}, {110, make([]byte, 8)}}, hotline.TranNewUser, "N", "create long")
	// a few random further operations on the same pool
	for i := 0; i < 6; i++ {
		switch r.Intn(4) {
		case 0:
			h.stepUpdateUser(r, p, step)
		case 1:
			h.stepSetUser(r, p, step)
		case 2:
			h.stepDeleteUser(r, p, step)
		default:
			h.stepRestart(step)
		}
		h.check(step)
		step++
	}
	h.finish()
	c.Nontrivial(strings.Join(h.toks, " "))
}

// c15YamlUnsafe drives the real handlers with strings outside the YAML round-trip assumption and
// reloads through the real constructor (known finding yaml-block-scalar-leading-whitespace).
func c15YamlUnsafe(c *Case) {
	r := c.R
	det := []string{"\tfoo\nbar", "\nx", "\n", " a\nb", " \n", "\t\n"}
	var s []byte
	if c.Idx < len(det) {
		s = []byte(det[c.Idx])
	} else {
		pre := []string{"\n", "\t", " ", " "}[r.Intn(4)]
		s = []byte(pre + string(r.Text(r.Intn(6))) + "\n" + string(r.Text(r.Intn(6))))
	}
	ts, err := newTS(TSOpt{Direct: true, Accounts: []AcctSpec{{Login: "admin", Name: "admin", Password: "adm", Access: allAccess()}}})
	if err != nil {
		c.Disagree("testserver", err.Error())
		return
	}
	defer ts.Close()
	cc, _ := ts.DirectClient("admin", []byte("admin"), "10.0.0.1:1")
	asLogin := c.Idx%3 == 2 && legalLogin(s)
	login, name := []byte("victim"), s
	if asLogin {
		login, name = s, []byte("n")
	}
	res, _, pn := ts.Call(cc, mkTran(hotline.TranNewUser, 1, fld(hotline.FieldUserLogin, obf(login)), fld(hotline.FieldUserName, name),
		fld(hotline.FieldUserPassword, []byte{7}), fld(hotline.FieldUserAccess, make([]byte, 8))))
	c.Note("string", hx(s))
	c.Note("used_as", map[bool]string{true: "login", false: "name"}[asLogin])
	if classify(res, pn) != "done" {
		c.Dist("yaml-unsafe/create-refused")
		return
	}
	c.Nontrivial(string(s))
	am2, err := mobius.NewYAMLAccountManager(ts.Users)
	if err != nil {
		c.Dist("yaml-unsafe/reload-fails")
		c.Note("reload_error", err.Error())
		c.Violation("yaml-block-scalar-leading-whitespace", "an account written through the protocol makes the accounts directory unloadable at the next start: "+err.Error())
		return
	}
	a := am2.Get(string(login))
	if a == nil || a.Name != string(name) {
		c.Dist("yaml-unsafe/value-changed")
		c.Violation("yaml-block-scalar-leading-whitespace", "an account written through the protocol comes back with a different login/name after a restart")
		return
	}
	c.Dist("yaml-unsafe/round-trips")
}
