//go:build c02

package main

// The real ACCEPT LOOPS over real TCP: Server.Serve (control port) and Server.ServeFileTransfers (transfer
// port) on loopback listeners, fresh server per run, the client dialling from its own 127.x.y.z source address
// (per-address rate limiter).  The same client bytes — handshake + login + requests, resp. transfer preamble +
// flattened-file upload — are delivered in scripted TCP segments (TCP_NODELAY, a pause after every write so the
// pieces reach the server's reads separately): all at once; a first segment of 1..3 bytes; a cut inside the
// 12 / 16-byte header; the header alone; one byte at a time through the header; random pieces.
//
// Judge (C02): the canonical observation of the client (handshake reply, multiset of transactions received,
// leftover bytes, whether the server hung up by itself) and of the server (config tree, uploaded files) is
// the same for every delivery.  Pauses only make the segmentation LIKELY to be seen by the server: when the
// machine is slow the pieces coalesce and the runs agree trivially — slowness can hide a defect here, never
// raise an alarm; a run that does not finish within its (huge) waits is skipped, not reported.
// Correspondence: login decision and number of transactions received with Session.run (= AcceptLoop.serve).

import (
	"context"
	"errors"
	"fmt"
	"io"
	"net"
	"os"
	"path/filepath"
	"sort"
	"strings"
	"sync"
	"time"

	"github.com/jhalter/mobius/hotline"
)

const tcpPause = 35 * time.Millisecond

type tcpObs struct {
	Canon   string
	Stalled bool
	Trans   []hotline.Transaction
	Pieces  []int
}

// tcpDial connects from a source address of the case's own (falls back to the default source).
func tcpDial(addr string, src [3]byte) (*net.TCPConn, error) {
	d := net.Dialer{Timeout: 20 * time.Second, LocalAddr: &net.TCPAddr{IP: net.IPv4(127, src[0], src[1], src[2])}}
	c, err := d.Dial("tcp4", addr)
	if err != nil {
		d.LocalAddr = nil
		c, err = d.Dial("tcp4", addr)
		if err != nil {
			return nil, err
		}
	}
	tc := c.(*net.TCPConn)
	tc.SetNoDelay(true)
	return tc, nil
}

// tcpReader collects everything the server sends until it closes the connection.
type tcpReader struct {
	mu   sync.Mutex
	buf  []byte
	done chan struct{}
}

func newTCPReader(c net.Conn) *tcpReader {
	r := &tcpReader{done: make(chan struct{})}
	go func() {
		defer close(r.done)
		b := make([]byte, 32768)
		for {
			n, err := c.Read(b)
			if n > 0 {
				r.mu.Lock()
				r.buf = append(r.buf, b[:n]...)
				r.mu.Unlock()
			}
			if err != nil {
				return
			}
		}
	}()
	return r
}

func (r *tcpReader) Bytes() []byte {
	r.mu.Lock()
	defer r.mu.Unlock()
	return append([]byte{}, r.buf...)
}

func (r *tcpReader) finished() bool {
	select {
	case <-r.done:
		return true
	default:
		return false
	}
}

func piecesOf(data []byte, cuts []int) [][]byte {
	cs := append([]int{}, cuts...)
	sort.Ints(cs)
	var out [][]byte
	prev := 0
	for _, c := range cs {
		if c <= prev || c >= len(data) {
			continue
		}
		out = append(out, data[prev:c])
		prev = c
	}
	return append(out, data[prev:])
}

func sendPieces(c *net.TCPConn, pieces [][]byte) error {
	for i, p := range pieces {
		if len(p) > 0 {
			if _, err := c.Write(p); err != nil {
				return err
			}
		}
		if i < len(pieces)-1 {
			time.Sleep(tcpPause)
		}
	}
	return nil
}

// tcpSegmentations: cut lists for a stream whose fixed header is hdr bytes long.
func tcpSegmentations(r *RNG, n, hdr int) (names []string, cuts [][]int) {
	add := func(name string, c []int) { names = append(names, name); cuts = append(cuts, c) }
	add("all-at-once", nil)
	add("short-first-segment", []int{r.Pick(1, 2, 3)})
	switch r.Intn(4) {
	case 0:
		add("cut-inside-header", []int{4 + r.Intn(max(1, hdr-4))})
	case 1:
		add("header-alone", []int{hdr})
	case 2:
		var c []int
		for i := 1; i <= hdr+1 && i < n; i++ {
			c = append(c, i)
		}
		add("one-byte-through-header", c)
	default:
		add("short-first-then-header-end", []int{r.Pick(1, 2, 3), hdr})
	}
	var c []int
	for k := 0; k < 1+r.Intn(5); k++ {
		if n > 1 {
			c = append(c, 1+r.Intn(n-1))
		}
	}
	add("random-pieces", c)
	return
}

// runTCPSession: one delivery of the session's bytes through the real Serve accept loop on a fresh server.
func runTCPSession(s *sessScript, data []byte, cuts []int, src [3]byte, loggedIn bool, expect int) (tcpObs, error) {
	var o tcpObs
	ts, err := newTS(TSOpt{Accounts: acctSpecs(s.Accts), Board: s.Board, Agreement: s.Agreement})
	if err != nil {
		return o, err
	}
	defer ts.Close()
	os.WriteFile(filepath.Join(ts.Root, "readme.txt"), []byte("hello"), 0644)
	os.MkdirAll(filepath.Join(ts.Root, "Uploads"), 0755)
	before := snapKey(snapshot(ts.Cfg))
	ln, err := net.Listen("tcp4", "127.0.0.1:0")
	if err != nil {
		return o, err
	}
	ctx, cancel := context.WithCancel(context.Background())
	served := make(chan struct{})
	go func() { defer close(served); _ = ts.Srv.Serve(ctx, ln) }()
	defer func() {
		cancel()
		ln.Close()
		select {
		case <-served:
		case <-time.After(5 * time.Second):
		}
	}()
	conn, err := tcpDial(ln.Addr().String(), src)
	if err != nil {
		return o, err
	}
	defer conn.Close()
	rd := newTCPReader(conn)
	pieces := piecesOf(data, cuts)
	for _, p := range pieces {
		o.Pieces = append(o.Pieces, len(p))
	}
	sendErr := sendPieces(conn, pieces)
	hungUp := false
	if sendErr == nil && loggedIn {
		// wait for the replies to everything sent (the server drops queued replies once the client is gone), then hang up
		ok := waitFor(90*time.Second, func() bool { return rd.finished() || countTransactions(rd.Bytes()) >= expect })
		if !ok {
			o.Stalled = true
			return o, nil
		}
		hungUp = rd.finished()
	}
	conn.CloseWrite()
	select {
	case <-rd.done:
	case <-time.After(90 * time.Second):
		o.Stalled = true
		return o, nil
	}
	got := rd.Bytes()
	hs := got
	var rest []byte
	if len(got) >= 8 {
		hs = got[:8]
		o.Trans, rest, _ = splitTransactions(got[8:])
	}
	var keys []string
	for _, t := range o.Trans {
		keys = append(keys, tranKey(t))
	}
	sort.Strings(keys)
	// the handler's deferred clean-up runs after the connection is closed: wait until the client table is empty
	waitFor(20*time.Second, func() bool { return len(ts.Srv.ClientMgr.List()) == 0 })
	after := snapKey(snapshot(ts.Cfg))
	// (whether a late write of the client failed is not part of the observation: a server that has answered and hung up
	// resets the connection under the client's remaining writes — a property of TCP, not of the parsing)
	o.Canon = fmt.Sprintf("hs=%s rest=%s server-hung-up-before-the-replies=%v clients=%d state=%v n=%d\n%s", hx(hs), hx(rest), hungUp,
		len(ts.Srv.ClientMgr.List()), before == after, len(keys), strings.Join(keys, "\n"))
	return o, nil
}

func acceptLoopFamily(c *Case) {
	r := c.R
	if tooManyStalls(c) {
		c.Dist("accept-loop-skipped/after-repeated-stalls")
		return
	}
	var s *sessScript
	for {
		s = genSessionScript(c)
		if s.Kind == "clean" || s.Kind == "wrong-password" || s.Kind == "invalid-handshake" || s.Kind == "truncated-tail" {
			break
		}
	}
	data := s.stream()
	c.Dist("accept-loop-kind/" + s.Kind)
	c.Note("kind", s.Kind)
	c.Note("stream", short(data))
	c.Note("stream_len", len(data))
	src := [3]byte{byte(1 + r.Intn(250)), byte(r.Intn(256)), byte(2 + r.Intn(250))}
	addr := fmt.Sprintf("127.%d.%d.%d:4000", src[0], src[1], src[2])
	m := parseSessModel(askSession(c, "session", addr, 0, 0, s.Accts, nil, chunksOf(data, cutsRandom(r, len(data)), 48)))
	if !m.DispOK || len(m.Disp) > len(s.Reqs) {
		c.Dist("accept-loop-skipped/model")
		return
	}
	expect := 0
	if m.In {
		expect = s.LoginOuts
		for i, d := range m.Disp {
			if d[0] != uint32(s.Reqs[i].Ty) || d[1] != s.Reqs[i].ID {
				c.Dist("accept-loop-skipped/dispatch-not-a-prefix")
				return
			}
			expect += s.Reqs[i].Outs
		}
	}
	names, cuts := tcpSegmentations(r, len(data), 12)
	obs := make([]tcpObs, len(names))
	errs := make([]error, len(names))
	var wg sync.WaitGroup
	for i := range names {
		wg.Add(1)
		go func(i int) {
			defer wg.Done()
			obs[i], errs[i] = runTCPSession(s, data, cuts[i], src, m.In, expect)
		}(i)
	}
	wg.Wait()
	for i := range names {
		if errs[i] != nil {
			c.Note("fixture", errs[i].Error())
			c.Dist("accept-loop-skipped/fixture")
			return
		}
		if obs[i].Stalled {
			stalls.Add(1)
			c.Dist("accept-loop-skipped/stalled")
			return
		}
	}
	for i := 1; i < len(obs); i++ {
		if obs[i].Canon != obs[0].Canon {
			c.Note("delivery_a", names[0])
			c.Note("observation_a", clip(obs[0].Canon))
			c.Note("delivery_b", names[i])
			c.Note("tcp_segments_b", clipInts(obs[i].Pieces))
			c.Note("observation_b", clip(obs[i].Canon))
			c.Violation("accept-loop-segmentation-dependent", fmt.Sprintf("through the real accept loop the same client bytes give different replies/state when delivered %s and %s", names[0], names[i]))
			return
		}
	}
	// agreement with the model (AcceptLoop.serve = Session.run behind the rate-limit gate)
	loginOK := false
	for _, t := range obs[0].Trans {
		if t.IsReply == 1 && u32(t.ID) == s.LoginID && u32(t.ErrorCode) == 0 {
			loginOK = true
		}
	}
	implD := fmt.Sprintf("in=%v", loginOK)
	modelD := fmt.Sprintf("in=%v", m.In)
	if m.In {
		implD += fmt.Sprintf(" total=%d", len(obs[0].Trans))
		modelD += fmt.Sprintf(" total=%d", expect)
	}
	c.Note("observation", clip(obs[0].Canon))
	c.Corr("accept-loop-session", implD, modelD, false)
	if m.In {
		c.Nontrivial(fmt.Sprintf("%x|%v", fnv64(data), cuts))
	}
	c.Sample(map[string]any{"family": "accept-loop-segmentation", "kind": s.Kind, "bytes": len(data), "deliveries": names, "transactions": len(obs[0].Trans)})
}

// ---------------------------------------------------------------- transfer port

func runTCPUpload(name string, body []byte, cuts []int, src [3]byte, preserve bool) (string, []int, bool, error) {
	ts, err := newTS(TSOpt{Accounts: []AcctSpec{{Login: "guest", Name: "g", Password: "", Access: allAccess()}}, PreserveForks: preserve})
	if err != nil {
		return "", nil, false, err
	}
	defer ts.Close()
	cc, err := ts.LoginOK("10.9.8.7:1000", "", "", nil)
	if err != nil {
		return "", nil, false, err
	}
	defer func() { cc.Conn.EOF(); cc.WaitDone(5 * time.Second) }()
	cc.Conn.Feed(encTran(tranOf(203, 77, fld(hotline.FieldFileName, []byte(name)), fld(hotline.FieldTransferSize, be32(len(body))))))
	rep, ok := cc.ReplyTo(77, 20*time.Second)
	if !ok || len(rep.GetField(hotline.FieldRefNum).Data) != 4 {
		return "", nil, false, errors.New("no upload reference number")
	}
	pre := append([]byte("HTXF"), rep.GetField(hotline.FieldRefNum).Data...)
	pre = append(pre, be32(len(body))...)
	pre = append(pre, 0, 0, 0, 0)
	stream := append(pre, body...)
	ln, err := net.Listen("tcp4", "127.0.0.1:0")
	if err != nil {
		return "", nil, false, err
	}
	go func() { _ = ts.Srv.ServeFileTransfers(context.Background(), ln) }()
	defer ln.Close()
	conn, err := tcpDial(ln.Addr().String(), src)
	if err != nil {
		return "", nil, false, err
	}
	defer conn.Close()
	rd := newTCPReader(conn)
	pieces := piecesOf(stream, cuts)
	var sizes []int
	for _, p := range pieces {
		sizes = append(sizes, len(p))
	}
	sendErr := sendPieces(conn, pieces)
	// finished = the file is published under its name, or the server hung up (it does so 3 s after the handler returns)
	final := filepath.Join(ts.Root, name)
	ok = waitFor(90*time.Second, func() bool {
		if _, err := os.Stat(final); err == nil {
			return true
		}
		return rd.finished()
	})
	if !ok {
		return "", sizes, true, nil
	}
	// let a handler that is still writing side files finish: the transfer is deregistered when the handler returns
	var ref [4]byte
	copy(ref[:], rep.GetField(hotline.FieldRefNum).Data)
	waitFor(20*time.Second, func() bool { return ts.Srv.FileTransferMgr.Get(ref) == nil })
	_ = sendErr
	return strings.Join(snapshot(ts.Root), "\n"), sizes, false, nil
}

func transferAcceptLoopFamily(c *Case) {
	r := c.R
	if tooManyStalls(c) {
		c.Dist("transfer-accept-loop-skipped/after-repeated-stalls")
		return
	}
	name := strings.ReplaceAll("tcp-"+r.Name(8)+".bin", " ", "_")
	data := r.Bytes(r.Pick(0, 1, 100, 3000, 40000))
	forks, rsrc := 2, []byte{}
	preserve := r.Chance(40)
	if r.Chance(30) {
		forks, rsrc = 3, r.Bytes(r.Pick(1, 50, 5000))
	}
	info := hotline.NewFlatFileInformationFork(name, [8]byte{0, 0, 0, 0, 0, 0, 0, 1}, "TEXT", "ttxt")
	hdr := c.O.Ask(fmt.Sprintf("ffo %d %s %d", forks, infoArgsC02(&info), len(data)))
	if strings.HasPrefix(hdr, "bad-op") || strings.HasPrefix(hdr, "ORACLE") {
		c.Disagree("oracle-ffo", "oracle could not build the flattened file header")
		return
	}
	body := append(unhx(hdr), data...)
	if forks == 3 {
		body = append(body, unhx(c.O.Ask(fmt.Sprintf("forkhdr %s %d", hx([]byte("MACR")), len(rsrc))))...)
		body = append(body, rsrc...)
	}
	src := [3]byte{byte(1 + r.Intn(250)), byte(r.Intn(256)), byte(2 + r.Intn(250))}
	names, cuts := tcpSegmentations(r, 16+len(body), 16)
	res := make([]string, len(names))
	sizes := make([][]int, len(names))
	stalled := make([]bool, len(names))
	errs := make([]error, len(names))
	var wg sync.WaitGroup
	for i := range names {
		wg.Add(1)
		go func(i int) {
			defer wg.Done()
			res[i], sizes[i], stalled[i], errs[i] = runTCPUpload(name, body, cuts[i], src, preserve)
		}(i)
	}
	wg.Wait()
	for i := range names {
		if errs[i] != nil {
			fixtureLoginFailed(c, errs[i].Error())
			return
		}
		if stalled[i] {
			stalls.Add(1)
			c.Dist("transfer-accept-loop-skipped/stalled")
			return
		}
	}
	c.Note("name", name)
	c.Note("data_len", len(data))
	c.Note("forks", forks)
	for i := 1; i < len(res); i++ {
		if res[i] != res[0] {
			c.Note("delivery_a", names[0])
			c.Note("result_a", clip(res[0]))
			c.Note("delivery_b", names[i])
			c.Note("tcp_segments_b", clipInts(sizes[i]))
			c.Note("result_b", clip(res[i]))
			c.Violation("transfer-accept-loop-segmentation-dependent", fmt.Sprintf("through the real transfer accept loop the same bytes give different files when delivered %s and %s", names[0], names[i]))
			return
		}
	}
	want := fmt.Sprintf("%s F %d %x", name, len(data), fnv64(data))
	if !strings.Contains(res[0], want) {
		c.Note("result", clip(res[0]))
		c.Violation("upload-content", "a file uploaded through the transfer accept loop does not hold exactly the data fork sent")
		return
	}
	c.Nontrivial(fmt.Sprintf("%s|%x|%d|%v", name, fnv64(body), forks, cuts))
	c.Sample(map[string]any{"family": "transfer-accept-loop", "data": len(data), "forks": forks, "deliveries": names})
}

var _ = io.EOF

func init() {
	c02Extra = append(c02Extra, func(x *Ctx) {
		x.Add(&Family{Name: "accept-loop-segmentation", Quick: 28, Thor: 400, MaxPar: 6, Run: acceptLoopFamily})
		x.Add(&Family{Name: "transfer-accept-loop", Quick: 12, Thor: 160, MaxPar: 6, Run: transferAcceptLoopFamily})
	})
}
