//go:build c18

package main

import (
	"fmt"
	"os"
	"strings"

	"github.com/jhalter/mobius/hotline"
	"github.com/jhalter/mobius/internal/mobius"
)

// c18Pool: at most 5 news paths (nested bundles, categories, one that is never created) over 3-4 names.
type c18Pool struct {
	paths   [][][]byte // targets of post / delete / list
	creates []struct {
		parent [][]byte
		name   []byte
		cat    bool
	}
}

func c18NewPool(r *RNG) *c18Pool {
	var names [][]byte
	for len(names) < 5 {
		n := c18Name(r)
		dup := false
		for _, m := range names {
			if string(m) == string(n) {
				dup = true
			}
		}
		if !dup {
			names = append(names, n)
		}
	}
	b1, b2, c1, c2, zz := names[0], names[1], names[2], names[3], names[4]
	p := &c18Pool{}
	add := func(parent [][]byte, name []byte, cat bool) {
		p.creates = append(p.creates, struct {
			parent [][]byte
			name   []byte
			cat    bool
		}{parent, name, cat})
	}
	add(nil, b1, false)
	add([][]byte{b1}, c1, true)
	add([][]byte{b1}, b2, false)
	add([][]byte{b1, b2}, c2, true)
	add(nil, c2, true)
	add([][]byte{zz}, c1, true) // under a path that names nothing: nil map, panics
	p.paths = [][][]byte{{b1, c1}, {b1, b2, c2}, {c2}, {b1, b2}, {b1, zz}}
	if r.Chance(30) {
		p.paths[4] = [][]byte{zz, c1}
	}
	return p
}

func c18History(c *Case) {
	r := c.R
	h, err := newC18Run(c)
	if err != nil {
		c.Disagree("testserver", err.Error())
		return
	}
	defer h.ts.Close()
	p := c18NewPool(r)
	thorough := c.X.Tier == "thorough"
	bigLeft := 1
	if thorough {
		bigLeft = 3
	}
	n := 30 + r.Intn(21)
	// most histories start by creating part of the pool so that posts have somewhere to go
	pre := r.Intn(len(p.creates))
	if r.Chance(75) {
		pre = len(p.creates) - 1 - r.Intn(2)
	}
	for i := 0; i < pre; i++ {
		cr := p.creates[i]
		h.stepCreate(cr.parent, cr.name, cr.cat)
	}
	ids := func(path [][]byte) []uint32 {
		var out []uint32
		it, ok := h.snap()[pathKey(strs(path))]
		if !ok {
			return nil
		}
		for id := range it.arts {
			out = append(out, id)
		}
		// deterministic order
		for i := range out {
			for j := i + 1; j < len(out); j++ {
				if out[j] < out[i] {
					out[i], out[j] = out[j], out[i]
				}
			}
		}
		return out
	}
	for step := 0; step < n; step++ {
		k := r.Intn(100)
		path := p.paths[r.Intn(len(p.paths))]
		if r.Chance(70) {
			path = p.paths[r.Intn(3)] // mostly the paths that usually exist
		}
		// a post / delete aimed at one of the regular paths that does not exist right now: usually build it first
		if k >= 12 && k < 76 && r.Chance(80) {
			snap := h.snap()
			for i := 0; i < 5; i++ {
				cr := p.creates[i]
				full := append(append([][]byte{}, cr.parent...), cr.name)
				if strings.HasPrefix(pathKey(strs(path)), pathKey(strs(full))) {
					if _, ok := snap[pathKey(strs(full))]; !ok {
						h.stepCreate(cr.parent, cr.name, cr.cat)
					}
				}
			}
		}
		switch {
		case k < 12:
			cr := p.creates[r.Intn(len(p.creates))]
			h.stepCreate(cr.parent, cr.name, cr.cat)
		case k < 62: // post / reply
			var parent uint32
			present := ids(path)
			switch r.Intn(10) {
			case 0, 1, 2, 3:
				parent = 0
			case 4, 5, 6, 7:
				if len(present) > 0 {
					parent = present[r.Intn(len(present))]
				}
			case 8: // a parent that was deleted or never existed
				parent = uint32(1 + r.Intn(h.nPost+3))
			default:
				if len(present) > 0 {
					parent = present[len(present)-1] // reply to the newest: prev and parent coincide
				}
			}
			f := idField(r, parent)
			if r.Chance(3) {
				f = []byte{1} // neither 2 nor 4 bytes: the handler answers nothing
			}
			if r.Chance(3) {
				path = nil // empty path: nothing happens
			}
			title := c18Text(r, 255)
			poster := c18Text(r, 255)
			if r.Chance(8) { // a record of more than 512 bytes in the article list
				title = c18Text(r, 255)
				for len(title) < 256 {
					title = append(title, c18Text(r, 255)...)
					title = append(title, 'x')
				}
				title = title[:250+r.Intn(6)]
				poster = append([]byte{}, title[:240+r.Intn(16)]...)
				if c18YamlUnsafe(title) || c18YamlUnsafe(poster) {
					title[0], poster[0] = 'T', 'P'
				}
			}
			h.stepPost(path, parent, f, title, poster, c18Body(r, thorough, &bigLeft))
		case k < 76:
			present := ids(path)
			var id uint32
			if len(present) > 0 && r.Chance(75) {
				id = present[r.Intn(len(present))]
				if r.Chance(35) {
					id = present[len(present)-1] // delete the newest: its id is handed out again
				}
			} else {
				id = uint32(r.Intn(h.nPost + 3))
			}
			h.stepDelArt(path, id, idField(r, id))
		case k < 80:
			h.stepDelItem(path)
		case k < 90:
			if r.Bool() {
				h.stepReload()
			} else {
				h.stepRestart()
			}
			if r.Chance(50) {
				h.sweep(p.paths[:3], false)
			}
		case k < 93:
			h.stepSaveFile()
		case k < 96:
			// the operator puts an older copy of the file back; the running store must take it over as it is
			if h.stepRestoreFile() {
				h.stepReload()
				h.secondStoreKey(p.paths, "reload-merges-with-memory")
			}
		default:
			h.queryArt(path, uint32(r.Intn(h.nPost+2)), false)
			h.queryCats(path[:r.Intn(len(path)+1)])
		}
	}
	h.secondStore(p.paths)
	h.finish()
	c.Dist(fmt.Sprintf("posts-stored/%d", min(h.nPost/5*5, 30)))
	if h.nPost >= 3 && h.nDel >= 1 {
		c.Nontrivial(strings.Join(h.toks, " "))
	}
	c.Sample(map[string]any{"family": c.Fam, "ops": n, "posts_stored": h.nPost, "panics": h.nPanic, "deletes": h.nDel, "observations": len(h.impl)})
}

// c18YamlFinding drives the handlers with strings outside the YAML round-trip assumption and loads
// the file with the real constructor (known findings).
func c18YamlFinding(c *Case) {
	r := c.R
	type cs struct {
		kind string // title | body | name
		s    string
	}
	det := []cs{{"body", "\tfoo\nbar"}, {"title", "\nx"}, {"name", "<<"}, {"title", "\tfoo\nbar"}, {"body", "\n"}, {"name", "\nb"}, {"body", " a\nb"}}
	var t cs
	if c.Idx < len(det) {
		t = det[c.Idx]
	} else {
		pre := []string{"\n", "\t", " ", " "}[r.Intn(4)]
		t = cs{[]string{"title", "body", "name"}[r.Intn(3)], pre + string(r.Text(r.Intn(5))) + "\n" + string(r.Text(r.Intn(5)))}
		if len(t.s) > 200 {
			t.s = t.s[:200]
		}
	}
	h, err := newC18Run(c)
	if err != nil {
		c.Disagree("testserver", err.Error())
		return
	}
	defer h.ts.Close()
	c.Note("string", hx([]byte(t.s)))
	c.Note("used_as", t.kind)
	key := "yaml-block-scalar-leading-whitespace"
	if t.s == "<<" {
		key = "yaml-merge-key-name"
	}
	cat := []byte("cat")
	title, body := []byte("t"), []byte("b")
	switch t.kind {
	case "name":
		cat = []byte(t.s)
	case "title":
		title = []byte(t.s)
	default:
		body = []byte(t.s)
	}
	res, p := h.call(hotline.TranNewNewsCat, fld(hotline.FieldNewsCatName, cat))
	if c18Kind(res, p) != "done" {
		c.Dist("yaml-unsafe/create-refused")
		return
	}
	res, p = h.call(hotline.TranPostNewsArt, fld(hotline.FieldNewsPath, newsPathField([][]byte{cat})), fld(hotline.FieldNewsArtID, []byte{0, 0}),
		fld(hotline.FieldNewsArtTitle, title), fld(hotline.FieldNewsArtData, body))
	if c18Kind(res, p) != "done" {
		c.Dist("yaml-unsafe/post-refused")
		return
	}
	c.Nontrivial(t.kind + t.s)
	s2, err := mobius.NewThreadedNewsYAML(h.file)
	if err != nil {
		c.Dist("yaml-unsafe/" + key + "/reload-fails")
		c.Note("load_error", err.Error())
		c.Violation(key, "news written through the protocol makes ThreadedNews.yaml unloadable at the next start: "+err.Error())
		return
	}
	a := s2.GetArticle([]string{string(cat)}, 1)
	if a == nil || a.Title != string(title) || a.Data != string(body) {
		c.Dist("yaml-unsafe/" + key + "/value-changed")
		c.Violation(key, "an article / category written through the protocol comes back different after a restart")
		return
	}
	c.Dist("yaml-unsafe/round-trips")
}

// c18EmptyReload: create-category -> reload -> post, and post -> delete all -> reload -> post: an empty
// category must survive a reload / restart as a category one can post into.
func c18EmptyReload(c *Case) {
	r := c.R
	h, err := newC18Run(c)
	if err != nil {
		c.Disagree("testserver", err.Error())
		return
	}
	defer h.ts.Close()
	bundle := c18Name(r)
	name := c18Name(r)
	for string(name) == string(bundle) {
		name = c18Name(r)
	}
	path := [][]byte{name}
	if c.Idx%2 == 1 { // nested
		h.stepCreate(nil, bundle, false)
		path = [][]byte{bundle, name}
	}
	h.stepCreate(path[:len(path)-1], name, true)
	variant := (c.Idx / 2) % 3
	n := 0
	if variant > 0 { // fill, then delete everything
		n = 1 + r.Intn(3)
		for i := 0; i < n; i++ {
			h.stepPost(path, 0, idField(r, 0), c18Text(r, 40), c18Text(r, 20), c18Text(r, 60))
		}
		for id := n; id >= 1; id-- {
			k := uint32(id)
			if variant == 2 {
				k = uint32(n - id + 1) // oldest first
			}
			h.stepDelArt(path, k, idField(r, k))
		}
	}
	if c.Idx%4 < 2 {
		h.stepRestart()
	} else {
		h.stepReload()
	}
	c.Dist(fmt.Sprintf("empty-reload/variant-%d", variant))
	title := c18Text(r, 60)
	h.stepPost(path, 0, idField(r, 0), title, c18Text(r, 20), c18Text(r, 100))
	a := h.ts.Srv.ThreadedNewsMgr.GetArticle(strs(path), 1)
	if a == nil || a.Title != string(title) {
		h.viol("post-into-empty-category-fails", "after a reload the article posted into the empty category is not retrievable under id 1")
	}
	h.stepPost(path, 1, idField(r, 1), c18Text(r, 60), c18Text(r, 20), c18Text(r, 100))
	h.secondStore([][][]byte{path})
	h.finish()
	c.Nontrivial(strings.Join(h.toks, " "))
}

// c18ForeignFile: the file is replaced by a copy that lacks a top-level item (and differs elsewhere);
// Load() on the running store must then show exactly what a fresh store loads from that file.
func c18ForeignFile(c *Case) {
	r := c.R
	h, err := newC18Run(c)
	if err != nil {
		c.Disagree("testserver", err.Error())
		return
	}
	defer h.ts.Close()
	var names [][]byte
	for len(names) < 4 {
		n := c18Name(r)
		dup := false
		for _, m := range names {
			dup = dup || string(m) == string(n)
		}
		if !dup {
			names = append(names, n)
		}
	}
	a, b, cN, d := names[0], names[1], names[2], names[3]
	post := func(p [][]byte) {
		h.stepPost(p, 0, idField(r, 0), c18Text(r, 40), c18Text(r, 20), c18Text(r, 80))
	}
	h.stepCreate(nil, a, true)
	post([][]byte{a})
	if r.Bool() {
		h.stepCreate(nil, b, false)
		h.stepCreate([][]byte{b}, cN, true)
		post([][]byte{b, cN})
	}
	h.stepSaveFile() // the copy: has a (and maybe b/c), lacks d
	h.stepCreate(nil, d, r.Bool())
	if r.Bool() {
		post([][]byte{d})
	}
	post([][]byte{a})
	if r.Bool() {
		h.stepDelArt([][]byte{a}, 1, idField(r, 1))
	}
	if r.Chance(40) {
		h.stepDelItem([][]byte{a})
	}
	paths := [][][]byte{{a}, {b, cN}, {d}, {b}}
	h.stepRestoreFile()
	h.stepReload()
	h.secondStoreKey(paths, "reload-merges-with-memory")
	// the next update must write back what was loaded, not what was in memory before
	post([][]byte{a})
	h.secondStoreKey(paths, "reload-merges-with-memory")
	h.finish()
	c.Nontrivial(strings.Join(h.toks, " "))
}

// c18LongThread: one category with 260-330 small articles (ids beyond one byte), some deletes in between.
func c18LongThread(c *Case) {
	r := c.R
	h, err := newC18Run(c)
	if err != nil {
		c.Disagree("testserver", err.Error())
		return
	}
	defer h.ts.Close()
	cat := [][]byte{c18Name(r)}
	h.stepCreate(nil, cat[0], true)
	n := 260 + r.Intn(70)
	for i := 0; i < n; i++ {
		var parent uint32
		if i > 0 && r.Chance(50) {
			parent = uint32(1 + r.Intn(i))
		}
		before := h.nPost
		h.quiet = i%40 != 39 // query the list only now and then
		h.stepPost(cat, parent, idField(r, parent), c18Text(r, 20), c18Text(r, 10), c18Text(r, 30))
		if h.nPost == before && parent == 0 {
			h.viol("post-refused", "a new thread in an existing category was not stored")
		}
		if r.Chance(5) {
			id := uint32(1 + r.Intn(i+1))
			h.stepDelArt(cat, id, idField(r, id))
		}
	}
	h.quiet = false
	h.queryList(cat)
	h.secondStore([][][]byte{cat})
	h.finish()
	c.Nontrivial(strings.Join(h.toks, " "))
	c.Dist("long-thread/articles-" + fmt.Sprint(min(h.nPost/100*100, 300)))
}

// c18Extra: families added by other files of this property (wave d).
var c18Extra []func(x *Ctx)

func init() {
	props["C18"] = func(x *Ctx) {
		defer func() {
			for _, f := range c18Extra {
				f(x)
			}
			if only := os.Getenv("C18_ONLY"); only != "" { // development aid: run a single family
				var keep []*Family
				for _, f := range x.families {
					if f.Name == only {
						keep = append(keep, f)
					}
				}
				x.families = keep
			}
		}()
		x.rule = "histories of 30-50 requests (new bundle 381 / category 382 incl. re-creating an existing name and creating under a path that names nothing, post and reply 410 incl. replies to the newest, to deleted and to never-existing parents and posts to missing categories / empty paths / bad id fields, delete-article 411 incl. the newest and missing categories, delete-item 380, reload) over at most 5 news paths with nested bundles built from 5 names (arbitrary bytes, 0..255 long); titles and posters 0..255 bytes (arbitrary bytes, YAML look-alikes; 8% of posts give a list record over 512 bytes), bodies up to 2000 bytes and up to 65535 bytes (1 per history in quick, 3 in thorough); after every request the touched lists / articles are fetched through get-article 400, list-articles 371, list-categories 370; at the end everything is swept from the store and from a second store loaded from the file. non-trivial = at least 3 articles stored and 1 article or item deleted; distinct = distinct token string of the history (oracle input)"
		x.assume = []string{
			"gopkg.in/yaml.v3 round-trips the tree except strings containing LF that start with LF, TAB, U+2028 or U+2029 and the map key '<<' (excluded from the history generators by this rule; exercised by family yaml-unsafe-strings, known findings yaml-block-scalar-leading-whitespace and yaml-merge-key-name)",
			"news paths are well-formed path fields (DecodeNewsPath on arbitrary bytes is C01's subject); fewer than 2^32-1 articles per category",
			"the requesting client holds every news privilege (authorisation is C05)",
			"the article date is the server clock at the time of the post (taken from the stored article and given to the model as input)",
		}
		x.Add(&Family{Name: "histories", Quick: 2000, Thor: 20000, Run: c18History})
		x.Add(&Family{Name: "empty-category-reload", Quick: 48, Thor: 600, Run: c18EmptyReload})
		x.Add(&Family{Name: "foreign-file-reload", Quick: 40, Thor: 500, Run: c18ForeignFile})
		x.Add(&Family{Name: "long-thread", Quick: 6, Thor: 60, Run: c18LongThread})
		x.Add(&Family{Name: "yaml-unsafe-strings", Quick: 20, Thor: 200, Run: c18YamlFinding})
	}
}
