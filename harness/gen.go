package main

// Shared generators and drain / decode helpers used by several properties.

import (
	"encoding/binary"
	"fmt"
	"io"
	"strings"

	"github.com/jhalter/mobius/hotline"
)

// drainScripted calls r.Read with buffers of the scripted sizes (cycling) until EOF.
// It returns the bytes delivered and a status: "eof", "nonterminating" (call cap exceeded), or "error:<msg>".
func drainScripted(r io.Reader, script []int, expectLen int) ([]byte, string) {
	var out []byte
	capCalls := expectLen + 64
	for i := 0; i < capCalls; i++ {
		sz := script[i%len(script)]
		buf := make([]byte, sz)
		n, err := r.Read(buf)
		out = append(out, buf[:n]...)
		if err == io.EOF {
			return out, "eof"
		}
		if err != nil {
			return out, "error:" + err.Error()
		}
		if len(out) > expectLen+1<<20 {
			return out, "nonterminating"
		}
	}
	return out, "nonterminating"
}

// scripts returns buffer-size scripts appropriate for an object of n bytes.
func scriptsFor(r *RNG, n int) [][]int {
	s := [][]int{{n + 1}, {512}, {1 << 20}}
	if n <= 1500 {
		s = append(s, []int{1}, []int{2, 3}, []int{7})
	} else {
		s = append(s, []int{4096}, []int{32 * 1024}, []int{1000, 37})
	}
	rs := make([]int, 1+r.Intn(5))
	lo := 1
	if n > 1500 {
		lo = 200
	}
	for i := range rs {
		rs[i] = lo + r.Intn(700)
	}
	return append(s, rs)
}

func sizeBias(r *RNG, max int) int {
	switch r.Intn(10) {
	case 0:
		return 0
	case 1:
		return 1
	case 2:
		return r.Pick(255, 256, 13, 14, 31, 32)
	case 3:
		if max >= 65535 {
			return r.Pick(65535, 65532, 65533, 4096, 8192, 32768, 32769)
		}
		return max
	default:
		m := 40
		if r.Chance(20) {
			m = 600
		}
		if m > max {
			m = max
		}
		return r.Intn(m + 1)
	}
}

func genFields(r *RNG, totalCap int) []hotline.Field {
	n := r.Pick(0, 1, 1, 2, 3, 5, 8)
	var fs []hotline.Field
	total := 0
	for i := 0; i < n; i++ {
		l := sizeBias(r, 65535)
		if total+l > totalCap {
			l = r.Intn(20)
		}
		total += l
		var ty [2]byte
		binary.BigEndian.PutUint16(ty[:], uint16(r.Pick(100, 101, 102, 103, 105, 106, 200, 201, 202, 300, 325, r.Intn(65536))))
		fs = append(fs, hotline.NewField(ty, r.Bytes(l)))
	}
	return fs
}

func fieldArgs(fs []hotline.Field) string {
	var sb strings.Builder
	for _, f := range fs {
		fmt.Fprintf(&sb, " %d %s", binary.BigEndian.Uint16(f.Type[:]), hx(f.Data))
	}
	return sb.String()
}

func tranCanon(t *hotline.Transaction) string {
	var sb strings.Builder
	fmt.Fprintf(&sb, "ok %d %d %d %d %d %d", t.Flags, t.IsReply, binary.BigEndian.Uint16(t.Type[:]),
		binary.BigEndian.Uint32(t.ID[:]), binary.BigEndian.Uint32(t.ErrorCode[:]), len(t.Fields))
	for _, f := range t.Fields {
		fmt.Fprintf(&sb, " %d:%s", binary.BigEndian.Uint16(f.Type[:]), hx(f.Data))
	}
	return sb.String()
}

// goTranDecode runs the real Transaction.Write on p (cap == len) and canonicalises the result.
func goTranDecode(p []byte) (res string) {
	defer func() {
		if r := recover(); r != nil {
			res = "panic"
		}
	}()
	q := make([]byte, len(p))
	copy(q, p)
	var t hotline.Transaction
	if _, err := t.Write(q[:len(q):len(q)]); err != nil {
		return "err"
	}
	return tranCanon(&t)
}

func goFieldDecode(p []byte) (res string) {
	defer func() {
		if r := recover(); r != nil {
			res = "panic"
		}
	}()
	q := append([]byte{}, p...)
	var f hotline.Field
	n, err := f.Write(q[:len(q):len(q)])
	if err != nil {
		return "err"
	}
	return fmt.Sprintf("ok %d:%s %d", binary.BigEndian.Uint16(f.Type[:]), hx(f.Data), n)
}

// mutate produces a malformed variant of valid bytes.
func mutate(r *RNG, b []byte) []byte {
	c := append([]byte{}, b...)
	switch r.Intn(7) {
	case 0: // truncate
		if len(c) > 0 {
			c = c[:r.Intn(len(c))]
		}
	case 1: // flip a byte
		if len(c) > 0 {
			c[r.Intn(len(c))] ^= byte(1 << r.Intn(8))
		}
	case 2: // corrupt a 2-byte length-looking field
		if len(c) >= 2 {
			i := r.Intn(len(c) - 1)
			binary.BigEndian.PutUint16(c[i:], uint16(r.Pick(0, 1, 0xffff, len(c), len(c)+1, 253, 255, 65533)))
		}
	case 3: // corrupt a 4-byte size field at the transaction positions
		if len(c) >= 20 {
			binary.BigEndian.PutUint32(c[12:], uint32(r.Pick(0, 1, 2, 0xFFFFFFEC, 0xFFFFFFFF, 0xFFFFFFEE, len(c)-20, len(c)-19, len(c)-21, 70000)))
		}
	case 4: // append garbage
		c = append(c, r.Bytes(1+r.Intn(8))...)
	case 5: // param count
		if len(c) >= 22 {
			binary.BigEndian.PutUint16(c[20:], uint16(r.Pick(0, 1, 2, 3, 0xffff, 100)))
		}
	default:
		c = r.Bytes(r.Intn(64))
	}
	return c
}

// checkEncoder drains a fresh reader (made by mk) under several scripts and compares with the reference layout.
func checkEncoder(c *Case, name string, mk func() io.Reader, ref string) {
	if strings.HasPrefix(ref, "bad-op") || strings.HasPrefix(ref, "ORACLE") {
		c.Note("oracle", ref)
		c.Disagree("oracle-"+name, "oracle could not evaluate the reference layout")
		return
	}
	want := unhx(ref)
	c.Note("object", name)
	c.Note("reference_len", len(want))
	for _, sc := range scriptsFor(c.R, len(want)) {
		got, st := drainScripted(mk(), sc, len(want))
		c.Dist(name + "/" + st)
		if st != "eof" {
			c.Note("script", sc)
			c.Note("got", short(got))
			c.Note("want", short(want))
			c.Violation("encoder-"+st+"-"+name, fmt.Sprintf("%s: draining with buffer sizes %v does not terminate with EOF (%s)", name, sc, st))
			return
		}
		if string(got) != string(want) {
			c.Note("script", sc)
			c.Note("got", short(got))
			c.Note("want", short(want))
			c.Corr("layout-"+name, hx(got), ref, true)
			return
		}
		c.Corr("layout-"+name, "same", "same", true)
	}
}


func be16(n int) []byte { b := make([]byte, 2); binary.BigEndian.PutUint16(b, uint16(n)); return b }
func be32(n int) []byte { b := make([]byte, 4); binary.BigEndian.PutUint32(b, uint32(n)); return b }

func guard(f func() string) (res string) {
	defer func() {
		if r := recover(); r != nil {
			res = "panic"
		}
	}()
	return f()
}

func exact(b []byte) []byte {
	q := make([]byte, len(b))
	copy(q, b)
	return q[:len(q):len(q)]
}

func bytesListCanon(items [][]byte) string {
	var sb strings.Builder
	fmt.Fprintf(&sb, "ok %d", len(items))
	for _, it := range items {
		sb.WriteByte(' ')
		sb.WriteString(hx(it))
	}
	return sb.String()
}

