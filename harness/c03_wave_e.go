//go:build c03

package main

// C03 wave e — hostile sessions that GROW shared state through valid requests and leave.
//
// Every request of the hostile clients is an ordinary, well-formed transaction below the 64 KiB limit of the
// server's transaction scanner: message-board posts of 20–30 KB, threaded-news articles with long titles and
// bodies, logged-in users with long names.  What they leave behind (the message board, the article list of a
// category, an article) is larger than one Hotline field can announce (65535 bytes), in some cases larger than
// two (131071).  After they are gone the well-behaved client reads that state (get-msgs, article list, article,
// user list).  It frames what it receives the way a real client does — by the transaction header's total size —
// and the verdict is the property's: every LATER request of the well-behaved client is still answered
// (sentinel-starved otherwise), the process lives, registry and counters are back to the sentinel alone.
// The reply's header is also compared with the Lean model (GrownState.replyHeader): total = 2 + Σ(4+|data|),
// field prefix = |data| mod 65536.

import (
	"encoding/binary"
	"fmt"
	"net"
	"strings"
	"sync"
	"sync/atomic"
	"time"

	"github.com/jhalter/mobius/hotline"
)

var c03GrownPortCtr int64

// rawReply is one transaction as a header-trusting reader sees it.
type rawReply struct {
	isReply byte
	ty      uint16
	id      uint32
	errCode uint32
	total   int
	nFields int
	raw     []byte // the 20+total bytes
}

// frameClient frames the server's byte stream by the transaction header only (total size), as a real client does.
type frameClient struct {
	c    net.Conn
	mu   sync.Mutex
	buf  []byte
	got  []rawReply
	dead bool
	err  string
}

func newFrameClient(src string, port int, login, pw, name string) (*frameClient, error) {
	c, err := dialFrom(src, port)
	if err != nil {
		return nil, err
	}
	fc := &frameClient{c: c}
	c.Write(clientHandshake)
	hs := make([]byte, 8)
	c.SetReadDeadline(time.Now().Add(8 * time.Second))
	if _, err := readFullConn(c, hs); err != nil {
		c.Close()
		return nil, fmt.Errorf("no handshake reply: %v", err)
	}
	c.SetReadDeadline(time.Time{})
	go fc.reader()
	c.Write(encTran(loginTran(1, login, pw, fld(hotline.FieldUserName, []byte(name)), fld(hotline.FieldUserIconID, []byte{0, 1}))))
	if rep, ok := fc.reply(1, 8*time.Second); !ok || rep.errCode != 0 {
		c.Close()
		return nil, fmt.Errorf("no login reply / login refused")
	}
	return fc, nil
}

func readFullConn(c interface{ Read([]byte) (int, error) }, b []byte) (int, error) {
	n := 0
	for n < len(b) {
		k, err := c.Read(b[n:])
		n += k
		if err != nil {
			return n, err
		}
	}
	return n, nil
}

func (fc *frameClient) reader() {
	b := make([]byte, 1<<16)
	for {
		n, err := fc.c.Read(b)
		fc.mu.Lock()
		fc.buf = append(fc.buf, b[:n]...)
		for len(fc.buf) >= 20 {
			total := int(binary.BigEndian.Uint32(fc.buf[12:16]))
			if len(fc.buf) < 20+total {
				break
			}
			rr := rawReply{isReply: fc.buf[1], ty: binary.BigEndian.Uint16(fc.buf[2:4]), id: binary.BigEndian.Uint32(fc.buf[4:8]),
				errCode: binary.BigEndian.Uint32(fc.buf[8:12]), total: total, raw: append([]byte{}, fc.buf[:20+total]...)}
			if total >= 2 {
				rr.nFields = int(binary.BigEndian.Uint16(fc.buf[20:22]))
			}
			fc.got = append(fc.got, rr)
			fc.buf = fc.buf[20+total:]
		}
		if err != nil {
			fc.dead, fc.err = true, err.Error()
			fc.mu.Unlock()
			return
		}
		fc.mu.Unlock()
	}
}

func (fc *frameClient) reply(id uint32, d time.Duration) (*rawReply, bool) {
	var found *rawReply
	ok := waitFor(d, func() bool {
		fc.mu.Lock()
		defer fc.mu.Unlock()
		for i := range fc.got {
			if fc.got[i].isReply == 1 && fc.got[i].id == id {
				found = &fc.got[i]
				return true
			}
		}
		return fc.dead
	})
	return found, ok && found != nil
}

func (fc *frameClient) request(id uint32, ty hotline.TranType, d time.Duration, fields ...hotline.Field) (*rawReply, bool) {
	fc.c.Write(encTran(mkTran(ty, id, fields...)))
	return fc.reply(id, d)
}

func (fc *frameClient) describe() string {
	fc.mu.Lock()
	defer fc.mu.Unlock()
	s := fmt.Sprintf("dead=%v err=%s pending=%d bytes", fc.dead, fc.err, len(fc.buf))
	if len(fc.buf) >= 20 {
		s += fmt.Sprintf(" (pending header announces %d bytes: %x)", binary.BigEndian.Uint32(fc.buf[12:16]), fc.buf[:20])
	}
	s += " received:"
	for _, t := range fc.got {
		s += fmt.Sprintf(" [type=%d reply=%d id=%d total=%d]", t.ty, t.isReply, t.id, t.total)
	}
	return s
}

// fieldLens walks the fields of a header-framed transaction the way the header's total allows: the LAST field takes
// whatever the header leaves (a field longer than 65535 bytes cannot be delimited by its own 16-bit prefix).
// Returns the data lengths and the 16-bit prefixes; ok=false when the bytes cannot be read as nFields fields.
func (rr *rawReply) fieldLens() (lens []int, prefixes []int, ok bool) {
	if rr.total < 2 {
		return nil, nil, false
	}
	p := rr.raw[22:]
	for i := 0; i < rr.nFields; i++ {
		if len(p) < 4 {
			return nil, nil, false
		}
		pre := int(binary.BigEndian.Uint16(p[2:4]))
		l := pre
		if i == rr.nFields-1 {
			l = len(p) - 4
		}
		if l > len(p)-4 {
			return nil, nil, false
		}
		lens, prefixes = append(lens, l), append(prefixes, pre)
		p = p[4+l:]
	}
	return lens, prefixes, len(p) == 0
}

func c03GrownFamily(c *Case) {
	r := c.R
	var cs *childSrv
	var err error
	for try := 0; try < 6; try++ {
		port := 50000 + int((c.Seed+uint64(atomic.AddInt64(&c03GrownPortCtr, 1))*7919)%9000)&^1
		cs, err = startChild(port)
		if err == nil {
			break
		}
	}
	if cs == nil {
		c.Note("error", fmt.Sprint(err))
		c.Disagree("child-start", "could not start the child server")
		return
	}
	defer cs.stop()
	sentinel, err := newFrameClient("127.200.0.1", cs.port, "admin", "secret", "sentinel")
	if err != nil {
		c.Note("error", err.Error())
		c.Violation("sentinel-login", "a well-behaved client cannot log in to a fresh server")
		return
	}
	defer sentinel.c.Close()

	// ---- the hostile sessions: valid requests that grow shared state, then they leave
	kind := r.Pick(0, 0, 0, 1, 1, 2) // 0 message board, 1 threaded news (titles / bodies), 2 board + news + long user names
	nHost := 1 + r.Intn(3)
	boardPosts := 0
	switch kind {
	case 0:
		boardPosts = r.Pick(1, 2, 3, 4) // the board starts at 39.6 KB: one post passes 65535, three or four pass 131071
	case 2:
		boardPosts = r.Pick(1, 3)
	}
	newsTitles, newsBodies := 0, 0
	if kind >= 1 {
		newsTitles = r.Pick(0, 3, 4, 6)
		newsBodies = r.Pick(1, 2)
		if kind == 2 {
			newsTitles = r.Pick(0, 3)
		}
	}
	c.Note("kind", []string{"board", "news", "board+news+names"}[kind])
	c.Note("hostile_clients", nHost)
	c.Note("board_posts", boardPosts)
	c.Note("news_long_titles", newsTitles)
	var sizes []int
	type req struct {
		ty hotline.TranType
		fs []hotline.Field
	}
	scripts := make([][]req, nHost)
	for i := 0; i < boardPosts; i++ {
		n := 20000 + r.Intn(10001)
		sizes = append(sizes, n)
		body := []byte(strings.Repeat(string(rune('a'+i)), n))
		scripts[i%nHost] = append(scripts[i%nHost], req{hotline.TranOldPostNews, []hotline.Field{fld(hotline.FieldData, body)}})
	}
	for i := 0; i < newsTitles; i++ {
		n := 20000 + r.Intn(10001)
		sizes = append(sizes, n)
		scripts[i%nHost] = append(scripts[i%nHost], req{hotline.TranPostNewsArt, []hotline.Field{
			fld(hotline.FieldNewsPath, encPath("General")), fld(hotline.FieldNewsArtID, []byte{0, 0, 0, 0}),
			fld(hotline.FieldNewsArtTitle, []byte(strings.Repeat("T", n))), fld([2]byte{0x01, 0x4E}, []byte{0, 0, 0, 0}),
			fld(hotline.FieldNewsArtDataFlav, []byte("text/plain")), fld(hotline.FieldNewsArtData, []byte("short body"))}})
	}
	for i := 0; i < newsBodies; i++ {
		n := 20000 + r.Intn(10001)
		sizes = append(sizes, n)
		scripts[i%nHost] = append(scripts[i%nHost], req{hotline.TranPostNewsArt, []hotline.Field{
			fld(hotline.FieldNewsPath, encPath("General")), fld(hotline.FieldNewsArtID, []byte{0, 0, 0, 0}),
			fld(hotline.FieldNewsArtTitle, []byte(fmt.Sprintf("long article %d", i))), fld([2]byte{0x01, 0x4E}, []byte{0, 0, 0, 0}),
			fld(hotline.FieldNewsArtDataFlav, []byte("text/plain")), fld(hotline.FieldNewsArtData, []byte(strings.Repeat("B", n)))}})
	}
	c.Note("request_sizes", sizes)
	var wg sync.WaitGroup
	acked := make([]int, nHost)
	for h := 0; h < nHost; h++ {
		wg.Add(1)
		go func(h int) {
			defer wg.Done()
			name := "grower"
			if kind == 2 {
				name = strings.Repeat("n", []int{200, 1000, 4000}[h%3])
			}
			hc, err := newFrameClient(fmt.Sprintf("127.210.0.%d", 2+h), cs.port, "power", "pw", name)
			if err != nil {
				return
			}
			defer hc.c.Close()
			for i, q := range scripts[h] {
				if rep, ok := hc.request(uint32(100+i), q.ty, 10*time.Second, q.fs...); ok && rep.errCode == 0 {
					acked[h]++
				}
			}
		}(h)
	}
	wg.Wait()
	nAcked := 0
	for _, a := range acked {
		nAcked += a
	}
	c.Note("requests_acknowledged", nAcked)
	c.Evals(len(sizes))
	if !cs.alive() {
		c.Note("stderr", tail(cs.stderr.String(), 800))
		c.Violation("server-process-terminated", "valid requests that grow the shared state terminated the server process")
		return
	}

	// ---- the well-behaved client reads the grown state; every later request must still be answered
	type read struct {
		what string
		ty   hotline.TranType
		fs   []hotline.Field
	}
	reads := []read{
		{"message board (get-msgs)", hotline.TranGetMsgs, nil},
		{"article list of the category", hotline.TranGetNewsArtNameList, []hotline.Field{fld(hotline.FieldNewsPath, encPath("General"))}},
		{"first article", hotline.TranGetNewsArtData, []hotline.Field{fld(hotline.FieldNewsPath, encPath("General")), fld(hotline.FieldNewsArtID, []byte{0, 0, 0, 1}), fld(hotline.FieldNewsArtDataFlav, []byte("text/plain"))}},
		{"category list", hotline.TranGetNewsCatNameList, nil},
		{"user list", hotline.TranGetUserNameList, nil},
	}
	for i := len(reads) - 1; i > 0; i-- {
		j := r.Intn(i + 1)
		reads[i], reads[j] = reads[j], reads[i]
	}
	maxField := 0
	id := uint32(2000)
	for _, rd := range reads {
		id++
		rep, ok := sentinel.request(id, rd.ty, 12*time.Second, rd.fs...)
		if !ok && cs.alive() {
			c.Note("sentinel", sentinel.describe())
			c.Violation("sentinel-starved", "after hostile sessions grew the shared state and left, the well-behaved client's request for the "+rd.what+" got no reply within 12 s")
			return
		}
		if ok {
			// model: the header frames exactly the bytes written, whatever the 16-bit field prefixes say
			if lens, pres, fok := rep.fieldLens(); fok {
				line := fmt.Sprintf("replyheader %d", len(lens))
				impl := fmt.Sprintf("total=%d prefixes=", rep.total)
				for k, l := range lens {
					line += fmt.Sprintf(" %d", l)
					if k > 0 {
						impl += ","
					}
					impl += fmt.Sprint(pres[k])
					if l > maxField {
						maxField = l
					}
				}
				if len(lens) == 0 {
					impl += "-"
				}
				c.Corr("reply-header-vs-model", impl, c.O.Ask(line), false)
			}
		}
		// the follow-up: an ordinary request right after the big reply
		id++
		if _, ok2 := sentinel.request(id, hotline.TranGetUserNameList, 10*time.Second); !ok2 && cs.alive() {
			c.Note("sentinel", sentinel.describe())
			c.Note("after_reading", rd.what)
			c.Violation("sentinel-starved", "after hostile sessions grew the shared state and left, the well-behaved client read the "+rd.what+" and its next request (user list) got no reply within 10 s: the reply it was sent is not framed by its own header")
			return
		}
		if c.failed {
			return
		}
	}
	c.Note("largest_field_received", maxField)
	switch {
	case maxField > 131071:
		c.Dist("grown/field>131071")
	case maxField > 65535:
		c.Dist("grown/field>65535")
	default:
		c.Dist("grown/field<=65535")
	}
	if !cs.alive() {
		c.Note("stderr", tail(cs.stderr.String(), 800))
		c.Violation("server-process-terminated", "reading the grown shared state terminated the server process")
		return
	}
	// a NEW well-behaved client reads the board too
	if fresh, err := newFrameClient("127.200.0.9", cs.port, "admin", "secret", "fresh"); err == nil {
		_, ok1 := fresh.request(10, hotline.TranGetMsgs, 12*time.Second)
		_, ok2 := fresh.request(11, hotline.TranGetUserNameList, 10*time.Second)
		if (!ok1 || !ok2) && cs.alive() {
			c.Note("fresh", fresh.describe())
			fresh.c.Close()
			c.Violation("server-wedged-for-new-clients", "after hostile sessions grew the shared state and left, a new well-behaved client reads the message board and is no longer answered")
			return
		}
		fresh.c.Close()
	} else if cs.alive() {
		c.Note("fresh_client", err.Error())
		c.Violation("server-wedged-for-new-clients", "after hostile sessions grew the shared state and left, a new well-behaved client cannot log in")
		return
	}
	// quiescence: registry and counters are what the sentinel alone accounts for
	ok := waitFor(20*time.Second, func() bool {
		st, err := cs.stats()
		if err != nil {
			return false
		}
		us, _ := st["users"].([]any)
		return len(us) == 1 && fmt.Sprint(st["connected"]) == "1" && fmt.Sprint(st["dl"]) == "0" && fmt.Sprint(st["ul"]) == "0"
	})
	if !ok && cs.alive() {
		st, _ := cs.stats()
		c.Note("stats", st)
		c.Violation("residue-after-hostile-connections", "user list / connection or transfer counters are not back to what the well-behaved clients account for")
		return
	}
	if maxField > 65535 {
		c.Nontrivial(fmt.Sprintf("grown|%d|%d|%v|%d", kind, nHost, sizes, maxField))
	}
	c.Sample(map[string]any{"family": "grown-state", "kind": kind, "hostile_clients": nHost, "request_sizes": sizes, "largest_field_received": maxField})
}
