//go:build c05

package main

// C05, wave d: privileged effects that are decided OUTSIDE the per-handler guard.
//
//   * chat-unissued-id — "a private chat exists" is the effect of bit 11 ('open chat').  The handlers that act on a chat
//     id (join, leave, subject, private send, decline) have no guard of their own: they can only reach a chat that
//     somebody holding bit 11 opened.  Histories of such requests by users WITHOUT bit 11 on an id the server never
//     issued (and, as a control, on a chat opened by a holder), through the real handlers and the real MemChatManager.
//     Judged directly: nothing carrying the unissued id reaches another user, and afterwards no chat exists under it
//     (no members, no subject).  Every step is compared with the Lean model ChatGate.step.
//   * login-name — the 'use any name' privilege at the login transaction itself, through the real
//     handleNewConnection (wire mode): accounts with an empty / non-empty configured Name × with / without bit 26 ×
//     login with / without field 102 × followed or not by TranAgreed / TranSetClientUserInfo naming requests.
//     Judged directly on what the OTHER users see (the user list an observer fetches, every change-user notice it
//     receives): without bit 26 only the account's configured name (or none yet), never the client's; with it the last
//     name asked for.  Compared with the Lean model LoginName.session / announcedAtLogin.

import (
	"bytes"
	"encoding/binary"
	"fmt"
	"sort"
	"strings"
	"time"

	"github.com/jhalter/mobius/hotline"
)

// ---------------------------------------------------------------- chat-unissued-id

func chatIDOf(t hotline.Transaction) []byte { return t.GetField(hotline.FieldChatID).Data }

func runChatGate(c *Case) {
	r := c.R
	// the cast: two users without 'open chat', an opener holding it, a watcher
	mk := func(with11 bool) hotline.AccessBitmap {
		b := maskDefined(randBitmap(r))
		b = withBit(b, 10) // send chat: so that a private send gets past its own guard
		if r.Intn(5) == 0 {
			b = withoutBit(b, 10)
		}
		if with11 {
			return hotline.AccessBitmap(withBit(b, 11))
		}
		return hotline.AccessBitmap(withoutBit(b, 11))
	}
	accA, accB, accO := mk(false), mk(false), mk(true)
	ts, err := newTS(TSOpt{Direct: true, Accounts: []AcctSpec{
		{Login: "a", Name: "a", Password: "", Access: hotline.AccessBitmap(maskDefined(accA))},
		{Login: "b", Name: "b", Password: "", Access: hotline.AccessBitmap(maskDefined(accB))},
		{Login: "o", Name: "o", Password: "", Access: hotline.AccessBitmap(maskDefined(accO))},
	}})
	if err != nil {
		c.Disagree("fixture", "test server could not be built")
		return
	}
	defer ts.Close()
	ua, _ := directClientWith(ts, "a", "10.0.0.1:1", accA)
	ub, _ := directClientWith(ts, "b", "10.0.0.2:1", accB)
	uo, _ := directClientWith(ts, "o", "10.0.0.3:1", accO)
	ts.DirectClient("b", []byte("watcher"), "10.0.0.9:1")
	users := []*hotline.ClientConn{ua, ub, uo}
	ts.TakeOutbox()

	// an id the server never issued
	var X [4]byte
	for X == ([4]byte{}) {
		binary.BigEndian.PutUint32(X[:], uint32(r.U64()))
	}
	issued := [][4]byte{} // chats opened by holders, in order; model number = index+1; X = 1000
	num := func(id []byte) int {
		if bytes.Equal(id, X[:]) {
			return 1000
		}
		for i, y := range issued {
			if bytes.Equal(id, y[:]) {
				return i + 1
			}
		}
		return 999
	}
	var toks, impl []string
	var hist []string
	n := 3 + r.Intn(6)
	for k := 0; k < n; k++ {
		u := users[r.Intn(2)] // a or b: never hold 'open chat'
		id := X[:]
		kind := r.Intn(10)
		if len(issued) > 0 && r.Intn(3) == 0 {
			id = issued[r.Intn(len(issued))][:]
		}
		if k == 0 {
			kind = 0 // the first request is a join of the unissued id
		}
		if k == 1 && r.Intn(2) == 0 {
			u, kind, id = ub, 0, X[:]
		}
		var t hotline.Transaction
		var tok, name string
		switch {
		case kind <= 2:
			t = mkTran(hotline.TranJoinChat, uint32(10+k), fld(hotline.FieldChatID, id))
			tok, name = fmt.Sprintf("J:%d:%d", u16(u.ID), num(id)), "join"
		case kind == 3:
			t = mkTran(hotline.TranSetChatSubject, uint32(10+k), fld(hotline.FieldChatID, id), fld(hotline.FieldChatSubject, []byte("s")))
			tok, name = fmt.Sprintf("S:%d:%d", u16(u.ID), num(id)), "subject"
		case kind == 4 || kind == 5:
			t = mkTran(hotline.TranChatSend, uint32(10+k), fld(hotline.FieldChatID, id), fld(hotline.FieldData, []byte("hello")))
			p := 0
			if bitOf(u.Account.Access, 10) {
				p = 1
			}
			tok, name = fmt.Sprintf("M:%d:%d:%d", u16(u.ID), p, num(id)), "send"
		case kind == 6:
			t = mkTran(hotline.TranLeaveChat, uint32(10+k), fld(hotline.FieldChatID, id))
			tok, name = fmt.Sprintf("L:%d:%d", u16(u.ID), num(id)), "leave"
		case kind == 7:
			t = mkTran(hotline.TranRejectChatInvite, uint32(10+k), fld(hotline.FieldChatID, id))
			tok, name = fmt.Sprintf("D:%d:%d", u16(u.ID), num(id)), "decline"
		default:
			// invite-new: by the opener (a chat comes into being) or by a user without the privilege (refused)
			who := uo
			if kind == 9 {
				who = u
			}
			u = who
			t = mkTran(hotline.TranInviteNewChat, uint32(10+k), fld(hotline.FieldUserID, ua.ID[:]))
			name = "invite-new"
			id = nil
		}
		res, queued, pan := ts.Call(u, t)
		all := append(append([]hotline.Transaction{}, res...), queued...)
		rep, _ := requesterReplies(res, u)
		obs := ""
		switch {
		case pan != nil:
			obs = "panic"
		case len(rep) == 1 && isErrReply(rep[0]) && isPrivilegeDenial(errText(rep[0])):
			obs = "denied"
		default:
			var reached []int
			seen := map[int]bool{}
			for _, x := range all {
				if x.ClientID != u.ID && id != nil && bytes.Equal(chatIDOf(x), id) && !seen[u16(x.ClientID)] {
					seen[u16(x.ClientID)] = true
					reached = append(reached, u16(x.ClientID))
				}
			}
			sort.Ints(reached)
			obs = "ok:-"
			if len(reached) > 0 {
				obs = "ok:" + strings.Trim(strings.Join(strings.Fields(fmt.Sprint(reached)), ","), "[]")
			}
		}
		if name == "invite-new" {
			p := 0
			if bitOf(u.Account.Access, 11) {
				p = 1
			}
			newNum := 998
			if obs != "denied" && obs != "panic" && len(rep) == 1 && len(chatIDOf(rep[0])) == 4 {
				var y [4]byte
				copy(y[:], chatIDOf(rep[0]))
				issued = append(issued, y)
				newNum = len(issued)
				obs = "ok:-"
			}
			tok = fmt.Sprintf("N:%d:%d:%d", u16(u.ID), p, newNum)
			if p == 0 && obs != "denied" {
				c.Note("history", strings.Join(append(hist, name), " "))
				c.Violation("chat-opened-without-open-chat", "an invite-new request by a user without 'open chat' was not refused")
			}
		}
		hist = append(hist, fmt.Sprintf("%s(user %d, chat %d)=%s", name, u16(u.ID), num(id), obs))
		toks, impl = append(toks, tok), append(impl, obs)
		// direct judgement: nothing carrying the never-issued id reaches anybody else
		if id != nil && bytes.Equal(id, X[:]) {
			for _, x := range all {
				if x.ClientID != u.ID && bytes.Equal(chatIDOf(x), X[:]) {
					c.Note("history", strings.Join(hist, " "))
					c.Note("reached", u16(x.ClientID))
					c.Violation("chat-traffic-without-open-chat", fmt.Sprintf("a %s request naming a chat id nobody with 'open chat' ever opened reached another user: a private chat came into being without the privilege", name))
					break
				}
			}
		}
	}
	c.Note("history", strings.Join(hist, " "))
	// afterwards: no chat exists under the never-issued id (the manager's own view; an unknown id makes it panic)
	members, subject := 0, ""
	func() {
		defer func() { recover() }()
		members = len(ts.Srv.ChatMgr.Members(hotline.ChatID(X)))
	}()
	func() {
		defer func() { recover() }()
		subject = ts.Srv.ChatMgr.GetSubject(hotline.ChatID(X))
	}()
	if members > 0 || subject != "" {
		c.Note("members", members)
		c.Note("subject", subject)
		c.Violation("chat-exists-without-open-chat", "after requests by users without 'open chat' a private chat exists (members / subject) under an id no holder of the privilege opened")
	}
	var ids []string
	for i := range issued {
		ids = append(ids, fmt.Sprint(i+1))
	}
	sort.Slice(ids, func(i, j int) bool { return ids[i] > ids[j] }) // the model conses: newest first
	idsStr := "-"
	if len(ids) > 0 {
		idsStr = strings.Join(ids, ",")
	}
	c.Corr("chatgate", strings.Join(impl, " ")+" | "+idsStr, c.AskS("chatgate", toks...), false)
	c.Dist(fmt.Sprintf("chat-unissued-id/ops-%d/opened-%d", n, len(issued)))
	c.Nontrivial("chatgate:" + strings.Join(toks, " "))
}

// ---------------------------------------------------------------- login-name

func userListNames(t *hotline.Transaction) map[int]string {
	m := map[int]string{}
	for _, f := range t.Fields {
		if f.Type == hotline.FieldUsernameWithInfo && len(f.Data) >= 8 {
			n := int(binary.BigEndian.Uint16(f.Data[6:8]))
			if 8+n <= len(f.Data) {
				m[int(binary.BigEndian.Uint16(f.Data[0:2]))] = string(f.Data[8 : 8+n])
			}
		}
	}
	return m
}

// loginWire: handshake + login through the real handleNewConnection; the wait is generous (loaded machines).
func loginWire(ts *TS, addr, login string, extra ...hotline.Field) (*WireClient, bool) {
	wc := ts.Connect(addr, nil)
	wc.Conn.Feed(clientHandshake)
	wc.Conn.Feed(encTran(loginTran(1, login, "", extra...)))
	r, ok := wc.ReplyTo(1, 90*time.Second)
	return wc, ok && r.ErrorCode == [4]byte{}
}

func runLoginName(c *Case) {
	r := c.R
	idx := tableIndex(c, 1<<20)
	acctName := []string{"", "Acct Name", "", "guest"}[idx%4]
	anyName := idx/4%2 == 1
	withField := idx/8%3 != 0
	access := maskDefined(randBitmap(r))
	if idx/24%2 == 0 {
		access = [8]byte{}
	}
	access = withoutBit(access, 23)
	if anyName {
		access = withBit(access, 26)
	} else {
		access = withoutBit(access, 26)
	}
	chosen := []string{"Administrator", "admin", "x", "Acct Name ", "Ünï"}
	pick := func() string { return chosen[r.Intn(len(chosen))] }
	ts, err := newTS(TSOpt{Accounts: []AcctSpec{
		{Login: "u", Name: acctName, Password: "", Access: hotline.AccessBitmap(access)},
		{Login: "w", Name: "watcher", Password: "", Access: bmOf(9)},
	}})
	if err != nil {
		c.Disagree("fixture", "test server could not be built")
		return
	}
	defer ts.Close()
	if a := ts.Acct.Get("u"); a == nil || a.Name != acctName {
		c.Disagree("fixture", "the account was not stored with the wanted name")
		return
	}
	w, okW := loginWire(ts, "10.0.0.8:1", "w", fld(hotline.FieldUserName, []byte("watcher")))
	if !okW {
		c.Disagree("fixture-login", "the observer could not log in")
		return
	}
	defer func() { w.Conn.EOF(); w.WaitDone(10 * time.Second) }()
	var extra []hotline.Field
	loginField := "absent"
	var asked []string
	if withField {
		n := pick()
		extra = append(extra, fld(hotline.FieldUserName, []byte(n)))
		loginField = hx([]byte(n))
		asked = append(asked, n)
	}
	if r.Intn(2) == 0 {
		extra = append(extra, fld(hotline.FieldVersion, []byte{0, 190}))
	}
	if r.Intn(2) == 0 {
		extra = append(extra, fld(hotline.FieldUserIconID, []byte{0, 5}))
	}
	u, okU := loginWire(ts, "10.0.0.7:1", "u", extra...)
	if !okU {
		c.Disagree("fixture-login", "the user could not log in")
		return
	}
	defer func() { u.Conn.EOF(); u.WaitDone(10 * time.Second) }()
	var ucc *hotline.ClientConn
	for _, cl := range ts.Srv.ClientMgr.List() {
		if cl.Account != nil && cl.Account.Login == "u" {
			ucc = cl
		}
	}
	if ucc == nil {
		c.Disagree("fixture-login", "the user is not in the client table after its login reply")
		return
	}
	uid := u16(ucc.ID)
	acctHex := hx([]byte(acctName))
	c.Note("account_name", acctName)
	c.Note("any_name", anyName)
	c.Note("login_field_102", loginField)
	model0 := c.AskS("loginname", acctHex, map[bool]string{true: "1", false: "0"}[anyName], loginField)
	noticesFor := func() []string {
		_, trans, _, _ := w.Received()
		var l []string
		for _, t := range trans {
			if t.Type == hotline.TranNotifyChangeUser && bytes.Equal(t.GetField(hotline.FieldUserID).Data, ucc.ID[:]) {
				l = append(l, string(t.GetField(hotline.FieldUserName).Data))
			}
		}
		return l
	}
	// announced at login? (the notice exists or not — waiting only when the model expects one)
	if strings.HasPrefix(model0, "announced=true") {
		if !waitFor(60*time.Second, func() bool { return len(noticesFor()) > 0 }) {
			c.Disagree("login-announce", "the model expects the login to be announced at once, the observer got no notice")
		}
	} else {
		// the keep-alive round trip below orders the observer's view after the login
	}
	// naming requests after the login
	var evToks []string
	lastAsked := ""
	if withField {
		lastAsked = asked[0]
	}
	named := withField
	id := uint32(2)
	for k := r.Intn(3); k > 0; k-- {
		if r.Intn(2) == 0 {
			fs := []hotline.Field{fld(hotline.FieldUserIconID, []byte{0, 7}), fld(hotline.FieldOptions, []byte{0, 0})}
			if r.Intn(4) != 0 {
				n := pick()
				fs = append(fs, fld(hotline.FieldUserName, []byte(n)))
				evToks = append(evToks, "A:"+hx([]byte(n)))
				asked, lastAsked, named = append(asked, n), n, true
			} else {
				evToks = append(evToks, "A:absent")
			}
			u.Conn.Feed(encTran(mkTran(hotline.TranAgreed, id, fs...)))
			if _, ok := u.ReplyTo(id, 60*time.Second); !ok {
				c.Disagree("fixture", "no reply to agreed")
				return
			}
		} else {
			n := pick()
			u.Conn.Feed(encTran(mkTran(hotline.TranSetClientUserInfo, id, fld(hotline.FieldUserName, []byte(n)), fld(hotline.FieldUserIconID, []byte{0, 9}))))
			evToks = append(evToks, "I:"+hx([]byte(n)))
			asked, lastAsked, named = append(asked, n), n, true
		}
		id++
	}
	// a keep-alive round trip: the connection loop handles one transaction at a time, so everything above is done
	u.Conn.Feed(encTran(mkTran(hotline.TranKeepAlive, 90)))
	if _, ok := u.ReplyTo(90, 60*time.Second); !ok {
		c.Disagree("fixture", "no reply to keep-alive")
		return
	}
	// what the others see: the user list the observer fetches
	w.Conn.Feed(encTran(mkTran(hotline.TranGetUserNameList, 50)))
	lr, ok := w.ReplyTo(50, 60*time.Second)
	if !ok {
		c.Disagree("fixture", "no reply to get-user-name-list")
		return
	}
	shown, listed := userListNames(lr)[uid]
	if !listed {
		c.Disagree("fixture", "the user is not in the user list")
		return
	}
	w.Quiesce(40*time.Millisecond, 3*time.Second)
	notices := noticesFor()
	c.Note("asked", asked)
	c.Note("shown_in_user_list", shown)
	c.Note("notices", notices)
	// the property, directly
	if !anyName {
		seen := append([]string{shown}, notices...)
		for _, s := range seen {
			if s != acctName && s != "" {
				c.Violation("anyname-adopted-at-login", fmt.Sprintf("an account without 'use any name' (configured name %q) is shown to the other users as %q — a name of the client's choosing", acctName, s))
				break
			}
		}
		if !withField && len(evToks) == 0 && shown != "" {
			c.Violation("anyname-unasked-name", "a session that never named itself shows a name")
		}
	} else if named && shown != lastAsked {
		c.Violation("anyname-refused", fmt.Sprintf("an account holding 'use any name' asked for %q and is shown as %q", lastAsked, shown))
	}
	// the model
	args := append([]string{acctHex, map[bool]string{true: "1", false: "0"}[anyName], loginField}, evToks...)
	model := c.AskS("loginname", args...)
	want := "name=" + hx([]byte(shown))
	if i := strings.Index(model, "name="); i < 0 || model[i:] != want {
		c.Note("model", model)
		c.Disagree("login-name-model", "the name the other users see differs from LoginName.session")
	}
	if strings.HasPrefix(model0, "announced=false") && len(evToks) == 0 && len(notices) > 0 {
		c.Note("model", model0)
		c.Disagree("login-announce", "the login was announced although the session has no name yet (model: not announced)")
	}
	c.Dist(fmt.Sprintf("login-name/acct=%q/any=%v/field=%v/events=%d", acctName, anyName, withField, len(evToks)))
	c.Nontrivial(fmt.Sprintf("ln:%s:%v:%s:%s:%s", acctName, anyName, loginField, strings.Join(evToks, ","), bmHex(access)))
}

// ---------------------------------------------------------------- registration

func c05WaveD(x *Ctx) {
	x.rule += " wave d: chat-unissued-id = 3..8 chat requests (join / subject / private send / leave / decline / invite-new) by two users without 'open chat' on a chat id the server never issued and on chats opened by a holder, real MemChatManager, judged: nothing carrying the unissued id reaches another user, no chat exists under it afterwards; every step compared with ChatGate.step. login-name = the real handleNewConnection: account Name {empty, set} × bit 26 × login with / without field 102 × 0..2 agreed / set-client-user-info naming requests; judged on the user list an observer fetches and every change-user notice it got; compared with LoginName.session"
	x.Add(&Family{Name: "chat-unissued-id", Quick: 400, Thor: 8000, Run: runChatGate})
	x.Add(&Family{Name: "login-name", Quick: 96, Thor: 960, Run: runLoginName})
}
