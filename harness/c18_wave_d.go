//go:build c18

package main

// C18, wave d.
//
//  * reload-anywhere: ONE request history is run on two real stores in lock step; on the second the operator
//    reloads (ThreadedNewsYAML.Load — what SIGHUP and /api/v1/reload do) or restarts (a fresh store loaded from the
//    file) at arbitrary points.  Every reply and the whole tree must be the same after every request
//    (`reload-changes-behaviour`): "reloading the news file reproduces the same tree", judged on the implementation's
//    own observations; the history WITH the operator steps is also run on the Lean model.  The model's theorem
//    `reloads_erasable` says exactly this for every history in which no reply names a missing parent; the generator
//    keeps to that hypothesis.
//  * wire-sizes: posts through the wire parser with every field order and bodies around the field scanner's buffer
//    sizes; stored article = article sent.
//  * deployed-binary: the REAL server binary, started the way a deployment starts it (`-init` on every start, `-config`
//    outside the built-in search list, optionally -api-addr), driven over TCP; restarts and API reloads between
//    requests; after every operator step everything posted so far must still be there, and the history is run on the
//    model (`BOOT` / `RI` tokens = Mobius.News.bootInit / restartInit).

import (
	"bufio"
	"bytes"
	"encoding/binary"
	"errors"
	"fmt"
	"io"
	"net"
	"net/http"
	"os"
	"os/exec"
	"path/filepath"
	"runtime/debug"
	"sort"
	"strconv"
	"strings"
	"sync"
	"syscall"
	"time"

	"github.com/jhalter/mobius/hotline"
)

// ---------------------------------------------------------------- masked observations (dates come from the clock)

// c18MaskList zeroes the 8 date bytes of every entry of a list-articles field (hex in, hex out).
func c18MaskList(hexField string) string {
	d := unhx(hexField)
	if len(d) < 10 || d[8] != 0 || d[9] != 0 {
		return hexField
	}
	n := int(binary.BigEndian.Uint32(d[4:8]))
	p := 10
	for i := 0; i < n; i++ {
		if len(d) < p+23 {
			return hexField
		}
		for k := 4; k < 12; k++ {
			d[p+k] = 0
		}
		q := p + 22
		tl := int(d[q])
		q += 1 + tl
		if len(d) < q+1 {
			return hexField
		}
		pl := int(d[q])
		q += 1 + pl
		if len(d) < q+1 {
			return hexField
		}
		fl := int(d[q])
		q += 1 + fl + 2
		if len(d) < q {
			return hexField
		}
		p = q
	}
	return hx(d)
}

func c18MaskObs(label, o string) string {
	if strings.HasPrefix(o, "art ") {
		f := strings.Fields(o)
		if len(f) == 10 {
			f[3] = "_"
			return strings.Join(f, " ")
		}
	}
	if strings.HasPrefix(label, "LA") && o != "panic" && o != "silent" && o != "err" && o != "done" {
		return c18MaskList(o)
	}
	return o
}

// maskedTree: the implementation's whole tree without dates.
func (h *c18Run) maskedTree() string {
	s := h.snap()
	keys := make([]string, 0, len(s))
	for k := range s {
		keys = append(keys, k)
	}
	sort.Strings(keys)
	var sb strings.Builder
	for _, k := range keys {
		it := s[k]
		fmt.Fprintf(&sb, "[%q ty=%x", k, it.ty)
		ids := make([]int, 0, len(it.arts))
		for id := range it.arts {
			ids = append(ids, int(id))
		}
		sort.Ints(ids)
		for _, id := range ids {
			a := it.arts[uint32(id)]
			fmt.Fprintf(&sb, " (%d %q %q %d/%d prev=%d next=%d parent=%d first=%d)", id, a.title, a.poster, len(a.data), cksum([]byte(a.data)), a.prev, a.next, a.parent, a.firstChild)
		}
		sb.WriteString("]")
	}
	return sb.String()
}

// ---------------------------------------------------------------- reload-anywhere

type c18Known struct {
	path [][]byte
	cat  bool
}

func c18ReloadAnywhere(c *Case) {
	r := c.R
	hA, err := newC18Run(c)
	if err != nil {
		c.Disagree("testserver", err.Error())
		return
	}
	defer hA.ts.Close()
	hB, err := newC18Run(c)
	if err != nil {
		c.Disagree("testserver", err.Error())
		return
	}
	defer hB.ts.Close()
	if r.Chance(40) {
		hA.forceWire, hB.forceWire = true, true
	}
	var names [][]byte
	for len(names) < 6 {
		n := c18Name(r)
		dup := false
		for _, m := range names {
			dup = dup || string(m) == string(n)
		}
		if !dup {
			names = append(names, n)
		}
	}
	known := map[string]c18Known{} // every path ever created
	var knownKeys []string
	present := func() (all []c18Known) {
		s := hA.snap()
		for _, k := range knownKeys {
			if _, ok := s[k]; ok {
				all = append(all, known[k])
			}
		}
		return all
	}
	idsOf := func(path [][]byte) []uint32 {
		it, ok := hA.snap()[pathKey(strs(path))]
		if !ok {
			return nil
		}
		var out []uint32
		for id := range it.arts {
			out = append(out, id)
		}
		sort.Slice(out, func(i, j int) bool { return out[i] < out[j] })
		return out
	}
	opsLog := []string{}
	nOperator, nAfterEmpty := 0, 0
	// operator: what happens between two requests on the second server
	operator := func() {
		n := 1 + r.Intn(2)
		for i := 0; i < n; i++ {
			if r.Bool() {
				hB.stepReload()
				opsLog = append(opsLog, "reload")
			} else {
				hB.stepRestart()
				opsLog = append(opsLog, "restart")
			}
			nOperator++
		}
	}
	// both: one request on both servers, then the comparison
	both := func(label string, f func(h *c18Run)) bool {
		a0, b0 := len(hA.impl), len(hB.impl)
		f(hA)
		f(hB)
		opsLog = append(opsLog, label)
		oa, ob := hA.impl[a0:], hB.impl[b0:]
		la := hA.labels[a0:]
		bad := ""
		if len(oa) != len(ob) {
			bad = fmt.Sprintf("%d observations without operator steps, %d with", len(oa), len(ob))
		} else {
			for i := range oa {
				if c18MaskObs(la[i], oa[i]) != c18MaskObs(la[i], ob[i]) {
					bad = fmt.Sprintf("%s answers %s without reloads and %s with", la[i], clip(c18MaskObs(la[i], oa[i])), clip(c18MaskObs(la[i], ob[i])))
					break
				}
			}
		}
		if bad == "" {
			if ta, tb := hA.maskedTree(), hB.maskedTree(); ta != tb {
				bad = "the trees differ after " + label
				c.Note("tree_without_reloads", clip(ta))
				c.Note("tree_with_reloads", clip(tb))
			}
		}
		if bad != "" {
			c.Note("steps", opsLog)
			c.Note("history_with_operator_steps", clip(strings.Join(hB.toks, " ")))
			c.Violation("reload-changes-behaviour", "the same request history behaves differently when the operator reloads / restarts in between: "+bad)
			return false
		}
		return true
	}
	n := 22 + r.Intn(16)
	for step := 0; step < n; step++ {
		if r.Chance(45) {
			operator()
		}
		pres := present()
		k := r.Intn(100)
		if len(pres) == 0 && k >= 30 {
			k = 0
		}
		ok := true
		switch {
		case k < 30: // create — mostly inside something that exists (often: that is still empty), sometimes at the root
			var parent [][]byte
			if len(pres) > 0 && r.Chance(75) {
				parent = pres[r.Intn(len(pres))].path
				if len(parent) >= 4 {
					parent = parent[:1]
				}
			} else if r.Chance(6) {
				parent = [][]byte{[]byte("never-created")}
			}
			name := names[r.Intn(len(names))]
			cat := r.Chance(45)
			full := append(append([][]byte{}, parent...), name)
			if it, there := hA.snap()[pathKey(strs(parent))]; there && len(it.arts) == 0 && nOperator > 0 {
				empty := true
				for kk := range hA.snap() {
					if _, is := childName(kk, strs(parent)); is {
						empty = false
					}
				}
				if empty {
					nAfterEmpty++
					c.Dist("reload-anywhere/create-inside-empty-item")
				}
			}
			ok = both(fmt.Sprintf("create %q", strs(full)), func(h *c18Run) { h.stepCreate(parent, name, cat) })
			kk := pathKey(strs(full))
			if _, seen := known[kk]; !seen {
				knownKeys = append(knownKeys, kk)
			}
			known[kk] = c18Known{full, cat}
		case k < 65: // post / reply (parent 0 or present: the hypothesis of `reloads_erasable`)
			t := pres[r.Intn(len(pres))]
			path := t.path
			if r.Chance(4) {
				path = append(append([][]byte{}, path...), []byte("missing"))
			}
			var parent uint32
			if ids := idsOf(path); len(ids) > 0 && r.Chance(55) {
				parent = ids[r.Intn(len(ids))]
			} else if len(ids) == 0 && nOperator > 0 {
				c.Dist("reload-anywhere/post-into-empty-item")
			}
			f := idField(r, parent)
			title, poster := c18Text(r, 255), c18Text(r, 255)
			big := 0
			body := c18Body(r, false, &big)
			ok = both(fmt.Sprintf("post %q parent %d", strs(path), parent), func(h *c18Run) { h.stepPost(path, parent, f, title, poster, body) })
		case k < 77:
			t := pres[r.Intn(len(pres))]
			ids := idsOf(t.path)
			id := uint32(r.Intn(4))
			if len(ids) > 0 && r.Chance(85) {
				id = ids[r.Intn(len(ids))]
				if r.Chance(40) {
					id = ids[len(ids)-1]
				}
			}
			f := idField(r, id)
			ok = both(fmt.Sprintf("delete-article %q %d", strs(t.path), id), func(h *c18Run) { h.stepDelArt(t.path, id, f) })
		case k < 85:
			t := pres[r.Intn(len(pres))]
			ok = both(fmt.Sprintf("delete-item %q", strs(t.path)), func(h *c18Run) { h.stepDelItem(t.path) })
		default:
			t := pres[r.Intn(len(pres))]
			cut := r.Intn(len(t.path) + 1)
			ok = both(fmt.Sprintf("list %q", strs(t.path)), func(h *c18Run) {
				h.queryCats(t.path[:cut])
				h.queryList(t.path)
			})
		}
		if !ok {
			return
		}
	}
	// at the end: everything, from both
	var all [][][]byte
	for _, k := range knownKeys {
		all = append(all, known[k].path)
	}
	if len(all) > 8 {
		all = all[:8]
	}
	both("final sweep", func(h *c18Run) { h.sweep(all, false) })
	hB.secondStore(all)
	hB.finish()
	hA.finish()
	c.Dist(fmt.Sprintf("reload-anywhere/operator-steps-%d", min(nOperator/5*5, 30)))
	if nOperator >= 3 && hA.nPost >= 2 {
		c.Nontrivial(strings.Join(hB.toks, " "))
	}
	c.Sample(map[string]any{"family": c.Fam, "requests": n, "operator_steps": nOperator, "creates_inside_reloaded_empty_items": nAfterEmpty, "posts_stored": hA.nPost})
}

// ---------------------------------------------------------------- wire-sizes

// c18WireSizes: every request through the wire parser; posts with bodies around the scanner's buffer sizes, in every
// field order, into nested and flat categories; replies to them; the stored article must be the article sent.
func c18WireSizes(c *Case) {
	r := c.R
	h, err := newC18Run(c)
	if err != nil {
		c.Disagree("testserver", err.Error())
		return
	}
	defer h.ts.Close()
	h.forceWire = true
	b, cat := c18Name(r), c18Name(r)
	for string(cat) == string(b) {
		cat = c18Name(r)
	}
	path := [][]byte{cat}
	if r.Bool() {
		h.stepCreate(nil, b, false)
		path = [][]byte{b, cat}
	}
	h.stepCreate(path[:len(path)-1], cat, true)
	sizes := []int{0, 1, 60, 3900, 4000, 4050, 4090, 4095, 4096, 4097, 4200, 5000, 8191, 8192, 8193, 16384, 32767, 32768, 40000, 65000, 65535}
	n := 3 + r.Intn(3)
	bigLeft := 2
	for i := 0; i < n; i++ {
		sz := sizes[r.Intn(len(sizes))]
		if sz > 20000 {
			if bigLeft == 0 {
				sz = 4000 + r.Intn(5000)
			} else {
				bigLeft--
			}
		}
		if sz > 10 && r.Bool() {
			sz -= r.Intn(8)
		}
		body := bytes.Repeat(r.Text(1+r.Intn(60)), sz+1)[:sz]
		if c18YamlUnsafe(body) {
			body[0] = 'x'
		}
		var parent uint32
		if i > 0 && r.Bool() {
			parent = uint32(1 + r.Intn(i))
		}
		title, poster := c18Text(r, 255), c18Text(r, 255)
		c.Dist("wire-sizes/body-" + c18SizeBucket(sz))
		h.stepPost(path, parent, idField(r, parent), title, poster, body)
	}
	if r.Bool() {
		h.stepDelArt(path, 1, idField(r, 1))
	}
	h.secondStore([][][]byte{path})
	h.finish()
	c.Dist(fmt.Sprintf("wire-sizes/parse-differs-%d", min(h.wireDiffers, 3)))
	c.Nontrivial(strings.Join(h.toks, " "))
}

// ---------------------------------------------------------------- the real binary, deployed

var (
	c18BinOnce sync.Once
	c18BinPath string
	c18BinErr  string
)

// c18ServerBinary builds cmd/mobius-hotline-server of the tree under test (the module this harness was built against).
func c18ServerBinary() (string, string) {
	c18BinOnce.Do(func() {
		repo := ""
		if bi, ok := debug.ReadBuildInfo(); ok {
			for _, d := range bi.Deps {
				if d.Path == "github.com/jhalter/mobius" && d.Replace != nil {
					repo = d.Replace.Path
				}
			}
		}
		if repo == "" {
			c18BinErr = "cannot locate the tree under test from the build info"
			return
		}
		dir := filepath.Join("/var/tmp", "mobius-verif-c18-server-bin", sanitize(repo))
		os.MkdirAll(dir, 0755)
		bin := filepath.Join(dir, "server")
		tmp := filepath.Join(dir, fmt.Sprintf("server.build-%d", os.Getpid()))
		cmd := exec.Command("go", "build", "-o", tmp, "./cmd/mobius-hotline-server")
		cmd.Dir = repo
		cmd.Env = append(os.Environ(), "GOFLAGS=-mod=readonly", "GOPROXY=off", "GOSUMDB=off", "GOTOOLCHAIN=local")
		if out, err := cmd.CombinedOutput(); err != nil {
			os.Remove(tmp)
			c18BinErr = "go build of the server failed: " + clip(string(out))
			return
		}
		if err := os.Rename(tmp, bin); err != nil {
			os.Remove(tmp)
			c18BinErr = "cannot install the server binary: " + err.Error()
			return
		}
		c18BinPath = bin
	})
	return c18BinPath, c18BinErr
}

type c18Proc struct {
	cmd  *exec.Cmd
	done chan struct{}
	log  string
	out  *bytes.Buffer
	ip   string
	port int
}

func (p *c18Proc) exited() bool {
	select {
	case <-p.done:
		return true
	default:
		return false
	}
}

// c18FreePorts: three consecutive free loopback ports (hotline, transfers, API).
var (
	c18PortMu   sync.Mutex
	c18PortUsed = map[int]bool{}
)

// c18FreePorts: three consecutive ports free on ip, never handed out twice by this process.
func c18FreePorts(ip string) int {
	c18PortMu.Lock()
	defer c18PortMu.Unlock()
	for try := 0; try < 300; try++ {
		l, err := net.Listen("tcp", ip+":0")
		if err != nil {
			continue
		}
		p := l.Addr().(*net.TCPAddr).Port
		l.Close()
		if p > 65000 || c18PortUsed[p] || c18PortUsed[p+1] || c18PortUsed[p+2] {
			continue
		}
		ok := true
		var ls []net.Listener
		for i := 0; i < 3; i++ {
			li, err := net.Listen("tcp", ip+":"+strconv.Itoa(p+i))
			if err != nil {
				ok = false
				break
			}
			ls = append(ls, li)
		}
		for _, li := range ls {
			li.Close()
		}
		if ok {
			c18PortUsed[p], c18PortUsed[p+1], c18PortUsed[p+2] = true, true, true
			return p
		}
	}
	return 0
}

// c18Start runs the binary.  Readiness is established by the client's own connection attempt (c18Dial retries while
// the port refuses connections and the process lives): a probe connection would use up the per-address rate limit.
func c18Start(bin, cwd string, args []string, ip string, port int, logPath string) (*c18Proc, string) {
	cmd := exec.Command(bin, args...)
	cmd.Dir = cwd
	out := &bytes.Buffer{}
	cmd.Stdout, cmd.Stderr = out, out
	if err := cmd.Start(); err != nil {
		return nil, "cannot start the server binary: " + err.Error()
	}
	p := &c18Proc{cmd: cmd, done: make(chan struct{}), log: logPath, out: out, ip: ip, port: port}
	go func() { cmd.Wait(); close(p.done) }()
	return p, ""
}

func (p *c18Proc) stop() {
	if p == nil {
		return
	}
	p.cmd.Process.Signal(syscall.SIGTERM) // what systemd / docker stop send; main() exits
	select {
	case <-p.done:
	case <-time.After(20 * time.Second):
		p.cmd.Process.Kill()
		<-p.done
	}
}

// c18Net: a client on a real TCP connection.
type c18Net struct {
	conn     net.Conn
	rd       *bufio.Reader
	tid      uint32
	timedOut bool // a reply did not arrive within the (huge) deadline: the case is inconclusive, never a violation
}

func c18Dial(p *c18Proc, userName []byte) (*c18Net, error) {
	var conn net.Conn
	var err error
	deadline := time.Now().Add(120 * time.Second)
	for {
		conn, err = net.DialTimeout("tcp", p.ip+":"+strconv.Itoa(p.port), 20*time.Second)
		if err == nil {
			break
		}
		select {
		case <-p.done:
			b, _ := os.ReadFile(p.log)
			t := string(b)
			if len(t) > 600 {
				t = t[len(t)-600:]
			}
			return nil, fmt.Errorf("the server exited during start-up: %s %s", t, clip(p.out.String()))
		default:
		}
		if time.Now().After(deadline) {
			return nil, fmt.Errorf("the server did not accept a connection within 120 s: %w", err)
		}
		time.Sleep(5 * time.Millisecond)
	}
	n := &c18Net{conn: conn, rd: bufio.NewReaderSize(conn, 1<<16), tid: 1}
	conn.SetDeadline(time.Now().Add(120 * time.Second))
	if _, err := conn.Write(clientHandshake); err != nil {
		conn.Close()
		return nil, err
	}
	hs := make([]byte, 8)
	if _, err := io.ReadFull(n.rd, hs); err != nil {
		conn.Close()
		return nil, fmt.Errorf("handshake reply: %w", err)
	}
	lt := loginTran(1, "admin", "admin", fld(hotline.FieldUserName, userName), fld(hotline.FieldUserIconID, []byte{0, 1}), fld(hotline.FieldVersion, []byte{0, 190}))
	if _, err := conn.Write(c18WireBytes(lt.Type, 1, lt.Fields)); err != nil {
		conn.Close()
		return nil, err
	}
	rep, err := n.replyTo(1)
	if err != nil {
		conn.Close()
		return nil, fmt.Errorf("login: %w", err)
	}
	if rep.ErrorCode != [4]byte{} {
		conn.Close()
		return nil, errors.New("login refused")
	}
	return n, nil
}

func (n *c18Net) replyTo(id uint32) (*hotline.Transaction, error) {
	for {
		n.conn.SetDeadline(time.Now().Add(120 * time.Second))
		head := make([]byte, 20)
		if _, err := io.ReadFull(n.rd, head); err != nil {
			return nil, err
		}
		total := int(binary.BigEndian.Uint32(head[12:16]))
		if total < 2 || total > 1<<24 {
			return nil, fmt.Errorf("implausible transaction size %d", total)
		}
		rest := make([]byte, total)
		if _, err := io.ReadFull(n.rd, rest); err != nil {
			return nil, err
		}
		ts, _, err := splitTransactions(append(head, rest...))
		if err != nil || len(ts) != 1 {
			return nil, fmt.Errorf("unparseable transaction from the server: %v", err)
		}
		if ts[0].IsReply == 1 && binary.BigEndian.Uint32(ts[0].ID[:]) == id {
			return &ts[0], nil
		}
	}
}

// req sends one request (fields in an arbitrary order) and waits for its reply; nil = the connection was lost.
func (n *c18Net) req(r *RNG, ty hotline.TranType, fs ...hotline.Field) *hotline.Transaction {
	n.tid++
	if _, err := n.conn.Write(c18WireBytes(ty, n.tid, c18Permute(r, fs))); err != nil {
		return nil
	}
	rep, err := n.replyTo(n.tid)
	if err != nil {
		var ne net.Error
		if errors.As(err, &ne) && ne.Timeout() {
			n.timedOut = true
		}
		return nil
	}
	return rep
}

type c18DeployedArt struct {
	path [][]byte
	id   uint32
	obs  string // the implementation's own get-article answer when it was posted
}

func c18GetArtObs(rep *hotline.Transaction) string {
	if rep == nil {
		return "lost"
	}
	if rep.ErrorCode != [4]byte{} {
		return "err"
	}
	if len(rep.Fields) == 0 {
		return "none"
	}
	g := func(f [2]byte) []byte { return rep.GetField(f).Data }
	u := func(f [2]byte) uint32 {
		d := g(f)
		if len(d) != 4 {
			return 0xFFFFFFFF
		}
		return binary.BigEndian.Uint32(d)
	}
	return fmt.Sprintf("art %s %s %s %d %d %d %d %d %d", hx(g(hotline.FieldNewsArtTitle)), hx(g(hotline.FieldNewsArtPoster)), hx(g(hotline.FieldNewsArtDate)),
		u(hotline.FieldNewsArtPrevArt), u(hotline.FieldNewsArtNextArt), u(hotline.FieldNewsArtParentArt), u(hotline.FieldNewsArt1stChildArt),
		len(g(hotline.FieldNewsArtData)), cksum(g(hotline.FieldNewsArtData)))
}

func c18CatsObs(rep *hotline.Transaction) string {
	if rep == nil {
		return "lost"
	}
	if rep.ErrorCode != [4]byte{} {
		return "err"
	}
	o := fmt.Sprintf("cats %d", len(rep.Fields))
	for _, f := range rep.Fields {
		o += " " + hx(f.Data)
	}
	return o
}

func c18DeployedBinary(c *Case) {
	r := c.R
	bin, berr := c18ServerBinary()
	if bin == "" {
		c.Disagree("server-binary", berr)
		return
	}
	work, err := os.MkdirTemp("/var/tmp", "mobius-verif-c18-deploy-")
	if err != nil {
		c.Disagree("tempdir", err.Error())
		return
	}
	defer os.RemoveAll(work)
	// the deployment: a config directory that is NOT one of the built-in locations (./config, /usr/local/var/mobius/config,
	// /opt/homebrew/var/mobius/config), given absolutely or relative to the working directory; `-init` on every start
	// (the README's docker line, a unit file) or only on the first
	cfgName := []string{"my-hotline-config", "srv/hotline", "cfg.d", "data/config-live"}[r.Intn(4)]
	cfgAbs := filepath.Join(work, cfgName)
	cfgArg := cfgAbs
	if r.Chance(35) {
		cfgArg = cfgName
	}
	if r.Chance(25) {
		cfgArg += "/"
	}
	os.MkdirAll(filepath.Dir(cfgAbs), 0755)
	initAlways := r.Chance(75)
	useAPI := r.Bool()
	logPath := filepath.Join(work, "server.log")
	c.Note("config_arg", cfgArg)
	c.Note("init_on_every_start", initAlways)
	var proc *c18Proc
	var cl *c18Net
	defer func() {
		if cl != nil {
			cl.conn.Close()
		}
		proc.stop()
	}()
	starts := 0
	userName := []byte("poster " + string(r.Text(1+r.Intn(8))))
	if c18YamlUnsafe(userName) {
		userName = []byte("poster")
	}
	var toks, impl, labels []string
	obs := func(tok, label, o string) {
		toks = append(toks, tok)
		labels = append(labels, label)
		impl = append(impl, o)
	}
	inconclusive := false
	fail := func(key, what string) {
		if inconclusive || (cl != nil && cl.timedOut) {
			// slowness of the machine is not a finding
			inconclusive = true
			c.Dist("deployed/inconclusive-timeout")
			return
		}
		c.Note("history", clip(strings.Join(toks, " ")))
		if b, e := os.ReadFile(logPath); e == nil {
			s := string(b)
			if len(s) > 1500 {
				s = s[len(s)-1500:]
			}
			c.Note("server_log_tail", s)
		}
		c.Violation(key, what)
	}
	port := 0
	// an address of its own for every case: no neighbour (another case, another check on this machine) shares ports or the
	// server's per-address connection rate limit with it
	ip := fmt.Sprintf("127.%d.%d.%d", 10+os.Getpid()%200, 1+int(c.Seed%250), 1+c.Idx%250)
	c.Note("listen_address", ip)
	boot := func() bool {
		if cl != nil {
			cl.conn.Close()
			cl = nil
		}
		proc.stop()
		proc = nil
		// outcome of an attempt: "" = up and logged in; "exited" = the process ended during start-up for a reason other than
		// a taken port (a finding); "refused" = the admin login was refused (a finding); "transient" = anything that can be
		// the machine or a neighbour (port taken meanwhile, reset, time-out): tried again, never a finding
		var perr, kind string
		for try := 0; try < 6 && cl == nil; try++ {
			port = c18FreePorts(ip)
			if port == 0 {
				perr, kind = "no free ports", "transient"
				continue
			}
			args := []string{"-config", cfgArg, "-interface", ip, "-bind", strconv.Itoa(port), "-log-file", logPath, "-log-level", "info"}
			if starts == 0 || initAlways {
				args = append([]string{"-init"}, args...)
			}
			if useAPI {
				args = append(args, "-api-addr", ip+":"+strconv.Itoa(port+2))
			}
			logBefore, _ := os.ReadFile(logPath)
			proc, perr = c18Start(bin, work, args, ip, port, logPath)
			if proc == nil {
				kind = "transient"
				continue
			}
			var derr error
			cl, derr = c18Dial(proc, userName)
			if derr == nil && proc.exited() {
				// whoever answered, it was not the process started here
				cl.conn.Close()
				derr = errors.New("the process started here has exited; another server answered on the port")
			}
			if derr != nil {
				cl = nil
				perr = derr.Error()
				gone := proc.exited()
				proc.stop()
				proc = nil
				logNow, _ := os.ReadFile(logPath)
				tail := string(logNow[min(len(logBefore), len(logNow)):])
				switch {
				case perr == "login refused":
					kind = "refused"
				case gone && !strings.Contains(tail, "address already in use") && !strings.Contains(perr, "address already in use"):
					kind = "exited"
					perr += " | log: " + clip(tail)
				default:
					kind = "transient"
				}
				if kind != "transient" {
					break
				}
			}
		}
		if cl == nil && kind == "transient" {
			inconclusive = true
			c.Note("start_error", perr)
			c.Dist("deployed/inconclusive-start")
			return false
		}
		if cl == nil {
			c.Note("start_error", perr)
			if starts == 0 {
				c.Disagree("server-binary-start", "the server binary did not come up on a fresh directory: "+perr)
			} else {
				fail("restart-fails", "the server does not come up again (or its admin account cannot log in) on the configuration directory it wrote itself: "+perr)
			}
			return false
		}
		starts++
		return true
	}
	if !boot() {
		return
	}
	obs("BOOT", "first start with -init", "done")

	// the reference: what the implementation itself answered when each article was posted / each item created
	var arts []c18DeployedArt
	nextID := map[string]uint32{}
	items := map[string]bool{} // pathKey of created items
	var cats, bundles [][][]byte
	bundles = append(bundles, nil) // the root
	names := map[string]bool{}
	freshName := func() []byte {
		for {
			n := c18Name(r)
			if len(n) > 40 {
				n = n[:40]
			}
			if !names[string(n)] && !c18YamlUnsafe(n) && string(n) != "<<" {
				names[string(n)] = true
				return n
			}
		}
	}
	getArt := func(path [][]byte, id uint32, tok string) string {
		o := c18GetArtObs(cl.req(r, hotline.TranGetNewsArtData, fld(hotline.FieldNewsPath, newsPathField(path)), fld(hotline.FieldNewsArtID, idField(r, id)),
			fld(hotline.FieldNewsArtDataFlav, []byte("text/plain"))))
		obs(fmt.Sprintf("%s %s %s", tok, pathTok(path), hx(be32(int(id)))), fmt.Sprintf("%s %s %d", tok, pathKey(strs(path)), id), o)
		return o
	}
	listCats := func(path [][]byte) string {
		o := c18CatsObs(cl.req(r, hotline.TranGetNewsCatNameList, fld(hotline.FieldNewsPath, newsPathField(path))))
		obs("LC "+pathTok(path), "LC "+pathKey(strs(path)), o)
		return o
	}
	listArts := func(path [][]byte) string {
		rep := cl.req(r, hotline.TranGetNewsArtNameList, fld(hotline.FieldNewsPath, newsPathField(path)))
		o := "lost"
		if rep != nil {
			o = hx(rep.GetField(hotline.FieldNewsArtListData).Data)
		}
		obs("LA "+pathTok(path), "LA "+pathKey(strs(path)), o)
		return o
	}
	create := func(parent [][]byte, cat bool) {
		name := freshName()
		var rep *hotline.Transaction
		tok := "B"
		if cat {
			tok = "C"
			rep = cl.req(r, hotline.TranNewNewsCat, fld(hotline.FieldNewsPath, newsPathField(parent)), fld(hotline.FieldNewsCatName, name))
		} else {
			rep = cl.req(r, hotline.TranNewNewsFldr, fld(hotline.FieldNewsPath, newsPathField(parent)), fld(hotline.FieldFileName, name))
		}
		kind := "done"
		if rep == nil {
			kind = "panic" // the connection's recover drops the client
		}
		full := append(append([][]byte{}, parent...), name)
		obs(fmt.Sprintf("%s %s %s", tok, pathTok(parent), hx(name)), "create "+pathKey(strs(full)), kind)
		if rep == nil {
			fail("create-refused", fmt.Sprintf("create of %q under the existing item %q lost the connection (starts so far: %d)", string(name), strs(parent), starts))
			return
		}
		items[pathKey(strs(full))] = true
		if cat {
			cats = append(cats, full)
		} else {
			bundles = append(bundles, full)
		}
		shown := false
		for i, e := range strings.Fields(listCats(parent)) {
			if i < 2 { // "cats <n>"
				continue
			}
			d := unhx(e)
			off := 4
			if len(d) >= 2 && d[0] == 0 && d[1] == 3 {
				off = 28
			}
			if len(d) > off && len(d) == off+1+int(d[off]) && string(d[off+1:]) == string(name) {
				shown = true
			}
		}
		if !shown {
			fail("create-refused", fmt.Sprintf("after creating %q under %q the category listing does not show it", string(name), strs(parent)))
		}
	}
	sizes := []int{0, 30, 700, 4000, 4096, 5000, 9000}
	bigLeft := 1
	post := func(path [][]byte) {
		pk := pathKey(strs(path))
		var parent uint32
		if nextID[pk] > 0 && r.Bool() {
			parent = 1 + uint32(r.Intn(int(nextID[pk])))
		}
		sz := sizes[r.Intn(len(sizes))]
		title := c18Text(r, 255)
		idf := idField(r, parent)
		if bigLeft > 0 && r.Chance(25) {
			bigLeft--
			// a real connection frames transactions with a bufio.Scanner of 64 KiB: the largest body is the one that
			// makes the whole transaction 65536 bytes (header 20 + count 2 + five fields)
			most := 65536 - 22 - 5*4 - len(newsPathField(path)) - len(idf) - len(title) - len("text/plain")
			sz = r.Pick(32768, most, most-1, 65000)
			if sz > most {
				sz = most
			}
		}
		body := bytes.Repeat(r.Text(1+r.Intn(50)), sz+1)[:sz]
		if c18YamlUnsafe(body) {
			body[0] = 'x'
		}
		rep := cl.req(r, hotline.TranPostNewsArt, fld(hotline.FieldNewsPath, newsPathField(path)), fld(hotline.FieldNewsArtID, idf),
			fld(hotline.FieldNewsArtTitle, title), fld(hotline.FieldNewsArtDataFlav, []byte("text/plain")), fld(hotline.FieldNewsArtData, body))
		kind := "done"
		if rep == nil {
			kind = "panic"
		}
		id := nextID[pk] + 1
		// the implementation's own answer about the new article
		c.Dist("deployed/body-" + c18SizeBucket(sz))
		var date [8]byte
		o := "lost"
		if rep != nil {
			grep := cl.req(r, hotline.TranGetNewsArtData, fld(hotline.FieldNewsPath, newsPathField(path)), fld(hotline.FieldNewsArtID, be32(int(id))),
				fld(hotline.FieldNewsArtDataFlav, []byte("text/plain")))
			o = c18GetArtObs(grep)
			if grep != nil && len(grep.GetField(hotline.FieldNewsArtDate).Data) == 8 {
				copy(date[:], grep.GetField(hotline.FieldNewsArtDate).Data)
			}
			if grep == nil || grep.ErrorCode != [4]byte{} || len(grep.Fields) == 0 {
				fail("post-refused", fmt.Sprintf("a post into the existing category %q (body %d bytes) is not retrievable under the next id %d", strs(path), sz, id))
			} else if pd := grep.GetField(hotline.FieldNewsArtParentArt).Data; !bytes.Equal(grep.GetField(hotline.FieldNewsArtTitle).Data, title) ||
				!bytes.Equal(grep.GetField(hotline.FieldNewsArtData).Data, body) || len(pd) != 4 || binary.BigEndian.Uint32(pd) != parent {
				fail("post-content-altered", fmt.Sprintf("the article stored for a post sent over TCP (body %d bytes, parent %d) differs from what was sent", sz, parent))
			}
		} else {
			fail("post-refused", fmt.Sprintf("a post into the existing category %q (body %d bytes) lost the connection", strs(path), sz))
		}
		poster := userName
		obs(fmt.Sprintf("P %s %s %s %s %s %s", pathTok(path), hx(idf), hx(title), hx(poster), hx(date[:]), hx(body)), fmt.Sprintf("post path=%s parent=%d", pk, parent), kind)
		if rep != nil {
			obs(fmt.Sprintf("GA %s %s", pathTok(path), hx(be32(int(id)))), fmt.Sprintf("GA %s %d", pk, id), o)
			nextID[pk] = id
			arts = append(arts, c18DeployedArt{path, id, o})
		}
	}
	// around an operator step: everything the server itself reports right before it must be reported again after it
	snapshotAll := func() (out []string, what []string) {
		for _, a := range arts {
			out = append(out, getArt(a.path, a.id, "GA"))
			what = append(what, fmt.Sprintf("article %d of %q", a.id, strs(a.path)))
		}
		for _, b := range bundles {
			out = append(out, listCats(b))
			what = append(what, fmt.Sprintf("the category listing of %q", strs(b)))
		}
		for _, p := range cats {
			out = append(out, c18MaskList(listArts(p)))
			what = append(what, fmt.Sprintf("the article list of %q", strs(p)))
		}
		return
	}
	audit := func(what string, before []string) bool {
		after, names := snapshotAll()
		for i := range before {
			if i >= len(after) || before[i] != after[i] {
				c.Note("asked", names[i])
				c.Note("before", clip(before[i]))
				c.Note("after", clip(after[i]))
				fail("restart-loses-news", fmt.Sprintf("after %s (start number %d, -init on every start: %v, -config %s) %s is no longer answered as before", what, starts, initAlways, cfgArg, names[i]))
				return false
			}
		}
		return true
	}
	operator := func() bool {
		before, _ := snapshotAll()
		if useAPI && r.Chance(40) {
			resp, err := (&http.Client{Timeout: 120 * time.Second}).Get("http://" + ip + ":" + strconv.Itoa(port+2) + "/api/v1/reload")
			if err != nil {
				c.Dist("deployed/api-unreachable")
				return true
			}
			io.Copy(io.Discard, resp.Body)
			resp.Body.Close()
			obs("R", "reload through /api/v1/reload", "done")
			c.Dist("deployed/api-reload")
			return audit("a reload through the API", before)
		}
		if !boot() {
			return false
		}
		obs("RI", "restart of the binary", "done")
		c.Dist("deployed/restart")
		return audit("a restart of the real binary", before)
	}
	nOps := 7 + r.Intn(6)
	nOperator := 0
	for i := 0; i < nOps && !c.failed && !inconclusive; i++ {
		k := r.Intn(100)
		switch {
		case len(cats) == 0 || k < 22:
			parent := bundles[r.Intn(len(bundles))]
			create(parent, len(bundles) > 1 && r.Chance(70) || r.Chance(40))
		case k < 70:
			post(cats[r.Intn(len(cats))])
		case k < 80:
			p := cats[r.Intn(len(cats))]
			listArts(p)
		default:
			nOperator++
			if !operator() {
				return
			}
			// ... followed by more requests: into what was empty when the file was read
			if !c.failed && r.Chance(60) {
				var empty [][][]byte
				for _, b := range bundles[1:] {
					has := false
					for kk := range items {
						if _, is := childName(kk, strs(b)); is {
							has = true
						}
					}
					if !has {
						empty = append(empty, b)
					}
				}
				if len(empty) > 0 {
					c.Dist("deployed/create-inside-empty-bundle-after-restart")
					create(empty[r.Intn(len(empty))], r.Bool())
				}
				if c.failed {
					return
				}
				for _, p := range cats {
					if nextID[pathKey(strs(p))] == 0 && r.Bool() {
						c.Dist("deployed/post-into-empty-category-after-restart")
						post(p)
						break
					}
				}
			}
		}
	}
	if !c.failed && !inconclusive && nOperator == 0 {
		nOperator++
		if !operator() {
			return
		}
	}
	if c.failed || inconclusive || (cl != nil && cl.timedOut) {
		return
	}
	for _, p := range cats {
		listArts(p)
	}
	if cl.timedOut {
		return
	}
	// the whole history on the model
	ans := c.O.Ask("c18run " + strings.Join(toks, " "))
	parts := strings.Split(ans, " | ")
	if len(parts) != len(impl) {
		c.Note("oracle", clip(ans))
		c.Disagree("c18-oracle-shape", fmt.Sprintf("oracle returned %d observations for %d", len(parts), len(impl)))
		return
	}
	for i := range parts {
		if parts[i] != impl[i] {
			c.Note("observation", labels[i])
			c.Note("index", i)
		}
		if !c.Corr("news-model-deployed", impl[i], parts[i], false) {
			return
		}
	}
	c.Dist(fmt.Sprintf("deployed/starts-%d", starts))
	if len(arts) >= 2 && starts >= 2 {
		c.Nontrivial(strings.Join(toks, " "))
	}
	c.Sample(map[string]any{"family": c.Fam, "starts": starts, "articles": len(arts), "config_arg": cfgArg, "init_on_every_start": initAlways, "api": useAPI})
}

func init() {
	c18Extra = append(c18Extra, func(x *Ctx) {
		x.rule += "; wave d: every request reaches the code one of three ways (registered handler / handleTransaction on a built Transaction / serialised with the fields in a random order, parsed by the real Transaction.Write, then handleTransaction), 6% of bodies are 4000..12000 bytes; reload-anywhere = one history of 22-37 requests (create mostly inside existing, often still empty items; post/reply to present parents; delete-article; delete-item; lists) on two real stores in lock step, Load() or a freshly loaded store swapped in before 45% of the requests on the second, non-trivial = at least 3 operator steps and 2 stored posts; wire-sizes = 3-5 posts through the wire parser with bodies from {0,1,60,3900..4097,4200,5000,8191..8193,16384,32767,32768,40000,65000,65535}; deployed-binary = the real server binary started with -init and a -config directory outside the built-in search list, 7-12 requests over TCP with restarts of the binary / API reloads in between and further requests after them, non-trivial = at least 2 starts and 2 articles"
		x.assume = append(x.assume,
			"reload-anywhere keeps to the hypothesis of reloads_erasable_partial: no reply names a missing parent (that request panics after the newest article's next link was overwritten in memory only, so a later reload legitimately resets that one link)",
			"over a real TCP connection a transaction must fit the connection scanner's 64 KiB token (C02's hypothesis): deployed-binary sends transactions of at most 65536 bytes; larger posts drop the connection (defect candidate reported in docs/C18.md)",
			"deployed-binary: `go build` of the tree under test, loopback TCP, the template's admin/admin account; dates come from the server clock and are masked when two runs are compared")
		x.Add(&Family{Name: "reload-anywhere", Quick: 200, Thor: 2500, Run: c18ReloadAnywhere})
		x.Add(&Family{Name: "wire-sizes", Quick: 60, Thor: 800, Run: c18WireSizes})
		x.Add(&Family{Name: "deployed-binary", Quick: 12, Thor: 80, Run: c18DeployedBinary, MaxPar: 3})
	})
}
