//go:build c07

package main

// C07 — all filesystem effects stay inside the file root / the accounts directory.
//
// Direct property monitor: the REAL handlers (and the real transfer entry point) run against a
// sandbox that holds the file root plus canary siblings; after every request the recursive
// snapshot of everything OUTSIDE the root (resp. the accounts directory) must be unchanged and no
// canary content may appear in replies or transfer bytes.  Correspondence: hotline.ReadPath,
// filepath.Clean/Join, charmap.Macintosh, folderUpload.FormattedPath and the account file
// locations are compared with the Lean model on the same bytes; on requests whose components the
// OS accepts, reply and tree are also compared with the model's run (fsstep).

import (
	"bytes"
	"encoding/binary"
	"fmt"
	"os"
	"os/exec"
	"path/filepath"
	"regexp"
	"strings"
	"sync"
	"time"

	"github.com/jhalter/mobius/hotline"
)

const c07RootName = "Files"

type c07Box struct {
	ts     *TS
	marker string
}

func c07Info(marker string) []byte {
	return validInfoFork("TEXT", "ttxt", []byte("canary"), []byte(marker))
}

// c07Sandbox plants the canaries around the file root and the accounts directory and a small tree inside the root.
func c07Sandbox(r *RNG, ts *TS) *c07Box {
	b := &c07Box{ts: ts, marker: fmt.Sprintf("CANARY-%x", r.U64())}
	w := func(p string, content string) {
		os.MkdirAll(filepath.Dir(p), 0755)
		os.WriteFile(p, []byte(content), 0644)
	}
	m := b.marker
	cfg := ts.Cfg
	// siblings of the root: exactly the names a fileWrapper of the root itself would compute
	w(filepath.Join(cfg, c07RootName+".incomplete"), m+" incomplete")
	w(filepath.Join(cfg, ".rsrc_"+c07RootName), m+" rsrc")
	os.WriteFile(filepath.Join(cfg, ".info_"+c07RootName), c07Info(m), 0644)
	w(filepath.Join(cfg, "outside.txt"), m+" outside")
	w(filepath.Join(cfg, "Sibling", "secret.txt"), m+" secret")
	w(filepath.Join(cfg, "Sibling", m+".txt"), "a name that only exists outside the root")
	w(filepath.Join(cfg, c07RootName+"2", m+".txt"), "a name that only exists outside the root")
	w(filepath.Join(ts.Users, m+".txt"), "a name that only exists outside the root")
	w(filepath.Join(ts.Dir, m+".txt"), "a name that only exists outside the root")
	w(filepath.Join(cfg, c07RootName+"2", "x.txt"), m+" prefix-sharing sibling")
	w(filepath.Join(cfg, "x.yaml"), m+" yaml next to the accounts dir")
	w(filepath.Join(cfg, "victim.yaml"), m+" victim")
	w(filepath.Join(cfg, "Users.incomplete"), m)
	w(filepath.Join(cfg, "Users.yaml"), m)
	w(filepath.Join(cfg, ".yaml"), m)
	// one level further up
	w(filepath.Join(ts.Dir, "outside.txt"), m+" top")
	w(filepath.Join(ts.Dir, "x.yaml"), m+" top yaml")
	w(filepath.Join(ts.Dir, c07RootName, "decoy.txt"), m+" decoy root one level up")
	w(filepath.Join(ts.Dir, "config.incomplete"), m)
	// inside the root
	w(filepath.Join(ts.Root, "a.txt"), "inside a")
	w(filepath.Join(ts.Root, ".rsrc_a.txt"), "rsrc a")
	w(filepath.Join(ts.Root, "up.bin.incomplete"), "partial")
	w(filepath.Join(ts.Root, "sub", "b.txt"), "inside b")
	w(filepath.Join(ts.Root, "sub", "deep", "c.txt"), "inside c")
	w(filepath.Join(ts.Root, "sub", ".info_b.txt"), string(validInfoFork("TEXT", "ttxt", []byte("b.txt"), []byte("hello"))))
	os.MkdirAll(filepath.Join(ts.Root, "Uploads"), 0755)
	os.MkdirAll(filepath.Join(ts.Root, "dir1", "dir2"), 0755)
	return b
}

// outside renders everything in the sandbox that is not below `keep` (the keep directory itself is included).
func (b *c07Box) outside(keep string) string {
	rel, _ := filepath.Rel(b.ts.Dir, keep)
	var out []string
	for _, l := range snapshot(b.ts.Dir) {
		if strings.HasPrefix(l, rel+"/") {
			continue
		}
		out = append(out, l)
	}
	return strings.Join(out, "\n")
}

func diffLines(a, b string) []string {
	am := map[string]bool{}
	for _, l := range strings.Split(a, "\n") {
		am[l] = true
	}
	bm := map[string]bool{}
	for _, l := range strings.Split(b, "\n") {
		bm[l] = true
	}
	var d []string
	for l := range am {
		if !bm[l] {
			d = append(d, "- "+l)
		}
	}
	for l := range bm {
		if !am[l] {
			d = append(d, "+ "+l)
		}
	}
	return d
}

var c07Known = []string{"a.txt", "sub", "b.txt", "deep", "c.txt", "Uploads", "dir1", "dir2", "up.bin", "up.bin.incomplete"}

// hostile draws one byte string for a path item / name / new name / login.
func (b *c07Box) hostile(r *RNG) []byte {
	rn := c07RootName
	switch r.Intn(34) {
	case 0, 1, 2, 3, 4, 5, 6:
		return []byte(c07Known[r.Intn(len(c07Known))])
	case 7, 8, 9:
		return []byte("..")
	case 10:
		return []byte(".")
	case 11:
		return []byte{}
	case 12:
		return []byte(r.Pick2("/", "//", "../..", "../../..", "a/../../..", "..//..", "/..", "../", "./..", "sub/../../.."))
	case 13:
		return []byte(r.Pick2("../"+rn+".incomplete", "../.rsrc_"+rn, "../.info_"+rn, "../outside.txt", "../Sibling/secret.txt",
			"../"+rn+"2/x.txt", "../"+rn, "../Users/admin.yaml", "../x.yaml", "../victim", "../../outside.txt", "../../x"))
	case 14:
		return []byte(r.Pick2(b.ts.Cfg+"/outside.txt", b.ts.Dir+"/outside.txt", "/etc/hostname", b.ts.Cfg, b.ts.Root, b.ts.Users+"/admin.yaml", "/"))
	case 15:
		return []byte(r.Pick2("..\x00", "a\x00/../..", "\x00", "..\x00/x", "\x00.."))
	case 16:
		return bytes.Repeat([]byte(r.Pick2("a", ".", "\x8e")), r.Pick(255, 254, 128, 200))
	case 17:
		return append([]byte("../"), bytes.Repeat([]byte("b"), 250)...)
	case 18:
		return []byte(r.Pick2("\x8e\x8e", "..\x8e", "\xc9", "\xc9\xc9", "\xda..\xda", "..\xdax", "\xda", "\xff\xfe", "\xae\xae"))
	case 19:
		return []byte(r.Pick2(". .", "...", ".. ", " ..", "..\\", "..%2f", "....", ".\\.", "..;"))
	case 20:
		return []byte(rn)
	case 21:
		return []byte(r.Pick2(rn+".incomplete", ".rsrc_"+rn, ".info_"+rn, ".."+rn, "../"+rn+"/a.txt"))
	case 22:
		return []byte(r.Pick2("new.txt", "fresh", "x y", "n\x8e.txt", "up.bin", "newdir"))
	case 23:
		return r.Text(r.Intn(12))
	default:
		// compositions: some `..` then something
		n := 1 + r.Intn(4)
		s := strings.Repeat("../", n)
		return []byte(s + r.Pick2("outside.txt", "x.yaml", rn+".incomplete", "Sibling", "evil", rn+"/a.txt", ""))
	}
}

func (r *RNG) Pick2(xs ...string) string { return xs[r.Intn(len(xs))] }

// hostilePF draws a FilePath field: well-formed with hostile items, or with length-prefix mismatches.
func (b *c07Box) hostilePF(r *RNG) ([]byte, bool) {
	if r.Chance(15) {
		return nil, false
	}
	var items [][]byte
	for i, n := 0, r.Pick(0, 1, 1, 1, 2, 2, 3, 4); i < n; i++ {
		it := b.hostile(r)
		if len(it) > 255 {
			it = it[:255]
		}
		items = append(items, it)
	}
	pf := encItems(items)
	switch r.Intn(12) {
	case 0: // count larger / smaller than the items
		binary.BigEndian.PutUint16(pf, uint16(r.Pick(len(items)+1, 0, 1, 0xffff, len(items)+2)))
	case 1: // a length byte that lies
		if len(pf) > 4 {
			pf[4] = byte(r.Pick(0, 1, 255, int(pf[4])+1, int(pf[4])-1, 2))
		}
	case 2: // truncated
		if len(pf) > 0 {
			pf = pf[:r.Intn(len(pf))]
		}
	case 3: // trailing garbage
		pf = append(pf, r.Bytes(1+r.Intn(5))...)
	}
	return pf, true
}

var c07Kinds = []string{"list", "info", "setinfo", "delete", "move", "newfolder", "alias", "download", "upload", "dlfolder", "upfolder"}

var c07Chains = [][]string{{}, {}, {"sub"}, {"sub", "deep"}, {"dir1"}, {"dir1", "dir2"}, {"Uploads"}}
var c07NamesIn = map[string][]string{"": {"a.txt", "sub", "dir1", "Uploads", "up.bin"}, "sub": {"b.txt", "deep"}, "sub/deep": {"c.txt"},
	"dir1": {"dir2"}, "dir1/dir2": {"x"}, "Uploads": {"x"}}

func benignPF(r *RNG) ([]byte, bool, string) {
	ch := c07Chains[r.Intn(len(c07Chains))]
	if len(ch) == 0 && r.Bool() {
		return nil, false, ""
	}
	var items [][]byte
	for _, s := range ch {
		items = append(items, []byte(s))
	}
	return encItems(items), true, strings.Join(ch, "/")
}

// hostileReq: one third fully hostile; otherwise an existing folder with a hostile name / new name / destination,
// or a hostile path with an existing name, so that requests get past the lookups and have effects.
func (b *c07Box) hostileReq(r *RNG) fileReq {
	q := fileReq{Kind: c07Kinds[r.Intn(len(c07Kinds))]}
	mode := r.Intn(3)
	q.PF, q.HasPF = b.hostilePF(r)
	q.Name = b.hostile(r)
	if mode >= 1 {
		var key string
		q.PF, q.HasPF, key = benignPF(r)
		if mode == 2 || r.Chance(40) {
			ns := c07NamesIn[key]
			q.Name = []byte(ns[r.Intn(len(ns))])
		}
	}
	switch q.Kind {
	case "move", "alias":
		q.NewPF, q.HasNewPF = b.hostilePF(r)
		if mode == 1 && r.Bool() {
			q.NewPF, q.HasNewPF, _ = benignPF(r)
		}
	case "setinfo":
		if r.Chance(70) {
			q.NewName, q.HasNewName = b.hostile(r), true
		}
		if r.Chance(40) {
			q.Comment, q.HasComment = r.Text(r.Intn(10)), true
		}
	case "upload":
		q.Resume = r.Bool()
	}
	return q
}

// osAccepts reports whether every component of the decoded path fits a Linux file name (no NUL, at most 255 bytes).
func osAccepts(p string) bool {
	if strings.ContainsRune(p, 0) {
		return false
	}
	for _, c := range strings.Split(p, "/") {
		if len(c) > 255 {
			return false
		}
	}
	return true
}

// modelable: the request's paths exist for the OS the way they exist for the model.
func (b *c07Box) modelable(q fileReq, pre []string) bool {
	for _, t := range pre {
		if strings.Contains(t, ":L:") {
			return false // aliases in the tree: a hostile path may go through one
		}
		if strings.HasSuffix(t, ":D") {
			// a DIRECTORY named .rsrc_<x> is counted as a resource fork of <x> with its inode size (4096 here)
			if i := strings.LastIndex(string(unhx(strings.TrimSuffix(t, ":D"))), "/"); strings.HasPrefix(string(unhx(strings.TrimSuffix(t, ":D")))[i+1:], ".rsrc_") {
				return false
			}
		}
	}
	if q.Kind == "dlfolder" || q.Kind == "upfolder" {
		return false
	}
	chk := func(pf []byte, has bool, name []byte) bool {
		if !has {
			pf = nil
		}
		var full string
		err := error(nil)
		func() {
			defer func() {
				if recover() != nil {
					full = ""
				}
			}()
			full, err = hotline.ReadPath("/R", pf, name)
		}()
		return err != nil || osAccepts(full)
	}
	ok := chk(q.PF, q.HasPF, q.Name) && chk(q.PF, q.HasPF, nil)
	if q.HasNewPF || q.Kind == "move" || q.Kind == "alias" {
		ok = ok && chk(q.NewPF, q.HasNewPF, q.Name) && chk(q.NewPF, q.HasNewPF, nil)
	}
	if q.HasNewName {
		ok = ok && chk(q.PF, q.HasPF, q.NewName) && osAccepts(macDec(q.NewName))
		// side-file names derived from the new name
		if len(filepath.Base(filepath.Join("/", macDec(q.NewName)))) > 255-11 {
			ok = false
		}
	}
	// side files of the target: name + ".incomplete" must fit as well
	if full, err := hotline.ReadPath("/R", pfOrNil7(q), q.Name); err == nil && len(filepath.Base(full)) > 255-11 {
		ok = false
	}
	return ok
}

func pfOrNil7(q fileReq) []byte {
	if !q.HasPF {
		return nil
	}
	return q.PF
}

func replyBytes(res []hotline.Transaction) []byte {
	var b []byte
	for _, t := range res {
		for _, f := range t.Fields {
			b = append(b, f.Data...)
			b = append(b, 0)
		}
	}
	return b
}

var c07Ignore = regexp.MustCompile(`^[.@]`)

// c07Run is one sandbox with a direct client; Do runs one request under all monitors.
type c07Run struct {
	c      *Case
	ts     *TS
	box    *c07Box
	cc     *hotline.ClientConn
	before string
	trace  []string
	n      int
}

// applyRootForm configures the file root the way an operator may write it: clean, with a trailing slash, or as a
// per-account root with a `.` component / doubled separator.  The tree on disk is the same; only the STRING differs.
func applyRootForm(ts *TS, cc *hotline.ClientConn, form int) string {
	switch form % 4 {
	case 1:
		ts.Srv.Config.FileRoot = ts.Root + "/"
		return "config root with trailing slash"
	case 2:
		cc.Account.FileRoot = filepath.Dir(ts.Root) + "/./" + filepath.Base(ts.Root)
		return "account root with /./"
	case 3:
		cc.Account.FileRoot = filepath.Dir(ts.Root) + "//" + filepath.Base(ts.Root) + "/"
		return "account root with // and trailing slash"
	}
	return "clean config root"
}

// aliasesOutside lists every symlink below root whose target — resolved the way the OS resolves it, relative targets
// against the link's own folder — is not the root or below it.
func aliasesOutside(root string) []string {
	var bad []string
	filepath.Walk(root, func(p string, info os.FileInfo, err error) error {
		if err != nil || info.Mode()&os.ModeSymlink == 0 {
			return nil
		}
		tgt, err := os.Readlink(p)
		if err != nil {
			return nil
		}
		if !filepath.IsAbs(tgt) {
			tgt = filepath.Join(filepath.Dir(p), tgt)
		}
		tgt = filepath.Clean(tgt)
		if tgt != root && !strings.HasPrefix(tgt, root+"/") {
			bad = append(bad, p+" -> "+tgt)
		}
		return nil
	})
	return bad
}

func newC07Run(c *Case, forks bool) *c07Run { return newC07RunForm(c, forks, c.R.Intn(4)) }

func newC07RunForm(c *Case, forks bool, form int) *c07Run {
	ts, err := newTS(TSOpt{Direct: true, PreserveForks: forks,
		Accounts: []AcctSpec{{Login: "admin", Name: "admin", Password: "", Access: allAccess()}}})
	if err != nil {
		c.Disagree("fixture", "cannot build the test server: "+err.Error())
		return nil
	}
	h := &c07Run{c: c, ts: ts}
	h.box = c07Sandbox(c.R, ts)
	h.cc, _ = ts.DirectClient("admin", []byte("admin"), "127.0.0.1:1")
	rf := applyRootForm(ts, h.cc, form)
	c.Note("root_form", rf)
	c.Dist("root-form/" + rf)
	h.before = h.box.outside(ts.Root)
	return h
}

// Do runs q on the real handler; false = a violation or disagreement was recorded (stop the case).
func (h *c07Run) Do(q fileReq) bool {
	c, ts, box := h.c, h.ts, h.box
	h.n++
	pre, okPre := treeTokens(ts.Root)
	res, _, pan := ts.Call(h.cc, q.tran(uint32(h.n)))
	reply := canonReply(q.Kind, res, pan)
	h.trace = append(h.trace, q.String()+" => "+clipN7(reply, 120))
	c.Dist("req/" + q.Kind + "/" + strings.SplitN(reply, " ", 2)[0])
	after := box.outside(ts.Root)
	if after != h.before {
		c.Note("request", q.String())
		c.Note("reply", clipN7(reply, 300))
		c.Note("outside_diff", diffLines(h.before, after))
		c.Note("history", h.trace)
		c.Violation("escape-"+q.Kind, "a "+q.Kind+" request changed something outside the file root")
		return false
	}
	if bytes.Contains(replyBytes(res), []byte(box.marker)) {
		c.Note("request", q.String())
		c.Note("reply", clipN7(reply, 400))
		c.Note("history", h.trace)
		c.Violation("disclose-"+q.Kind, "the reply to a "+q.Kind+" request contains bytes of a file outside the file root")
		return false
	}
	if li, err := os.Lstat(ts.Root); err != nil || !li.IsDir() {
		c.Note("request", q.String())
		c.Violation("root-gone-"+q.Kind, "the file root itself was removed or replaced")
		return false
	}
	// every alias inside the root must resolve inside the root — after EVERY request, not only after make-alias:
	// a move or rename must not re-anchor an alias
	if bad := aliasesOutside(ts.Root); len(bad) > 0 {
		c.Note("request", q.String())
		c.Note("aliases_resolving_outside_the_root", bad)
		c.Note("history", h.trace)
		c.Violation("alias-points-outside-"+q.Kind, "after a "+q.Kind+" request an alias inside the file root resolves to a path outside it")
		return false
	}
	c.Nontrivial(q.Kind + "|" + optTok(q.PF, q.HasPF) + "|" + hx(q.Name) + "|" + optTok(q.NewPF, q.HasNewPF) + "|" + optTok(q.NewName, q.HasNewName))
	// correspondence with the model's run on the same pre-state, when the OS sees the paths the model sees
	post, okPost := treeTokens(ts.Root)
	if okPre && okPost && box.modelable(q, pre) {
		ans := c.O.Ask(fmt.Sprintf("fsstep p2e,p40 %d %s %s", len(pre), strings.Join(pre, " "), q.oracleArgs()))
		mreply, mtree, mok := splitOracleStep(ans)
		if !mok {
			c.Note("oracle", clipN7(ans, 300))
			c.Disagree("oracle-fsstep", "oracle could not evaluate the step")
			return false
		}
		if q.Kind == "info" || q.Kind == "download" || q.Kind == "upload" {
			if full, err := hotline.ReadPath(ts.Root, pfOrNil7(q), q.Name); err == nil {
				isDir := func(p string) bool { fi, err := os.Stat(p); return err == nil && fi.IsDir() }
				if isDir(full) || isDir(full+".incomplete") {
					reply, mreply = maskSizes7(reply), maskSizes7(mreply)
				}
			}
		}
		if mreply != reply || strings.Join(mtree, " ") != strings.Join(sortedCopy(post), " ") {
			c.Note("request", q.String())
			c.Note("history", h.trace)
			c.Note("impl_reply", clipN7(reply, 500))
			c.Note("model_reply", clipN7(mreply, 500))
			c.Note("impl_only", diffTok(sortedCopy(post), mtree))
			c.Note("model_only", diffTok(mtree, sortedCopy(post)))
			c.Corr("fsstep-"+q.Kind, reply+" | tree", mreply+" | tree'", false)
			return false
		}
		c.Corr("fsstep-"+q.Kind, "same", "same", false)
	} else {
		c.Dist("not-modelled")
	}
	return true
}

func c07Canary(c *Case) {
	r := c.R
	h := newC07Run(c, r.Bool())
	if h == nil {
		return
	}
	defer h.ts.Close()
	for i := 0; i < 40; i++ {
		if !h.Do(h.box.hostileReq(r)) {
			return
		}
	}
	c.Sample(map[string]any{"family": "handlers-canary", "last": h.trace[len(h.trace)-1]})
}

// c07AliasSeq: sequences of ORDINARY requests around aliases: make an alias at some depth, move / rename it to another
// depth, then work THROUGH it (list, new folder, upload request, delete, info, download, comment).  The root holds folders
// named like the entries next to the root, so that an alias re-anchored by a move would resolve to something real.
func c07AliasSeq(c *Case) {
	r := c.R
	h := newC07Run(c, r.Bool())
	if h == nil {
		return
	}
	defer h.ts.Close()
	c07AliasSeqRun(h, r, false)
	c.Sample(map[string]any{"family": "alias-sequences", "last": h.trace[len(h.trace)-1]})
}

func c07AliasSeqRun(h *c07Run, r *RNG, fixed bool) bool {
	ts := h.ts
	outsideNames := []string{"Users", "Sibling", c07RootName + "2", c07RootName, "config"}
	for _, n := range outsideNames {
		os.MkdirAll(filepath.Join(ts.Root, n), 0755)
		os.WriteFile(filepath.Join(ts.Root, n, "inside.txt"), []byte("inside "+n), 0644)
	}
	os.MkdirAll(filepath.Join(ts.Root, "a", "b", "c"), 0755)
	os.MkdirAll(filepath.Join(ts.Root, "p", "q"), 0755)
	h.before = h.box.outside(ts.Root)
	chains := [][]string{{}, {"a"}, {"a", "b"}, {"a", "b", "c"}, {"p"}, {"p", "q"}, {"sub"}, {"sub", "deep"}}
	enc := func(ch []string) ([]byte, bool) {
		if len(ch) == 0 {
			return nil, false
		}
		var it [][]byte
		for _, x := range ch {
			it = append(it, []byte(x))
		}
		return encItems(it), true
	}
	rounds := 5
	if fixed {
		rounds = 4
	}
	for k := 0; k < rounds; k++ {
		name := outsideNames[r.Intn(len(outsideNames))]
		at := chains[2+r.Intn(2)] // depth >= 2
		to := chains[r.Intn(len(chains))]
		if fixed {
			name = outsideNames[k]
			at, to = []string{"a", "b"}, []string{"a"}
			if k%2 == 1 {
				at, to = []string{"a", "b", "c"}, []string{"p"}
			}
		}
		apf, ahas := enc(at)
		tpf, thas := enc(to)
		steps := []fileReq{
			{Kind: "alias", Name: []byte(name), NewPF: apf, HasNewPF: ahas},                       // root/name -> at/name
			{Kind: "move", PF: apf, HasPF: ahas, Name: []byte(name), NewPF: tpf, HasNewPF: thas}, // move the alias to another depth
		}
		if !fixed && r.Chance(30) { // or rename it in place first
			steps = append(steps[:1], append([]fileReq{{Kind: "setinfo", PF: apf, HasPF: ahas, Name: []byte(name), NewName: []byte(name + "-r"), HasNewName: true}}, steps[1:]...)...)
		}
		through := append(append([]string{}, to...), name)
		gpf, ghas := enc(through)
		steps = append(steps,
			fileReq{Kind: "list", PF: gpf, HasPF: ghas},
			fileReq{Kind: "info", PF: tpf, HasPF: thas, Name: []byte(name)},
			fileReq{Kind: "newfolder", PF: gpf, HasPF: ghas, Name: []byte("made-through-alias")},
			fileReq{Kind: "upload", PF: gpf, HasPF: ghas, Name: []byte("up.bin")},
			fileReq{Kind: "download", PF: gpf, HasPF: ghas, Name: []byte("secret.txt")},
			fileReq{Kind: "setinfo", PF: gpf, HasPF: ghas, Name: []byte("secret.txt"), Comment: []byte("c"), HasComment: true},
			fileReq{Kind: "delete", PF: gpf, HasPF: ghas, Name: []byte("secret.txt")},
			fileReq{Kind: "dlfolder", PF: tpf, HasPF: thas, Name: []byte(name)},
			fileReq{Kind: "delete", PF: tpf, HasPF: thas, Name: []byte(name)}, // finally remove the alias itself
		)
		for _, q := range steps {
			if !h.Do(q) {
				return false
			}
		}
	}
	return true
}

// c07Regressions replays the inputs on which the code failed before the fix: commits (kept as a fixed corpus).
func c07Regressions(c *Case) {
	for form := 0; form < 4; form++ {
		if !c07RegressionsForm(c, form) {
			return
		}
	}
	// aliases made at one depth and moved to another, then used as folders
	if h := newC07RunForm(c, true, 0); h != nil {
		ok := c07AliasSeqRun(h, c.R, true)
		h.ts.Close()
		if !ok {
			return
		}
	}
	c07RegressionsRest(c)
}

func c07RegressionsForm(c *Case, form int) bool {
	h := newC07RunForm(c, true, form)
	if h == nil {
		return false
	}
	defer h.ts.Close()
	sub := encItems([][]byte{[]byte("sub")})
	reqs := []fileReq{
		// ecdb1a7: requests that name nothing addressed the root (and its side files next to it)
		{Kind: "info"}, {Kind: "info", PF: []byte{0, 0}, HasPF: true},
		{Kind: "download"},
		{Kind: "setinfo", Comment: []byte("c"), HasComment: true},
		{Kind: "setinfo", NewName: []byte("moved"), HasNewName: true},
		{Kind: "move", NewPF: sub, HasNewPF: true},
		{Kind: "move", NewPF: encItems([][]byte{[]byte("..")}), HasNewPF: true},
		{Kind: "delete"},
		{Kind: "delete", PF: encItems([][]byte{[]byte("sub"), []byte("..")}), HasPF: true, Name: []byte(".")},
		// 43697ad: a file rename with a path as the new name
		{Kind: "setinfo", Name: []byte("a.txt"), NewName: []byte("../escaped.txt"), HasNewName: true},
		{Kind: "setinfo", PF: sub, HasPF: true, Name: []byte("b.txt"), NewName: []byte("../../escaped.txt"), HasNewName: true},
		{Kind: "setinfo", PF: sub, HasPF: true, Name: []byte("b.txt"), NewName: []byte(h.ts.Cfg + "/escaped.txt"), HasNewName: true},
		// the classic ones, which ReadPath always stopped
		{Kind: "delete", Name: []byte("../outside.txt")},
		{Kind: "delete", PF: encItems([][]byte{[]byte(".."), []byte("..")}), HasPF: true, Name: []byte("outside.txt")},
		{Kind: "newfolder", Name: []byte("../made")},
		{Kind: "alias", Name: []byte("a.txt"), NewPF: encItems([][]byte{[]byte("..")}), HasNewPF: true},
		{Kind: "move", Name: []byte("a.txt"), NewPF: encItems([][]byte{[]byte(".."), []byte("Sibling")}), HasNewPF: true},
		{Kind: "upload", Resume: true},
		{Kind: "list", PF: encItems([][]byte{[]byte("..")}), HasPF: true},
		{Kind: "dlfolder", Name: []byte("..")},
	}
	// names and paths that clean to nothing address the root as well
	for _, nm := range []string{".", "..", "/", "./.", "../.."} {
		reqs = append(reqs, fileReq{Kind: "delete", Name: []byte(nm)}, fileReq{Kind: "setinfo", Name: []byte(nm), Comment: []byte("c"), HasComment: true},
			fileReq{Kind: "info", Name: []byte(nm)}, fileReq{Kind: "move", Name: []byte(nm), NewPF: sub, HasNewPF: true})
	}
	for _, q := range reqs {
		if !h.Do(q) {
			return false
		}
	}
	return true
}

func c07RegressionsRest(c *Case) {
	// cab4779 (and its siblings): account rename / create / delete with a path as the login
	func() {
		ts, err := newTS(TSOpt{Direct: true, Accounts: []AcctSpec{{Login: "admin", Name: "admin", Password: "", Access: allAccess()},
			{Login: "bob", Name: "bob", Password: "", Access: guestAccess()}}})
		if err != nil {
			return
		}
		defer ts.Close()
		box := c07Sandbox(c.R, ts)
		cc, _ := ts.DirectClient("admin", []byte("admin"), "127.0.0.1:1")
		before := box.outside(ts.Users)
		acc := cc.Account.Access
		ren := func(old, nl string) hotline.Transaction {
			return mkTran(hotline.TranUpdateUser, 1, fld(hotline.FieldData, subFields(
				fld(hotline.FieldData, obf([]byte(old))), fld(hotline.FieldUserLogin, obf([]byte(nl))), fld(hotline.FieldUserName, []byte("n")),
				fld(hotline.FieldUserPassword, []byte{0}), fld(hotline.FieldUserAccess, acc[:]))))
		}
		newUser := func(l string) hotline.Transaction {
			return mkTran(hotline.TranNewUser, 2, fld(hotline.FieldUserLogin, obf([]byte(l))), fld(hotline.FieldUserName, []byte("n")),
				fld(hotline.FieldUserPassword, []byte("pw")), fld(hotline.FieldUserAccess, acc[:]))
		}
		upCreate := func(l string) hotline.Transaction {
			return mkTran(hotline.TranUpdateUser, 2, fld(hotline.FieldData, subFields(
				fld(hotline.FieldUserLogin, obf([]byte(l))), fld(hotline.FieldUserName, []byte("n")),
				fld(hotline.FieldUserPassword, []byte("pw")), fld(hotline.FieldUserAccess, acc[:]))))
		}
		delUser := func(l string) hotline.Transaction {
			return mkTran(hotline.TranDeleteUser, 3, fld(hotline.FieldUserLogin, obf([]byte(l))))
		}
		upDelete := func(l string) hotline.Transaction {
			return mkTran(hotline.TranUpdateUser, 3, fld(hotline.FieldData, subFields(fld(hotline.FieldData, obf([]byte(l))))))
		}
		// canaries exactly where these logins would land if joined to Users/ without being anchored below "/"
		for _, p := range []string{filepath.Join(ts.Cfg, "config.yaml"), filepath.Join(ts.Cfg, "b.yaml"), filepath.Join(ts.Cfg, "c.yaml"),
			filepath.Join(ts.Cfg, "created.yaml"), filepath.Join(ts.Cfg, "escaped.yaml"), filepath.Join(ts.Dir, "escaped2.yaml"), filepath.Join(ts.Cfg, "..yaml")} {
			os.WriteFile(p, []byte(box.marker+" unanchored account path"), 0644)
		}
		before = box.outside(ts.Users)
		for i, t := range []hotline.Transaction{
			// create, then delete / rename THE SAME login (a Delete that trusts "the account exists" and joins the raw login)
			newUser("../config"), delUser("../config"),
			upCreate("../../x"), upDelete("../../x"),
			newUser("a/../../b"), ren("a/../../b", "../c"), delUser("../c"),
			upCreate(".."), delUser(".."),
			newUser("../victim"), upDelete("../victim"),
			ren("bob", "../escaped"),
			ren("../escaped", "../../escaped2"),
			mkTran(hotline.TranNewUser, 2, fld(hotline.FieldUserLogin, obf([]byte("../created"))), fld(hotline.FieldUserName, []byte("n")),
				fld(hotline.FieldUserPassword, []byte("pw")), fld(hotline.FieldUserAccess, acc[:])),
			mkTran(hotline.TranDeleteUser, 3, fld(hotline.FieldUserLogin, obf([]byte("../victim")))),
			mkTran(hotline.TranDeleteUser, 4, fld(hotline.FieldUserLogin, obf([]byte("../x")))),
		} {
			ts.Call(cc, t)
			if after := box.outside(ts.Users); after != before {
				c.Note("step", i)
				c.Note("outside_diff", diffLines(before, after))
				c.Violation("escape-account-regression", "an account request with a path as login changed something outside the accounts directory")
				return
			}
		}
	}()
	// 4090825: folder-upload item path `..`,`..`,`evil`
	if p := hotline.VerifFolderUploadPath([2]byte{0, 3}, []byte{0, 0, 2, '.', '.', 0, 0, 2, '.', '.', 0, 0, 4, 'e', 'v', 'i', 'l'}); p != "evil" {
		c.Note("formatted_path", p)
		c.Violation("folder-item-path-escape", "folderUpload.FormattedPath returned a path that leaves the upload folder")
	}
}

func clipN7(s string, n int) string {
	if len(s) > n {
		return s[:n] + "…"
	}
	return s
}

func diffTok(a, b []string) []string {
	m := map[string]bool{}
	for _, x := range b {
		m[x] = true
	}
	var out []string
	for _, x := range a {
		if !m[x] {
			out = append(out, clipN7(x, 200))
		}
	}
	return out
}

func maskSizes7(reply string) string {
	f := strings.Fields(reply)
	switch {
	case len(f) == 7 && f[0] == "info" && f[6] != "nil":
		f[6] = "dirsize"
	case len(f) == 3 && f[0] == "download":
		f[1], f[2] = "dirsize", "dirsize"
	case len(f) == 2 && f[0] == "upload" && f[1] != "nil":
		f[1] = "dirsize"
	}
	return strings.Join(f, " ")
}

// ---------------------------------------------------------------- pure correspondences

func goReadPath(root string, pf []byte, has bool, name []byte) string {
	return guard(func() string {
		var p []byte
		if has {
			p = exact(pf)
		}
		s, err := hotline.ReadPath(root, p, name)
		if err != nil {
			return "err"
		}
		return "ok " + hx([]byte(s))
	})
}

func c07ReadPath(c *Case) {
	r := c.R
	box := &c07Box{ts: &TS{Dir: "/var/tmp/sbx", Cfg: "/var/tmp/sbx/config", Root: "/var/tmp/sbx/config/Files", Users: "/var/tmp/sbx/config/Users"}}
	root := r.Pick2("/var/tmp/sbx/config/Files", "/srv/hl/Files", "/r", "/a/b/c/d/e", "/Files")
	pf, has := box.hostilePF(r)
	name := box.hostile(r)
	if r.Chance(15) {
		name = nil
	}
	got := goReadPath(root, pf, has, name)
	c.Note("root", root)
	c.Note("path_field", optTok(pf, has))
	c.Note("name", hx(name))
	c.Note("go", clip(got))
	want := c.AskS("readpath", hx([]byte(root)), optTok(pf, has), hx(name))
	c.Corr("ReadPath", got, want, false)
	if c.Idx%4 == 0 {
		c.Corr("ReadPath-string-level", got, c.AskS("readpathstr", hx([]byte(root)), optTok(pf, has), hx(name)), false)
	}
	c.Dist("readpath/" + strings.SplitN(got, " ", 2)[0])
	if strings.HasPrefix(got, "ok ") {
		p := string(unhx(got[3:]))
		if p != root && !strings.HasPrefix(p, root+"/") {
			c.Violation("readpath-escape", "hotline.ReadPath returned a path outside the root")
		}
		for _, comp := range strings.Split(strings.TrimPrefix(p, root), "/") {
			if comp == ".." || comp == "." {
				c.Violation("readpath-escape", "hotline.ReadPath returned a path with a dot component")
			}
		}
		if has && len(pf) > 2 {
			c.Nontrivial(root + "|" + hx(pf) + "|" + hx(name))
		} else if len(name) > 0 {
			c.Nontrivial(root + "||" + hx(name))
		}
	}
}

func c07CleanJoin(c *Case) {
	r := c.R
	gen := func() string {
		n := r.Intn(10)
		var sb strings.Builder
		for i := 0; i < n; i++ {
			sb.WriteString(r.Pick2("a", "b", ".", "..", "/", "/", "//", "\x8e", "x.y", " ", "..."))
		}
		return sb.String()
	}
	s := gen()
	c.Note("input", hx([]byte(s)))
	c.Corr("filepath.Clean", hx([]byte(filepath.Clean(s))), c.Ask("clean", []byte(s)), false)
	var elems []string
	var args [][]byte
	for i, n := 0, 1+r.Intn(4); i < n; i++ {
		e := gen()
		if r.Chance(20) {
			e = ""
		}
		elems = append(elems, e)
		args = append(args, []byte(e))
	}
	c.Note("elems", elems)
	c.Corr("filepath.Join", hx([]byte(filepath.Join(elems...))), c.Ask("join", args...), false)
	c.Nontrivial(s + "|" + strings.Join(elems, "\x00"))
}

func c07FuPath(c *Case) {
	r := c.R
	box := &c07Box{ts: &TS{Dir: "/var/tmp/sbx", Cfg: "/var/tmp/sbx/config", Root: "/var/tmp/sbx/config/Files", Users: "/var/tmp/sbx/config/Users"}}
	n := r.Pick(0, 1, 1, 2, 2, 3, 4)
	var data []byte
	for i := 0; i < n; i++ {
		s := box.hostile(r)
		if len(s) > 255 {
			s = s[:255]
		}
		data = append(data, 0, 0, byte(len(s)))
		data = append(data, s...)
	}
	count := n
	switch r.Intn(10) {
	case 0:
		count = r.Pick(n+1, n+2, 0, 1)
	case 1:
		if len(data) > 2 {
			data[2] = byte(r.Pick(0, 255, int(data[2])+1, 1))
		}
	case 2:
		if len(data) > 0 {
			data = data[:r.Intn(len(data))]
		}
	}
	got := guard(func() string {
		return "ok " + hx([]byte(hotline.VerifFolderUploadPath([2]byte{byte(count >> 8), byte(count)}, exact(data))))
	})
	c.Note("count", count)
	c.Note("data", hx(data))
	c.Note("go", got)
	c.Corr("FormattedPath", got, c.AskS("fupath", fmt.Sprint(count), hx(data)), false)
	if c.Idx%3 == 0 {
		c.Corr("FormattedPath-string-level", got, c.AskS("fupathstr", fmt.Sprint(count), hx(data)), false)
	}
	c.Dist("fupath/" + strings.SplitN(got, " ", 2)[0])
	if strings.HasPrefix(got, "ok ") {
		p := string(unhx(got[3:]))
		bad := strings.HasPrefix(p, "/")
		for _, comp := range strings.Split(p, "/") {
			if comp == ".." {
				bad = true
			}
		}
		if bad {
			c.Violation("folder-item-path-escape", "folderUpload.FormattedPath returned a path that leaves the upload folder")
		}
		if n > 0 {
			c.Nontrivial(fmt.Sprint(count) + "|" + hx(data))
		}
	}
}

// ---------------------------------------------------------------- transfers

func mkFFO(name string, data, rsrc []byte) []byte {
	info := validInfoFork("TEXT", "ttxt", []byte(name), nil)
	var b bytes.Buffer
	forks := 2
	if rsrc != nil {
		forks = 3
	}
	b.WriteString("FILP")
	b.Write([]byte{0, 1})
	b.Write(make([]byte, 16))
	b.Write(be16(forks))
	b.WriteString("INFO")
	b.Write(make([]byte, 8))
	b.Write(be32(len(info)))
	b.Write(info)
	b.WriteString("DATA")
	b.Write(make([]byte, 8))
	b.Write(be32(len(data)))
	b.Write(data)
	if rsrc != nil {
		b.WriteString("MACR")
		b.Write(make([]byte, 8))
		b.Write(be32(len(rsrc)))
		b.Write(rsrc)
	}
	return b.Bytes()
}

type fuItem struct {
	segs     [][]byte
	isFolder bool
	hdr      []byte
	payload  []byte
}

func (b *c07Box) fuItem(r *RNG) fuItem {
	it := fuItem{isFolder: r.Chance(35)}
	n := r.Pick(1, 1, 2, 2, 3)
	var path []byte
	for i := 0; i < n; i++ {
		s := b.hostile(r)
		if r.Chance(40) {
			s = []byte(r.Pick2("..", "..", "../..", "evil.txt", "x", "new", ".", ""))
		}
		if len(s) > 255 {
			s = s[:255]
		}
		it.segs = append(it.segs, s)
		path = append(path, 0, 0, byte(len(s)))
		path = append(path, s...)
	}
	count := n
	size := len(path) + 4
	// header corruptions that make FormattedPath panic are exercised by the folder-item-path family; here only a
	// path item count that is too small (the remaining segments are ignored)
	if r.Chance(8) {
		count = r.Intn(n)
	}
	it.hdr = append(be16(size), 0, 0)
	if it.isFolder {
		it.hdr[3] = 1
	}
	it.hdr = append(it.hdr, be16(count)...)
	it.hdr = append(it.hdr, path...)
	ffo := mkFFO("up", []byte("uploaded "+b.marker[:4]), nil)
	if r.Chance(30) {
		ffo = mkFFO("up", []byte("uploaded"), []byte("rsrc"))
	}
	it.payload = append(be32(len(ffo)), ffo...)
	return it
}

// runTransfer drives the real handleFileTransfer with a reactive folder-upload client.
func (b *c07Box) runTransfer(ref []byte, items []fuItem, single []byte, wg *sync.WaitGroup, out *[]byte) {
	defer wg.Done()
	conn := newSegConn(nil)
	var mu sync.Mutex
	next := 0
	resume := false
	conn.onWrite = func(p []byte) {
		mu.Lock()
		defer mu.Unlock()
		if items == nil {
			return
		}
		if resume {
			resume = false
			if next > 0 {
				conn.Feed(items[next-1].payload)
			}
			return
		}
		if len(p) == 2 && p[0] == 0 {
			switch p[1] {
			case 3:
				if next < len(items) {
					conn.Feed(items[next].hdr)
					next++
				} else {
					conn.EOF()
				}
			case 1:
				if next > 0 {
					conn.Feed(items[next-1].payload)
				}
			case 2:
				resume = true
			}
		}
	}
	pre := append([]byte("HTXF"), ref...)
	pre = append(pre, 0, 0, 0, 0, 0, 0, 0, 0)
	conn.Feed(pre)
	if single != nil {
		conn.Feed(single)
	}
	done := make(chan struct{})
	go func() {
		defer close(done)
		defer func() { recover() }()
		b.ts.Srv.VerifHandleFileTransfer(conn, "127.0.0.1:9")
	}()
	select {
	case <-done:
	case <-time.After(1500 * time.Millisecond):
		conn.EOF()
		select {
		case <-done:
		case <-time.After(8 * time.Second):
			conn.Close()
			<-done
		}
	}
	*out = conn.Written()
}

func c07Transfers(c *Case) {
	r := c.R
	ts, err := newTS(TSOpt{Direct: true, PreserveForks: r.Bool(),
		Accounts: []AcctSpec{{Login: "admin", Name: "admin", Password: "", Access: allAccess()}}})
	if err != nil {
		c.Disagree("fixture", "cannot build the test server: "+err.Error())
		return
	}
	defer ts.Close()
	box := c07Sandbox(r, ts)
	cc, _ := ts.DirectClient("admin", []byte("admin"), "127.0.0.1:1")
	c.Note("root_form", applyRootForm(ts, cc, r.Intn(4)))
	before := box.outside(ts.Root)
	var wg sync.WaitGroup
	const K = 8
	outs := make([][]byte, K)
	var desc []string
	for k := 0; k < K; k++ {
		pf, has := box.hostilePF(r)
		name := box.hostile(r)
		if r.Chance(40) {
			name = []byte(r.Pick2("Uploads", "newfolder", "", "..", "sub", "../x"))
		}
		switch kind := r.Intn(10); {
		case kind < 6: // folder upload
			var items []fuItem
			for i, n := 0, 1+r.Intn(4); i < n; i++ {
				items = append(items, box.fuItem(r))
			}
			fs := []hotline.Field{fld(hotline.FieldFileName, name), fld(hotline.FieldTransferSize, []byte{0, 0, 1, 0}), fld(hotline.FieldFolderItemCount, be16(len(items)))}
			if has {
				fs = append(fs, fld(hotline.FieldFilePath, pf))
			}
			res, _, _ := ts.Call(cc, mkTran(hotline.TranUploadFldr, uint32(k+1), fs...))
			d := fmt.Sprintf("upfolder pf=%s name=%s items=", optTok(pf, has), hx(name))
			for _, it := range items {
				d += fmt.Sprintf("[folder=%v hdr=%s]", it.isFolder, hx(it.hdr))
			}
			desc = append(desc, d)
			if len(res) == 1 && res[0].ErrorCode == [4]byte{} {
				ref, _ := getF(&res[0], hotline.FieldRefNum)
				wg.Add(1)
				go box.runTransfer(ref, items, nil, &wg, &outs[k])
				c.Nontrivial(d)
				c.Dist("transfer/folder-upload")
			}
		case kind < 8: // single file upload
			q := fileReq{Kind: "upload", PF: pf, HasPF: has, Name: name}
			res, _, _ := ts.Call(cc, q.tran(uint32(k+1)))
			desc = append(desc, q.String())
			if len(res) == 1 && res[0].ErrorCode == [4]byte{} {
				ref, _ := getF(&res[0], hotline.FieldRefNum)
				wg.Add(1)
				go box.runTransfer(ref, nil, mkFFO("up", []byte("single upload"), []byte("rs")), &wg, &outs[k])
				c.Nontrivial(q.String())
				c.Dist("transfer/file-upload")
			}
		default: // download (file or folder): the bytes sent must not contain canary content
			kindName := r.Pick2("download", "dlfolder")
			q := fileReq{Kind: kindName, PF: pf, HasPF: has, Name: name}
			res, _, _ := ts.Call(cc, q.tran(uint32(k+1)))
			desc = append(desc, q.String())
			if bytes.Contains(replyBytes(res), []byte(box.marker)) {
				c.Note("request", q.String())
				c.Violation("disclose-"+kindName, "the reply contains bytes of a file outside the file root")
			}
			if len(res) == 1 && res[0].ErrorCode == [4]byte{} {
				ref, _ := getF(&res[0], hotline.FieldRefNum)
				wg.Add(1)
				single := []byte{0, 1, 0, 1, 0, 1, 0, 1, 0, 1, 0, 1, 0, 3, 0, 3}
				go box.runTransfer(ref, nil, single, &wg, &outs[k])
				c.Nontrivial(q.String())
				c.Dist("transfer/" + kindName)
			}
		}
	}
	wg.Wait()
	c.Note("transfers", desc)
	after := box.outside(ts.Root)
	if after != before {
		c.Note("outside_diff", diffLines(before, after))
		c.Violation("escape-transfer", "a file transfer changed something outside the file root")
	}
	for k := range outs {
		if bytes.Contains(outs[k], []byte(box.marker)) {
			c.Note("transfer", desc[k])
			c.Violation("disclose-transfer", "transfer bytes contain the content of a file outside the file root")
		}
	}
	if li, err := os.Lstat(ts.Root); err != nil || !li.IsDir() {
		c.Violation("root-gone-transfer", "the file root itself was removed or replaced")
	}
	c.Sample(map[string]any{"family": "transfers", "first": clipN7(desc[0], 200)})
}

// ---------------------------------------------------------------- accounts

func obf(b []byte) []byte { return hotline.EncodeString(b) }

func subFields(fs ...hotline.Field) []byte {
	b := be16(len(fs))
	for _, f := range fs {
		b = append(b, f.Type[:]...)
		b = append(b, be16(len(f.Data))...)
		b = append(b, f.Data...)
	}
	return b
}

func c07Accounts(c *Case) {
	r := c.R
	ts, err := newTS(TSOpt{Direct: true,
		Accounts: []AcctSpec{{Login: "admin", Name: "admin", Password: "", Access: allAccess()}, {Login: "bob", Name: "bob", Password: "", Access: guestAccess()}}})
	if err != nil {
		c.Disagree("fixture", "cannot build the test server: "+err.Error())
		return
	}
	defer ts.Close()
	box := c07Sandbox(r, ts)
	cc, _ := ts.DirectClient("admin", []byte("admin"), "127.0.0.1:1")
	before := box.outside(ts.Users)
	login := func() []byte {
		switch r.Intn(12) {
		case 0, 1:
			return []byte(r.Pick2("bob", "carol", "dave", "new user"))
		case 2:
			return []byte(r.Pick2("../x", "../victim", "../../x", "../Users", "..", ".", "", "/", "../Files/a.txt", "../x.yaml", "a/../../x", "/etc/x", "../.", "../Users.yaml",
				"../config", "a/../../b", "../../config", "../Files/c", "x/../../victim"))
		case 3, 4:
			return []byte(r.Pick2("../config", "../../x", "a/../../b", "..", "../victim", "../x"))
		default:
			return box.hostile(r)
		}
	}
	exists := func(p string) bool { _, err := os.Lstat(p); return err == nil }
	var trace []string
	acc := cc.Account.Access // what the YAML loader kept of the all-ones bitmap: a new account may not exceed it
	// logins that were created (or renamed to) successfully, with the file the model says holds them: later requests
	// delete / rename THE SAME login, so that a path builder that trusts "the account exists" is exercised
	type knownAcct struct {
		login   []byte
		file    string
		created bool // stored by Create (the builder Delete uses too); a renamed account is stored by Update's builder
	}
	var known []knownAcct
	pickKnown := func() ([]byte, bool) {
		if len(known) > 0 && r.Chance(60) {
			return known[r.Intn(len(known))].login, true
		}
		return nil, false
	}
	// plant plants canary files where the login would land if it were joined to the accounts directory WITHOUT being
	// anchored below "/" (e.g. ../config -> <cfg>/config.yaml): they must stay untouched.
	plant := func(l []byte) {
		for _, p := range []string{filepath.Join(ts.Users, string(l)+".yaml"), filepath.Join(ts.Users, string(l)) + ".yaml",
			filepath.Join(ts.Users, string(l)+".yaml") + ".tmp"} {
			if !osAccepts(p) || !strings.HasPrefix(p, ts.Dir+"/") || strings.HasPrefix(p, ts.Users+"/") || p == ts.Users {
				continue
			}
			if _, err := os.Lstat(p); err == nil {
				continue
			}
			if fi, err := os.Stat(filepath.Dir(p)); err != nil || !fi.IsDir() {
				continue
			}
			if os.WriteFile(p, []byte(box.marker+" unanchored account path"), 0644) == nil {
				c.Dist("acct/canary-planted")
			}
		}
		before = box.outside(ts.Users)
	}
	for i := 0; i < 20; i++ {
		var what string
		var t hotline.Transaction
		var created, renamedTo []byte
		var renamedFrom []byte
		switch k := r.Intn(10); {
		case k < 3:
			l := login()
			created = l
			what = "newuser " + hx(l)
			t = mkTran(hotline.TranNewUser, uint32(i+1), fld(hotline.FieldUserLogin, obf(l)), fld(hotline.FieldUserName, []byte("n")),
				fld(hotline.FieldUserPassword, []byte("pw")), fld(hotline.FieldUserAccess, acc[:]))
		case k < 5:
			l := login()
			if kl, ok := pickKnown(); ok {
				l = kl
			}
			if string(l) == "admin" {
				l = []byte("bob")
			}
			what = "deleteuser " + hx(l)
			t = mkTran(hotline.TranDeleteUser, uint32(i+1), fld(hotline.FieldUserLogin, obf(l)))
		case k < 8:
			old := []byte(r.Pick2("bob", "carol", "dave", "new user"))
			if r.Chance(25) {
				old = login()
			}
			if kl, ok := pickKnown(); ok {
				old = kl
			}
			if string(old) == "admin" {
				old = []byte("bob")
			}
			nl := login()
			renamedFrom, renamedTo = old, nl
			what = "rename " + hx(old) + " -> " + hx(nl)
			t = mkTran(hotline.TranUpdateUser, uint32(i+1), fld(hotline.FieldData, subFields(
				fld(hotline.FieldData, obf(old)), fld(hotline.FieldUserLogin, obf(nl)), fld(hotline.FieldUserName, []byte("n")),
				fld(hotline.FieldUserPassword, []byte{0}), fld(hotline.FieldUserAccess, acc[:]))))
		case k < 9:
			l := login()
			created = l
			what = "update-create " + hx(l)
			t = mkTran(hotline.TranUpdateUser, uint32(i+1), fld(hotline.FieldData, subFields(
				fld(hotline.FieldUserLogin, obf(l)), fld(hotline.FieldUserName, []byte("n")),
				fld(hotline.FieldUserPassword, []byte("pw")), fld(hotline.FieldUserAccess, acc[:]))))
		default:
			l := login()
			if kl, ok := pickKnown(); ok {
				l = kl
			}
			if string(l) == "admin" {
				l = []byte("bob")
			}
			what = "update-delete " + hx(l)
			t = mkTran(hotline.TranUpdateUser, uint32(i+1), fld(hotline.FieldData, subFields(fld(hotline.FieldData, obf(l)))))
		}
		if created != nil {
			plant(created)
		}
		if renamedTo != nil {
			plant(renamedTo)
		}
		var deleted []byte
		if strings.HasPrefix(what, "deleteuser ") || strings.HasPrefix(what, "update-delete ") {
			deleted = unhx(strings.Fields(what)[1])
		}
		createdExisted := created != nil && ts.Acct.Get(string(created)) != nil
		hadOld := false
		if renamedFrom != nil {
			hadOld = ts.Acct.Get(string(renamedFrom)) != nil
		}
		res, _, pan := ts.Call(cc, t)
		reply := canonReply("ok", res, pan)
		if reply == "err" {
			e, _ := getF(&res[0], hotline.FieldError)
			reply += "(" + string(e) + ")"
		}
		trace = append(trace, what+" => "+reply)
		reply = strings.SplitN(reply, "(", 2)[0]
		c.Dist("acct/" + strings.Fields(what)[0] + "/" + reply)
		after := box.outside(ts.Users)
		if after != before {
			c.Note("request", what)
			c.Note("outside_diff", diffLines(before, after))
			c.Note("history", trace)
			c.Violation("escape-account-"+strings.Fields(what)[0], "an account request changed something outside the accounts directory")
			return
		}
		if bytes.Contains(replyBytes(res), []byte(box.marker)) {
			c.Violation("disclose-account", "an account reply contains bytes of a file outside the accounts directory")
		}
		c.Nontrivial(what)
		// the account file is exactly where the model's path builder says
		if created != nil && reply == "ok" && osAccepts(string(created)+".yaml") {
			f := strings.Fields(c.AskS("acctpaths", "create", hx([]byte(ts.Users)), hx(created)))
			if createdExisted { // the multi-user editor updates an existing login in place (Update's path builder)
				f = strings.Fields(c.AskS("acctpaths", "update", hx([]byte(ts.Users)), hx(created), hx(created)))
				if len(f) == 4 {
					f = f[:3]
				}
			}
			if len(f) == 3 {
				p := string(unhx(f[2]))
				if !exists(p) {
					c.Note("request", what)
					c.Note("model_path", p)
					c.Note("history", trace)
				}
				c.Corr("account-file-location", fmt.Sprint(exists(p)), "true", false)
				if exists(p) && !createdExisted {
					known = append(known, knownAcct{created, p, true})
				}
			}
		}
		if deleted != nil && reply == "ok" {
			for k := range known {
				if bytes.Equal(known[k].login, deleted) {
					// the account's own file (inside Users/) is the one that goes away
					if !known[k].created {
						known = append(known[:k], known[k+1:]...)
						break
					}
					if exists(known[k].file) {
						c.Note("request", what)
						c.Note("account_file", known[k].file)
						c.Note("history", trace)
					}
					c.Corr("account-file-removed", fmt.Sprint(exists(known[k].file)), "false", false)
					known = append(known[:k], known[k+1:]...)
					break
				}
			}
		}
		if renamedTo != nil && reply == "ok" && hadOld && osAccepts(string(renamedTo)+".yaml") {
			f := strings.Fields(c.AskS("acctpaths", "update", hx([]byte(ts.Users)), hx(renamedFrom), hx(renamedTo)))
			if len(f) == 4 {
				p := string(unhx(f[2]))
				if !exists(p) {
					c.Note("request", what)
					c.Note("model_path", p)
				}
				c.Corr("account-file-location", fmt.Sprint(exists(p)), "true", false)
				for k := range known {
					if bytes.Equal(known[k].login, renamedFrom) {
						known = append(known[:k], known[k+1:]...)
						break
					}
				}
				if exists(p) {
					known = append(known, knownAcct{renamedTo, p, false})
				}
			}
		}
	}
	c.Sample(map[string]any{"family": "accounts", "last": trace[len(trace)-1]})
}

// ---------------------------------------------------------------- strace (thorough tier)

// The child (same binary, VERIF_C07_CHILD set) builds a sandbox, then runs hostile requests between two marker syscalls.
func init() {
	if dir := os.Getenv("VERIF_C07_CHILD"); dir != "" {
		c07Child(dir)
		os.Exit(0)
	}
}

func c07Child(seedStr string) {
	var seed uint64
	fmt.Sscan(seedStr, &seed)
	r := NewRNG(seed)
	ts, err := newTS(TSOpt{Direct: true, PreserveForks: true,
		Accounts: []AcctSpec{{Login: "admin", Name: "admin", Password: "", Access: allAccess()}}})
	if err != nil {
		os.Exit(3)
	}
	box := c07Sandbox(r, ts)
	cc, _ := ts.DirectClient("admin", []byte("admin"), "127.0.0.1:1")
	applyRootForm(ts, cc, r.Intn(4))
	fmt.Println("SANDBOX", ts.Dir)
	os.Stat("/VERIF-MARK-BEGIN")
	for i := 0; i < 150; i++ {
		q := box.hostileReq(r)
		ts.Call(cc, q.tran(uint32(i+1)))
	}
	os.Stat("/VERIF-MARK-END")
	ts.Close()
}

var straceLine = regexp.MustCompile(`^\d+\s+(\w+)\((.*)$`)
var straceStr = regexp.MustCompile(`"((?:[^"\\]|\\.)*)"`)
var straceFd = regexp.MustCompile(`^(?:AT_FDCWD|\d+)<([^>]*)>`)

func unescapeStrace(s string) string {
	var b strings.Builder
	for i := 0; i < len(s); i++ {
		if s[i] == '\\' && i+1 < len(s) {
			i++
			switch s[i] {
			case 'n':
				b.WriteByte('\n')
			case 't':
				b.WriteByte('\t')
			case 'r':
				b.WriteByte('\r')
			case 'x':
				if i+2 < len(s) {
					var v int
					fmt.Sscanf(s[i+1:i+3], "%02x", &v)
					b.WriteByte(byte(v))
					i += 2
				}
			case '0', '1', '2', '3', '4', '5', '6', '7':
				v := 0
				j := i
				for ; j < len(s) && j < i+3 && s[j] >= '0' && s[j] <= '7'; j++ {
					v = v*8 + int(s[j]-'0')
				}
				b.WriteByte(byte(v))
				i = j - 1
			default:
				b.WriteByte(s[i])
			}
		} else {
			b.WriteByte(s[i])
		}
	}
	return b.String()
}

func c07Strace(c *Case) {
	self, _ := os.Executable()
	tmp, _ := os.MkdirTemp("/var/tmp", "c07-strace-")
	defer os.RemoveAll(tmp)
	out := filepath.Join(tmp, "trace.txt")
	cmd := exec.Command("strace", "-f", "-y", "-s", "4096", "-xx", "-e", "trace=%file", "-o", out, self)
	cmd.Env = append(os.Environ(), fmt.Sprintf("VERIF_C07_CHILD=%d", c.Seed))
	stdout, err := cmd.Output()
	if err != nil {
		c.Note("error", err.Error())
		c.Dist("strace/unavailable")
		return
	}
	sandbox := ""
	for _, l := range strings.Split(string(stdout), "\n") {
		if strings.HasPrefix(l, "SANDBOX ") {
			sandbox = strings.TrimSpace(l[8:])
		}
	}
	defer os.RemoveAll(sandbox)
	if sandbox == "" {
		c.Dist("strace/no-sandbox")
		return
	}
	root := filepath.Join(sandbox, "config", "Files")
	b, _ := os.ReadFile(out)
	in := false
	checked := 0
	for _, l := range strings.Split(string(b), "\n") {
		m := straceLine.FindStringSubmatch(l)
		if m == nil {
			continue
		}
		args := m[2]
		var strs []string
		for _, sm := range straceStr.FindAllStringSubmatch(args, -1) {
			strs = append(strs, unescapeStrace(sm[1]))
		}
		if len(strs) > 0 && strs[0] == "/VERIF-MARK-BEGIN" {
			in = true
			continue
		}
		if len(strs) > 0 && strs[0] == "/VERIF-MARK-END" {
			in = false
			continue
		}
		if !in {
			continue
		}
		base := ""
		if fm := straceFd.FindStringSubmatch(args); fm != nil {
			base = unescapeStrace(fm[1])
		}
		for _, s := range strs {
			p := s
			if !strings.HasPrefix(p, "/") {
				if base == "" || !strings.HasPrefix(base, "/") {
					continue
				}
				p = filepath.Join(base, p)
			}
			p = filepath.Clean(p)
			if p != sandbox && !strings.HasPrefix(p, sandbox+"/") {
				continue
			}
			checked++
			if p != root && !strings.HasPrefix(p, root+"/") {
				c.Note("syscall", clipN7(l, 400))
				c.Note("path", p)
				c.Note("root", root)
				c.Violation("touched-outside-"+m[1], "a file request made the server pass a path outside the file root to the OS ("+m[1]+")")
				return
			}
		}
	}
	if os.Getenv("VERIF_DEBUG") != "" {
		fmt.Fprintln(os.Stderr, "strace: paths under the sandbox checked:", checked)
	}
	c.Dist(fmt.Sprintf("strace/paths-checked-%d", (checked/200)*200))
	if checked > 0 {
		c.Nontrivial(fmt.Sprintf("strace|%d|%d", c.Seed, checked))
	}
	c.Corr("strace-batch", "inside", "inside", true)
}

func init() {
	props["C07"] = func(x *Ctx) {
		x.rule = "hostile byte strings (.., ., /, empty, absolute paths into the sandbox, NUL, 128..255-byte names, Mac-Roman high bytes incl. 0xDA fraction slash and 0xC9 ellipsis, '../Files.incomplete', '../.rsrc_Files', '..'+root name, compositions of ../ and canary names, existing names) in every path-bearing field (file path items with correct and lying length prefixes / counts, file name, new name, new path, folder-upload item segments, account logins) of all 11 file handlers, the folder-upload / file-upload / download transfer entry point and account create / rename / delete; the sandbox holds the root plus canary siblings (Files.incomplete, .rsrc_Files, .info_Files, outside.txt, Sibling/, Files2/, x.yaml, victim.yaml, one level up: outside.txt, x.yaml, Files/); after EVERY request the recursive snapshot outside the root (accounts dir) must be unchanged and no canary content may appear in replies / transfer bytes. non-trivial = a request that reached the handler with a path-bearing field set (counted per distinct field bytes) / a transfer that was registered and run. family accounts-restart: histories of create / rename / delete with hostile logins that include RESTARTS — the accounts directory (optionally in the state a rename interrupted by a crash leaves: file moved, contents not rewritten) is reloaded by the real NewYAMLAccountManager, requests continue on the reloaded manager; canaries at the un-anchored locations in half of the cases; the snapshot outside Users/ is compared after every request and every restart, the names in Users/ after a restart with the model's loader"
		x.assume = []string{
			"the configured file root and accounts directory are absolute ASCII paths that exist (four spellings of the root are exercised: clean, trailing slash, per-account root with /./ or //)",
			"no symlink inside the root points outside it when the server starts (the model proves aliases created by the server point inside)",
			"symlinks in intermediate path components are resolved by the OS, not by the model (lexical containment + the invariant above)",
		}
		x.Add(&Family{Name: "regressions", Quick: 1, Thor: 1, Run: c07Regressions})
		x.Add(&Family{Name: "readpath", Quick: 12000, Thor: 300000, Run: c07ReadPath})
		x.Add(&Family{Name: "clean-join", Quick: 4000, Thor: 100000, Run: c07CleanJoin})
		x.Add(&Family{Name: "folder-item-path", Quick: 4000, Thor: 100000, Run: c07FuPath})
		x.Add(&Family{Name: "handlers-canary", Quick: 256, Thor: 4000, Run: c07Canary})
		x.Add(&Family{Name: "alias-sequences", Quick: 64, Thor: 1200, Run: c07AliasSeq})
		x.Add(&Family{Name: "accounts", Quick: 48, Thor: 800, Run: c07Accounts})
		x.Add(&Family{Name: "accounts-restart", Quick: 96, Thor: 1500, Run: c07AccountsRestart}) // wave d (c07_restart.go)
		x.Add(&Family{Name: "transfers", Quick: 48, Thor: 480, Run: c07Transfers})
		if x.Tier == "thorough" {
			x.Add(&Family{Name: "strace", Quick: 0, Thor: 24, Run: c07Strace})
		}
	}
}
