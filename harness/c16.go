//go:build c16

package main

// C16 — a privilege bit means the same on the wire, in memory and on disk.
//
// Every bitmap is taken through the REAL gopkg.in/yaml.v3 + hotline.AccessBitmap Marshal/Unmarshal code and
// (account level) through mobius.NewYAMLAccountManager including its legacy-format migration, and judged
//   (a) directly by the property's predicate, written here independently (bit i = 0x80>>(i%8) of byte i/8;
//       after save→load: same on the 40 defined privileges, nothing else; legacy array loads to its bytes;
//       the key written true for privilege i is the documented name of privilege i), and
//   (b) against the Lean model (save/load folds over the regenerated tables) and the Lean reference (mask).

import (
	"bytes"
	"encoding/binary"
	"fmt"
	"os"
	"path/filepath"
	"strings"
	"sync"
	"time"

	"github.com/jhalter/mobius/hotline"
	"gopkg.in/yaml.v3"
)

var (
	specNameOnce sync.Once
	specNames    [64]string
)

func specName(c *Case, i int) string {
	specNameOnce.Do(func() {
		for k := 0; k < 64; k++ {
			specNames[k] = c.AskS("specname", fmt.Sprint(k))
		}
	})
	return specNames[i]
}

// expectedTrueKeys: the property's expectation for the keys written true.
func expectedTrueKeys(c *Case, b [8]byte) []string {
	var l []string
	for _, i := range definedPrivs {
		if bitOf(b, i) {
			l = append(l, specName(c, i))
		}
	}
	return l
}

func yamlLoadBitmap(doc []byte) (b hotline.AccessBitmap, res string) {
	defer func() {
		if r := recover(); r != nil {
			res = "panic"
		}
	}()
	if err := yaml.Unmarshal(doc, &b); err != nil {
		return b, "err"
	}
	return b, "ok"
}

func legacyDoc(vals []int) []byte {
	var sb strings.Builder
	for _, v := range vals {
		fmt.Fprintf(&sb, "- %d\n", v)
	}
	if len(vals) == 0 {
		return []byte("[]\n")
	}
	return []byte(sb.String())
}

func byteVals(b [8]byte) []int {
	v := make([]int, 8)
	for i := range b {
		v[i] = int(b[i])
	}
	return v
}

func legacyArgs(vals []int) []string {
	a := make([]string, len(vals))
	for i, v := range vals {
		if v < 0 {
			a[i] = fmt.Sprintf("n%d", -v)
		} else {
			a[i] = fmt.Sprint(v)
		}
	}
	return a
}

// checkYamlLevel: named and legacy documents through yaml.v3 + the real (Un)MarshalYAML.
func checkYamlLevel(c *Case, b hotline.AccessBitmap) {
	h := bmHex(b)
	c.Note("bitmap", h)
	c.Note("bits", bmBits(b))
	want := maskDefined(b)

	// in-memory numbering: IsSet(i) is bit i MSB-first, for all 64 positions
	for i := 0; i < 64; i++ {
		if b.IsSet(i) != bitOf(b, i) {
			c.Note("i", i)
			c.Violation("isset-numbering", fmt.Sprintf("IsSet(%d) disagrees with bit %d counted from the most significant bit of the first byte", i, i))
			return
		}
	}

	// save
	trueKeys, allKeys, text, err := yamlTrueKeys(b)
	if err != nil {
		c.Note("yaml", text)
		c.Violation("marshal-failed", "the access bitmap cannot be rendered to YAML: "+err.Error())
		return
	}
	exp := expectedTrueKeys(c, b)
	if strings.Join(sortedCopy(trueKeys), ",") != strings.Join(sortedCopy(exp), ",") {
		c.Note("true_keys", trueKeys)
		c.Note("expected", exp)
		c.Violation("saved-key-names", "the keys written true differ from the documented names of the privileges held")
	}
	mk := "-"
	if len(trueKeys) > 0 {
		mk = strings.Join(trueKeys, ",")
	}
	c.Corr("save-keys", mk, c.AskS("savekeys", h), false)
	c.Corr("save-all-keys", strings.Join(allKeys, ","), c.AskS("allkeys"), false)

	// load what was saved
	out, _ := yaml.Marshal(b)
	b2, st := yamlLoadBitmap(out)
	if st != "ok" {
		c.Violation("named-load-failed", "the saved named form cannot be loaded ("+st+")")
		return
	}
	if b2 != hotline.AccessBitmap(want) {
		c.Note("after", bmHex(b2))
		c.Note("want", bmHex(want))
		lost, gained := []int{}, []int{}
		for i := 0; i < 64; i++ {
			if bitOf(want, i) && !bitOf(b2, i) {
				lost = append(lost, i)
			}
			if !bitOf(want, i) && bitOf(b2, i) {
				gained = append(gained, i)
			}
		}
		c.Note("lost", lost)
		c.Note("gained", gained)
		c.Violation("named-roundtrip", fmt.Sprintf("save→load changed the privileges: lost %v, gained %v", lost, gained))
	}
	c.Corr("roundtrip-model", bmHex(b2), c.AskS("roundtrip", h), false)
	c.Corr("roundtrip-spec", bmHex(b2), c.AskS("mask", h), true)

	// legacy numeric array
	b3, st := yamlLoadBitmap(legacyDoc(byteVals(b)))
	if st != "ok" || b3 != b {
		c.Note("after", bmHex(b3))
		c.Note("status", st)
		c.Violation("legacy-load", "the legacy numeric-array form does not load to the bytes it lists")
	}
	c.Corr("legacy-model", bmHex(b3), c.AskS("legacy", legacyArgs(byteVals(b))...), false)
	// same privileges as the named form, on every defined privilege
	for _, i := range definedPrivs {
		if bitOf(b3, i) != bitOf(b2, i) {
			c.Note("i", i)
			c.Violation("legacy-vs-named", fmt.Sprintf("privilege %d differs between the legacy-array form and the named form of the same bitmap", i))
			break
		}
	}
	if b != (hotline.AccessBitmap{}) {
		c.Nontrivial("yaml:" + h)
	}
}

// checkAccountLevel: both storage formats through NewYAMLAccountManager (incl. migration) and a restart.
func checkAccountLevel(c *Case, b hotline.AccessBitmap) {
	dir := tmpDir("c16")
	defer os.RemoveAll(dir)
	h := bmHex(b)
	want := hotline.AccessBitmap(maskDefined(b))
	named, err := accountFileNamed("named", b)
	if err != nil {
		c.Violation("marshal-failed", "account cannot be rendered: "+err.Error())
		return
	}
	os.WriteFile(filepath.Join(dir, "named.yaml"), named, 0644)
	os.WriteFile(filepath.Join(dir, "legacy.yaml"), accountFileLegacy("legacy", byteVals(b)), 0644)
	am, err := loadAccountsDir(dir)
	if err != nil {
		c.Note("err", err.Error())
		c.Violation("account-load-failed", "NewYAMLAccountManager cannot load an account directory holding both storage formats")
		return
	}
	an, al := am.Get("named"), am.Get("legacy")
	if an == nil || al == nil {
		c.Violation("account-load-failed", "an account file was not loaded")
		return
	}
	if an.Access != want {
		c.Note("after", bmHex(an.Access))
		c.Violation("named-account-load", "account in named form loads to different privileges")
	}
	if al.Access != b {
		c.Note("after", bmHex(al.Access))
		c.Violation("legacy-account-load", "account in legacy numeric-array form does not load to the bytes it lists")
	}
	// the named file must not have been rewritten; the legacy one must now be in named form
	if now, _ := os.ReadFile(filepath.Join(dir, "named.yaml")); !bytes.Equal(now, named) {
		c.Violation("named-file-rewritten", "loading rewrote an account file that already is in named form")
	}
	mig, _ := os.ReadFile(filepath.Join(dir, "legacy.yaml"))
	if !strings.Contains(string(mig), "DownloadFile:") {
		c.Note("file", clip(string(mig)))
		c.Violation("legacy-not-migrated", "legacy account file was not migrated to the named form on load")
	}
	fa, err := readAccountFile(dir, "legacy")
	if err != nil || fa.Access != want {
		c.Violation("migrated-file", "the migrated account file does not hold the defined privileges of the legacy array")
	}
	// restart
	am2, err := loadAccountsDir(dir)
	if err != nil {
		c.Note("err", err.Error())
		c.Violation("account-reload-failed", "account directory cannot be loaded again after migration")
		return
	}
	for _, login := range []string{"named", "legacy"} {
		a := am2.Get(login)
		if a == nil || a.Access != want {
			c.Note("login", login)
			if a != nil {
				c.Note("after", bmHex(a.Access))
			}
			c.Violation("reload-after-migration", "after a restart the "+login+" account holds different privileges")
		}
	}
	c.Corr("account-roundtrip-model", bmHex(am2.Get("legacy").Access), c.AskS("roundtrip", h), false)
	c.Nontrivial("acct:" + h)
}

// checkWire: the user-access field (110) in transaction 354 at login and in the get-user reply is the raw 8 bytes.
func checkWire(c *Case, b hotline.AccessBitmap) {
	ts, err := newTS(TSOpt{Accounts: []AcctSpec{
		{Login: "u", Name: "u", Password: "pw", Access: b},
		{Login: "admin", Name: "admin", Password: "x", Access: allOnes()},
	}})
	if err != nil {
		c.Note("err", err.Error())
		c.Disagree("fixture", "test server could not be built")
		return
	}
	defer ts.Close()
	mem := ts.Acct.Get("u")
	if mem == nil {
		c.Disagree("fixture", "account missing")
		return
	}
	if mem.Access != hotline.AccessBitmap(maskDefined(b)) {
		c.Violation("named-account-load", "account written in named form loads to different privileges")
	}
	// handshake + login over the real connection handler (generous timeouts: the machine may be heavily loaded)
	wc := ts.Connect("10.1.2.3:4000", nil)
	wc.Conn.Feed(clientHandshake)
	wc.Conn.Feed(encTran(loginTran(1, "u", "pw")))
	if r, ok := wc.ReplyTo(1, 60*time.Second); !ok || r.ErrorCode != [4]byte{} {
		c.Disagree("fixture-login", "login failed")
		wc.Conn.EOF()
		return
	}
	var got []byte
	ok := waitFor(60*time.Second, func() bool {
		_, trans, _, _ := wc.Received()
		for _, t := range trans {
			if binary.BigEndian.Uint16(t.Type[:]) == 354 {
				for _, f := range t.Fields {
					if binary.BigEndian.Uint16(f.Type[:]) == 110 {
						got = f.Data
						return true
					}
				}
			}
		}
		return false
	})
	wc.Conn.EOF()
	wc.WaitDone(10 * time.Second)
	c.Note("bitmap", bmHex(b))
	if !ok {
		c.Violation("wire-access-missing", "no user-access transaction (354, field 110) was sent at login")
		return
	}
	if !bytes.Equal(got, mem.Access[:]) {
		c.Note("wire", hx(got))
		c.Note("memory", bmHex(mem.Access))
		c.Violation("wire-access", "the user-access field sent at login is not the account's raw 8 bytes")
	}
	c.Corr("wire-model", hx(got), c.AskS("wire", bmHex(mem.Access)), false)
	for i := 0; i < 64; i++ {
		if len(got) == 8 && bitOf([8]byte(got), i) != mem.Access.IsSet(i) {
			c.Violation("wire-numbering", fmt.Sprintf("privilege %d differs between the wire field and the authorization decision", i))
			break
		}
	}
	// get-user reply (transaction 352): field 110 raw
	adm, _ := ts.DirectClient("admin", []byte("admin"), "10.9.9.9:1")
	// the direct client shares the server whose outbox is processed; handler result is returned to us
	res := ts.Srv.VerifHandlers()[hotline.TranGetUser](adm, &hotline.Transaction{Type: hotline.TranGetUser,
		Fields: []hotline.Field{fld(hotline.FieldUserLogin, []byte("u"))}})
	found := false
	for _, t := range res {
		for _, f := range t.Fields {
			if f.Type == hotline.FieldUserAccess {
				found = true
				if !bytes.Equal(f.Data, mem.Access[:]) {
					c.Note("getuser", hx(f.Data))
					c.Violation("getuser-access", "the get-user reply does not carry the account's raw 8 bytes")
				}
			}
		}
	}
	if !found {
		c.Violation("getuser-access", "the get-user reply carries no user-access field")
	}
	c.Nontrivial("wire:" + bmHex(b))
}

func init() {
	props["C16"] = func(x *Ctx) {
		x.rule = "bitmaps: every single bit 0..63, every pair of the 40 defined privileges (780), random (uniform / sparse / dense / defined-only / undefined positions forced); each goes through the real yaml.v3 + MarshalYAML/UnmarshalYAML in both storage formats (named map, legacy numeric array) and, at account level, through NewYAMLAccountManager incl. migration and a restart; single bits and a random sample also through a real login (transaction 354 field 110) and get-user; set-user on an account with 1..3 live sessions (354 to each session = the new raw bytes = memory = disk = authorization); sequences of creates / updates of several accounts through the account manager followed by a restart; account edits (new-user / set-user / update-user modify, rename, create) serialised and parsed back by the real Transaction.Write with 4000..60000-byte fields and sub-fields around the 8 privilege bytes in every order (wire = memory = get-user = file = restart); the same edits and manager calls while the store cannot write its temporary file (memory = file). non-trivial = non-zero bitmap that completed the round trip; distinct = distinct (level, bitmap)"
		x.assume = []string{
			"gopkg.in/yaml.v3 maps a struct of bools to a key/value mapping and back (exercised on every case, not proved)",
			"documented account-file names of the privileges: lean/MobiusModel/Spec/Governing.lean accessYamlNames (hand-written)",
		}
		x.Add(&Family{Name: "single-bit", Quick: 64, Thor: 64, Run: func(c *Case) {
			i := tableIndex(c, 64) % 64
			b := bmOf(i)
			c.Note("privilege", i)
			// Set(i) sets exactly the MSB-first bit i
			var s hotline.AccessBitmap
			s.Set(i)
			if s != b {
				c.Note("after_set", bmHex(s))
				c.Violation("set-numbering", fmt.Sprintf("Set(%d) does not set bit %d counted from the most significant bit of the first byte", i, i))
			}
			c.Corr("set-model", bmHex(s), c.AskS("setbit", "0000000000000000", fmt.Sprint(i)), false)
			// the key written true is the documented name of privilege i (none for the undefined positions)
			tk, _, _, err := yamlTrueKeys(b)
			if err == nil {
				name := specName(c, i)
				switch {
				case isDefinedPriv(i) && (len(tk) != 1 || tk[0] != name):
					c.Note("keys", tk)
					c.Note("documented", name)
					c.Violation("saved-key-names", fmt.Sprintf("privilege %d is saved under %v, its documented name is %s", i, tk, name))
				case !isDefinedPriv(i) && len(tk) != 0:
					c.Note("keys", tk)
					c.Violation("saved-key-names", fmt.Sprintf("undefined bit %d is saved under %v", i, tk))
				}
				if isDefinedPriv(i) != (name != "-") {
					c.Disagree("defined-set", "harness and Lean disagree on which privileges are defined")
				}
				// loading a document that holds only that key grants exactly privilege i
				if name != "-" {
					lb, st := yamlLoadBitmap([]byte(name + ": true\n"))
					if st != "ok" || lb != b {
						c.Note("loaded", bmHex(lb))
						c.Violation("load-key-names", fmt.Sprintf("the document {%s: true} loads to %v, not to privilege %d", name, bmBits(lb), i))
					}
					c.Corr("loadkeys-model", bmHex(lb), c.AskS("loadkeys", name), false)
				}
			}
			checkYamlLevel(c, b)
			checkAccountLevel(c, b)
			c.Dist("single-bit")
			c.Sample(map[string]any{"family": "single-bit", "privilege": i, "key": specName(c, i)})
		}})
		x.Add(&Family{Name: "bit-pairs", Quick: 780, Thor: 780, Run: func(c *Case) {
			// idx -> pair (p < q) of defined privileges
			idx := tableIndex(c, 780)
			k := idx % 780
			p, q := 0, 0
		outer:
			for p = 0; p < 40; p++ {
				for q = p + 1; q < 40; q++ {
					if k == 0 {
						break outer
					}
					k--
				}
			}
			b := bmOf(definedPrivs[p], definedPrivs[q])
			checkYamlLevel(c, b)
			if idx%4 == 0 || c.X.Tier == "thorough" {
				checkAccountLevel(c, b)
			}
			c.Dist("pair")
		}})
		x.Add(&Family{Name: "random", Quick: 3000, Thor: 150000, Run: func(c *Case) {
			b := randBitmap(c.R)
			checkYamlLevel(c, b)
			if c.R.Chance(8) {
				checkAccountLevel(c, b)
			}
			c.Dist(fmt.Sprintf("random/popcount-%02d", len(bmBits(b))/8*8))
		}})
		x.Add(&Family{Name: "documents", Quick: 1500, Thor: 40000, Run: func(c *Case) {
			r := c.R
			if r.Bool() {
				// named documents with arbitrary subsets of keys, false values, unknown keys and non-bool values
				var sb strings.Builder
				var trueKeys []string
				var wantB [8]byte
				used := map[string]bool{}
				for k := r.Intn(12); k >= 0; k-- {
					i := definedPrivs[r.Intn(40)]
					name := specName(c, i)
					if used[name] {
						continue
					}
					used[name] = true
					switch r.Intn(5) {
					case 0:
						fmt.Fprintf(&sb, "%s: false\n", name)
					case 1:
						fmt.Fprintf(&sb, "%s: \"true\"\n", name) // a string, not a bool
					case 2:
						fmt.Fprintf(&sb, "X%s: true\n", name) // unknown key
					default:
						fmt.Fprintf(&sb, "%s: true\n", name)
						trueKeys = append(trueKeys, name)
						wantB = withBit(wantB, i)
					}
				}
				doc := sb.String()
				if doc == "" {
					doc = "{}\n"
				}
				c.Note("document", doc)
				lb, st := yamlLoadBitmap([]byte(doc))
				if st != "ok" || lb != hotline.AccessBitmap(wantB) {
					c.Note("loaded", bmHex(lb))
					c.Note("want", bmHex(wantB))
					c.Violation("load-key-names", "a named document does not load to the privileges whose documented names it sets true")
				}
				c.Corr("loadkeys-model", bmHex(lb), c.AskS("loadkeys", trueKeys...), false)
				if len(trueKeys) > 0 {
					c.Nontrivial("doc:" + doc)
				}
				c.Dist("document/named")
				return
			}
			// legacy arrays of odd shapes: short, values outside 0..255, negative, more than 8 entries
			n := r.Pick(0, 1, 3, 7, 8, 8, 8, 8, 9, 12)
			vals := make([]int, n)
			for i := range vals {
				switch r.Intn(6) {
				case 0:
					vals[i] = 256 + r.Intn(1000)
				case 1:
					vals[i] = -1 - r.Intn(300)
				default:
					vals[i] = r.Intn(256)
				}
			}
			c.Note("array", vals)
			lb, st := yamlLoadBitmap(legacyDoc(vals))
			got := st
			if st == "ok" {
				got = bmHex(lb)
			}
			c.Corr("legacy-model", got, c.AskS("legacy", legacyArgs(vals)...), false)
			if n == 8 {
				ok := st == "ok"
				for i := 0; ok && i < 8; i++ {
					if lb[i] != byte(vals[i]) {
						ok = false
					}
				}
				if !ok {
					c.Violation("legacy-load", "an 8-entry legacy array does not load to the bytes it lists (mod 256)")
				}
				c.Nontrivial(fmt.Sprint("legacy:", vals))
			}
			c.Dist(fmt.Sprintf("document/legacy-len-%d-%s", n, st))
		}})
		// an administrator's set-user while the edited user is logged in: the user-access transaction (354) sent to
		// every session of that account must carry the NEW bitmap's raw 8 bytes — the bytes the account now has in
		// memory, on disk and in authorization decisions
		x.Add(&Family{Name: "set-user-wire", Quick: 300, Thor: 6000, Run: func(c *Case) {
			r := c.R
			b0 := hotline.AccessBitmap(maskDefined(randBitmap(r)))
			b1 := hotline.AccessBitmap(maskDefined(randBitmap(r)))
			switch r.Intn(4) {
			case 0: // one privilege granted
				b1 = hotline.AccessBitmap(withBit(b0, definedPrivs[r.Intn(40)]))
			case 1: // one privilege revoked
				b1 = hotline.AccessBitmap(withoutBit(b0, definedPrivs[r.Intn(40)]))
			}
			ts, err := newTS(TSOpt{Direct: true, Accounts: []AcctSpec{
				{Login: "u", Name: "u", Password: "", Access: b0},
				{Login: "admin", Name: "admin", Password: "", Access: allOnes()},
			}})
			if err != nil {
				c.Disagree("fixture", "test server could not be built")
				return
			}
			defer ts.Close()
			n := 1 + r.Intn(3)
			var sess []*hotline.ClientConn
			for i := 0; i < n; i++ {
				cc, _ := ts.DirectClient("u", []byte("u"), fmt.Sprintf("10.3.3.%d:1", i+1))
				sess = append(sess, cc)
			}
			ad, _ := ts.DirectClient("admin", []byte("admin"), "10.0.0.2:1")
			c.Note("before", bmHex(b0))
			c.Note("after", bmHex(b1))
			c.Note("sessions", n)
			res, queued, pan := ts.Call(ad, mkTran(hotline.TranSetUser, 5, fld(hotline.FieldUserLogin, hotline.EncodeString([]byte("u"))),
				fld(hotline.FieldUserName, []byte("u")), fld(hotline.FieldUserPassword, []byte{0}), fld(hotline.FieldUserAccess, b1[:])))
			if pan != nil {
				c.Note("panic", fmt.Sprint(pan))
				c.Violation("set-user-panic", "set-user panicked")
				return
			}
			mem := ts.Acct.Get("u")
			if mem == nil || mem.Access != b1 {
				c.Violation("set-user-memory", "after set-user the account in memory does not hold the requested bitmap")
				return
			}
			if disk, err := readAccountFile(ts.Users, "u"); err != nil || disk.Access != b1 {
				c.Violation("set-user-disk", "after set-user the account file does not hold the requested privileges")
			}
			for i, s := range sess {
				var got []byte
				found := false
				for _, t := range append(append([]hotline.Transaction{}, res...), queued...) {
					if t.ClientID == s.ID && t.Type == hotline.TranUserAccess {
						for _, f := range t.Fields {
							if f.Type == hotline.FieldUserAccess {
								got, found = f.Data, true
							}
						}
					}
				}
				c.Note("session", i+1)
				if !found {
					c.Violation("set-user-wire-missing", fmt.Sprintf("session #%d of the edited account was not sent its new user-access field", i+1))
					continue
				}
				if !bytes.Equal(got, b1[:]) {
					c.Note("wire", hx(got))
					c.Violation("set-user-wire", fmt.Sprintf("the user-access field sent to session #%d after set-user is not the account's new raw 8 bytes", i+1))
				}
				for p := 0; p < 64; p++ {
					if s.Authorize(p) != bitOf(b1, p) {
						c.Note("privilege", p)
						c.Violation("set-user-session", fmt.Sprintf("session #%d decides privilege %d differently from the account's new bitmap", i+1, p))
						break
					}
				}
			}
			c.Corr("set-user-wire-model", bmHex(mem.Access), c.AskS("wire", bmHex(b1)), false)
			c.Dist(fmt.Sprintf("set-user-wire/sessions-%d", n))
			c.Nontrivial("suw:" + bmHex(b0) + ":" + bmHex(b1) + fmt.Sprint(n))
		}})
		// sequences of account writes through the real account manager (create A, then writes of OTHER accounts,
		// updates, more creates), then a restart: every account loads with the privileges it was saved with
		x.Add(&Family{Name: "write-sequence-reload", Quick: 300, Thor: 6000, Run: func(c *Case) {
			r := c.R
			dir := tmpDir("c16seq")
			defer os.RemoveAll(dir)
			seed, _ := accountFileNamed("seed", bmOf(2))
			os.WriteFile(filepath.Join(dir, "seed.yaml"), seed, 0644)
			am, err := loadAccountsDir(dir)
			if err != nil {
				c.Disagree("fixture", "account directory could not be loaded")
				return
			}
			want := map[string]hotline.AccessBitmap{"seed": bmOf(2)}
			var logins []string
			var ops []string
			steps := 2 + r.Intn(6)
			for i := 0; i < steps; i++ {
				b := hotline.AccessBitmap(maskDefined(randBitmap(r)))
				if len(logins) == 0 || r.Chance(55) {
					l := fmt.Sprintf("acct%d", len(logins))
					if err := am.Create(hotline.Account{Login: l, Name: l, Password: "x", Access: b}); err != nil {
						c.Note("err", err.Error())
						c.Violation("create-failed", "creating a fresh account failed")
						return
					}
					logins = append(logins, l)
					want[l] = b
					ops = append(ops, "create "+l+" "+bmHex(b))
				} else {
					l := logins[r.Intn(len(logins))]
					if r.Chance(30) {
						l = "seed"
					}
					a := am.Get(l)
					a.Access = b
					if err := am.Update(*a, l); err != nil {
						c.Note("err", err.Error())
						c.Violation("update-failed", "updating an account failed")
						return
					}
					want[l] = b
					ops = append(ops, "update "+l+" "+bmHex(b))
				}
			}
			c.Note("operations", ops)
			am2, err := loadAccountsDir(dir)
			if err != nil {
				c.Note("err", err.Error())
				c.Violation("account-reload-failed", "the account directory cannot be loaded after a sequence of creates / updates")
				return
			}
			for l, b := range want {
				a := am2.Get(l)
				if a == nil {
					c.Note("login", l)
					c.Violation("account-lost-after-reload", "an account saved through the account manager is missing after a restart")
					continue
				}
				if a.Access != b {
					c.Note("login", l)
					c.Note("saved", bmHex(b))
					c.Note("loaded", bmHex(a.Access))
					c.Violation("account-changed-after-reload", "an account loads with other privileges than it was saved with")
				}
			}
			if len(am2.List()) != len(want) {
				c.Note("loaded_accounts", len(am2.List()))
				c.Note("saved_accounts", len(want))
				c.Violation("account-count-after-reload", "the number of accounts after a restart differs from the number saved")
			}
			c.Dist(fmt.Sprintf("write-sequence/steps-%d", steps))
			c.Nontrivial(strings.Join(ops, ";"))
		}})
		x.Add(&Family{Name: "edit-through-wire", Quick: 240, Thor: 4000, Run: c16EditThroughWire})
		x.Add(&Family{Name: "failed-save", Quick: 150, Thor: 2000, Run: c16FailedSave})
		x.Add(&Family{Name: "wire-field", Quick: 90, Thor: 400, Run: func(c *Case) {
			var b hotline.AccessBitmap
			if idx := tableIndex(c, 400); idx < 64 {
				b = bmOf(idx)
			} else {
				b = randBitmap(c.R)
			}
			checkWire(c, b)
			c.Dist("wire")
		}})
		if only := os.Getenv("VERIF_FAMILY"); only != "" { // development aid: run one family
			var keep []*Family
			for _, f := range x.families {
				if f.Name == only {
					keep = append(keep, f)
				}
			}
			x.families = keep
		}
	}
}
